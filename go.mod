module verif

go 1.23.8

require (
	github.com/99designs/gqlgen v0.0.0
	github.com/anishathalye/porcupine v1.3.0
	github.com/google/uuid v1.6.0
	github.com/gorilla/websocket v1.5.0
	github.com/vektah/gqlparser/v2 v2.5.25
	golang.org/x/sync v0.13.0
)

require (
	github.com/agnivade/levenshtein v1.2.1 // indirect
	github.com/go-viper/mapstructure/v2 v2.2.1 // indirect
	github.com/hashicorp/golang-lru/v2 v2.0.7 // indirect
	github.com/sosodev/duration v1.3.1 // indirect
	golang.org/x/mod v0.24.0 // indirect
	golang.org/x/text v0.24.0 // indirect
	golang.org/x/tools v0.32.0 // indirect
	google.golang.org/protobuf v1.36.6 // indirect
	gopkg.in/yaml.v3 v3.0.1 // indirect
)

replace github.com/99designs/gqlgen => /repo
