// racelog: post-processes the Go race detector's log files of one check run.
// Reports are deduplicated by (outermost entry-point pair, stack pair with line numbers
// stripped) and attributed by frames: a report with a frame in github.com/99designs/gqlgen, a
// generated farm package or gqlparser is a finding for the property whose workload produced it;
// a report with only verif/ harness frames is a harness bug (exit 2).
//
// usage: racelog <property> <logprefix> <check-exit-code>
// Patches coverage.race into evidence/<property>.json, prints VIOLATION lines, and exits with the
// final verdict code.
package main

import (
	"crypto/sha256"
	"encoding/hex"
	"encoding/json"
	"fmt"
	"os"
	"path/filepath"
	"regexp"
	"sort"
	"strconv"
	"strings"
)

var frameRe = regexp.MustCompile(`^  (\S.*)\(.*\)\s*$`)
var lineRe = regexp.MustCompile(`:\d+( \+0x[0-9a-f]+)?$`)

var _ = frameRe

type report struct {
	text   string
	stacks [][]string // function names per stack
}

func parse(text string) []report {
	var out []report
	blocks := strings.Split(text, "==================")
	for _, b := range blocks {
		if !strings.Contains(b, "WARNING: DATA RACE") {
			continue
		}
		r := report{text: strings.TrimSpace(b)}
		var cur []string
		flush := func() {
			if len(cur) > 0 {
				r.stacks = append(r.stacks, cur)
				cur = nil
			}
		}
		for _, line := range strings.Split(b, "\n") {
			if strings.TrimSpace(line) == "" || strings.HasSuffix(strings.TrimSpace(line), ":") && !strings.HasPrefix(line, "  ") {
				flush()
				continue
			}
			if strings.HasPrefix(line, "  ") && !strings.HasPrefix(line, "   ") {
				fn := strings.TrimSpace(line)
				if i := strings.LastIndex(fn, "("); i > 0 {
					fn = fn[:i]
				}
				if fn != "" && !strings.Contains(fn, " ") {
					cur = append(cur, fn)
				}
			}
		}
		flush()
		out = append(out, r)
	}
	return out
}

func isTarget(fn string) bool {
	return strings.Contains(fn, "github.com/99designs/gqlgen") || strings.Contains(fn, "verif/work/farm/") ||
		strings.Contains(fn, "github.com/vektah/gqlparser")
}

func main() {
	if len(os.Args) < 4 {
		fmt.Println("usage: racelog <property> <logprefix> <exit>")
		os.Exit(2)
	}
	prop, prefix := os.Args[1], os.Args[2]
	code, _ := strconv.Atoi(os.Args[3])
	files, _ := filepath.Glob(prefix + "*")
	var all []report
	for _, f := range files {
		b, err := os.ReadFile(f)
		if err == nil {
			all = append(all, parse(string(b))...)
		}
	}
	type group struct {
		Key      string   `json:"key"`
		Count    int      `json:"count"`
		Entry    []string `json:"entry_points"`
		Target   bool     `json:"in_gqlgen_or_generated"`
		Example  string   `json:"-"`
		TopFuncs []string `json:"top_frames"`
	}
	groups := map[string]*group{}
	for _, r := range all {
		var sig []string
		var entries, tops []string
		target := false
		for i, st := range r.stacks {
			if i >= 2 {
				break // the two accesses; goroutine-creation stacks are not part of the identity
			}
			var fns []string
			for _, fn := range st {
				fns = append(fns, lineRe.ReplaceAllString(fn, ""))
				if isTarget(fn) {
					target = true
				}
			}
			sig = append(sig, strings.Join(fns, ">"))
			if len(fns) > 0 {
				entries = append(entries, fns[len(fns)-1])
				// identity for known-finding signatures: the first frame inside gqlgen / generated
				// code (top frames such as bufio.(*Writer).Write are shared by unrelated races)
				top := fns[0]
				for _, fn := range fns {
					if isTarget(fn) {
						top = fn
						break
					}
				}
				tops = append(tops, top)
			}
		}
		sort.Strings(sig)
		h := sha256.Sum256([]byte(strings.Join(sig, "|")))
		k := hex.EncodeToString(h[:8])
		g := groups[k]
		if g == nil {
			g = &group{Key: k, Entry: entries, Target: target, Example: r.text, TopFuncs: tops}
			groups[k] = g
		}
		g.Count++
	}
	var gl []*group
	nTarget, nHarness := 0, 0
	for _, g := range groups {
		gl = append(gl, g)
		if g.Target {
			nTarget++
		} else {
			nHarness++
		}
	}
	sort.Slice(gl, func(i, j int) bool { return gl[i].Key < gl[j].Key })

	evPath := filepath.Join(root(), "evidence", prop+".json")
	if b, err := os.ReadFile(evPath); err == nil {
		var e map[string]any
		if json.Unmarshal(b, &e) == nil {
			cov, _ := e["coverage"].(map[string]any)
			if cov == nil {
				cov = map[string]any{}
				e["coverage"] = cov
			}
			cov["race_detector"] = map[string]any{"enabled": true, "raw_reports": len(all), "distinct_reports": len(gl),
				"attributed_to_gqlgen_or_generated": nTarget, "harness_only": nHarness, "groups": gl}
			if nTarget > 0 {
				if v, ok := e["violations"].(float64); ok {
					e["violations"] = int(v) + nTarget
				} else {
					e["violations"] = nTarget
				}
			}
			nb, _ := json.MarshalIndent(e, "", " ")
			os.WriteFile(evPath, nb, 0o644)
		}
	}
	known := loadKnownRaceSigs(prop)
	for _, g := range gl {
		if !g.Target {
			continue
		}
		sig := raceSig(g.TopFuncs)
		if txt, ok := known[sig]; ok {
			fmt.Printf("KNOWN-FINDING: property=%s sig=%s %s\n", prop, sig, txt)
			nTarget--
			continue
		}
		os.MkdirAll(filepath.Join(root(), "replays"), 0o755)
		p := filepath.Join(root(), "replays", fmt.Sprintf("%s-race-%s.txt", prop, g.Key))
		os.WriteFile(p, []byte(g.Example+"\n"), 0o644)
		fmt.Printf("VIOLATION property=%s replay=%s\n  data race (%d reports): %s\n", prop, p, g.Count, strings.Join(g.TopFuncs, " <-> "))
	}
	if nTarget > 0 {
		os.Exit(1)
	}
	if nHarness > 0 {
		for _, g := range gl {
			if !g.Target {
				fmt.Printf("INCONCLUSIVE property=%s data race inside the harness itself: %s\n%s\n", prop, strings.Join(g.TopFuncs, " <-> "), g.Example)
			}
		}
		if code == 0 {
			os.Exit(2)
		}
	}
	os.Exit(code)
}

func root() string {
	if v := os.Getenv("VERIF_ROOT"); v != "" {
		return v
	}
	return "/verif"
}

func raceSig(tops []string) string {
	s := append([]string(nil), tops...)
	for i := range s {
		if j := strings.LastIndex(s[i], "/"); j >= 0 {
			s[i] = s[i][j+1:]
		}
	}
	sort.Strings(s)
	return "race:" + strings.Join(s, "+")
}

func loadKnownRaceSigs(prop string) map[string]string {
	out := map[string]string{}
	b, err := os.ReadFile(filepath.Join(root(), "known_findings.txt"))
	if err != nil {
		return out
	}
	for _, line := range strings.Split(string(b), "\n") {
		line = strings.TrimSpace(line)
		if !strings.HasPrefix(line, "finding:") || !strings.Contains(line, "property="+prop+" ") {
			continue
		}
		for _, w := range strings.Fields(line) {
			if strings.HasPrefix(w, "sig=race:") {
				out[strings.TrimPrefix(w, "sig=")] = line
			}
		}
	}
	return out
}
