package main

import (
	"fmt"
	"math/rand"
	"strings"
)

// randSchema produces a seeded random schema in the shape the universal resolver needs: every
// object type carries `vid: String!`; fields of composite type are resolver-backed (forceResolver)
// so object graphs may be cyclic; scalar fields are a mix of struct-backed and resolver-backed.
// The grammar covers interfaces (incl. interface-implements-interface), unions, enums, input
// objects with defaults, list / non-null nesting, arguments with defaults, @guard on fields and
// types, an executable FIELD directive and operation directives.
func randSchema(seed int64) string {
	r := rand.New(rand.NewSource(seed))
	var b strings.Builder
	b.WriteString(`directive @goField(forceResolver: Boolean, name: String, omittable: Boolean, type: String) on INPUT_FIELD_DEFINITION | FIELD_DEFINITION
directive @guard(tag: String) on FIELD_DEFINITION | OBJECT
directive @chk(tag: String) on ARGUMENT_DEFINITION | INPUT_FIELD_DEFINITION
directive @opd(tag: String) on QUERY | MUTATION | SUBSCRIPTION
`)
	if seed%2 == 0 {
		b.WriteString("directive @fd(tag: String) on FIELD\n")
	}
	nObj := 3 + r.Intn(4)
	nIface := r.Intn(3)
	nEnum := 1 + r.Intn(2)
	nInput := 1 + r.Intn(2)
	objs := make([]string, nObj)
	for i := range objs {
		objs[i] = fmt.Sprintf("T%d", i)
	}
	ifaces := make([]string, nIface)
	for i := range ifaces {
		ifaces[i] = fmt.Sprintf("I%d", i)
	}
	enums := make([]string, nEnum)
	for i := range enums {
		enums[i] = fmt.Sprintf("E%d", i)
		fmt.Fprintf(&b, "enum %s { %sA %sB %sC }\n", enums[i], enums[i], enums[i], enums[i])
	}
	inputs := make([]string, nInput)
	for i := range inputs {
		inputs[i] = fmt.Sprintf("In%d", i)
	}
	scalars := []string{"String", "Int", "Float", "Boolean", "ID"}
	scalarOrEnum := func() string {
		if r.Intn(4) == 0 {
			return enums[r.Intn(len(enums))]
		}
		return scalars[r.Intn(len(scalars))]
	}
	wrapScalar := func(t string) string {
		switch r.Intn(6) {
		case 0:
			return t + "!"
		case 1:
			return "[" + t + "!]"
		case 2:
			return "[" + t + "]!"
		default:
			return t
		}
	}
	wrapObj := func(t string) string {
		switch r.Intn(9) {
		case 0:
			return t + "!"
		case 1:
			return "[" + t + "]"
		case 2:
			return "[" + t + "!]"
		case 3:
			return "[" + t + "!]!"
		case 4:
			return "[[" + t + "!]]"
		default:
			return t
		}
	}
	defaultFor := func(t string) string {
		switch t {
		case "String":
			return []string{`"d"`, `""`, `"x y"`}[r.Intn(3)]
		case "Int":
			return fmt.Sprint(r.Intn(20) - 10)
		case "Float":
			return "1.5"
		case "Boolean":
			return "true"
		case "ID":
			return `"i1"`
		}
		if strings.HasPrefix(t, "E") {
			return t + "B"
		}
		return ""
	}
	for i, in := range inputs {
		fmt.Fprintf(&b, "input %s {\n", in)
		nf := 2 + r.Intn(3)
		for f := 0; f < nf; f++ {
			t := scalarOrEnum()
			line := fmt.Sprintf("  f%d: ", f)
			switch r.Intn(5) {
			case 0:
				line += t + "! = " + defaultFor(t)
			case 1:
				line += t + " = " + defaultFor(t)
			case 2:
				line += "[" + t + "!]"
			default:
				line += t
			}
			if r.Intn(5) == 0 {
				line += ` @chk(tag: "i")`
			}
			b.WriteString(line + "\n")
		}
		if i > 0 && r.Intn(2) == 0 {
			fmt.Fprintf(&b, "  sub: %s\n", inputs[i-1])
		}
		if r.Intn(3) == 0 {
			fmt.Fprintf(&b, "  self: %s\n", in)
		}
		b.WriteString("}\n")
	}
	// interfaces: shared scalar fields; I(k) may implement I(k-1)
	ifaceFields := map[string][]string{}
	ifaceParents := map[string][]string{}
	for i, in := range ifaces {
		fields := []string{"vid: String!"}
		var parents []string
		if i > 0 && r.Intn(2) == 0 {
			parents = append(parents, ifaces[i-1])
			parents = append(parents, ifaceParents[ifaces[i-1]]...)
			fields = append([]string{}, ifaceFields[ifaces[i-1]]...)
		}
		nf := 1 + r.Intn(2)
		for f := 0; f < nf; f++ {
			fields = append(fields, fmt.Sprintf("%sf%d: %s", strings.ToLower(in), f, wrapScalar(scalars[r.Intn(len(scalars))])))
		}
		ifaceFields[in], ifaceParents[in] = fields, parents
		impl := ""
		if len(parents) > 0 {
			impl = " implements " + strings.Join(parents, " & ")
		}
		fmt.Fprintf(&b, "interface %s%s {\n  %s\n}\n", in, impl, strings.Join(fields, "\n  "))
	}
	composite := append(append([]string{}, objs...), ifaces...)
	var unionMembers []string
	if r.Intn(3) > 0 {
		for _, o := range objs {
			if r.Intn(2) == 0 {
				unionMembers = append(unionMembers, o)
			}
		}
		if len(unionMembers) > 0 {
			fmt.Fprintf(&b, "union U0 = %s\n", strings.Join(unionMembers, " | "))
			composite = append(composite, "U0")
		}
	}
	args := func() string {
		if r.Intn(3) > 0 {
			return ""
		}
		var as []string
		n := 1 + r.Intn(2)
		for a := 0; a < n; a++ {
			switch r.Intn(4) {
			case 0:
				as = append(as, fmt.Sprintf("a%d: %s", a, inputs[r.Intn(len(inputs))]))
			case 1:
				t := scalarOrEnum()
				as = append(as, fmt.Sprintf("a%d: %s = %s", a, t, defaultFor(t)))
			case 2:
				t := scalarOrEnum()
				as = append(as, fmt.Sprintf("a%d: [%s!]", a, t))
			default:
				as = append(as, fmt.Sprintf("a%d: %s", a, scalarOrEnum()))
			}
		}
		return "(" + strings.Join(as, ", ") + ")"
	}
	guard := func(tag string) string {
		if r.Intn(5) == 0 {
			return fmt.Sprintf(` @guard(tag: "%s")`, tag)
		}
		return ""
	}
	for i, o := range objs {
		var impls []string
		seen := map[string]bool{}
		var fields []string
		fields = append(fields, "vid: String!")
		for _, in := range ifaces {
			if r.Intn(2) == 0 && !seen[in] {
				for _, p := range append([]string{in}, ifaceParents[in]...) {
					if !seen[p] {
						seen[p] = true
						impls = append(impls, p)
					}
				}
			}
		}
		have := map[string]bool{"vid: String!": true}
		for _, in := range impls {
			for _, f := range ifaceFields[in] {
				if !have[f] {
					have[f] = true
					fields = append(fields, f)
				}
			}
		}
		ns := 2 + r.Intn(3)
		for f := 0; f < ns; f++ {
			line := fmt.Sprintf("s%d: %s", f, wrapScalar(scalarOrEnum()))
			if r.Intn(3) == 0 {
				line = fmt.Sprintf("rs%d%s: %s @goField(forceResolver: true)", f, args(), wrapScalar(scalarOrEnum()))
			}
			fields = append(fields, line+guard(fmt.Sprintf("%s%d", strings.ToLower(o), f)))
		}
		nc := 1 + r.Intn(4)
		for f := 0; f < nc; f++ {
			t := composite[r.Intn(len(composite))]
			fields = append(fields, fmt.Sprintf("c%d%s: %s @goField(forceResolver: true)%s", f, args(), wrapObj(t), guard(fmt.Sprintf("%sc%d", strings.ToLower(o), f))))
		}
		impl := ""
		if len(impls) > 0 {
			impl = " implements " + strings.Join(impls, " & ")
		}
		tg := ""
		if i > 0 && r.Intn(6) == 0 {
			tg = fmt.Sprintf(` @guard(tag: "obj%s")`, o)
		}
		fmt.Fprintf(&b, "type %s%s%s {\n  %s\n}\n", o, impl, tg, strings.Join(fields, "\n  "))
	}
	// roots (every fourth schema renames them: nothing may depend on the default names)
	qName, mName, sName := "Query", "Mutation", "Subscription"
	if seed%4 == 1 {
		qName, mName, sName = "Root", "Commands", "Feed"
		b.WriteString("schema { query: Root mutation: Commands" + map[bool]string{true: " subscription: Feed", false: ""}[seed%3 == 0] + " }\n")
	}
	b.WriteString("type " + qName + " {\n")
	nq := 3 + r.Intn(4)
	for f := 0; f < nq; f++ {
		if r.Intn(5) == 0 {
			fmt.Fprintf(&b, "  q%d%s: %s%s\n", f, args(), wrapScalar(scalarOrEnum()), guard(fmt.Sprintf("q%d", f)))
			continue
		}
		fmt.Fprintf(&b, "  q%d%s: %s%s\n", f, args(), wrapObj(composite[r.Intn(len(composite))]), guard(fmt.Sprintf("q%d", f)))
	}
	b.WriteString("}\ntype " + mName + " {\n")
	for f := 0; f < 2+r.Intn(2); f++ {
		fmt.Fprintf(&b, "  m%d%s: %s\n", f, args(), wrapObj(objs[r.Intn(len(objs))]))
	}
	b.WriteString("}\n")
	if seed%3 == 0 {
		fmt.Fprintf(&b, "type %s {\n  ev: %s\n}\n", sName, objs[0])
	}
	return b.String()
}
