// farm: (re)generates the probe farm from /repo's current working tree.
//
// work/farm/cur/<project>/   one generated package per (probe schema, generator configuration)
// work/farm/cur/registry/    registry.go importing every univ-style project that compiled
// work/farm/cur/report.json  per-project generation / compilation status (read by C17 and others)
// work/farm/cur/STAMP        sha256 over /repo (minus .git) + the farm's own inputs
//
// The stamp makes "rebuild from the current tree" a content-addressed cache that cannot be stale.
package main

import (
	"bytes"
	"crypto/sha256"
	"encoding/hex"
	"encoding/json"
	"flag"
	"fmt"
	"io"
	"io/fs"
	"os"
	"os/exec"
	"path/filepath"
	"sort"
	"strings"
	"sync"
	"syscall"
	"time"
)

var verifRoot = envOr("VERIF_ROOT", "/verif")
var repoRoot = envOr("VERIF_REPO", "/repo")

func envOr(k, d string) string {
	if v := os.Getenv(k); v != "" {
		return v
	}
	return d
}

type Project struct {
	Name    string   `json:"name"`
	Probe   string   `json:"probe"`  // directory under probes/
	Config  string   `json:"config"` // yaml text
	Univ    bool     `json:"univ"`   // registered in registry (universal resolver probe)
	Schema  string   `json:"-"`      // generated schema text (random-schema projects)
	GenExit int      `json:"gen_exit"`
	GenErr  string   `json:"gen_err,omitempty"`
	Compile string   `json:"compile"` // ok | fail | skipped
	CompErr string   `json:"compile_err,omitempty"`
	Files   []string `json:"files,omitempty"`
}

type row struct {
	name                                                      string
	follow, fn                                                bool
	wl                                                        int
	osp, sfap, rarp, omittable, ptrUnmarshal, argDirNull, noC bool
}

// Covering rows over the generator options (every pair of option values of the first 9 columns
// appears in at least one row; checked by TestPairwise-style assertion in main()).
var rows = []row{
	{"c0", false, false, 0, false, true, true, false, false, false, false},
	{"c1", true, true, 2, true, true, true, true, true, true, false},
	{"c2", false, true, 1, false, false, false, false, true, false, false},
	{"c3", true, false, 8, true, false, false, true, false, true, false},
	{"c4", false, false, 2, true, false, true, true, true, false, false},
	{"c5", true, true, 0, false, false, true, false, false, true, false},
	{"c6", false, true, 8, false, true, false, true, false, false, false},
	{"c7", true, false, 1, true, true, false, false, true, true, false},
	{"c8", false, false, 1, true, true, true, true, false, true, false},
	{"c9", true, true, 8, false, true, true, false, true, false, false},
	{"c10", false, true, 0, true, false, false, true, true, true, false},
	{"c11", true, false, 2, false, false, false, false, false, false, false},
	{"c12", true, false, 0, true, true, false, true, true, false, false},
	{"c13", false, true, 2, false, true, false, false, false, true, false},
	{"c14", false, false, 8, false, false, true, false, true, true, false},
	{"c15", true, true, 1, false, false, true, true, false, false, false},
}

func yamlFor(pkg string, r row, extra string) string {
	var b strings.Builder
	b.WriteString("schema:\n  - \"*.graphql\"\n")
	if r.follow {
		fmt.Fprintf(&b, "exec:\n  layout: follow-schema\n  dir: .\n  package: %s\n  worker_limit: %d\n", pkg, r.wl)
	} else {
		fmt.Fprintf(&b, "exec:\n  filename: generated.go\n  package: %s\n  worker_limit: %d\n", pkg, r.wl)
	}
	fmt.Fprintf(&b, "model:\n  filename: models_gen.go\n  package: %s\n", pkg)
	fmt.Fprintf(&b, "use_function_syntax_for_execution_context: %v\n", r.fn)
	fmt.Fprintf(&b, "omit_slice_element_pointers: %v\n", r.osp)
	fmt.Fprintf(&b, "struct_fields_always_pointers: %v\n", r.sfap)
	fmt.Fprintf(&b, "resolvers_always_return_pointers: %v\n", r.rarp)
	fmt.Fprintf(&b, "nullable_input_omittable: %v\n", r.omittable)
	fmt.Fprintf(&b, "return_pointers_in_unmarshalinput: %v\n", r.ptrUnmarshal)
	fmt.Fprintf(&b, "call_argument_directives_with_null: %v\n", r.argDirNull)
	b.WriteString("skip_mod_tidy: true\nskip_validation: true\n")
	b.WriteString(extra)
	return b.String()
}

const coreModels = `models:
  Int32: {model: github.com/99designs/gqlgen/graphql.Int32}
  Int64: {model: github.com/99designs/gqlgen/graphql.Int64}
  Uint: {model: github.com/99designs/gqlgen/graphql.Uint}
  Uint32: {model: github.com/99designs/gqlgen/graphql.Uint32}
  Uint64: {model: github.com/99designs/gqlgen/graphql.Uint64}
  UID: {model: github.com/99designs/gqlgen/graphql.UintID}
  IID: {model: github.com/99designs/gqlgen/graphql.IntID}
  Time: {model: github.com/99designs/gqlgen/graphql.Time}
  Duration: {model: github.com/99designs/gqlgen/graphql.Duration}
  UUID: {model: github.com/99designs/gqlgen/graphql.UUID}
  Map: {model: github.com/99designs/gqlgen/graphql.Map}
  Any: {model: github.com/99designs/gqlgen/graphql.Any}
`

func projects() []*Project {
	var ps []*Project
	for _, r := range rows {
		cfg := yamlFor("core_"+r.name, r, coreModels+"  Boom: {model: verif/work/farm/cur/core_"+r.name+".Boom}\n")
		if r.name == "c2" || r.name == "c3" {
			// one source outside the package directory: gqlgen cannot go:embed it and compiles its
			// text into the generated code instead
			cfg = strings.Replace(cfg, "schema:\n  - \"*.graphql\"\n", "schema:\n  - \"*.graphql\"\n  - \"../_shared/extra.graphql\"\n", 1)
		}
		ps = append(ps, &Project{Name: "core_" + r.name, Probe: "core", Univ: true, Config: cfg})
	}
	// seeded random schemas, each under a different generator configuration
	for k := 1; k <= 8; k++ {
		name := fmt.Sprintf("rnd_%d", k)
		ps = append(ps, &Project{Name: name, Probe: "", Univ: true, Schema: randSchema(int64(k)), Config: yamlFor(name, rows[(k*5+1)%len(rows)], "")})
	}
	// extra probes: directory probes/<name>/ with its own gqlgen.yml.tmpl ("PKG" replaced)
	ents, _ := os.ReadDir(filepath.Join(verifRoot, "probes"))
	for _, e := range ents {
		if !e.IsDir() || e.Name() == "core" {
			continue
		}
		tmpl, err := os.ReadFile(filepath.Join(verifRoot, "probes", e.Name(), "gqlgen.yml.tmpl"))
		if err != nil {
			continue
		}
		univ := bytes.Contains(tmpl, []byte("# univ"))
		ps = append(ps, &Project{Name: e.Name(), Probe: e.Name(), Univ: univ,
			Config: strings.ReplaceAll(string(tmpl), "PKG", e.Name())})
	}
	return ps
}

func hashTree(h io.Writer, root string, skip func(rel string, d fs.DirEntry) bool) error {
	var files []string
	err := filepath.WalkDir(root, func(p string, d fs.DirEntry, err error) error {
		if err != nil {
			return nil
		}
		rel, _ := filepath.Rel(root, p)
		if skip(rel, d) {
			if d.IsDir() {
				return filepath.SkipDir
			}
			return nil
		}
		if d.Type().IsRegular() {
			files = append(files, p)
		}
		return nil
	})
	if err != nil {
		return err
	}
	sort.Strings(files)
	for _, f := range files {
		b, err := os.ReadFile(f)
		if err != nil {
			continue
		}
		fmt.Fprintf(h, "%s\x00%d\x00", f, len(b))
		h.Write(b)
	}
	return nil
}

func stamp() string {
	h := sha256.New()
	hashTree(h, repoRoot, func(rel string, d fs.DirEntry) bool { return rel == ".git" })
	for _, sub := range []string{"probes", "cmd/gendrv", "cmd/farm", "internal/univ", "go.mod"} {
		p := filepath.Join(verifRoot, sub)
		st, err := os.Stat(p)
		if err != nil {
			continue
		}
		if st.IsDir() {
			hashTree(h, p, func(string, fs.DirEntry) bool { return false })
		} else {
			b, _ := os.ReadFile(p)
			h.Write(b)
		}
	}
	return hex.EncodeToString(h.Sum(nil))
}

func goEnv() []string {
	env := os.Environ()
	env = append(env, "GOFLAGS=-mod=mod", "GOPROXY=off")
	return env
}

func run(dir string, timeout time.Duration, name string, args ...string) (int, string) {
	cmd := exec.Command(name, args...)
	cmd.Dir = dir
	cmd.Env = goEnv()
	var out bytes.Buffer
	cmd.Stdout = &out
	cmd.Stderr = &out
	if err := cmd.Start(); err != nil {
		return 127, err.Error()
	}
	done := make(chan error, 1)
	go func() { done <- cmd.Wait() }()
	select {
	case err := <-done:
		if err != nil {
			if ee, ok := err.(*exec.ExitError); ok {
				return ee.ExitCode(), out.String()
			}
			return 126, out.String() + err.Error()
		}
		return 0, out.String()
	case <-time.After(timeout):
		cmd.Process.Kill()
		return 124, out.String() + "\n(timeout)"
	}
}

func main() {
	force := flag.Bool("force", false, "rebuild even if the stamp matches")
	race := flag.Bool("race", true, "compile the farm with -race")
	flag.Parse()

	work := filepath.Join(verifRoot, "work")
	os.MkdirAll(filepath.Join(work, "bin"), 0o755)
	lock, err := os.OpenFile(filepath.Join(work, "farm.lock"), os.O_CREATE|os.O_RDWR, 0o644)
	if err != nil {
		fmt.Fprintln(os.Stderr, "farm: lock:", err)
		os.Exit(2)
	}
	defer lock.Close()
	if err := syscall.Flock(int(lock.Fd()), syscall.LOCK_EX); err != nil {
		fmt.Fprintln(os.Stderr, "farm: flock:", err)
		os.Exit(2)
	}
	defer syscall.Flock(int(lock.Fd()), syscall.LOCK_UN)

	cur := filepath.Join(work, "farm", "cur")
	want := stamp()
	if !*force {
		if b, err := os.ReadFile(filepath.Join(cur, "STAMP")); err == nil && strings.TrimSpace(string(b)) == want {
			fmt.Println("farm: up to date", want[:12])
			return
		}
	}
	t0 := time.Now()
	os.RemoveAll(cur)
	os.MkdirAll(cur, 0o755)

	// 1. generator driver, linked against /repo's current tree
	if code, out := run(verifRoot, 10*time.Minute, "go", "build", "-tags", "verif", "-o", filepath.Join(work, "bin", "gendrv"), "./cmd/gendrv"); code != 0 {
		fmt.Fprintf(os.Stderr, "farm: cannot build generator driver against /repo (exit %d):\n%s\n", code, out)
		os.Exit(2)
	}

	// 2. generate every project (child process each: a generator panic is an observation)
	ps := projects()
	os.MkdirAll(filepath.Join(cur, "_shared"), 0o755)
	if b, err := os.ReadFile(filepath.Join(verifRoot, "probes", "_shared", "extra.graphql")); err == nil {
		os.WriteFile(filepath.Join(cur, "_shared", "extra.graphql"), b, 0o644)
	}
	var wg sync.WaitGroup
	sem := make(chan struct{}, 8)
	for _, p := range ps {
		wg.Add(1)
		go func(p *Project) {
			defer wg.Done()
			sem <- struct{}{}
			defer func() { <-sem }()
			dir := filepath.Join(cur, p.Name)
			os.MkdirAll(dir, 0o755)
			src := filepath.Join(verifRoot, "probes", p.Probe)
			var ents []os.DirEntry
			if p.Probe == "" {
				os.WriteFile(filepath.Join(dir, "schema.graphql"), []byte(p.Schema), 0o644)
			} else {
				ents, _ = os.ReadDir(src)
			}
			for _, e := range ents {
				if e.IsDir() || strings.HasSuffix(e.Name(), ".tmpl") {
					continue
				}
				b, _ := os.ReadFile(filepath.Join(src, e.Name()))
				if strings.HasSuffix(e.Name(), ".go") {
					b = bytes.ReplaceAll(b, []byte("package PKG"), []byte("package "+p.Name))
					b = bytes.ReplaceAll(b, []byte("PKGNAME"), []byte(p.Name))
				}
				os.WriteFile(filepath.Join(dir, e.Name()), b, 0o644)
			}
			os.WriteFile(filepath.Join(dir, "gqlgen.yml"), []byte(p.Config), 0o644)
			p.GenExit, p.GenErr = run(verifRoot, 5*time.Minute, filepath.Join(work, "bin", "gendrv"), "-dir", dir, "-name", p.Name)
			if p.GenExit == 0 {
				p.GenErr = ""
			}
			fs, _ := os.ReadDir(dir)
			for _, f := range fs {
				p.Files = append(p.Files, f.Name())
			}
		}(p)
	}
	wg.Wait()

	// 3. compile everything that generated; attribute errors to packages
	args := []string{"build", "-tags", "verif"}
	if *race {
		args = append(args, "-race")
	}
	var pkgs []string
	for _, p := range ps {
		if p.GenExit == 0 {
			pkgs = append(pkgs, "./work/farm/cur/"+p.Name+"/")
		} else {
			p.Compile = "skipped"
		}
	}
	failed := map[string]string{}
	if len(pkgs) > 0 {
		_, out := run(verifRoot, 20*time.Minute, "go", append(args, pkgs...)...)
		curPkg := ""
		for _, line := range strings.Split(out, "\n") {
			if strings.HasPrefix(line, "# ") {
				curPkg = strings.TrimSpace(strings.TrimPrefix(line, "# "))
				curPkg = strings.Fields(curPkg)[0]
				continue
			}
			if curPkg != "" && strings.TrimSpace(line) != "" {
				failed[filepath.Base(curPkg)] += line + "\n"
			}
			if curPkg == "" && strings.TrimSpace(line) != "" {
				failed["?"] += line + "\n"
			}
		}
	}
	for _, p := range ps {
		if p.GenExit != 0 {
			continue
		}
		if e, bad := failed[p.Name]; bad {
			p.Compile, p.CompErr = "fail", e
		} else if e, bad := failed["?"]; bad {
			p.Compile, p.CompErr = "fail", e
		} else {
			p.Compile = "ok"
		}
	}

	// 4. registry of univ projects that compiled
	os.MkdirAll(filepath.Join(cur, "registry"), 0o755)
	var b strings.Builder
	b.WriteString("// Code generated by verif farm. DO NOT EDIT.\n\npackage registry\n\nimport (\n\t\"verif/internal/univ\"\n")
	var ok []string
	for _, p := range ps {
		if p.Univ && p.Compile == "ok" {
			ok = append(ok, p.Name)
			fmt.Fprintf(&b, "\t%s \"verif/work/farm/cur/%s\"\n", p.Name, p.Name)
		}
	}
	b.WriteString(")\n\n// Probes lists every universal-resolver probe that generated and compiled on this tree.\nvar Probes = map[string]func() *univ.Probe{\n")
	for _, n := range ok {
		fmt.Fprintf(&b, "\t%q: %s.VerifProbe,\n", n, n)
	}
	b.WriteString("}\n")
	os.WriteFile(filepath.Join(cur, "registry", "registry.go"), []byte(b.String()), 0o644)

	rep, _ := json.MarshalIndent(map[string]any{"stamp": want, "projects": ps, "wall_s": time.Since(t0).Seconds()}, "", " ")
	os.WriteFile(filepath.Join(cur, "report.json"), rep, 0o644)
	os.WriteFile(filepath.Join(cur, "STAMP"), []byte(want+"\n"), 0o644)
	nfail := 0
	for _, p := range ps {
		if p.GenExit != 0 || p.Compile != "ok" {
			nfail++
			fmt.Printf("farm: project %s: gen_exit=%d compile=%s\n%s%s\n", p.Name, p.GenExit, p.Compile, p.GenErr, p.CompErr)
		}
	}
	fmt.Printf("farm: rebuilt %d projects (%d unavailable) in %.1fs, stamp %s\n", len(ps), nfail, time.Since(t0).Seconds(), want[:12])
}
