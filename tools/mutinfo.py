#!/usr/bin/env python3
"""Extracts (placement, run command) hints from a seeded mutant's demo files / README."""
import sys,os,re,glob,json
d=sys.argv[1]
demos=[f for f in sorted(os.listdir(d)) if f not in ('README.md','patch.diff','meta.json') and not f.startswith('suite')]
info={'dir':d,'demos':demos,'place':[],'run':[]}
texts=[]
for f in demos:
    p=os.path.join(d,f)
    if os.path.isfile(p): texts.append(open(p,errors='ignore').read()[:3000])
    else:
        for q in glob.glob(p+'/**/*',recursive=True):
            if os.path.isfile(q) and q.endswith(('.go','.sh','.md')): texts.append(open(q,errors='ignore').read()[:2000])
texts.append(open(os.path.join(d,'README.md'),errors='ignore').read())
for t in texts:
    for line in t.splitlines():
        l=line.strip().lstrip('/#* ').strip()
        if re.search(r'(?i)\b(place|placement|copy)\b',l) and ('/' in l): info['place'].append(l[:200])
        if re.match(r'(go test|go run|bash |\./|sh |cd )',l): info['run'].append(l[:200])
info['place']=list(dict.fromkeys(info['place']))[:4]; info['run']=list(dict.fromkeys(info['run']))[:5]
print(json.dumps(info,indent=1))
