#!/usr/bin/env python3
"""Builds a confirm_mut spec from sub-agent deliveries: mkspec.py <round-dir> <first-k> <out.json> c01 c02 ...
Placement and command are read from the header comment of each demonstration file."""
import sys, os, re, json, glob
root, first, out = sys.argv[1], int(sys.argv[2]), sys.argv[3]
spec = []
for c in sys.argv[4:]:
    for k in (1, 2, 3):
        d = f"{root}/{c}/{k}"
        if not os.path.isdir(d):
            continue
        gos = [f for f in glob.glob(d + "/**/*.go", recursive=True)]
        if not gos:
            print("no demo in", d); continue
        demo = sorted(gos)[0]
        head = open(demo).read()[:3000]
        m = re.search(r"Place this (?:file|directory) at[^:]*:\s*(\S+)", head)
        place = m.group(1).strip() if m else ""
        place = re.sub(r"^<[a-z]+>/", "", place)
        cmds = re.findall(r"(go test [^\n;]*)", head)
        run = cmds[0].strip() if cmds else ""
        rel = os.path.relpath(demo, d)
        if os.sep in rel:  # delivered as a directory
            top = rel.split(os.sep)[0]
            placement = [[top, top]]
        else:
            placement = [[rel, place]]
        needs = ""
        rd = os.path.join(d, "README.md")
        if os.path.exists(rd):
            t = open(rd).read()
            mm = re.search(r"^#+ .*?\n+(.*?)\n\n", t, re.S)
            needs = re.sub(r"\s+", " ", (t.splitlines()[0] if t else "")).strip("# ")[:200]
        prop = c.upper()
        spec.append({"id": f"{prop}-{first + k - 1}", "property": prop, "src": d, "place": placement, "run": run, "checks": [prop], "needs": needs})
json.dump(spec, open(out, "w"), indent=1)
for s in spec:
    print(s["id"], s["place"], "|", s["run"])
