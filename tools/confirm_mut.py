#!/usr/bin/env python3
"""Confirms seeded mutants and runs the checks against them.

usage: confirm_mut.py <spec.json> [id ...]
spec.json: [{"id": "C01-1", "property": "C01", "src": "/tmp/mut-c01/out/1",
             "place": [["zz_demo_test.go", "codegen/testserver/followschema/zz_demo_test.go"]],
             "run": "go test -vet=off -count=1 -run X ./codegen/testserver/followschema/",
             "checks": ["C01"], "needs": "..."}]
For each mutant, in a fresh git worktree of /repo (outside /repo and /verif):
  1. demo on the clean tree must pass; 2. patch applies, `go build ./...` passes; 3. demo must fail;
  4. the repository's own tests (minus the 3 offline playground tests) must still pass;
  5. the listed checks are run against the patched tree in an isolated copy (tools/trymut.sh).
Results go to /verif/seeded/<id>/ (patch.diff, demo files, README.md of the author, meta.json).
"""
import json, os, shutil, subprocess, sys, time

ENV = dict(os.environ, GOFLAGS="-mod=mod", GOPROXY="off")
SUITE = "go test -vet=off -count=1 ./graphql/... ./codegen/... ./api/... ./complexity/... ./plugin/... ./internal/... ./client/... ./handler/..."

def sh(cmd, cwd, timeout=1800):
    p = subprocess.run(cmd, shell=True, cwd=cwd, env=ENV, capture_output=True, text=True, timeout=timeout)
    return p.returncode, (p.stdout + p.stderr)

def recheck(m):
    """Re-runs only the checks against an already confirmed mutant and refreshes meta.json."""
    mid = m["id"]
    dest = f"/verif/seeded/{mid}"
    meta = json.load(open(os.path.join(dest, "meta.json")))
    if not meta.get("confirmed"):
        print(f"{mid}: not confirmed, skipping")
        return
    shutil.copy(os.path.join(m["src"], "patch.diff"), os.path.join(dest, "patch.diff"))
    hist = meta.setdefault("earlier_verdicts", [])
    hist.append({k: v.get("verdict_line", "") for k, v in meta.get("checks", {}).items()})
    meta["checks"] = {}
    for chk in m.get("checks", [m["property"]]):
        p = subprocess.run(f"/verif/tools/trymut.sh {mid.lower()}-{chk.lower()} {dest}/patch.diff {chk}", shell=True,
                           capture_output=True, text=True, env=ENV, timeout=7200)
        out = p.stdout + p.stderr
        exitline = [l for l in out.splitlines() if l.startswith("== ")]
        meta["checks"][chk] = {"verdict_line": exitline[0] if exitline else "", "output_tail": out[-1500:]}
    json.dump(meta, open(os.path.join(dest, "meta.json"), "w"), indent=1)
    caught = {k: ("exit=1" in v["verdict_line"]) for k, v in meta["checks"].items()}
    print(f"{mid}: recheck caught={caught}", flush=True)


def confirm(m):
    mid = m["id"]
    wt = f"/tmp/cm-{mid.lower()}"
    subprocess.run(f"git -C /repo worktree remove --force {wt}", shell=True, capture_output=True)
    shutil.rmtree(wt, ignore_errors=True)
    subprocess.run(f"git -C /repo worktree add -q --detach {wt} HEAD", shell=True, check=True)
    meta = {"id": mid, "property": m["property"], "needs": m.get("needs", ""), "demo_run": m["run"], "placement": m["place"], "steps": {}}
    try:
        for src, dst in m["place"]:
            s = os.path.join(m["src"], src)
            d = os.path.join(wt, dst)
            os.makedirs(os.path.dirname(d), exist_ok=True)
            if os.path.isdir(s):
                shutil.copytree(s, d, dirs_exist_ok=True)
            else:
                shutil.copy(s, d)
        c, out = sh(m["run"], wt)
        meta["steps"]["demo_clean_exit"] = c
        meta["steps"]["demo_clean_tail"] = out[-600:]
        c, out = sh(f"git apply {m['src']}/patch.diff", wt)
        if c != 0:
            # written against an earlier HEAD (a repair touched the same file since): context drift
            c, out = sh(f"patch -p1 --no-backup-if-mismatch < {m['src']}/patch.diff", wt)
            meta["steps"]["patch_applied_with_fuzz"] = c == 0
        meta["steps"]["patch_applies"] = c == 0
        if c != 0:
            meta["steps"]["patch_error"] = out[-400:]
        c, out = sh("go build ./...", wt)
        meta["steps"]["build_exit"] = c
        c, out = sh(m["run"], wt)
        meta["steps"]["demo_patched_exit"] = c
        meta["steps"]["demo_patched_tail"] = out[-900:]
        # remove the demo, run the repository's tests with the patch
        for src, dst in m["place"]:
            d = os.path.join(wt, dst)
            top = dst.split("/")[0]
            if os.path.isdir(d) and not os.path.isfile(d):
                shutil.rmtree(d, ignore_errors=True)
            elif os.path.exists(d):
                os.remove(d)
        sh("git clean -fdq -e out", wt)
        c, out = sh(SUITE, wt, timeout=3600)
        fails = [l for l in out.splitlines() if l.startswith("--- FAIL") or l.startswith("FAIL")]
        real = [l for l in fails if "Integrity" not in l and "graphql/playground" not in l and l.strip() != "FAIL"]
        # timing-flaky under load
        flaky = [l for l in real if "PingPong" in l or "KeepAlive" in l]
        if flaky and len(flaky) == len([l for l in real if l.startswith("--- FAIL")]):
            c2, out2 = sh("go test -vet=off -count=1 ./graphql/handler/transport/", wt)
            if c2 == 0:
                real = [l for l in real if l not in flaky and "handler/transport" not in l]
        meta["steps"]["suite_failures_beyond_offline_playground"] = real
        confirmed = (meta["steps"]["demo_clean_exit"] == 0 and meta["steps"]["patch_applies"] and meta["steps"]["build_exit"] == 0
                     and meta["steps"]["demo_patched_exit"] != 0 and not real)
        meta["confirmed"] = confirmed
    except Exception as e:
        meta["error"] = repr(e)
        meta["confirmed"] = False
    finally:
        subprocess.run(f"git -C /repo worktree remove --force {wt}", shell=True, capture_output=True)
        shutil.rmtree(wt, ignore_errors=True)
    # run the checks
    meta["checks"] = {}
    if meta.get("confirmed"):
        for chk in m.get("checks", [m["property"]]):
            p = subprocess.run(f"/verif/tools/trymut.sh {mid.lower()}-{chk.lower()} {m['src']}/patch.diff {chk}", shell=True,
                               capture_output=True, text=True, env=ENV, timeout=7200)
            out = p.stdout + p.stderr
            exitline = [l for l in out.splitlines() if l.startswith("== ")]
            meta["checks"][chk] = {"verdict_line": exitline[0] if exitline else "", "output_tail": out[-1500:]}
    dest = f"/verif/seeded/{mid}"
    shutil.rmtree(dest, ignore_errors=True)
    os.makedirs(dest)
    for f in os.listdir(m["src"]):
        if f.startswith("suite"):
            continue
        s = os.path.join(m["src"], f)
        if os.path.isdir(s):
            shutil.copytree(s, os.path.join(dest, f))
        else:
            shutil.copy(s, dest)
    json.dump(meta, open(os.path.join(dest, "meta.json"), "w"), indent=1)
    caught = {k: ("exit=1" in v["verdict_line"]) for k, v in meta["checks"].items()}
    print(f"{mid}: confirmed={meta.get('confirmed')} demo_clean={meta['steps'].get('demo_clean_exit')} demo_patched={meta['steps'].get('demo_patched_exit')} suite_extra_fail={len(meta['steps'].get('suite_failures_beyond_offline_playground', []))} caught={caught}", flush=True)

if __name__ == "__main__":
    args = sys.argv[1:]
    re = "--recheck" in args
    args = [a for a in args if a != "--recheck"]
    spec = json.load(open(args[0]))
    want = set(args[1:])
    for m in spec:
        if want and m["id"] not in want:
            continue
        (recheck if re else confirm)(m)
