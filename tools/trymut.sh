#!/bin/bash
# usage: tools/trymut.sh <name> <patch.diff> <Cxx> [Cyy ...]
# Applies a seeded change to an isolated copy of /repo (+ copy of /verif), runs the given checks
# (quick tier) against it, prints their verdict lines, removes the copy.
n="$1"; patch="$2"; shift 2
eval "$(/verif/tools/scratch.sh "$n" | head -1)"
# a private build cache that disappears with the scratch copy (every copy has its own module path,
# so nothing it compiles is reusable and the shared cache would only grow)
export GOCACHE="/dev/shm/gocache-$n"; mkdir -p "$GOCACHE"
cd "$VERIF_REPO" || exit 2
if ! git apply "$patch" 2>/tmp/trymut-$n.err; then
  if ! patch -p1 < "$patch" >/tmp/trymut-$n.err 2>&1; then echo "PATCH DOES NOT APPLY: $(cat /tmp/trymut-$n.err | head -3)"; rm -rf /tmp/vs-$n /dev/shm/gocache-$n; exit 2; fi
fi
cd "$VERIF_ROOT"
for id in "$@"; do
  out=$(VERIF_SEED=${VERIF_SEED:-1} ./check "$id" --tier "${TIER:-quick}" 2>&1); code=$?
  echo "== $id exit=$code violations=$(echo "$out" | grep -c '^VIOLATION')"
  echo "$out" | grep -E "signature:|data race|^C[0-9]+ tier|INCONCLUSIVE|why" | sort | uniq -c | sort -rn | head -8
  if [ $code -ne 0 ]; then f=$(echo "$out" | grep -m1 '^VIOLATION' | sed 's/.*replay=//'); [ -n "$f" ] && [ -f "$f" ] && python3 -c "
import json,sys
try:
    d=json.load(open('$f')); dd=d.get('detail',{})
    print('   first replay why:', str(dd.get('why') if isinstance(dd,dict) else dd)[:300])
except Exception as e: print('   (replay not json)')
"; fi
done
rm -rf "/tmp/vs-$n" "/dev/shm/gocache-$n"
