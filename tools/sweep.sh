#!/bin/bash
# usage: tools/sweep.sh [--thorough] C01 C02 ...   runs quick at seeds 1..3 (and thorough at seed 1)
cd "${VERIF_ROOT:-/verif}"
th=""; [ "$1" = "--thorough" ] && { th=1; shift; }
for id in "$@"; do
  for s in 1 2 3; do
    out=$(VERIF_SEED=$s ./check $id --tier quick 2>&1); code=$?
    echo "$id quick seed=$s exit=$code $(echo "$out" | grep -c '^VIOLATION') violations; $(echo "$out" | tail -1)"
  done
  if [ -n "$th" ]; then
    out=$(VERIF_SEED=1 ./check $id --tier thorough 2>&1); code=$?
    echo "$id thorough seed=1 exit=$code $(echo "$out" | grep -c '^VIOLATION') violations; $(echo "$out" | tail -1)"
  fi
done
