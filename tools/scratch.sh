#!/bin/bash
# usage: tools/scratch.sh <name>
# Creates an isolated copy of /verif and /repo under /tmp/vs-<name>/ so a check can be run against a
# modified gqlgen without touching /repo or /verif. Prints the environment to use.
# Remove with: rm -rf /tmp/vs-<name>
set -e
n="$1"; [ -z "$n" ] && { echo "usage: $0 <name>"; exit 2; }
d="/tmp/vs-$n"
rm -rf "$d"; mkdir -p "$d"
rsync -a --exclude work --exclude .git /verif/ "$d/verif/" || [ $? -eq 24 ]
# (no .git: its worktree bookkeeping changes while other scratch work runs; a file that vanishes
# during the copy - test output of a suite running in /repo - is not an error)
rsync -a --exclude .git /repo/ "$d/repo/" || [ $? -eq 24 ]
sed -i "s#=> /repo#=> $d/repo#" "$d/verif/go.mod"
echo "export VERIF_ROOT=$d/verif VERIF_REPO=$d/repo GOFLAGS=-mod=mod GOPROXY=off"
echo "# then: cd $d/verif && ./check Cxx ; apply mutations in $d/repo ; finally rm -rf $d"
