#!/usr/bin/env python3
"""Regenerates /verif/seeded/SUMMARY.md from the meta.json of every seeded change."""
import json, glob, os
rows = []
for f in sorted(glob.glob('/verif/seeded/*/meta.json')):
    m = json.load(open(f))
    caught = [k for k, v in m.get('checks', {}).items() if 'exit=1' in v.get('verdict_line', '')]
    missed = [k for k, v in m.get('checks', {}).items() if 'exit=1' not in v.get('verdict_line', '')]
    earlier = m.get('earlier_verdicts', [])
    first_missed = []
    if earlier:
        first_missed = [k for k, v in earlier[0].items() if 'exit=1' not in v]
    note = m.get('note', '')
    rows.append((m['id'], m['property'], m.get('confirmed'), caught, missed, first_missed, m.get('needs', ''), note))
out = ["# Seeded changes (written by fresh sub-agents from the property text only)\n",
       "Each change compiles, passes the repository's own tests, and comes with a demonstration that",
       "fails with the change and passes without it (re-confirmed by `tools/confirm_mut.py`, see each",
       "`meta.json`). `caught by` lists the checks that exit 1 with a VIOLATION on the changed tree",
       "(quick tier, seed 1); `first run missed` lists checks that did not catch it before they were",
       "strengthened (the strengthening is recorded in the git log of /verif and DESIGN.md 8.6).\n",
       "| id | property | confirmed | caught by | not caught by | first run missed | needs | note |",
       "|---|---|---|---|---|---|---|---|"]
for r in rows:
    out.append(f"| {r[0]} | {r[1]} | {r[2]} | {', '.join(r[3]) or '-'} | {', '.join(r[4]) or '-'} | {', '.join(r[5]) or '-'} | {r[6]} | {r[7]} |")
n = len(rows); c = sum(1 for r in rows if r[3])
out.append(f"\n{c} of {n} confirmed changes are caught by at least one check.")
open('/verif/seeded/SUMMARY.md', 'w').write("\n".join(out) + "\n")
print(f"{c}/{n} caught")
