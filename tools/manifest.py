#!/usr/bin/env python3
"""Regenerates /verif/MANIFEST.json from the table below (single source of truth for check metadata)."""
import json, os, subprocess

ROOT = os.environ.get("VERIF_ROOT", "/verif")
props = [json.loads(l) for l in open(os.path.join(ROOT, "properties.jsonl"))]

def hook_commits():
    try:
        out = subprocess.check_output(["git", "-C", "/repo", "log", "--format=%h %s"], text=True)
        return [l.split()[0] for l in out.splitlines() if l.split(" ", 1)[1].startswith("verif hook")]
    except Exception:
        return []

CHECKS = {
 "C01": dict(cat="exploration", tech="runtime differential monitor vs spec-derived reference executor; race detector",
   text="Every core probe (16 generator configurations, generated from /repo's templates at check time) executes seeded random valid operations under seeded value/null/error plans through graphql/executor; data (incl. response-key order), the (path,class) multiset of errors and the resolver invocation set are compared with an independent reference executor written from the GraphQL spec.",
   note="Sampled (quick ~3k, thorough ~32k cases/seed), not exhaustive. Trusts internal/ref and gqlparser's parser/validator for input validity; both sides share only the world function that decides resolver outcomes."),
 "C02": dict(cat="exploration", tech="recorded-argument monitor vs reference coercion; invalid-value injection; numeric boundary grid through generated servers",
   text="Arguments recorded by the universal resolver on all 16 generated configurations equal the reference input coercion for seeded argument-heavy operations (literals, variables incl. input objects/lists, defaults, omitted vs null, single-to-list, Omittable); every (argument position x invalid-value kind x literal|variable) is refused at request or field level with the resolver not called; numeric custom scalars on a boundary grid reach the resolver as the same number or are refused.",
   note="Four listed known findings: gqlparser/gqlgen accept a number for String, a float for ID and a numeric string for Float variables (pinned by the repo's unit tests). Int is 64-bit by gqlgen's documented binding."),
 "C04": dict(cat="fault_enumeration", tech="single-fault enumeration over reference-listed invocation points; child-process isolation; recover-hook counter",
   text="For each operation the fault-free reference run lists every resolver and directive invocation point; each point x {error, panic} (directives: error, null, panic) is forced alone and the response is compared with the reference under the same fault; RecoverFunc calls equal reached panics; the worker child must survive and keep serving.",
   note="Complete per operation for resolver/directive points; custom-scalar (un)marshal faults are covered by C10's transports, not here. Sampled over operations."),
 "C05": dict(cat="fault_enumeration", tech="cancellation-point enumeration; goroutine-dump monitor (stable blocked state, leak at quiescence); real transports with disconnects",
   text="For each operation every resolver invocation point (plus never / before dispatch) is used as the instant at which the request context is cancelled, on worker_limit 0/1/2/8 configurations with list fan-out and @defer; the response function must return (else two identical dumps of parked gqlgen/generated goroutines = violation) and after the request no goroutine with generated or gqlgen/graphql frames may remain; repeated over POST, GET, SSE, multipart/mixed and websocket with client disconnects and server-side cancels.",
   note="'Bounded time' is decided as absence of a stable blocked state, not as a latency bound. A watchdog without stable evidence is inconclusive."),
 "C06": dict(cat="exploration", tech="schedule perturbation under the race detector; logical-clock interval check; completion-order census",
   text="Each (operation, plan with errors) runs under 5 induced schedules (none, yields, delay by hash, reversed, straggler) x GOMAXPROCS {1,4,16} x worker_limit {0,1,2,8} under -race and is compared with the schedule-free reference; mutation root fields are checked for strict serial order on the event log; distinct completion orders actually observed are counted.",
   note="Schedules are induced, not enumerated; evidence reports how many cases showed >=2 completion orders."),
 "C09": dict(cat="exploration", tech="table-driven specification function vs real handler.Server; resolver log; strict JSON",
   text="Product of documents (1-3 operations of mixed kinds, invalid ones) x operationName x 7 request encodings x 9 Accept values x 5 ResponseHeaders settings x 3 transport orders x APQ mode against handler.Server over the tx server generated at check time, judged by an independent specification function (status, Content-Type, which operation may run) plus per-request resolver logs; exhaustive in thorough (395k), a seeded tenth in quick.",
   note="Four listed known findings (q-values ignored, Content-Type parameter compare, 422 on non-negotiating transports configured for graphql-response+json, standard form bodies not decoded). The server's own transport-independent error may be labelled application/json."),
 "C10": dict(cat="exploration", tech="structure-aware + byte-level mutation in child processes; counting RecoverFunc; TMPDIR listing; byte-exact upload echo",
   text="About 3.6k enumerated and 14k (quick) / 500k (thorough) mutated requests on every HTTP transport plus websocket scripts for both subprotocols run in child processes with a private TMPDIR: resolvers never panic, so any RecoverFunc call, leftover gqlgen-* file, over-limit body reaching a resolver, malformed answer or dead worker is a violation; well-formed uploads are echoed byte-exactly through independently seekable readers under 5 size-limit configurations.",
   note="Sampling beyond the enumerated classes. Multi-event subscriptions on multipart/mixed are capped to one event here (covered by C12)."),
 "C13": dict(cat="exploration", tech="incremental-merge client model vs reference plain result; arrival-order and hasNext monitor",
   text="Seeded and templated queries with @defer marks (nested, inside lists, if true/false/variable, shared/distinct/absent labels) run under 4 completion-order schedules on 16 configurations; payloads are applied in arrival order by a client model: every group exactly once per (path,label), path resolvable when it arrives, hasNext discipline, sequence ends, merged data equals the reference's plain result (modulo null propagation stopping at a null-delivered group's object) and the union of errors equals the plain errors.",
   note="Direct response function (graphql/executor); transport framing of incremental delivery is C12."),
 "C20": dict(cat="exploration", tech="echo-stub differential oracle on generated federation servers; seeded delays and faults; child-process isolation; race detector",
   text="Eight federation servers generated at check time (v1/v2 x default/explicit_requires/computed_requires x function syntax): element i of _entities equals the echoing stub resolver's entity for representation i or is null with an error; a fault at one representation never changes another element; @requires values come from the same representation; seeded lists (length 0-40, duplicates, interleaved types, several/compound/nested keys, unknown/missing __typename, missing/null keys), completion orders and single faults at each position.",
   note="Three listed known findings in the multi-resolver batch path (reps[0] decides resolver and key for the whole batch). Errors are not index-attributable (path [_entities])."),
 "C03": dict(cat="exploration", tech="trace automaton over hook/resolver event log; named invalidating mutations; concurrent histories under -race",
   text="Requests rejected at parse / validate / operation selection / variable coercion / by parameter- or context-mutators must show no interceptor, directive or resolver event and no data; accepted requests must show well-nested hook events in registration order with exact per-operation/response/root-field/field counts; histories interleave the same text valid/invalid per cache kind, 1 and 16 clients.",
   note="see DESIGN.md C03"),
 "C07": dict(cat="exploration", tech="fresh-server replay oracle over request histories; pool-reuse census; race detector",
   text="Status, Content-Type and body of request i in a history on a long-lived server equal those of the same request sent alone to a fresh server primed with the earlier APQ registrations; sequential on one locked OS thread and with 16 concurrent clients.",
   note="see DESIGN.md C07"),
 "C08": dict(cat="exploration", tech="exhaustive/boundary/random sweeps of scalar marshalers judged by an independent strict JSON + UTF-8 parser",
   text="Every Marshal*/Unmarshal* scalar of graphql/ over exhaustive one-rune and two-byte strings, boundary integer grids for every width/sign and dynamic input type, float bit patterns, times, durations, UUIDs and nested Map/Any/Array compositions: bytes are valid UTF-8 JSON per sjson, decode to the original (invalid bytes as U+FFFD) and unmarshal back.",
   note="see DESIGN.md C08"),
 "C11": dict(cat="exploration", tech="per-connection protocol automaton over received frames + resolver/context events; quiescence goroutine monitor; race detector",
   text="Scripted gorilla client sessions on both subprotocols against a harness-controlled subscription resolver; enumerated client sequences up to length 4 in thorough.",
   note="see DESIGN.md C11"),
 "C12": dict(cat="exploration", tech="strict SSE / MIME parsers over raw TCP bytes; race detector with keep-alive and flush ticks down to microseconds",
   text="Raw bytes of SSE and multipart/mixed responses under varied payload counts/sizes/timings and keep-alive intervals parse as complete events/parts with each payload exactly once in order and exactly one terminator.",
   note="see DESIGN.md C12"),
 "C14": dict(cat="exploration", tech="independent complexity evaluator; metamorphic pairs; exhaustive safeAdd grid via verif-tagged export; limit gate with resolver log",
   text="complexity.Calculate equals an independent evaluator of the documented definition on seeded operations with reflected custom complexity functions; adding selections never lowers it; safeAdd on the full boundary grid; over-limit operations run no resolver and are rejected, others are not.",
   note="see DESIGN.md C14"),
 "C15": dict(cat="exploration", tech="exhaustive bounded request histories vs 3-line cache model; porcupine linearizability check of concurrent histories",
   text="All request sequences up to length 3 (quick) / 4 (thorough) over an 18-symbol alphabet against an inspectable cache and gqlgen's LRU, random long histories with eviction, and 8-client concurrent histories checked with porcupine.",
   note="see DESIGN.md C15"),
 "C16": dict(cat="exploration", tech="introspection JSON rebuilt into a type graph vs independently loaded ast.Schema over seeded random schemas; disabled-mode query shapes",
   text="Thousands of seeded random schemas served through Config.Schema of one generated package; full introspection result compared element by element with gqlparser's ast.Schema; with introspection disabled no query shape obtains schema data.",
   note="see DESIGN.md C16"),
 "C17": dict(cat="exploration", tech="seeded schema/config grammar through the real generator in child processes; Go type checker as judge",
   text="Seeded random (schema, configuration) projects are generated by /repo's current generator (child process: exit status / panic observed) and every generated package is type-checked with go build.",
   note="see DESIGN.md C17"),
 "C18": dict(cat="exploration", tech="SHA-256 of generated files across separate processes, GOMAXPROCS and start directories; regenerate-in-place idempotence",
   text="Each project is generated N times in separate processes (fresh map seeds), from the project root and nested directories through the real CLI, into clean trees and over previous output; all hashes must agree and a second generation must change nothing.",
   note="see DESIGN.md C18"),
 "C19": dict(cat="exploration", tech="seeded user-edit + schema-evolution + regeneration; go/parser, gofmt-normalised text comparison and go build as judges",
   text="Seeded edits of generated resolver files followed by schema evolutions and 1-3 regenerations; kept resolvers must keep body/doc/named results, user imports and all other user declarations must survive, output must parse and (for add-only changes) compile.",
   note="see DESIGN.md C19"),
}

REGISTERED = open(os.path.join(ROOT, "registered.txt")).read().split()

def built(pid):
    return os.path.isdir(os.path.join(ROOT, "props", pid.lower()))

checks, na = [], []
for p in props:
    pid = p["id"]
    c = CHECKS.get(pid)
    if c and built(pid) and pid in REGISTERED:
        checks.append({
            "property_id": pid,
            "quick_cmd": f"./check {pid} --tier quick",
            "thorough_cmd": f"./check {pid} --tier thorough",
            "evidence_file": f"/verif/evidence/{pid}.json",
            "replay_cmd_template": f"./check {pid} --replay {{path}}",
            "engine": "verif-runtime-monitors",
            "level_claimed": {"category": c["cat"], "text": c["text"], "design_ref": f"DESIGN.md section 3 {pid}"},
            "level_note": c["note"],
            "technique": c["tech"],
        })
    else:
        na.append({"property_id": pid, "reason": "check not registered yet in this session (machinery under construction; see DESIGN.md section 3)"})

m = {
 "version": 1,
 "setup_cmd": "cd /verif && export GOFLAGS=-mod=mod GOPROXY=off && mkdir -p work/bin && go build -o work/bin/farm ./cmd/farm && go build -o work/bin/racelog ./cmd/racelog && ./work/bin/farm",
 "hooks": {"guard": "verif", "enable": "every farm / worker build passes -tags verif (see ./check)",
           "baseline_off_cmd": "cd /repo && GOFLAGS=-mod=mod GOPROXY=off go test -vet=off -count=1 -timeout 25m ./...",
           "source_commits": hook_commits(), "add_only": True},
 "engines": [{"name": "verif-runtime-monitors", "path": "/verif/check",
              "serves_properties": [c["property_id"] for c in checks],
              "kind_free_text": "servers generated at check time from /repo's templates (cmd/farm), reflective universal resolver + reference executor, transport harnesses, goroutine-dump / race-detector / strict-parser monitors"}],
 "checks": checks,
 "not_applicable": na,
 "notes": "DESIGN.md describes the approach; known_findings.txt lists fixed and known defects; AGENT_GUIDE.md documents the framework conventions.",
}
if not na:
    del m["not_applicable"]
json.dump(m, open(os.path.join(ROOT, "MANIFEST.json"), "w"), indent=1)
print("checks:", [c["property_id"] for c in checks], "not_applicable:", [x["property_id"] for x in na])
