// C13: @defer changes delivery, not content: merged payloads equal the plain result.
// Seeded operations with @defer marks on fragments (nested, inside lists, if: true/false/variable,
// shared / distinct / absent labels) run on generated servers under several completion orders;
// an incremental-merge client model applies the payloads in arrival order; the merged result is
// compared with the reference executor's plain result (which ignores @defer).
package main

import (
	"context"
	"fmt"
	"os"
	"sort"
	"strings"
	"sync"
	"time"

	"github.com/99designs/gqlgen/graphql/handler/apollotracing"
	"github.com/vektah/gqlparser/v2/ast"
	"github.com/vektah/gqlparser/v2/parser"
	"github.com/vektah/gqlparser/v2/validator"

	"encoding/json"
	"github.com/99designs/gqlgen/graphql"
	"github.com/99designs/gqlgen/graphql/handler"
	"github.com/99designs/gqlgen/graphql/handler/transport"
	"github.com/gorilla/websocket"
	"net/http"
	"net/http/httptest"
	"sync/atomic"
	"verif/internal/deferm"
	"verif/internal/diffrun"
	"verif/internal/drive"
	"verif/internal/ev"
	"verif/internal/opgen"
	"verif/internal/ref"
	"verif/internal/univ"
	"verif/work/farm/cur/registry"
)

var schedNames = []string{"none", "yields", "delay-by-hash", "reversed-delay", "straggler"}

func main() {
	rep := ev.New("C13", "exploration")
	rep.Rule = "cases = (generated probe/config) x (seeded query with @defer marks on a seeded subset of its fragments) x (plan incl. failures inside and outside deferred groups) x (completion-order schedule); non-trivial = the real execution delivered at least one incremental payload; distinct by (probe, query, plan, schedule)"
	rep.Assumptions = []string{
		"the plain result is the reference executor's result for the same document (the reference ignores @defer)",
		"when a deferred group is delivered with null data (a non-null field in it failed), null propagation stops at the group's object: the merged tree is then only required to agree with the plain result wherever the plain result is non-null, and to be explained by such a group wherever the plain result is null",
		"which of several fragments a merged field is delivered with is not fixed by the property; only the merged content, exactly-once delivery per (path,label), arrival after the owning object, hasNext and termination are checked",
	}
	seed := ev.Seed()
	nOps := ev.Pick(40, 1000)
	var names []string
	for n := range registry.Probes {
		if strings.HasPrefix(n, "core_") || strings.HasPrefix(n, "rnd_") {
			names = append(names, n)
		}
	}
	sort.Strings(names)
	if len(names) == 0 {
		rep.Inconclusive("no core probe generated and compiled on this tree")
		os.Exit(rep.Finish(0, 0))
	}
	var evals int64
	var mu sync.Mutex
	var wg sync.WaitGroup
	sem := make(chan struct{}, 12)
	for _, name := range names {
		wg.Add(1)
		go func(name string) {
			defer wg.Done()
			sem <- struct{}{}
			defer func() { <-sem }()
			env := univ.Bind(registry.Probes[name]())
			srv := drive.NewServer(env).WithPresenter()
			// the same schema behind a server with the Apollo tracing extension (a field interceptor
			// that keeps per-response state): deferred groups run under their own response context
			traced := drive.NewServer(env)
			traced.Exec.Use(apollotracing.Tracer{})
			wsT := newWSTransport(env)
			defer wsT.close()
			omit, _ := env.Probe.Options["nullable_input_omittable"].(bool)
			type kept struct {
				opSeed int64
				op     *opgen.Op
				doc    *ast.QueryDocument
			}
			var again []kept
			defer func() {
				// several deferred operations in flight at once on ONE executable schema: each still
				// receives its own groups, all of them and nothing else
				var cg sync.WaitGroup
				for _, k := range again {
					cg.Add(1)
					go func(k kept) {
						defer cg.Done()
						runOp(rep, env, srv, name, k.opSeed, k.op, k.doc, omit, &mu, &evals)
					}(k)
				}
				cg.Wait()
				rep.Count("operations_rerun_concurrently", int64(len(again)))
			}()
			for i := 0; i < nOps; i++ {
				opSeed := seed*3000017 + int64(i)
				var op *opgen.Op
				var doc *ast.QueryDocument
				if i%2 == 1 {
					op = templated(opSeed)
					d, perr := parser.ParseQuery(&ast.Source{Input: op.Query})
					if perr == nil && len(validator.Validate(env.Schema, d)) == 0 {
						doc = d
					} else {
						rep.Count("template_rejected", 1)
						continue
					}
					rep.Count("templated_ops", 1)
				} else {
					op, doc, _ = genRandom(env, opSeed)
				}
				_ = doc
				if doc == nil {
					rep.Count("opgen_rejected", 1)
					continue
				}
				runOp(rep, env, srv, name, opSeed, op, doc, omit, &mu, &evals)
				if i%4 == 1 {
					runOp(rep, env, traced, name, opSeed, op, doc, omit, &mu, &evals)
					rep.Count("operations_rerun_with_apollo_tracing", 1)
				}
				if len(again) < 8 {
					again = append(again, kept{opSeed, op, doc})
				}
				if i%2 == 1 && i%8 != 7 {
					// the same operation through the websocket transport: it relays every payload of
					// the response function, the client merges them like any other payload sequence
					wsOp(rep, env, wsT, name, opSeed, op, doc, omit, &mu, &evals)
				}
			}
		}(name)
	}
	wg.Wait()
	rep.Set("probes", names)
	os.Exit(rep.Finish(evals, int64(rep.DistinctLen("deferred_cases"))))
}

var templates = []string{
	`{ an { vid D1 { bo { vid D2 { rs a { vid } } } rs ri } } }`,
	`{ as(n: N) { vid D1 { rs rbl { vid D2 { rs d { nn } } } } } }`,
	`{ an { D1 { rsn } D2 { rs bn { vid D3 { rs } } } } }`,
	`{ an { bo { D1 { a { vid D2 { rs bo { vid D3 { rs } } } } } } } }`,
	`{ node(k: N) { vid ... on A D1x { rs rblnn { vid D2 { rs } } } ... on B D3x { rs al { vid D1 { ri } } } } }`,
	`{ an { D1 { rs } D1 { ri } D2 { re rbln { D3 { rs a { vid D1 { rs } } } } } } }`,
	`{ an { cn { vid D1 { d { nn D2 { e { nn } } } dd { vid D3 { nn } } } } } }`,
	`{ a(k: N) { vid us { __typename ... on B D1x { rs d { vid D2 { nn } } } ... on A D2x { rg rgn } } } }`,
}

// templated instantiates one nested-@defer family with seeded labels / if-arguments / list sizes.
func templated(seed int64) *opgen.Op {
	h := func(k string) uint64 { return univ.H("tmpl", fmt.Sprint(seed), k) }
	t := templates[h("t")%uint64(len(templates))]
	vars := map[string]any{}
	decls := map[string]bool{}
	dir := func(slot string, inline bool) string {
		var args []string
		switch h("lab"+slot) % 4 {
		case 0:
			args = append(args, `label: "`+slot+`"`)
		case 1:
			args = append(args, `label: "same"`)
		case 2:
			// the label comes from a variable (given, or left to its default) or is a null literal
			switch h("labvar"+slot) % 3 {
			case 0:
				if !decls[`$lb: String = "dfl"`] {
					decls[`$lb: String = "dfl"`] = true
					if h("lbgiven")%2 == 0 {
						vars["lb"] = "given-" + slot
					}
				}
				args = append(args, "label: $lb")
			case 1:
				args = append(args, "label: null")
			}
		}
		switch h("if"+slot) % 8 {
		case 0:
			args = append(args, "if: true")
		case 1:
			args = append(args, "if: false")
		case 2:
			if !decls["$dv: Boolean!"] {
				decls["$dv: Boolean!"] = true
				vars["dv"] = h("dv")%2 == 0
			}
			args = append(args, "if: $dv")
		case 3:
			// `if` is declared Boolean = true (nullable): a nullable variable may be left out, or be null
			if !decls["$dn: Boolean"] {
				decls["$dn: Boolean"] = true
				if h("dn")%2 == 0 {
					vars["dn"] = nil
				}
			}
			args = append(args, "if: $dn")
		case 4:
			args = append(args, "if: null")
		}
		d := " @defer"
		if len(args) > 0 {
			d += "(" + strings.Join(args, ", ") + ")"
		}
		if inline {
			return d // follows an existing "... on T"
		}
		return "..." + d
	}
	for _, slot := range []string{"D1x", "D2x", "D3x"} {
		t = strings.ReplaceAll(t, slot, dir(slot[:2], true))
	}
	for _, slot := range []string{"D1", "D2", "D3"} {
		t = strings.ReplaceAll(t, slot, dir(slot, false))
	}
	t = strings.ReplaceAll(t, "N", fmt.Sprint(h("n")%5))
	decl := ""
	if len(decls) > 0 {
		var ds []string
		for d := range decls {
			ds = append(ds, d)
		}
		sort.Strings(ds)
		decl = "(" + strings.Join(ds, ", ") + ")"
	}
	q := "query T" + decl + " " + t
	return &opgen.Op{Query: q, OpName: "T", Vars: vars, Kind: "query", Features: map[string]int{"defer": 3, "templated": 1}}
}

func genRandom(env *univ.Env, opSeed int64) (*opgen.Op, *ast.QueryDocument, string) {
	return diffrun.GenValid(env.Schema, opSeed, ast.Query, opgen.Config{MaxDepth: 4, MaxSel: 4, Defer: true, DeferProb: 0.6,
		// deferral only applies to resolver-backed fields of non-root objects: bias towards them
		FieldFilter: func(t, f string) bool {
			if f == "xsc" || f == "xboom" {
				return false
			}
			m, ok := env.Probe.Fields[t+"."+f]
			if !ok || m.Resolver || t == "Query" {
				return true
			}
			return f == "vid" || f == "name" || f == "s" || f == "sn" || f == "cn" || f == "c" || f == "bl"
		}})
}

func runOp(rep *ev.Reporter, env *univ.Env, srv *drive.Server, name string, opSeed int64, op *opgen.Op, doc *ast.QueryDocument, omit bool, mu *sync.Mutex, evalsP *int64) {
	{
		{
			if op.Features["defer"] == 0 {
				rep.Count("ops_without_defer_marks_skipped", 1)
				return
			}
			vars := diffrun.DecodeVars(op.Vars)
			for pi, base := range []univ.SeedPlan{
				{Seed: uint64(opSeed), MaxList: 3, NullPermille: 20},
				{Seed: uint64(opSeed) + 1, MaxList: 3, ErrPermille: 120, NullPermille: 120, DirPermille: 100},
				{Seed: uint64(opSeed) + 2, MaxList: 3, ErrPermille: 40, NullPermille: 40, NonFinitePermille: 300},
			} {
				for _, sm := range []int{0, 2, 3, 4} {
					p := base
					p.SchedMode = sm
					want := ref.Execute(env, &p, doc, op.OpName, diffrun.CopyJSON(vars), ref.Options{Omittable: omit})
					if want.RequestError != "" {
						continue
					}
					run := &univ.Run{Plan: &p}
					got := srv.Run(context.Background(), run, op.Query, op.OpName, diffrun.CopyJSON(vars), 30*time.Second)
					mu.Lock()
					*evalsP++
					mu.Unlock()
					cid := diffrun.Case{Probe: name, OpSeed: opSeed, Kind: "query", Plan: p, Query: op.Query, OpName: op.OpName, Vars: op.Vars,
						Extra: map[string]any{"schedule": schedNames[sm]}}
					if got.TimedOut {
						rep.Inconclusive("payload sequence did not end within the watchdog: " + op.Query)
						continue
					}
					sig, why, info := deferm.Judge(want, got)
					if why == "" {
						// a group carries the label its @defer gives it: the evaluated argument
						for i, pl := range got.Payloads {
							if i > 0 && !allowedLabels(doc, vars)[pl.Label] {
								why = fmt.Sprintf("incremental payload %d carries label %q, which no @defer of the operation evaluates to", i, pl.Label)
							}
						}
					}
					if why != "" {
						rep.Violate(sig, map[string]any{"case": cid, "why": why, "payloads": deferm.Describe(got), "plain": want.Data.Render(), "plain_errors": want.Errors})
					}
					// errors of deferred payloads pass the configured error presenter like all others
					if len(got.Unpresented) > 0 {
						rep.Violate("", map[string]any{"case": cid, "why": fmt.Sprintf("%d error(s) of the payload sequence did not pass the configured error presenter: %v", len(got.Unpresented), got.Unpresented), "payloads": deferm.Describe(got)})
					} else if info.IncErrors > 0 {
						rep.Count("incremental_errors_seen_presented", int64(info.IncErrors))
					}
					if info.Incremental > 0 {
						rep.Distinct("deferred_cases", fmt.Sprintf("%s|%s|%d|%d", name, op.Query, pi, sm))
						rep.Count("incremental_payloads", int64(info.Incremental))
						rep.Count("groups_delivered_null", int64(info.NullGroups))
						rep.Count("groups_nested_in_groups", int64(info.Nested))
						rep.Count("groups_inside_lists", int64(info.InLists))
						rep.Count("groups_with_label", int64(info.Labelled))
						rep.Count("errors_in_incremental_payloads", int64(info.IncErrors))
						rep.Count("runs_schedule_"+schedNames[sm], 1)
						rep.Distinct("arrival_orders", fmt.Sprintf("%s|%s|%d|%s", name, op.Query, pi, info.Order))
						if info.Strict {
							rep.Count("cases_compared_exactly", 1)
						} else {
							rep.Count("cases_compared_modulo_group_null_stop", 1)
						}
						if pi == 1 && sm == 3 {
							rep.Sample(map[string]any{"probe": name, "query": op.Query, "variables": op.Vars, "payloads": deferm.Describe(got)})
						}
					} else {
						rep.Count("runs_without_incremental_payload", 1)
					}
				}
			}
			for k, v := range op.Features {
				if strings.HasPrefix(k, "defer") {
					rep.Count("opfeature_"+k, int64(v))
				}
			}
		}
	}
}

// ---------------------------------------------------------------------------------------------
// the payload sequence as a websocket client sees it

type wsTransport struct {
	ts   *httptest.Server
	runs sync.Map
	n    atomic.Int64
}

func newWSTransport(env *univ.Env) *wsTransport {
	w := &wsTransport{}
	h := handler.New(env.ES)
	h.AddTransport(transport.Websocket{Upgrader: websocket.Upgrader{CheckOrigin: func(*http.Request) bool { return true }}})
	h.SetRecoverFunc(func(ctx context.Context, r any) error { return fmt.Errorf("PANIC:%v", r) })
	w.ts = httptest.NewServer(http.HandlerFunc(func(rw http.ResponseWriter, r *http.Request) {
		if v, ok := w.runs.Load(r.Header.Get("X-Run")); ok {
			r = r.WithContext(univ.WithRun(r.Context(), v.(*univ.Run)))
		}
		h.ServeHTTP(rw, r)
	}))
	return w
}

func (w *wsTransport) close() {
	done := make(chan struct{})
	go func() { w.ts.CloseClientConnections(); w.ts.Close(); close(done) }()
	select {
	case <-done:
	case <-time.After(5 * time.Second):
	}
}

func wsOp(rep *ev.Reporter, env *univ.Env, w *wsTransport, name string, opSeed int64, op *opgen.Op, doc *ast.QueryDocument, omit bool, mu *sync.Mutex, evalsP *int64) {
	vars := diffrun.DecodeVars(op.Vars)
	p := univ.SeedPlan{Seed: uint64(opSeed), MaxList: 3, NullPermille: 20, SchedMode: 2}
	want := ref.Execute(env, &p, doc, op.OpName, diffrun.CopyJSON(vars), ref.Options{Omittable: omit})
	if want.RequestError != "" {
		return
	}
	id := fmt.Sprint("r", w.n.Add(1))
	w.runs.Store(id, &univ.Run{Plan: &p})
	defer w.runs.Delete(id)
	d := websocket.Dialer{Subprotocols: []string{"graphql-transport-ws"}}
	c, _, err := d.Dial("ws"+strings.TrimPrefix(w.ts.URL, "http"), http.Header{"X-Run": []string{id}})
	if err != nil {
		rep.Inconclusive("websocket dial: " + err.Error())
		return
	}
	defer c.Close()
	c.WriteJSON(map[string]any{"type": "connection_init"})
	payload := map[string]any{"query": op.Query, "operationName": op.OpName}
	if len(vars) > 0 {
		payload["variables"] = vars
	}
	c.WriteJSON(map[string]any{"type": "subscribe", "id": "1", "payload": payload})
	c.SetReadDeadline(time.Now().Add(30 * time.Second))
	got := &drive.Real{}
	completed := false
	for i := 0; i < 4000 && !completed; i++ {
		var m struct {
			Type    string          `json:"type"`
			ID      string          `json:"id"`
			Payload json.RawMessage `json:"payload"`
		}
		if err := c.ReadJSON(&m); err != nil {
			got.TimedOut = true
			break
		}
		switch m.Type {
		case "next":
			var resp graphql.Response
			if json.Unmarshal(m.Payload, &resp) != nil {
				rep.Violate("", map[string]any{"why": "websocket next payload is not a GraphQL response", "payload": string(m.Payload), "query": op.Query})
				return
			}
			got.Payloads = append(got.Payloads, drive.PayloadOf(&resp))
		case "complete", "error":
			completed = true
		}
	}
	mu.Lock()
	*evalsP++
	mu.Unlock()
	cid := diffrun.Case{Probe: name, OpSeed: opSeed, Kind: "query", Plan: p, Query: op.Query, OpName: op.OpName, Vars: op.Vars, Extra: map[string]any{"transport": "websocket"}}
	if got.TimedOut {
		rep.Inconclusive("websocket payload sequence did not end within the watchdog: " + op.Query)
		return
	}
	rep.Count("websocket_operations", 1)
	rep.Count("websocket_payloads", int64(len(got.Payloads)))
	sig, why, info := deferm.Judge(want, got)
	if why != "" {
		rep.Violate(sig, map[string]any{"case": cid, "why": "over the websocket transport: " + why, "payloads": deferm.Describe(got), "plain": want.Data.Render()})
	} else if info.Incremental > 0 {
		rep.Count("websocket_operations_with_incremental_payloads", 1)
	}
}

// allowedLabels: the values the label arguments of the document's @defer directives evaluate to
// under the given variables ("" for a group without label or with a null one).
func allowedLabels(doc *ast.QueryDocument, vars map[string]any) map[string]bool {
	out := map[string]bool{"": true}
	defaults := map[string]*ast.Value{}
	for _, o := range doc.Operations {
		for _, v := range o.VariableDefinitions {
			defaults[v.Variable] = v.DefaultValue
		}
	}
	eval := func(v *ast.Value) {
		switch v.Kind {
		case ast.StringValue, ast.BlockValue:
			out[v.Raw] = true
		case ast.Variable:
			if x, ok := vars[v.Raw]; ok {
				if s, ok := x.(string); ok {
					out[s] = true
				}
			} else if d := defaults[v.Raw]; d != nil && (d.Kind == ast.StringValue || d.Kind == ast.BlockValue) {
				out[d.Raw] = true
			}
		}
	}
	var walk func(ss ast.SelectionSet)
	dirs := func(ds ast.DirectiveList) {
		if d := ds.ForName("defer"); d != nil {
			if a := d.Arguments.ForName("label"); a != nil {
				eval(a.Value)
			}
		}
	}
	walk = func(ss ast.SelectionSet) {
		for _, sel := range ss {
			switch x := sel.(type) {
			case *ast.Field:
				walk(x.SelectionSet)
			case *ast.InlineFragment:
				dirs(x.Directives)
				walk(x.SelectionSet)
			case *ast.FragmentSpread:
				dirs(x.Directives)
			}
		}
	}
	for _, o := range doc.Operations {
		walk(o.SelectionSet)
	}
	for _, f := range doc.Fragments {
		walk(f.SelectionSet)
	}
	return out
}
