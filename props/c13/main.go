// C13: @defer changes delivery, not content: merged payloads equal the plain result.
// Seeded operations with @defer marks on fragments (nested, inside lists, if: true/false/variable,
// shared / distinct / absent labels) run on generated servers under several completion orders;
// an incremental-merge client model applies the payloads in arrival order; the merged result is
// compared with the reference executor's plain result (which ignores @defer).
package main

import (
	"context"
	"fmt"
	"os"
	"sort"
	"strings"
	"sync"
	"time"

	"github.com/vektah/gqlparser/v2/ast"
	"github.com/vektah/gqlparser/v2/parser"
	"github.com/vektah/gqlparser/v2/validator"

	"verif/internal/diffrun"
	"verif/internal/drive"
	"verif/internal/ev"
	"verif/internal/opgen"
	"verif/internal/ref"
	"verif/internal/sjson"
	"verif/internal/univ"
	"verif/work/farm/cur/registry"
)

var schedNames = []string{"none", "yields", "delay-by-hash", "reversed-delay", "straggler"}

func main() {
	rep := ev.New("C13", "exploration")
	rep.Rule = "cases = (generated probe/config) x (seeded query with @defer marks on a seeded subset of its fragments) x (plan incl. failures inside and outside deferred groups) x (completion-order schedule); non-trivial = the real execution delivered at least one incremental payload; distinct by (probe, query, plan, schedule)"
	rep.Assumptions = []string{
		"the plain result is the reference executor's result for the same document (the reference ignores @defer)",
		"when a deferred group is delivered with null data (a non-null field in it failed), null propagation stops at the group's object: the merged tree is then only required to agree with the plain result wherever the plain result is non-null, and to be explained by such a group wherever the plain result is null",
		"which of several fragments a merged field is delivered with is not fixed by the property; only the merged content, exactly-once delivery per (path,label), arrival after the owning object, hasNext and termination are checked",
	}
	seed := ev.Seed()
	nOps := ev.Pick(40, 300)
	var names []string
	for n := range registry.Probes {
		if strings.HasPrefix(n, "core_") || strings.HasPrefix(n, "rnd_") {
			names = append(names, n)
		}
	}
	sort.Strings(names)
	if len(names) == 0 {
		rep.Inconclusive("no core probe generated and compiled on this tree")
		os.Exit(rep.Finish(0, 0))
	}
	var evals int64
	var mu sync.Mutex
	var wg sync.WaitGroup
	sem := make(chan struct{}, 12)
	for _, name := range names {
		wg.Add(1)
		go func(name string) {
			defer wg.Done()
			sem <- struct{}{}
			defer func() { <-sem }()
			env := univ.Bind(registry.Probes[name]())
			srv := drive.NewServer(env)
			omit, _ := env.Probe.Options["nullable_input_omittable"].(bool)
			for i := 0; i < nOps; i++ {
				opSeed := seed*3000017 + int64(i)
				var op *opgen.Op
				var doc *ast.QueryDocument
				if i%2 == 1 {
					op = templated(opSeed)
					d, perr := parser.ParseQuery(&ast.Source{Input: op.Query})
					if perr == nil && len(validator.Validate(env.Schema, d)) == 0 {
						doc = d
					} else {
						rep.Count("template_rejected", 1)
						continue
					}
					rep.Count("templated_ops", 1)
				} else {
					op, doc, _ = genRandom(env, opSeed)
				}
				_ = doc
				if doc == nil {
					rep.Count("opgen_rejected", 1)
					continue
				}
				runOp(rep, env, srv, name, opSeed, op, doc, omit, &mu, &evals)
			}
		}(name)
	}
	wg.Wait()
	rep.Set("probes", names)
	os.Exit(rep.Finish(evals, int64(rep.DistinctLen("deferred_cases"))))
}

var templates = []string{
	`{ an { vid D1 { bo { vid D2 { rs a { vid } } } rs ri } } }`,
	`{ as(n: N) { vid D1 { rs rbl { vid D2 { rs d { nn } } } } } }`,
	`{ an { D1 { rsn } D2 { rs bn { vid D3 { rs } } } } }`,
	`{ an { bo { D1 { a { vid D2 { rs bo { vid D3 { rs } } } } } } } }`,
	`{ node(k: N) { vid ... on A D1x { rs rblnn { vid D2 { rs } } } ... on B D3x { rs al { vid D1 { ri } } } } }`,
	`{ an { D1 { rs } D1 { ri } D2 { re rbln { D3 { rs a { vid D1 { rs } } } } } } }`,
	`{ an { cn { vid D1 { d { nn D2 { e { nn } } } dd { vid D3 { nn } } } } } }`,
	`{ a(k: N) { vid us { __typename ... on B D1x { rs d { vid D2 { nn } } } ... on A D2x { rg rgn } } } }`,
}

// templated instantiates one nested-@defer family with seeded labels / if-arguments / list sizes.
func templated(seed int64) *opgen.Op {
	h := func(k string) uint64 { return univ.H("tmpl", fmt.Sprint(seed), k) }
	t := templates[h("t")%uint64(len(templates))]
	vars := map[string]any{}
	decl := ""
	dir := func(slot string, inline bool) string {
		var args []string
		switch h("lab"+slot) % 4 {
		case 0:
			args = append(args, `label: "`+slot+`"`)
		case 1:
			args = append(args, `label: "same"`)
		}
		switch h("if"+slot) % 6 {
		case 0:
			args = append(args, "if: true")
		case 1:
			args = append(args, "if: false")
		case 2:
			if !strings.Contains(decl, "$dv") {
				decl = "($dv: Boolean!)"
				vars["dv"] = h("dv")%2 == 0
			}
			args = append(args, "if: $dv")
		}
		d := " @defer"
		if len(args) > 0 {
			d += "(" + strings.Join(args, ", ") + ")"
		}
		if inline {
			return d // follows an existing "... on T"
		}
		return "..." + d
	}
	for _, slot := range []string{"D1x", "D2x", "D3x"} {
		t = strings.ReplaceAll(t, slot, dir(slot[:2], true))
	}
	for _, slot := range []string{"D1", "D2", "D3"} {
		t = strings.ReplaceAll(t, slot, dir(slot, false))
	}
	t = strings.ReplaceAll(t, "N", fmt.Sprint(h("n")%5))
	q := "query T" + decl + " " + t
	return &opgen.Op{Query: q, OpName: "T", Vars: vars, Kind: "query", Features: map[string]int{"defer": 3, "templated": 1}}
}

func genRandom(env *univ.Env, opSeed int64) (*opgen.Op, *ast.QueryDocument, string) {
	return diffrun.GenValid(env.Schema, opSeed, ast.Query, opgen.Config{MaxDepth: 4, MaxSel: 4, Defer: true, DeferProb: 0.6,
		// deferral only applies to resolver-backed fields of non-root objects: bias towards them
		FieldFilter: func(t, f string) bool {
			if f == "xsc" {
				return false
			}
			m, ok := env.Probe.Fields[t+"."+f]
			if !ok || m.Resolver || t == "Query" {
				return true
			}
			return f == "vid" || f == "name" || f == "s" || f == "sn" || f == "cn" || f == "c" || f == "bl"
		}})
}

func runOp(rep *ev.Reporter, env *univ.Env, srv *drive.Server, name string, opSeed int64, op *opgen.Op, doc *ast.QueryDocument, omit bool, mu *sync.Mutex, evalsP *int64) {
	{
		{
			if op.Features["defer"] == 0 {
				rep.Count("ops_without_defer_marks_skipped", 1)
				return
			}
			vars := diffrun.DecodeVars(op.Vars)
			for pi, base := range []univ.SeedPlan{
				{Seed: uint64(opSeed), MaxList: 3, NullPermille: 20},
				{Seed: uint64(opSeed) + 1, MaxList: 3, ErrPermille: 120, NullPermille: 120, DirPermille: 100},
			} {
				for _, sm := range []int{0, 2, 3, 4} {
					p := base
					p.SchedMode = sm
					want := ref.Execute(env, &p, doc, op.OpName, diffrun.CopyJSON(vars), ref.Options{Omittable: omit})
					if want.RequestError != "" {
						continue
					}
					run := &univ.Run{Plan: &p}
					got := srv.Run(context.Background(), run, op.Query, op.OpName, diffrun.CopyJSON(vars), 30*time.Second)
					mu.Lock()
					*evalsP++
					mu.Unlock()
					cid := diffrun.Case{Probe: name, OpSeed: opSeed, Kind: "query", Plan: p, Query: op.Query, OpName: op.OpName, Vars: op.Vars,
						Extra: map[string]any{"schedule": schedNames[sm]}}
					if got.TimedOut {
						rep.Inconclusive("payload sequence did not end within the watchdog: " + op.Query)
						continue
					}
					sig, why, info := judge(want, got)
					if why != "" {
						rep.Violate(sig, map[string]any{"case": cid, "why": why, "payloads": describe(got), "plain": want.Data.Render(), "plain_errors": want.Errors})
					}
					if info.incremental > 0 {
						rep.Distinct("deferred_cases", fmt.Sprintf("%s|%s|%d|%d", name, op.Query, pi, sm))
						rep.Count("incremental_payloads", int64(info.incremental))
						rep.Count("groups_delivered_null", int64(info.nullGroups))
						rep.Count("groups_nested_in_groups", int64(info.nested))
						rep.Count("groups_inside_lists", int64(info.inLists))
						rep.Count("groups_with_label", int64(info.labelled))
						rep.Count("errors_in_incremental_payloads", int64(info.incErrors))
						rep.Count("runs_schedule_"+schedNames[sm], 1)
						rep.Distinct("arrival_orders", fmt.Sprintf("%s|%s|%d|%s", name, op.Query, pi, info.order))
						if info.strict {
							rep.Count("cases_compared_exactly", 1)
						} else {
							rep.Count("cases_compared_modulo_group_null_stop", 1)
						}
						if pi == 1 && sm == 3 {
							rep.Sample(map[string]any{"probe": name, "query": op.Query, "variables": op.Vars, "payloads": describe(got)})
						}
					} else {
						rep.Count("runs_without_incremental_payload", 1)
					}
				}
			}
			for k, v := range op.Features {
				if strings.HasPrefix(k, "defer") {
					rep.Count("opfeature_"+k, int64(v))
				}
			}
		}
	}
}

type info struct {
	incremental, nullGroups, nested, inLists, labelled, incErrors, underNulled int
	strict                                                                     bool
	order                                                                      string
}

func describe(got *drive.Real) []map[string]any {
	var out []map[string]any
	for _, p := range got.Payloads {
		m := map[string]any{"data": string(p.Raw), "path": p.Path, "label": p.Label, "errors": p.Errors}
		if p.HasNext != nil {
			m["hasNext"] = *p.HasNext
		}
		out = append(out, m)
	}
	return out
}

func pathKey(p []any) string {
	var sb strings.Builder
	for _, e := range p {
		fmt.Fprintf(&sb, "/%v", e)
	}
	return sb.String()
}

// judge applies the client model. It returns a known-finding signature (or ""), a violation text
// (or ""), and observation counters.
func judge(want *ref.Result, got *drive.Real) (string, string, info) {
	var in info
	nulledSig, nulledWhy := "", ""
	if len(got.Payloads) == 0 {
		return "", "no payload at all", in
	}
	first := got.Payloads[0]
	if !first.ParseOK || first.Data == nil {
		return "", "initial payload has no valid data", in
	}
	merged := first.Data
	allErrs := append([]ref.ErrExp{}, first.Errors...)
	seen := map[string]bool{}
	delivered := map[string]bool{} // paths of groups already delivered (object paths)
	var nullGroupPaths []string
	var unresolved []int
	n := len(got.Payloads)
	var orderSB strings.Builder
	for i, p := range got.Payloads {
		// hasNext discipline
		if n > 1 {
			if p.HasNext == nil {
				return "", fmt.Sprintf("payload %d of %d carries no hasNext", i, n), in
			}
			if i < n-1 && !*p.HasNext {
				return "", fmt.Sprintf("hasNext is false on non-final payload %d of %d", i, n), in
			}
			if i == n-1 && *p.HasNext {
				return "", "hasNext is true on the final payload", in
			}
		} else if p.HasNext != nil && *p.HasNext {
			return "", "single payload with hasNext true", in
		}
		if i == 0 {
			continue
		}
		in.incremental++
		if !p.ParseOK {
			return "", fmt.Sprintf("incremental payload %d is not valid JSON", i), in
		}
		k := pathKey(p.Path) + "|" + p.Label
		orderSB.WriteString(k + ";")
		if seen[k] {
			return "", "deferred group delivered twice: path " + pathKey(p.Path) + " label " + p.Label, in
		}
		seen[k] = true
		if p.Label != "" {
			in.labelled++
		}
		for _, e := range p.Path {
			if _, ok := e.(int); ok {
				in.inLists++
				break
			}
		}
		for d := range delivered {
			if strings.HasPrefix(pathKey(p.Path), d+"/") {
				in.nested++
				break
			}
		}
		in.incErrors += len(p.Errors)
		allErrs = append(allErrs, p.Errors...)
		// the path must resolve to a non-null object in what the client has so far
		target := resolve(merged, p.Path)
		if target == nil || target.Kind != sjson.Object {
			unresolved = append(unresolved, i)
			continue
		}
		delivered[pathKey(p.Path)] = true
		if p.Data == nil || p.Data.Kind == sjson.Null {
			in.nullGroups++
			nullGroupPaths = append(nullGroupPaths, pathKey(p.Path))
			continue
		}
		if p.Data.Kind != sjson.Object {
			return "", fmt.Sprintf("incremental payload %d data is neither an object nor null", i), in
		}
		for _, m := range p.Data.Members {
			setMember(target, m.Key, m.Val)
		}
	}
	in.order = orderSB.String()
	// payloads whose path could not be found when they arrived
	for _, i := range unresolved {
		p := got.Payloads[i]
		if t := resolve(merged, p.Path); t != nil && t.Kind == sjson.Object {
			return "nested-deferred-group-before-parent", fmt.Sprintf("incremental payload %d (path %s, label %q) arrived before the payload that delivers its object", i, pathKey(p.Path), p.Label), in
		}
		// the object never reaches the client: an ancestor was removed by null propagation after
		// the group had been started
		if nullAncestor(merged, p.Path) {
			in.underNulled++
			nulledSig = "deferred-group-delivered-under-nulled-ancestor"
			nulledWhy = fmt.Sprintf("incremental payload %d (path %s, label %q) belongs to an object that null propagation removed from the response: a client can never find its path", i, pathKey(p.Path), p.Label)
			continue
		}
		return "", fmt.Sprintf("incremental payload %d (path %s, label %q): path does not resolve to an object in the merged data", i, pathKey(p.Path), p.Label), in
	}
	// no error that the plain execution would not report; errors the plain execution reports but the
	// deferred execution does not must lie in a part of the response that is null for the client
	if why := errorsSubset(want.Errors, allErrs, merged); why != "" {
		return "", why, in
	}
	if len(nullGroupPaths) == 0 {
		in.strict = true
		if d := sjson.Diff(want.Data, merged, true, "data"); d != "" {
			return "", "merged result differs from the plain result: " + d, in
		}
		return nulledSig, nulledWhy, in
	}
	if d := refines(want.Data, merged, "", nullGroupPaths); d != "" {
		return "", "merged result is not explained by the plain result plus null propagation stopping at a deferred group's object: " + d, in
	}
	return nulledSig, nulledWhy, in
}

// nullAncestor reports whether some proper prefix of path resolves to null in root.
func nullAncestor(root *sjson.Value, path []any) bool {
	if root == nil || root.Kind == sjson.Null {
		return true
	}
	for l := 1; l <= len(path); l++ {
		v := resolve(root, path[:l])
		if v != nil && v.Kind == sjson.Null {
			return true
		}
		if v == nil {
			return false
		}
	}
	return false
}

// errorsSubset: every reported error is one the plain execution reports (multiset); every error the
// plain execution reports that is missing lies under a null of the merged data.
func errorsSubset(plain, got []ref.ErrExp, merged *sjson.Value) string {
	count := map[string]int{}
	for _, e := range plain {
		count[e.String()]++
	}
	for _, e := range got {
		if count[e.String()] == 0 {
			return "an error is reported that the plain execution does not report: " + e.String()
		}
		count[e.String()]--
	}
	for _, e := range plain {
		if count[e.String()] > 0 {
			count[e.String()]--
			if !nullAncestor(merged, parsePath(e.Path)) {
				return "an error of the plain execution is missing although its position is not inside a null part of the merged result: " + e.String()
			}
		}
	}
	return ""
}

// parsePath turns "a.b[0].c" back into path elements.
func parsePath(s string) []any {
	var out []any
	cur := ""
	flush := func() {
		if cur != "" {
			out = append(out, cur)
			cur = ""
		}
	}
	for i := 0; i < len(s); i++ {
		switch s[i] {
		case '.':
			flush()
		case '[':
			flush()
			j := strings.IndexByte(s[i:], ']')
			if j < 0 {
				return out
			}
			n := 0
			fmt.Sscanf(s[i+1:i+j], "%d", &n)
			out = append(out, n)
			i += j
		default:
			cur += string(s[i])
		}
	}
	flush()
	return out
}

func resolve(root *sjson.Value, path []any) *sjson.Value {
	cur := root
	for _, e := range path {
		if cur == nil {
			return nil
		}
		switch v := e.(type) {
		case string:
			cur = cur.Get(v)
		case int:
			if cur.Kind != sjson.Array || v < 0 || v >= len(cur.Arr) {
				return nil
			}
			cur = cur.Arr[v]
		}
	}
	return cur
}

func setMember(obj *sjson.Value, key string, val *sjson.Value) {
	for i := range obj.Members {
		if obj.Members[i].Key == key {
			obj.Members[i].Val = val
			return
		}
	}
	obj.Members = append(obj.Members, sjson.Member{Key: key, Val: val})
}

// refines checks merged m against plain p: wherever p is non-null, m must agree; where p is null,
// m may be null, or non-null provided a null-delivered group lives at or below that position.
func refines(p, m *sjson.Value, at string, nullGroups []string) string {
	if p == nil || m == nil {
		if p == m {
			return ""
		}
		return at + ": member present on one side only"
	}
	if p.Kind == sjson.Null {
		if m.Kind == sjson.Null {
			return ""
		}
		for _, g := range nullGroups {
			if g == at || strings.HasPrefix(g, at+"/") || (at == "" && true) {
				if g == at || strings.HasPrefix(g, at+"/") {
					return ""
				}
			}
		}
		return at + ": plain result is null but the merged result has a value, and no null-delivered group explains it"
	}
	if m.Kind == sjson.Null {
		// a placeholder of a null-delivered group directly at the parent is legitimate
		parent := at
		if i := strings.LastIndex(parent, "/"); i >= 0 {
			parent = parent[:i]
		}
		for _, g := range nullGroups {
			if g == parent {
				return ""
			}
		}
		return at + ": plain result has a value but the merged result is null"
	}
	if p.Kind != m.Kind {
		return at + ": kinds differ"
	}
	switch p.Kind {
	case sjson.Array:
		if len(p.Arr) != len(m.Arr) {
			return at + ": list lengths differ"
		}
		for i := range p.Arr {
			if d := refines(p.Arr[i], m.Arr[i], fmt.Sprintf("%s/%d", at, i), nullGroups); d != "" {
				return d
			}
		}
	case sjson.Object:
		if len(p.Members) != len(m.Members) {
			return at + ": member counts differ"
		}
		for i := range p.Members {
			if p.Members[i].Key != m.Members[i].Key {
				return at + ": member order differs"
			}
			if d := refines(p.Members[i].Val, m.Members[i].Val, at+"/"+p.Members[i].Key, nullGroups); d != "" {
				return d
			}
		}
	default:
		if d := sjson.Diff(p, m, true, at); d != "" {
			return d
		}
	}
	return ""
}
