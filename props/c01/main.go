// C01: generated executors implement GraphQL execution semantics (data and errors).
// Differential monitor: every core probe generated from /repo's current templates (16 generator
// configurations) executes seeded random operations under seeded {value,null,error} plans; the
// response is compared with the spec-derived reference executor (internal/ref).
package main

import (
	"context"
	"encoding/json"
	"fmt"
	"os"
	"sort"
	"strings"
	"sync"
	"time"

	"github.com/vektah/gqlparser/v2/ast"
	"github.com/vektah/gqlparser/v2/parser"
	"github.com/vektah/gqlparser/v2/validator"

	"verif/internal/diffrun"
	"verif/internal/drive"
	"verif/internal/ev"
	"verif/internal/opgen"
	"verif/internal/univ"
	"verif/work/farm/cur/registry"
)

type caseID struct {
	Probe  string         `json:"probe"`
	OpSeed int64          `json:"op_seed"`
	Kind   string         `json:"kind"`
	Plan   univ.SeedPlan  `json:"plan"`
	Query  string         `json:"query"`
	Vars   map[string]any `json:"variables,omitempty"`
}

func plans(seed uint64) []univ.SeedPlan {
	return []univ.SeedPlan{
		{Seed: seed, MaxList: 3},
		{Seed: seed + 1, ErrPermille: 60, NullPermille: 60, DirPermille: 80, MaxList: 3},
		{Seed: seed + 5, ErrPermille: 40, NullPermille: 60, NonFinitePermille: 300, MaxList: 3},
		{Seed: seed + 2, ErrPermille: 200, ListPermille: 80, NullPermille: 250, DirPermille: 300, MaxList: 2},
		{Seed: seed + 3, ErrPermille: 30, NullPermille: 400, MaxList: 4},
		{Seed: seed + 4, ErrPermille: 500, NullPermille: 0, DirPermille: 0, MaxList: 3},
	}
}

func decodeVars(v map[string]any) map[string]any {
	// round-trip through JSON so both sides see what a transport would deliver
	b, _ := json.Marshal(v)
	var out map[string]any
	d := json.NewDecoder(strings.NewReader(string(b)))
	d.UseNumber()
	d.Decode(&out)
	return out
}

func main() {
	rep := ev.New("C01", "exploration")
	rep.Rule = "cases = (generated probe/config) x (seeded type-directed operation, valid per gqlparser) x (seeded plan assigning value/null/error to resolver and directive invocations); a case is non-trivial when the reference executed at least one fragment, type condition, @skip/@include, merged key, list or injected failure; distinct = distinct (operation text, plan) pairs among those"
	rep.Assumptions = []string{
		"reference executor (internal/ref) is written from the GraphQL spec over gqlparser's AST; a shared misconception of that AST would be invisible",
		"resolver/directive outcomes come from one world function used by both sides; only execution semantics are compared",
		"gqlgen conventions treated as parameters: Int is 64-bit; a nil slice for a non-null list serialises as []; directive nesting order on one field is not fixed by the property (either order accepted)",
		"error messages are compared by class (resolver/directive text, non-null violation, panic), paths exactly",
	}
	seed := ev.Seed()
	nOps := ev.Pick(60, 1500)
	nPlans := ev.Pick(4, 6)
	only := os.Getenv("VERIF_PROBE")
	replay := os.Getenv("VERIF_REPLAY")

	names := make([]string, 0)
	for n := range registry.Probes {
		if (strings.HasPrefix(n, "core_") || strings.HasPrefix(n, "rnd_") || strings.HasPrefix(n, "bound")) && (only == "" || only == n) {
			names = append(names, n)
		}
	}
	sort.Strings(names)
	if len(names) == 0 {
		rep.Inconclusive("no core probe generated and compiled on this tree")
		os.Exit(rep.Finish(0, 0))
	}
	if replay != "" {
		os.Exit(doReplay(rep, replay))
	}

	var wg sync.WaitGroup
	sem := make(chan struct{}, 8)
	var evals, nontrivial int64
	var mu sync.Mutex
	for _, name := range names {
		wg.Add(1)
		go func(name string) {
			defer wg.Done()
			sem <- struct{}{}
			defer func() { <-sem }()
			probe := registry.Probes[name]()
			env := univ.Bind(probe)
			srv := drive.NewServer(env)
			for i := 0; i < nOps; i++ {
				opSeed := seed*1000003 + int64(i)
				kind := ast.Query
				if i%7 == 6 {
					kind = ast.Mutation
				}
				op := opgen.Generate(env.Schema, opSeed, kind, opgen.Config{MaxDepth: 4})
				doc, perr := parser.ParseQuery(&ast.Source{Input: op.Query})
				if perr != nil {
					rep.Count("opgen_unparsable", 1)
					continue
				}
				if errs := validator.Validate(env.Schema, doc); len(errs) > 0 {
					rep.Count("opgen_rejected_by_validator", 1)
					continue
				}
				vars := decodeVars(op.Vars)
				for pi, p := range plans(uint64(opSeed))[:nPlans] {
					p := p
					cid := caseID{Probe: name, OpSeed: opSeed, Kind: string(kind), Plan: p, Query: op.Query, Vars: op.Vars}
					nt := runCase(rep, srv, env, doc, op, vars, &p, cid)
					mu.Lock()
					evals++
					if nt {
						nontrivial++
						rep.Distinct("nontrivial_cases", fmt.Sprintf("%s|%s|%d", name, op.Query, pi))
					}
					mu.Unlock()
					rep.Count("cases_"+name, 1)
				}
			}
		}(name)
	}
	wg.Wait()
	rep.Set("probes", names)
	os.Exit(rep.Finish(evals, int64(rep.DistinctLen("nontrivial_cases"))))
}

func runCase(rep *ev.Reporter, srv *drive.Server, env *univ.Env, doc *ast.QueryDocument, op *opgen.Op, vars map[string]any, p *univ.SeedPlan, cid caseID) bool {
	o := diffrun.Compare(context.Background(), env, srv, doc, op.Query, op.OpName, vars, p, nil, 30*time.Second)
	if o.Mismatch == "timeout" {
		rep.Inconclusive("operation did not finish within the watchdog: " + cid.Query)
		return false
	}
	if o.Mismatch != "" {
		rep.Violate("", map[string]any{"case": cid, "why": o.Mismatch + " differ from the reference: " + o.Detail, "detail": o.Describe()})
		return false
	}
	want := o.Want
	if want.RequestError != "" {
		rep.Count("request_refused", 1)
		return false
	}
	if o.DirOrder == "inner-first" {
		rep.Count("matched_with_inner_first_directive_order", 1)
	}
	st := want.Stats
	rep.Count("fields_executed", int64(st.Fields))
	rep.Count("fragments_applied", int64(st.Fragments))
	rep.Count("type_condition_skips", int64(st.TypeCondSkips))
	rep.Count("skip_include_removed", int64(st.SkipInclude))
	rep.Count("merged_keys", int64(st.Merged))
	rep.Count("directive_calls", int64(st.Directives))
	rep.Count("directive_blocks", int64(st.DirBlocked))
	rep.Count("errors_expected", int64(len(want.Errors)))
	for _, e := range want.Errors {
		if e.Class == "nonfinite" {
			rep.Count("errors_expected_nonfinite_float", 1)
		}
	}
	rep.Count("typenames", int64(st.Typenames))
	rep.Count(fmt.Sprintf("list_depth_max_%d", st.ListDepthMax), 1)
	if want.Data != nil && want.Data.Kind == 0 {
		rep.Count("data_null_responses", 1)
	}
	for k, v := range op.Features {
		rep.Count("opfeature_"+k, int64(v))
	}
	rep.Sample(map[string]any{"probe": cid.Probe, "query": cid.Query, "variables": cid.Vars, "plan_seed": p.Seed,
		"errors": len(want.Errors), "fields": st.Fields})
	return diffrun.NonTrivial(want)
}

func doReplay(rep *ev.Reporter, path string) int {
	b, err := os.ReadFile(path)
	if err != nil {
		fmt.Println("replay:", err)
		return 2
	}
	var f struct {
		Detail struct {
			Case caseID `json:"case"`
		} `json:"detail"`
	}
	if err := json.Unmarshal(b, &f); err != nil {
		fmt.Println("replay:", err)
		return 2
	}
	c := f.Detail.Case
	pf, ok := registry.Probes[c.Probe]
	if !ok {
		fmt.Println("replay: probe not available:", c.Probe)
		return 2
	}
	env := univ.Bind(pf())
	srv := drive.NewServer(env)
	doc, perr := parser.ParseQuery(&ast.Source{Input: c.Query})
	if perr != nil {
		fmt.Println("replay: parse:", perr)
		return 2
	}
	op := &opgen.Op{Query: c.Query, Vars: c.Vars}
	if len(doc.Operations) > 0 {
		op.OpName = doc.Operations[0].Name
	}
	p := c.Plan
	runCase(rep, srv, env, doc, op, decodeVars(c.Vars), &p, c)
	return rep.Finish(1, 2)
}
