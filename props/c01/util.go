package main

import (
	"verif/internal/drive"
	"verif/internal/ref"
	"verif/internal/sjson"
)

func sjsonDiff(w *ref.Result, pl *drive.Payload) string {
	return sjson.Diff(w.Data, pl.Data, true, "data")
}

func render(v *sjson.Value) string {
	if v == nil {
		return "<nil>"
	}
	return v.Render()
}
