// C08: everything gqlgen serializes is valid JSON that round-trips the value.
//
// Sweep monitor over the exported Marshal*/Unmarshal* scalar functions of /repo's graphql package
// (String, ID, IntID, UintID, Int, Int32, Int64, Uint, Uint32, Uint64, Float, FloatContext,
// Boolean, Time, Duration, UUID, Map, Any, Omittable) and their compositions (FieldSet, Array,
// nested WriterFuncs, and a server generated at check time from probes/c08x). Oracles:
//
//	1  the bytes are accepted by the strict RFC 8259 + UTF-8 parser internal/sjson (not encoding/json)
//	2  the decoded value (strict parser AND encoding/json with UseNumber) equals the original; for
//	   ill-formed UTF-8 input: the original with each offending byte replaced by U+FFFD, computed
//	   by a hand-written RFC 3629 decoder
//	3  Unmarshal*(decoded value) gives the original back
//	4  function level: no integer Unmarshal* turns a numeric input into a different number
//	5  non-finite floats under FloatContext (the default Float binding) become errors, never tokens
package main

import (
	"encoding/json"
	"fmt"
	"os"
	"sort"
	"strconv"
	"strings"
	"time"

	"verif/internal/ev"
)

var groups = []struct {
	prefix string
	run    func(only string)
}{
	{"string/", runStrings},
	{"int/", runInts},
	{"float/", runFloats},
	{"boolean/", runBool},
	{"time/", runTimes},
	{"duration/", runDurations},
	{"uuid/", runUUIDs},
	{"map/", runMapAny},
	{"any/", runMapAny},
	{"omittable/", runOmittable},
	{"composition/", runCompositions},
	{"server/", runE2E},
}

func main() {
	rep := ev.New("C08", "exploration")
	rep.Rule = "one evaluation = one (function or composition, input value) pushed through marshal -> strict parse -> decode -> unmarshal (or one Unmarshal* call of the function-level sweep). Non-trivial = the input exercises something the property names: a string containing a control character, quote, backslash, DEL or any non-ASCII / ill-formed byte; an integer of >= 7 bits or at a width boundary or outside the target type; a float that is negative zero, fractional, subnormal, < 1e-4 or >= 2^53 in magnitude, or non-finite; any non-zero time / duration / UUID; a non-empty Map / non-null Any / set Omittable; a FieldSet/Array composition of depth >= 1; a generated-server response. distinct_nontrivial = number of distinct (function, input) pairs among those, measured by hashing every non-trivial case (64-bit FNV) and counting unique hashes per sub-space"
	rep.Assumptions = []string{
		"validity verdict = internal/sjson (strict RFC 8259 + UTF-8); encoding/json is used only as the client-side decoder of oracle 2",
		"U+FFFD expectation: hand-written RFC 3629 decoder replacing each byte at which no well-formed sequence starts (cross-checked at start-up against unicode/utf8 on all two-byte sequences, 4 x 65536 longer patterns and every code point; disagreement = inconclusive)",
		"oracle 3 feeds Unmarshal* the value encoding/json produces with UseNumber (json.Number / string / bool / nil / map / slice), which is what gqlgen's own transports decode variables with; Float is additionally fed the float64 of a plain decode",
		"Time: domain = years 1..9999 with whole-minute zone offsets within +-23:59 (RFC 3339); equality = same instant (s, ns) and same offset; the zone NAME is not representable. The zero time.Time and the nil UUID are defined by the marshalers to serialise as null: treated as the specified mapping (must be the JSON null), oracle 3 not applied",
		"Duration: the decoded text must be an ISO 8601 duration denoting exactly d nanoseconds (within 0.5 ns) under the marshaler's documented conventions Y=365d, M=Y/12, W=7d, D=24h",
		"MarshalFloat (non-context binding) is only swept over finite values: the property names non-finite floats only under the default (FloatContext) binding; a nil map is treated like the zero time (serialises as null)",
		"Map/Any values are JSON-like Go values (nil, bool, string, json.Number, float64, ints, []string, []any, map[string]any) with valid-UTF-8 keys; equality is JSON-value equality (numbers by exact value; floats by nearest-float64)",
		"FieldSet aliases are GraphQL names (that is all a validated document can contain)",
		"function-level sweep: an error is always acceptable; text that denotes no decimal number carries no obligation; a float64 input counts only when it is the exact integer (or exact integer + 0.5)",
		"strconv.IntSize == 64 (int/uint are 64-bit on the harness platform)",
	}
	if strconv.IntSize != 64 {
		rep.Inconclusive("harness assumes 64-bit int")
		os.Exit(rep.Finish(0, 0))
	}
	t00 := time.Now()
	if e := utf8SelfTest(); e != "" {
		rep.Inconclusive("harness self-test failed: " + e)
		os.Exit(rep.Finish(0, 0))
	}
	if e := selfTestParsers(); e != "" {
		rep.Inconclusive("harness self-test failed: " + e)
		os.Exit(rep.Finish(0, 0))
	}

	if os.Getenv("VERIF_TIMING") != "" {
		fmt.Fprintf(os.Stderr, "timing self-tests %.1fs\n", time.Since(t00).Seconds())
	}
	only := os.Getenv("VERIF_SPACE")
	if rp := os.Getenv("VERIF_REPLAY"); rp != "" {
		b, err := os.ReadFile(rp)
		if err != nil {
			fmt.Println("replay:", err)
			os.Exit(2)
		}
		var f struct {
			Detail struct {
				Witnesses []map[string]any `json:"minimal_witnesses"`
			} `json:"detail"`
		}
		if err := json.Unmarshal(b, &f); err != nil || len(f.Detail.Witnesses) == 0 {
			fmt.Println("replay: no witness in", rp)
			os.Exit(2)
		}
		// replay = re-run the whole sub-space the first witness came from (a pure function of seed
		// and tier, both recorded in the replay file and re-exported by ./check)
		only, _ = f.Detail.Witnesses[0]["space"].(string)
		only = strings.SplitN(only, "/encoding-json", 2)[0]
		fmt.Println("replaying sub-space", only)
	}

	ran := map[string]bool{}
	for _, g := range groups {
		if only != "" && !strings.HasPrefix(only, g.prefix) {
			continue
		}
		key := fmt.Sprintf("%p", g.run)
		if ran[key] {
			continue
		}
		ran[key] = true
		t0 := time.Now()
		g.run(only)
		if os.Getenv("VERIF_TIMING") != "" {
			fmt.Fprintf(os.Stderr, "timing %-14s %.1fs\n", g.prefix, time.Since(t0).Seconds())
		}
	}

	// evidence
	var evals, distinct int64
	exh := map[string]string{}
	perSpace := map[string]any{}
	sort.Slice(sp.all, func(i, j int) bool { return sp.all[i].name < sp.all[j].name })
	for _, s := range sp.all {
		s.finish()
		evals += s.evals
		distinct += s.distinct
		rep.Count("evaluations:"+s.name, s.evals)
		rep.Count("distinct_nontrivial:"+s.name, s.distinct)
		perSpace[s.name] = map[string]int64{"evaluations": s.evals, "nontrivial": s.nontrivial, "distinct_nontrivial": s.distinct}
		if s.exhaustive != "" {
			exh[s.name] = s.exhaustive
		}
	}
	rep.Set("exhaustive_subspaces", exh)
	rep.Set("subspaces", perSpace)
	ctr.mu.Lock()
	for k, v := range ctr.m {
		rep.Count(k, v)
	}
	ctr.mu.Unlock()
	obs := map[string]any{}
	for _, sig := range observations.sigs() {
		obs[sig] = observations.detail(sig)
	}
	rep.Set("observations_without_verdict", obs)
	rep.Sample(map[string]any{"space": "string/every-two-bytes", "function": "MarshalString", "input_hex": "22ff", "oracles": "strict parse, decode == \"\\\"\\ufffd\", UnmarshalString(decoded)"})
	rep.Sample(map[string]any{"space": "int/function-level-grid", "function": "UnmarshalUint32", "input": "int64(4294967296)", "expectation": "4294967296 or an error"})
	rep.Sample(map[string]any{"space": "float/non-finite", "function": "WrapContextMarshaler(MarshalFloatContext(NaN))", "expectation": "writes null and records one error"})
	rep.Sample(map[string]any{"space": "duration/grid", "function": "MarshalDuration", "input_ns": 3600000000001, "expectation": "ISO 8601 text denoting exactly that many ns; UnmarshalDuration gives it back"})
	rep.Sample(map[string]any{"space": "server/box-roundtrip", "query": clip(boxQuery), "expectation": "body strict-valid, data.box == expected tree, echo(in: decoded box) hands the resolver the original values"})

	summary := map[string]any{}
	for _, sig := range viol.sigs() {
		d := viol.detail(sig)
		summary[sig] = map[string]any{"observations": d["observations"], "members": d["members"]}
		rep.Count("refuting_observations:"+sig, d["observations"].(int64))
		rep.Violate(sig, d)
	}
	rep.Set("refuting_signatures", summary)
	os.Exit(rep.Finish(evals, distinct))
}

// selfTestParsers checks the two hand-written readers on literals with known meaning.
func selfTestParsers() string {
	if s, n, o, ok := parseRFC3339("1970-01-01T00:00:00Z"); !ok || s != 0 || n != 0 || o != 0 {
		return "RFC 3339 reader: epoch"
	}
	if s, n, o, ok := parseRFC3339("2000-03-01T01:30:00.5+01:30"); !ok || s != 951868800 || n != 500000000 || o != 5400 {
		return fmt.Sprintf("RFC 3339 reader: 2000-03-01 (%d %d %d %v)", s, n, o, ok)
	}
	if s, _, _, ok := parseRFC3339("0001-01-01T00:00:00Z"); !ok || s != -62135596800 {
		return "RFC 3339 reader: year 1"
	}
	for _, bad := range []string{"2000-03-01 01:30:00Z", "2000-03-01T01:30:00", "2000-3-01T01:30:00Z", "2000-03-01T01:30:00+0130", "12000-03-01T01:30:00Z"} {
		if _, _, _, ok := parseRFC3339(bad); ok {
			return "RFC 3339 reader accepts " + bad
		}
	}
	for txt, ns := range map[string]int64{"PT0S": 0, "PT1.5S": 1500000000, "-PT1M": -60000000000, "P1DT1H": 90000000000000, "P1Y": 31536000000000000, "P1M": 2628000000000000, "P1W": 604800000000000, "PT0.000000001S": 1} {
		r, ok := parseISODuration(txt)
		if !ok || !r.IsInt() || r.Num().Int64() != ns {
			return "ISO 8601 duration reader: " + txt
		}
	}
	for _, bad := range []string{"", "P", "PT", "1H", "PT1H1H", "PT1S1M", "P1H", "PT-1S", "PT1.S", "PT.5S", "P1DT"} {
		if _, ok := parseISODuration(bad); ok {
			return "ISO 8601 duration reader accepts " + bad
		}
	}
	return ""
}
