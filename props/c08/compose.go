package main

import (
	"bytes"
	"context"
	"encoding/json"
	"fmt"
	"io"
	"math"
	"math/big"
	"reflect"
	"sort"
	"strconv"
	"strings"
	"time"

	"github.com/99designs/gqlgen/graphql"
	"github.com/google/uuid"
	"github.com/vektah/gqlparser/v2/ast"

	"verif/internal/ev"
	"verif/internal/sjson"
)

// ---------------------------------------------------------------------------------------------
// random JSON-like Go values (input of Map / Any / Omittable) with their expectation

var numberTexts = []string{"0", "-0", "1", "-1", "123", "0.5", "-0.5", "1e10", "1E+2", "1e-7", "12345678901234567890123", "-9223372036854775809", "18446744073709551616", "3.141592653589793238462643383279", "1.0", "100e-2"}

func randKey(r *rng) string {
	_, k := refUTF8(randString(r, 3))
	return k
}

func randFiniteFloat(r *rng) float64 {
	for {
		f := math.Float64frombits(r.u64())
		if r.intn(2) == 0 {
			f = float64(int64(r.u64()>>uint(r.intn(64)))) / math.Pow(10, float64(r.intn(8)))
		}
		if !math.IsNaN(f) && !math.IsInf(f, 0) {
			return f
		}
	}
}

// randJSON returns a Go value encoding/json can serialise and the JSON value it denotes.
// invalid reports whether an ill-formed string occurs somewhere inside.
func randJSON(r *rng, depth int) (v any, x *xv, invalid bool) {
	k := r.intn(12)
	if depth <= 0 && k >= 10 {
		k = r.intn(10)
	}
	switch k {
	case 0:
		return nil, xnull(), false
	case 1:
		b := r.intn(2) == 0
		return b, xbool(b), false
	case 2, 3:
		s := randString(r, 6)
		ok, _ := refUTF8(s)
		return s, xstr(s), !ok
	case 4:
		t := numberTexts[r.intn(len(numberTexts))]
		return json.Number(t), xnum(t), false
	case 5:
		f := randFiniteFloat(r)
		return f, xfloat(f), false
	case 6:
		i := int64(r.u64()) >> uint(r.intn(64))
		if r.intn(2) == 0 {
			return int(i), xint(i), false
		}
		return i, xint(i), false
	case 7:
		u := r.u64() >> uint(r.intn(64))
		return u, xuint(u), false
	case 8:
		i := int32(r.u64())
		return i, xint(int64(i)), false
	case 9:
		ss := make([]string, r.intn(3))
		xs := xarr()
		xs.arr = []*xv{}
		for i := range ss {
			ss[i] = randString(r, 3)
			ok, _ := refUTF8(ss[i])
			invalid = invalid || !ok
			xs.arr = append(xs.arr, xstr(ss[i]))
		}
		return ss, xs, invalid
	case 10:
		n := r.intn(4)
		arr := make([]any, 0, n)
		xa := xarr()
		xa.arr = []*xv{}
		for i := 0; i < n; i++ {
			e, ex, inv := randJSON(r, depth-1)
			arr = append(arr, e)
			xa.arr = append(xa.arr, ex)
			invalid = invalid || inv
		}
		return arr, xa, invalid
	default:
		m, xm, inv := randMap(r, depth-1)
		return m, xm, inv
	}
}

func randMap(r *rng, depth int) (map[string]any, *xv, bool) {
	n := r.intn(4)
	m := map[string]any{}
	xs := map[string]*xv{}
	invalid := false
	for i := 0; i < n; i++ {
		e, ex, inv := randJSON(r, depth)
		k := randKey(r)
		m[k] = e
		xs[k] = ex
		_ = inv
	}
	xo := xobj(false)
	ks := make([]string, 0, len(m))
	for k := range m {
		ks = append(ks, k)
	}
	sort.Strings(ks) // deterministic rendering (witness keys, case hashes)
	for _, k := range ks {
		xo.set(k, xs[k])
		if hasInvalid(m[k]) {
			invalid = true
		}
	}
	return m, xo, invalid
}

func hasInvalid(v any) bool {
	switch t := v.(type) {
	case string:
		ok, _ := refUTF8(t)
		return !ok
	case []string:
		for _, s := range t {
			if ok, _ := refUTF8(s); !ok {
				return true
			}
		}
	case []any:
		for _, e := range t {
			if hasInvalid(e) {
				return true
			}
		}
	case map[string]any:
		for _, e := range t {
			if hasInvalid(e) {
				return true
			}
		}
	}
	return false
}

// checkValueBytes applies oracles 1 and 2 to composed output; returns the std-decoded value.
func checkValueBytes(sigp, where, key string, x *xv, out []byte, pan any, input string) (any, bool) {
	wit := func(why string) map[string]any {
		return map[string]any{"space": where, "function": sigp, "input": clip(input), "expected": clip(x.render()), "output_quoted": fmt.Sprintf("%q", clip(string(out))), "why": why}
	}
	if pan != nil {
		viol.hit(sigp+"-marshal-panic", where, key, wit(fmt.Sprint("panic: ", pan)))
		return nil, false
	}
	v, err := sjson.Parse(out)
	if err != nil {
		viol.hit(sigp+"-invalid-json", where, key, wit("strict parser: "+err.Error()))
		return nil, false
	}
	if d := diffX(x, v, true, ""); d != "" {
		viol.hit(sigp+"-decode-mismatch", where, key, wit("strict parser: "+d))
		return nil, false
	}
	dv, err := stdDecode(out)
	if err != nil {
		viol.hit(sigp+"-decode-mismatch", where+"/encoding-json", key, wit("encoding/json: "+err.Error()))
		return nil, false
	}
	if d := diffX(x, fromStd(dv), false, ""); d != "" {
		viol.hit(sigp+"-decode-mismatch", where+"/encoding-json", key, wit("encoding/json: "+d))
		return nil, false
	}
	return dv, true
}

func runMapAny(only string) {
	want := func(n string) bool { return wantSpace(only, n) }
	if want("map/random") {
		s := sp.get("map/random")
		n := ev.Pick(40_000, 500_000)
		parallel(n, 1000, func(ci, lo, hi int) {
			r := newRng(s.name, ci)
			b := s.batch()
			for i := lo; i < hi; i++ {
				var m map[string]any
				var x *xv
				if i%97 == 0 {
					m, x = nil, xnull() // specified mapping: a nil map serialises as null
				} else {
					m, x, _ = randMap(r, 3)
				}
				in := fmt.Sprintf("%#v", m)
				out, pan := marshal(graphql.MarshalMap(m))
				if dv, ok := checkValueBytes("map", s.name, in, x, out, pan, in); ok && m != nil {
					back, err := graphql.UnmarshalMap(dv)
					if err != nil {
						viol.hit("map-unmarshal-mismatch", s.name, in, map[string]any{"space": s.name, "function": "UnmarshalMap", "input": clip(in), "error": err.Error()})
					} else if d := diffX(x, fromStd(map[string]any(back)), false, ""); d != "" {
						viol.hit("map-unmarshal-mismatch", s.name, in, map[string]any{"space": s.name, "function": "UnmarshalMap", "input": clip(in), "why": d})
					}
				}
				b.add(len(m) > 0, hashStr("m", in))
			}
			b.flush()
		})
	}
	if want("any/random") {
		s := sp.get("any/random")
		n := ev.Pick(40_000, 500_000)
		parallel(n, 1000, func(ci, lo, hi int) {
			r := newRng(s.name, ci)
			b := s.batch()
			for i := lo; i < hi; i++ {
				v, x, _ := randJSON(r, 3)
				in := fmt.Sprintf("%#v", v)
				out, pan := marshal(graphql.MarshalAny(v))
				if dv, ok := checkValueBytes("any", s.name, in, x, out, pan, in); ok {
					back, err := graphql.UnmarshalAny(dv)
					if err != nil {
						viol.hit("any-unmarshal-mismatch", s.name, in, map[string]any{"space": s.name, "function": "UnmarshalAny", "input": clip(in), "error": err.Error()})
					} else if d := diffX(x, fromStd(back), false, ""); d != "" {
						viol.hit("any-unmarshal-mismatch", s.name, in, map[string]any{"space": s.name, "function": "UnmarshalAny", "input": clip(in), "why": d})
					}
				}
				b.add(v != nil, hashStr("a", in))
			}
			b.flush()
		})
	}
	if want("any/non-finite") {
		// not representable: must not come out as an invalid token (a panic is recovered per field by
		// generated code and becomes an error, so a panic is acceptable here)
		s := sp.get("any/non-finite")
		b := s.batch()
		for _, f := range []float64{math.NaN(), math.Inf(1), math.Inf(-1)} {
			for name, m := range map[string]graphql.Marshaler{"any": graphql.MarshalAny(f), "any-nested": graphql.MarshalAny([]any{1, f}), "map": graphql.MarshalMap(map[string]any{"x": f})} {
				out, pan := marshal(m)
				if pan == nil {
					if _, err := sjson.Parse(out); err != nil {
						viol.hit(strings.SplitN(name, "-", 2)[0]+"-nonfinite-emitted", s.name, fmt.Sprint(f), map[string]any{"space": s.name, "function": name, "value": fmt.Sprint(f), "output": string(out)})
					}
				} else {
					ctr.add("any_map_nonfinite_panics_instead_of_emitting", 1)
				}
				b.add(true, hashStr(name, fmt.Sprint(f)))
			}
		}
		b.flush()
	}
}

// ---------------------------------------------------------------------------------------------
// Omittable

type gqlStr string // a user scalar with a value-receiver marshaler: Omittable delegates to it

func (g gqlStr) MarshalGQL(w io.Writer) { graphql.MarshalString(string(g)).MarshalGQL(w) }

type ctxFloat float64 // a user scalar implementing ContextMarshaler

func (c ctxFloat) MarshalGQLContext(ctx context.Context, w io.Writer) error {
	return graphql.MarshalFloatContext(float64(c)).MarshalGQLContext(ctx, w)
}

type omitStruct struct {
	A string  `json:"a"`
	B *int    `json:"b"`
	C []int64 `json:"c"`
}

// attribute decides the signature for composed output rejected by the strict parser: when the only
// thing wrong is ill-formed UTF-8 copied from a string leaf that went through MarshalString /
// MarshalID, the finding belongs to that leaf function.
func attribute(sigp string, out []byte, viaString, viaID bool) string {
	if ok, _ := refUTF8(string(out)); !ok {
		if viaString {
			return "string-invalid-utf8-passthrough"
		}
		if viaID {
			return "id-invalid-utf8-passthrough"
		}
	}
	return sigp + "-invalid-json"
}

func checkOmittable[T any](tname string, v T, x, xzero *xv, wantBack T, viaString bool, where string) {
	in := fmt.Sprintf("%s:%#v", tname, v)
	o := graphql.OmittableOf(v)
	sigp := "omittable"
	outs := map[string][]byte{}
	{
		out, pan := marshal(o)
		if pan != nil {
			viol.hit(sigp+"-marshal-panic", tname, in, map[string]any{"space": where, "type": tname, "input": clip(in), "panic": fmt.Sprint(pan)})
			return
		}
		outs["MarshalGQL"] = out
		var buf bytes.Buffer
		o.MarshalGQLContext(respCtx(), &buf)
		outs["MarshalGQLContext"] = buf.Bytes()
		if jb, err := json.Marshal(o); err == nil {
			outs["MarshalJSON"] = jb
		} else {
			viol.hit(sigp+"-marshaljson-error", tname, in, map[string]any{"space": where, "type": tname, "input": clip(in), "error": err.Error()})
		}
		var z graphql.Omittable[T]
		zout, _ := marshal(z)
		if pv, err := sjson.Parse(zout); err != nil || diffX(xzero, pv, true, "") != "" {
			viol.hit(sigp+"-unset-invalid-json", tname, in, map[string]any{"space": where, "type": tname, "output": string(zout), "expected": xzero.render()})
		}
	}
	for how, out := range outs {
		pv, err := sjson.Parse(out)
		wit := func(why string) map[string]any {
			return map[string]any{"space": where, "function": "Omittable[" + tname + "]." + how, "input": clip(in), "output_quoted": fmt.Sprintf("%q", clip(string(out))), "expected": clip(x.render()), "why": why}
		}
		if err != nil {
			viol.hit(attribute(sigp, out, viaString, false), "omittable/"+tname+"/"+how, in, wit("strict parser: "+err.Error()))
			continue
		}
		if d := diffX(x, pv, true, ""); d != "" {
			viol.hit(sigp+"-decode-mismatch", tname+"/"+how, in, wit(d))
			continue
		}
		dv, err := stdDecode(out)
		if err != nil || diffX(x, fromStd(dv), false, "") != "" {
			viol.hit(sigp+"-decode-mismatch", tname+"/"+how+"/encoding-json", in, wit(fmt.Sprintf("encoding/json: %#v %v", dv, err)))
			continue
		}
		if _, isM := any(v).(graphql.Marshaler); isM {
			continue // no symmetrical unmarshal path for value-receiver user scalars
		}
		if _, isM := any(v).(graphql.ContextMarshaler); isM {
			continue
		}
		var o2, o3 graphql.Omittable[T]
		if err := o2.UnmarshalGQL(out); err != nil || !o2.IsSet() || !reflect.DeepEqual(o2.Value(), wantBack) {
			viol.hit(sigp+"-unmarshal-mismatch", tname+"/UnmarshalGQL", in, wit(fmt.Sprintf("UnmarshalGQL gave %#v set=%v err=%v", o2.Value(), o2.IsSet(), err)))
		}
		if err := json.Unmarshal(out, &o3); err != nil || !o3.IsSet() || !reflect.DeepEqual(o3.Value(), wantBack) {
			viol.hit(sigp+"-unmarshal-mismatch", tname+"/UnmarshalJSON", in, wit(fmt.Sprintf("UnmarshalJSON gave %#v set=%v err=%v", o3.Value(), o3.IsSet(), err)))
		}
	}
}

func runOmittable(only string) {
	if !wantSpace(only, "omittable/random") {
		return
	}
	s := sp.get("omittable/random")
	n := ev.Pick(30_000, 300_000)
	parallel(n, 1000, func(ci, lo, hi int) {
		r := newRng(s.name, ci)
		b := s.batch()
		for i := lo; i < hi; i++ {
			switch i % 11 {
			case 0:
				v := randString(r, 6)
				_, w := refUTF8(v)
				checkOmittable("string", v, xstr(v), xstr(""), w, false, s.name)
				b.add(strNontrivial(v), hashStr("os", v))
			case 1:
				v := randString(r, 6)
				_, w := refUTF8(v)
				if r.intn(4) == 0 {
					checkOmittable[*string]("*string", nil, xnull(), xnull(), nil, false, s.name)
				} else {
					checkOmittable("*string", &v, xstr(v), xnull(), &w, false, s.name)
				}
				b.add(true, hashStr("ops", v))
			case 2:
				v := int(int64(r.u64()) >> uint(r.intn(64)))
				checkOmittable("int", v, xint(int64(v)), xint(0), v, false, s.name)
				b.add(true, hashStr("oi", strconv.Itoa(v)))
			case 3:
				v := int64(r.u64()) >> uint(r.intn(64))
				checkOmittable("int64", v, xint(v), xint(0), v, false, s.name)
				b.add(true, hashStr("oi64", strconv.FormatInt(v, 10)))
			case 4:
				v := r.u64() >> uint(r.intn(64))
				checkOmittable("uint64", v, xuint(v), xint(0), v, false, s.name)
				b.add(true, hashStr("ou64", strconv.FormatUint(v, 10)))
			case 5:
				v := randFiniteFloat(r)
				checkOmittable("float64", v, xfloat(v), xint(0), v, false, s.name)
				b.add(true, hashStr("of", strconv.FormatUint(math.Float64bits(v), 16)))
			case 6:
				v := r.intn(2) == 0
				checkOmittable("bool", v, xbool(v), xbool(false), v, false, s.name)
				b.add(true, hashStr("ob", strconv.FormatBool(v)))
			case 7:
				v := make([]string, r.intn(4))
				w := make([]string, len(v))
				x := xarr()
				x.arr = []*xv{}
				for j := range v {
					v[j] = randString(r, 4)
					_, w[j] = refUTF8(v[j])
					x.arr = append(x.arr, xstr(v[j]))
				}
				checkOmittable("[]string", v, x, xnull(), w, false, s.name)
				b.add(len(v) > 0, hashStr("oss", strings.Join(v, "\x00")))
			case 8:
				k := r.intn(1000)
				v := omitStruct{A: randString(r, 4), C: []int64{int64(r.u64()), int64(k)}}
				w := v
				_, w.A = refUTF8(v.A)
				x := xobj(true).set("a", xstr(v.A))
				if r.intn(2) == 0 {
					v.B, w.B = &k, &k
					x.set("b", xint(int64(k)))
				} else {
					x.set("b", xnull())
				}
				x.set("c", xarr(xint(v.C[0]), xint(v.C[1])))
				checkOmittable("struct", v, x, xobj(true).set("a", xstr("")).set("b", xnull()).set("c", xnull()), w, false, s.name)
				b.add(true, hashStr("ost", fmt.Sprintf("%#v", v)))
			case 9:
				v := gqlStr(randString(r, 6))
				checkOmittable("gqlStr(Marshaler)", v, xstr(string(v)), xstr(""), v, true, s.name)
				b.add(strNontrivial(string(v)), hashStr("og", string(v)))
			case 10:
				v := ctxFloat(randFiniteFloat(r))
				checkOmittable("ctxFloat(ContextMarshaler)", v, xfloat(float64(v)), xint(0), v, false, s.name)
				b.add(true, hashStr("ocf", strconv.FormatUint(math.Float64bits(float64(v)), 16)))
			}
		}
		b.flush()
	})

	// Observation (no verdict): what Omittable does with a value that has no JSON form.
	for _, f := range []float64{math.NaN(), math.Inf(1)} {
		out, pan := marshal(graphql.OmittableOf(f))
		if _, err := sjson.Parse(out); pan == nil && err != nil {
			observations.hit("omittable-nonfinite-float-output-not-json", "Omittable[float64].MarshalGQL", fmt.Sprint(f), map[string]any{"function": "Omittable[float64].MarshalGQL", "value": fmt.Sprint(f), "output_quoted": fmt.Sprintf("%q", out),
				"note": "json.Marshal error is discarded and nothing is written; MarshalGQL has no error channel. Not counted: the property names non-finite floats only under the default Float binding"})
		}
		out, pan = marshal(graphql.OmittableOf(ctxFloat(f)))
		if _, err := sjson.Parse(out); pan == nil && err != nil {
			observations.hit("omittable-contextmarshaler-error-dropped", "Omittable[ContextMarshaler].MarshalGQL", fmt.Sprint(f), map[string]any{"function": "Omittable[ctxFloat].MarshalGQL", "value": fmt.Sprint(f), "output_quoted": fmt.Sprintf("%q", out),
				"note": "the ContextMarshaler's error is discarded (`_ =`) and nothing is written"})
		}
	}
}

// ---------------------------------------------------------------------------------------------
// FieldSet / Array / WriterFunc compositions over every scalar marshaler

type tree struct {
	m         graphql.Marshaler
	x         *xv
	depth     int
	leaves    int
	viaString bool // an ill-formed string went through MarshalString
	viaID     bool
	errs      int // errors the response context must hold after marshaling
	desc      string
}

var aliasPool = []string{"a", "b", "id", "_", "__typename", "x1", "camelCase", "snake_case", "A", "Z9", "veryLongAliasNameVeryLongAliasNameVeryLongAliasName", "data", "errors", "null", "true"}

func safeDuration(r *rng) time.Duration {
	d := time.Duration(r.intn(100))*time.Hour + time.Duration(r.intn(60))*time.Minute + time.Duration(r.intn(60))*time.Second + time.Duration(r.intn(1000))*time.Millisecond
	if r.intn(4) == 0 {
		d = -d
	}
	return d
}

func randTimeIn(r *rng) time.Time {
	return time.Date(1+r.intn(9999), time.Month(1+r.intn(12)), 1+r.intn(28), r.intn(24), r.intn(60), r.intn(60), randNanos(r), randZone(r))
}

func xtime(t time.Time) *xv {
	if t.IsZero() {
		return xnull()
	}
	return &xv{k: xPred, s: "time " + t.Format(time.RFC3339Nano), pred: func(g *sjson.Value) bool {
		if g.Kind != sjson.String {
			return false
		}
		sec, ns, off, ok := parseRFC3339(g.Str)
		return ok && sec == t.Unix() && ns == int64(t.Nanosecond()) && off == zoneOff(t)
	}}
}

func xduration(d time.Duration) *xv {
	return &xv{k: xPred, s: "duration " + d.String(), pred: func(g *sjson.Value) bool {
		if g.Kind != sjson.String {
			return false
		}
		r, ok := parseISODuration(g.Str)
		if !ok {
			return false
		}
		diff := r.Sub(r, big.NewRat(int64(d), 1))
		return diff.Abs(diff).Cmp(big.NewRat(1, 2)) < 0 // same tolerance as the stand-alone duration oracle
	}}
}

func xuuid(id uuid.UUID) *xv {
	if id == (uuid.UUID{}) {
		return xnull()
	}
	h := hexOf(string(id[:]))
	return xstr(h[0:8] + "-" + h[8:12] + "-" + h[12:16] + "-" + h[16:20] + "-" + h[20:32])
}

func randLeaf(r *rng, ctx context.Context) tree {
	t := tree{leaves: 1}
	switch k := r.intn(26); k {
	case 0, 1:
		s := randString(r, 5)
		ok, _ := refUTF8(s)
		t.m, t.x, t.viaString, t.desc = graphql.MarshalString(s), xstr(s), !ok, fmt.Sprintf("String(%q)", s)
	case 2:
		s := randString(r, 3)
		ok, _ := refUTF8(s)
		t.m, t.x, t.viaID, t.desc = graphql.MarshalID(s), xstr(s), !ok, fmt.Sprintf("ID(%q)", s)
	case 3:
		v := int(int64(r.u64()) >> uint(r.intn(64)))
		t.m, t.x, t.desc = graphql.MarshalIntID(v), xstr(strconv.Itoa(v)), fmt.Sprintf("IntID(%d)", v)
	case 4:
		v := uint(r.u64() >> uint(r.intn(64)))
		t.m, t.x, t.desc = graphql.MarshalUintID(v), xstr(strconv.FormatUint(uint64(v), 10)), fmt.Sprintf("UintID(%d)", v)
	case 5:
		v := int(int64(r.u64()) >> uint(r.intn(64)))
		t.m, t.x, t.desc = graphql.MarshalInt(v), xint(int64(v)), fmt.Sprintf("Int(%d)", v)
	case 6:
		v := int32(r.u64())
		t.m, t.x, t.desc = graphql.MarshalInt32(v), xint(int64(v)), fmt.Sprintf("Int32(%d)", v)
	case 7:
		v := int64(r.u64()) >> uint(r.intn(64))
		t.m, t.x, t.desc = graphql.MarshalInt64(v), xint(v), fmt.Sprintf("Int64(%d)", v)
	case 8:
		v := uint(r.u64() >> uint(r.intn(64)))
		t.m, t.x, t.desc = graphql.MarshalUint(v), xuint(uint64(v)), fmt.Sprintf("Uint(%d)", v)
	case 9:
		v := uint32(r.u64())
		t.m, t.x, t.desc = graphql.MarshalUint32(v), xuint(uint64(v)), fmt.Sprintf("Uint32(%d)", v)
	case 10:
		v := r.u64() >> uint(r.intn(64))
		t.m, t.x, t.desc = graphql.MarshalUint64(v), xuint(v), fmt.Sprintf("Uint64(%d)", v)
	case 11:
		v := randFiniteFloat(r)
		t.m, t.x, t.desc = graphql.MarshalFloat(v), xfloat(v), fmt.Sprintf("Float(%v)", v)
	case 12:
		v := randFiniteFloat(r)
		t.m, t.x, t.desc = graphql.WrapContextMarshaler(ctx, graphql.MarshalFloatContext(v)), xfloat(v), fmt.Sprintf("FloatContext(%v)", v)
	case 13:
		v := nonFinite(r, r.intn(4))
		t.m, t.x, t.errs, t.desc = graphql.WrapContextMarshaler(ctx, graphql.MarshalFloatContext(v)), xnull(), 1, fmt.Sprintf("FloatContext(%v)", v)
	case 14:
		v := r.intn(2) == 0
		t.m, t.x, t.desc = graphql.MarshalBoolean(v), xbool(v), fmt.Sprintf("Boolean(%v)", v)
	case 15:
		v := randTimeIn(r)
		if r.intn(10) == 0 {
			v = time.Time{}
		}
		t.m, t.x, t.desc = graphql.MarshalTime(v), xtime(v), "Time("+v.Format(time.RFC3339Nano)+")"
	case 16:
		v := safeDuration(r)
		t.m, t.x, t.desc = graphql.MarshalDuration(v), xduration(v), "Duration("+v.String()+")"
	case 17:
		v := randUUID(r)
		if r.intn(10) == 0 {
			v = uuid.UUID{}
		}
		t.m, t.x, t.desc = graphql.MarshalUUID(v), xuuid(v), "UUID("+v.String()+")"
	case 18:
		m, x, _ := randMap(r, 2)
		t.m, t.x, t.desc = graphql.MarshalMap(m), x, fmt.Sprintf("Map(%#v)", m)
	case 19:
		v, x, _ := randJSON(r, 2)
		t.m, t.x, t.desc = graphql.MarshalAny(v), x, fmt.Sprintf("Any(%#v)", v)
	case 20:
		t.m, t.x, t.desc = graphql.Null, xnull(), "Null"
	case 21:
		t.m, t.x, t.desc = graphql.True, xbool(true), "True"
	case 22:
		t.m, t.x, t.desc = graphql.False, xbool(false), "False"
	case 23:
		s := randString(r, 4)
		t.m, t.x, t.desc = graphql.OmittableOf(s), xstr(s), fmt.Sprintf("Omittable[string](%q)", s)
	case 24:
		v := int64(r.u64()) >> uint(r.intn(64))
		t.m, t.x, t.desc = graphql.OmittableOf(v), xint(v), fmt.Sprintf("Omittable[int64](%d)", v)
	default:
		s := randString(r, 4)
		ok, _ := refUTF8(s)
		t.m, t.x, t.viaString, t.desc = graphql.OmittableOf(gqlStr(s)), xstr(s), !ok, fmt.Sprintf("Omittable[gqlStr](%q)", s)
	}
	return t
}

func randTree(r *rng, ctx context.Context, depth int) tree {
	k := r.intn(10)
	if depth <= 0 || k < 3 {
		return randLeaf(r, ctx)
	}
	merge := func(t *tree, c tree) {
		t.leaves += c.leaves
		if c.depth+1 > t.depth {
			t.depth = c.depth + 1
		}
		t.viaString = t.viaString || c.viaString
		t.viaID = t.viaID || c.viaID
		t.errs += c.errs
	}
	switch {
	case k < 6: // object
		n := r.intn(5)
		perm := make([]int, len(aliasPool))
		for i := range perm {
			perm[i] = i
		}
		for i := len(perm) - 1; i > 0; i-- {
			j := r.intn(i + 1)
			perm[i], perm[j] = perm[j], perm[i]
		}
		var fields []graphql.CollectedField
		pre := n
		if n > 0 && r.intn(3) == 0 {
			pre = r.intn(n) // the rest is appended with AddField
		}
		for i := 0; i < pre; i++ {
			a := aliasPool[perm[i]]
			fields = append(fields, graphql.CollectedField{Field: &ast.Field{Name: a, Alias: a}})
		}
		fs := graphql.NewFieldSet(fields)
		for i := pre; i < n; i++ {
			a := aliasPool[perm[i]]
			fs.AddField(graphql.CollectedField{Field: &ast.Field{Name: a, Alias: a}})
		}
		t := tree{x: xobj(true), depth: 1}
		var descs []string
		conc := 0
		for i := 0; i < n; i++ {
			c := randTree(r, ctx, depth-1)
			if r.intn(3) == 0 {
				cm := c.m
				fs.Concurrently(i, func(context.Context) graphql.Marshaler { return cm })
				conc++
			} else {
				fs.Values[i] = c.m
			}
			t.x.set(aliasPool[perm[i]], c.x)
			merge(&t, c)
			descs = append(descs, aliasPool[perm[i]]+":"+c.desc)
		}
		if conc > 0 {
			fs.Dispatch(ctx)
		}
		t.m = fs
		t.desc = "{" + strings.Join(descs, ", ") + "}"
		return t
	case k < 9: // list
		n := r.intn(5)
		arr := graphql.Array{}
		t := tree{x: xarr(), depth: 1}
		t.x.arr = []*xv{}
		var descs []string
		for i := 0; i < n; i++ {
			c := randTree(r, ctx, depth-1)
			arr = append(arr, c.m)
			t.x.arr = append(t.x.arr, c.x)
			merge(&t, c)
			descs = append(descs, c.desc)
		}
		t.m = arr
		t.desc = "[" + strings.Join(descs, ", ") + "]"
		return t
	default: // nested WriterFunc
		c := randTree(r, ctx, depth-1)
		inner := c.m
		c.m = graphql.WriterFunc(func(w io.Writer) { inner.MarshalGQL(w) })
		c.desc = "WriterFunc(" + c.desc + ")"
		return c
	}
}

func runCompositions(only string) {
	if !wantSpace(only, "composition/random") {
		return
	}
	s := sp.get("composition/random")
	n := ev.Pick(40_000, 600_000)
	parallel(n, 500, func(ci, lo, hi int) {
		r := newRng(s.name, ci)
		b := s.batch()
		for i := lo; i < hi; i++ {
			ctx := respCtx()
			t := randTree(r, ctx, 4)
			out, pan := marshal(t.m)
			key := t.desc
			wit := func(why string) map[string]any {
				return map[string]any{"space": s.name, "function": "FieldSet/Array composition", "input": clip(t.desc), "expected": clip(t.x.render()), "output_quoted": fmt.Sprintf("%q", clip(string(out))), "why": why}
			}
			ctr.add(fmt.Sprintf("composition_depth_%d", t.depth), 1)
			ctr.add("composition_leaves", int64(t.leaves))
			switch {
			case pan != nil:
				viol.hit("composition-marshal-panic", s.name, key, wit(fmt.Sprint("panic: ", pan)))
			default:
				pv, err := sjson.Parse(out)
				if err != nil {
					viol.hit(attribute("composition", out, t.viaString, t.viaID), "composition", key, wit("strict parser: "+err.Error()))
					break
				}
				if d := diffX(t.x, pv, true, ""); d != "" {
					viol.hit("composition-decode-mismatch", s.name, key, wit(d))
					break
				}
				dv, err := stdDecode(out)
				if err != nil || diffX(t.x, fromStd(dv), false, "") != "" {
					viol.hit("composition-decode-mismatch", s.name+"/encoding-json", key, wit(fmt.Sprintf("encoding/json: %v", err)))
					break
				}
				if got := len(graphql.GetErrors(ctx)); got != t.errs {
					viol.hit("composition-nonfinite-error-count", s.name, key, wit(fmt.Sprintf("%d errors recorded, expected %d (one per non-finite FloatContext leaf)", got, t.errs)))
				}
			}
			b.add(t.depth >= 1, hashStr("c", t.desc))
		}
		b.flush()
	})
}
