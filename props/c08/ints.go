package main

import (
	"encoding/json"
	"fmt"
	"math"
	"math/big"
	"strconv"

	"github.com/99designs/gqlgen/graphql"

	"verif/internal/ev"
	"verif/internal/sjson"
)

type intFn struct {
	name     string // signature prefix
	title    string
	min, max *big.Int
	quoted   bool // serialised as a JSON string (the ID forms)
	m        func(*big.Int) graphql.Marshaler
	u        func(any) (*big.Int, error)
}

func bi(s string) *big.Int {
	v, ok := new(big.Int).SetString(s, 10)
	if !ok {
		panic(s)
	}
	return v
}

func pow2(n uint) *big.Int { return new(big.Int).Lsh(big.NewInt(1), n) }

var (
	minI64 = new(big.Int).Neg(pow2(63))
	maxI64 = new(big.Int).Sub(pow2(63), big.NewInt(1))
	maxU64 = new(big.Int).Sub(pow2(64), big.NewInt(1))
	minI32 = new(big.Int).Neg(pow2(31))
	maxI32 = new(big.Int).Sub(pow2(31), big.NewInt(1))
	maxU32 = new(big.Int).Sub(pow2(32), big.NewInt(1))
	zero   = big.NewInt(0)
)

func sres[T int | int32 | int64](v T, err error) (*big.Int, error) {
	return big.NewInt(int64(v)), err
}
func ures[T uint | uint32 | uint64](v T, err error) (*big.Int, error) {
	return new(big.Int).SetUint64(uint64(v)), err
}

// strconv.IntSize is 64 on the platforms this harness runs on; checked in main.
var intFns = []intFn{
	{"int", "Int", minI64, maxI64, false, func(n *big.Int) graphql.Marshaler { return graphql.MarshalInt(int(n.Int64())) }, func(v any) (*big.Int, error) { return sres(graphql.UnmarshalInt(v)) }},
	{"int32", "Int32", minI32, maxI32, false, func(n *big.Int) graphql.Marshaler { return graphql.MarshalInt32(int32(n.Int64())) }, func(v any) (*big.Int, error) { return sres(graphql.UnmarshalInt32(v)) }},
	{"int64", "Int64", minI64, maxI64, false, func(n *big.Int) graphql.Marshaler { return graphql.MarshalInt64(n.Int64()) }, func(v any) (*big.Int, error) { return sres(graphql.UnmarshalInt64(v)) }},
	{"uint", "Uint", zero, maxU64, false, func(n *big.Int) graphql.Marshaler { return graphql.MarshalUint(uint(n.Uint64())) }, func(v any) (*big.Int, error) { return ures(graphql.UnmarshalUint(v)) }},
	{"uint32", "Uint32", zero, maxU32, false, func(n *big.Int) graphql.Marshaler { return graphql.MarshalUint32(uint32(n.Uint64())) }, func(v any) (*big.Int, error) { return ures(graphql.UnmarshalUint32(v)) }},
	{"uint64", "Uint64", zero, maxU64, false, func(n *big.Int) graphql.Marshaler { return graphql.MarshalUint64(n.Uint64()) }, func(v any) (*big.Int, error) { return ures(graphql.UnmarshalUint64(v)) }},
	{"intid", "IntID", minI64, maxI64, true, func(n *big.Int) graphql.Marshaler { return graphql.MarshalIntID(int(n.Int64())) }, func(v any) (*big.Int, error) { return sres(graphql.UnmarshalIntID(v)) }},
	{"uintid", "UintID", zero, maxU64, true, func(n *big.Int) graphql.Marshaler { return graphql.MarshalUintID(uint(n.Uint64())) }, func(v any) (*big.Int, error) { return ures(graphql.UnmarshalUintID(v)) }},
}

func (f intFn) inRange(n *big.Int) bool { return n.Cmp(f.min) >= 0 && n.Cmp(f.max) <= 0 }

// boundaryGrid: 0, +-1, +-2^k for every width boundary, 2^64-1, each with its two neighbours.
func boundaryGrid() []*big.Int {
	seen := map[string]bool{}
	var out []*big.Int
	add := func(n *big.Int) {
		for _, d := range []int64{-1, 0, 1} {
			v := new(big.Int).Add(n, big.NewInt(d))
			if !seen[v.String()] {
				seen[v.String()] = true
				out = append(out, v)
			}
		}
	}
	add(big.NewInt(0))
	add(big.NewInt(1))
	add(big.NewInt(-1))
	for _, k := range []uint{7, 8, 15, 16, 24, 31, 32, 52, 53, 62, 63, 64} {
		add(pow2(k))
		add(new(big.Int).Neg(pow2(k)))
	}
	add(maxU64)
	return out
}

func callU(f intFn, v any) (r *big.Int, err error, pan any) {
	defer func() {
		if p := recover(); p != nil {
			pan = p
		}
	}()
	r, err = f.u(v)
	return
}

// checkIntRoundTrip: oracles 1-3 for one in-range value.
func checkIntRoundTrip(f intFn, n *big.Int, where string) {
	out, pan := marshal(f.m(n))
	wit := func(why string) map[string]any {
		return map[string]any{"space": where, "function": "Marshal" + f.title, "value": n.String(), "output": string(out), "why": why}
	}
	if pan != nil {
		viol.hit(f.name+"-marshal-panic", where, n.String(), wit(fmt.Sprint("panic: ", pan)))
		return
	}
	v, err := sjson.Parse(out)
	if err != nil {
		viol.hit(f.name+"-invalid-json", where, n.String(), wit("strict parser: "+err.Error()))
		return
	}
	okVal := func(v *sjson.Value) bool {
		if f.quoted {
			if v.Kind != sjson.String {
				return false
			}
			g, ok := new(big.Int).SetString(v.Str, 10)
			return ok && g.Cmp(n) == 0
		}
		return v.Kind == sjson.Number && numMatches(xbig(n), v.Num)
	}
	if !okVal(v) {
		viol.hit(f.name+"-decode-mismatch", where, n.String(), wit("strict parser decodes "+v.Render()))
		return
	}
	dv, err := stdDecode(out)
	if err != nil || !okVal(fromStd(dv)) {
		viol.hit(f.name+"-decode-mismatch", where+"/encoding-json", n.String(), wit(fmt.Sprintf("encoding/json decodes %#v err=%v", dv, err)))
		return
	}
	// the decoded value as the dynamic types the pipeline hands over: what encoding/json (UseNumber)
	// produced, and - the same token re-entering as a query literal - int64 when it fits
	ins := []any{dv}
	if n.IsInt64() {
		ins = append(ins, n.Int64())
	}
	for _, in := range ins {
		back, err, pan := callU(f, in)
		if pan != nil || err != nil || back.Cmp(n) != 0 {
			viol.hit(f.name+"-unmarshal-mismatch", fmt.Sprintf("%T", in), n.String(), wit(fmt.Sprintf("Unmarshal%s(%#v) = %v, err=%v, panic=%v", f.title, in, back, err, pan)))
		}
	}
}

// dynInput is one dynamic Go value handed to an Unmarshal* function together with the exact
// mathematical number it denotes (nil when it denotes none: bool, nil, malformed text).
type dynInput struct {
	typ  string
	v    any
	math *big.Rat
	show string
}

func ratInt(n *big.Int) *big.Rat { return new(big.Rat).SetInt(n) }

// dynInputsFor builds every representation of the integer n the sweep uses.
func dynInputsFor(n *big.Int) []dynInput {
	var out []dynInput
	R := ratInt(n)
	if n.IsInt64() {
		i := n.Int64()
		out = append(out, dynInput{"int", int(i), R, fmt.Sprintf("int(%d)", i)}, dynInput{"int64", i, R, fmt.Sprintf("int64(%d)", i)})
		if i >= math.MinInt32 && i <= math.MaxInt32 {
			out = append(out, dynInput{"int32", int32(i), R, fmt.Sprintf("int32(%d)", i)})
		}
		if i >= 0 && i <= math.MaxUint32 {
			out = append(out, dynInput{"uint32", uint32(i), R, fmt.Sprintf("uint32(%d)", i)})
		}
	}
	if n.IsUint64() {
		out = append(out, dynInput{"uint64", n.Uint64(), R, fmt.Sprintf("uint64(%d)", n.Uint64())})
	}
	// float64: only when n is exactly representable
	if f, acc := new(big.Float).SetInt(n).Float64(); acc == big.Exact {
		out = append(out, dynInput{"float64", f, R, fmt.Sprintf("float64(%s)", strconv.FormatFloat(f, 'f', -1, 64))})
		// a neighbour with a fractional part (exactly representable below 2^52)
		if math.Abs(f) < 1<<51 {
			h := f + 0.5
			out = append(out, dynInput{"float64", h, new(big.Rat).SetFloat64(h), fmt.Sprintf("float64(%s)", strconv.FormatFloat(h, 'f', -1, 64))})
		}
	}
	dec := n.String()
	texts := []struct {
		t string
		m *big.Rat
	}{{dec, R}, {"00" + dec, nil}, {dec + ".0", R}, {dec + "e0", R}, {dec + ".5", nil}, {dec + "e1", new(big.Rat).Mul(R, big.NewRat(10, 1))}, {" " + dec, nil}, {dec + " ", nil}, {"0x" + dec, nil}}
	if n.Sign() >= 0 {
		texts = append(texts, struct {
			t string
			m *big.Rat
		}{"+" + dec, R})
		texts = append(texts, struct {
			t string
			m *big.Rat
		}{"-" + dec, new(big.Rat).Neg(R)})
	}
	for _, t := range texts {
		m := t.m
		if m == nil {
			// denotes a number only if it is a decimal literal; compute it when it is
			switch {
			case len(t.t) > 2 && t.t[:2] == "00" && n.Sign() >= 0:
				m = R // leading zeros do not change the number
			case len(t.t) > 2 && t.t[len(t.t)-2:] == ".5":
				half := big.NewRat(1, 2)
				if n.Sign() < 0 {
					m = new(big.Rat).Sub(R, half)
				} else {
					m = new(big.Rat).Add(R, half)
				}
			}
		}
		out = append(out, dynInput{"json.Number", json.Number(t.t), m, fmt.Sprintf("json.Number(%q)", t.t)})
		out = append(out, dynInput{"string", t.t, m, fmt.Sprintf("%q", t.t)})
	}
	return out
}

// checkIntFunctionLevel: oracle 4 for one function and one dynamic input.
// The result must be the same mathematical number, or an error; never a different number.
func checkIntFunctionLevel(f intFn, in dynInput, where string) {
	r, err, pan := callU(f, in.v)
	wit := func(why string) map[string]any {
		w := map[string]any{"space": where, "function": "Unmarshal" + f.title, "input": in.show, "input_type": in.typ, "why": why}
		if r != nil {
			w["result"] = r.String()
		}
		if err != nil {
			w["error"] = err.Error()
		}
		return w
	}
	if pan != nil {
		viol.hit(f.name+"-unmarshal-panic", in.typ, in.show, wit(fmt.Sprint("panic: ", pan)))
		return
	}
	if err != nil || in.math == nil {
		return // an error is always acceptable; text that denotes no number carries no obligation
	}
	if in.math.IsInt() && in.math.Num().Cmp(r) == 0 {
		return
	}
	class := "value-changed"
	switch {
	case !in.math.IsInt():
		class = "fraction-accepted"
	case in.math.Sign() < 0 && f.min.Sign() == 0:
		class = "negative-wrap"
	case !f.inRange(in.math.Num()):
		class = "overflow-wrap"
	}
	viol.hit(f.name+"-"+class, in.typ, in.show, wit(fmt.Sprintf("accepted without error but returned %s for the number %s", r.String(), in.math.RatString())))
}

func randBig(r *rng) *big.Int {
	// choose a bit length uniformly (so every width is exercised), then a random value of it
	bits := uint(r.intn(66))
	v := new(big.Int).SetUint64(r.u64())
	if bits >= 64 {
		v.Lsh(v, bits-63)
		v.Add(v, big.NewInt(int64(r.intn(3))))
	} else {
		v.Rsh(v, 64-bits)
	}
	if r.intn(2) == 0 {
		v.Neg(v)
	}
	// a third of the draws: snap next to a width boundary
	if r.intn(3) == 0 {
		ks := []uint{7, 8, 15, 16, 31, 32, 53, 63, 64}
		b := pow2(ks[r.intn(len(ks))])
		if r.intn(2) == 0 {
			b.Neg(b)
		}
		v = b.Add(b, big.NewInt(int64(r.intn(5)-2)))
	}
	return v
}

func runInts(only string) {
	want := func(n string) bool { return wantSpace(only, n) }
	grid := boundaryGrid()

	if want("int/roundtrip-grid") {
		s := sp.get("int/roundtrip-grid")
		b := s.batch()
		for _, f := range intFns {
			for _, n := range grid {
				if f.inRange(n) {
					checkIntRoundTrip(f, n, s.name)
					b.add(true, hashStr(f.name, n.String()))
				}
			}
		}
		b.flush()
		s.exhaustive = fmt.Sprintf("boundary grid of %d integers (0, +-1, +-2^{7,8,15,16,24,31,32,52,53,62,63,64}, 2^64-1, each +-1) intersected with each of the %d types' ranges", len(grid), len(intFns))
	}

	if want("int/roundtrip-random") {
		s := sp.get("int/roundtrip-random")
		n := ev.Pick(100_000, 1_500_000)
		parallel(n, 2000, func(ci, lo, hi int) {
			r := newRng(s.name, ci)
			b := s.batch()
			for i := lo; i < hi; i++ {
				f := intFns[i%len(intFns)]
				var v *big.Int
				for {
					v = randBig(r)
					if f.inRange(v) {
						break
					}
				}
				checkIntRoundTrip(f, v, s.name)
				b.add(v.BitLen() >= 7, hashStr(f.name, v.String()))
			}
			b.flush()
		})
	}

	if want("int/function-level-grid") {
		s := sp.get("int/function-level-grid")
		b := s.batch()
		types := map[string]bool{}
		for _, f := range intFns {
			for _, n := range grid {
				for _, in := range dynInputsFor(n) {
					checkIntFunctionLevel(f, in, s.name)
					types[in.typ] = true
					b.add(true, hashStr(f.name, in.show))
				}
			}
			for _, in := range []dynInput{{"bool", true, nil, "true"}, {"bool", false, nil, "false"}, {"nil", nil, nil, "nil"}, {"string", "", nil, `""`}, {"string", "abc", nil, `"abc"`}, {"json.Number", json.Number(""), nil, `json.Number("")`}} {
				checkIntFunctionLevel(f, in, s.name)
				types[in.typ] = true
				b.add(true, hashStr(f.name, in.show))
			}
		}
		b.flush()
		s.exhaustive = fmt.Sprintf("%d integer Unmarshal* functions x %d grid integers x every representation as %d dynamic types (int, int64, int32, uint32, uint64, float64 exact and +0.5, json.Number/string in 9-11 spellings, bool, nil)", len(intFns), len(grid), len(types))
	}

	if want("int/function-level-random") {
		s := sp.get("int/function-level-random")
		n := ev.Pick(30_000, 400_000)
		parallel(n, 1000, func(ci, lo, hi int) {
			r := newRng(s.name, ci)
			b := s.batch()
			for i := lo; i < hi; i++ {
				v := randBig(r)
				ins := dynInputsFor(v)
				f := intFns[r.intn(len(intFns))]
				for _, in := range ins {
					checkIntFunctionLevel(f, in, s.name)
					b.add(!f.inRange(v) || v.BitLen() >= 7, hashStr(f.name, in.show))
				}
			}
			b.flush()
		})
	}

	// observation only (reported, no verdict): numeric inputs to the string-valued unmarshalers
	if want("int/function-level-grid") {
		for _, f := range strFns {
			for _, n := range grid {
				for _, in := range dynInputsFor(n) {
					if in.typ == "string" || in.typ == "json.Number" || in.math == nil {
						continue
					}
					got, err := f.u(in.v)
					if err != nil {
						continue
					}
					g, ok := new(big.Rat).SetString(got)
					if fv, isF := in.v.(float64); isF {
						// a float input is the same number when the text parses back to the same float64
						if h, e := strconv.ParseFloat(got, 64); e == nil && h == fv {
							continue
						}
					}
					if !ok || g.Cmp(in.math) != 0 {
						observations.hit(f.name+"-numeric-input-text-differs", in.typ, in.show, map[string]any{"function": "Unmarshal" + fnTitle(f.name), "input": in.show, "result": got})
					}
				}
			}
			for _, x := range []float64{0.1234567, 1e-7, 123456789.123456789, 1e21, 5e-324} {
				got, err := f.u(x)
				g, ok := new(big.Rat).SetString(got)
				if err == nil && (!ok || g.Cmp(new(big.Rat).SetFloat64(x)) != 0) {
					if h, e := strconv.ParseFloat(got, 64); e != nil || h != x {
						observations.hit(f.name+"-float-input-text-differs", "float64", fmt.Sprint(x), map[string]any{"function": "Unmarshal" + fnTitle(f.name), "input": strconv.FormatFloat(x, 'g', -1, 64), "result": got})
					}
				}
			}
		}
	}
}
