package main

import (
	"bytes"
	"encoding/json"
	"fmt"
	"math/big"
	"runtime"
	"sort"
	"strconv"
	"strings"
	"sync"
	"sync/atomic"

	"github.com/99designs/gqlgen/graphql"

	"verif/internal/ev"
	"verif/internal/sjson"
)

// ---------------------------------------------------------------------------------------------
// sharding

var nWorkers = runtime.NumCPU()

// parallel splits [0,n) into chunks of size chunk and runs fn(chunkIndex, lo, hi) on all cores.
// The case list of a chunk must depend only on (seed, tier, chunkIndex), never on scheduling.
func parallel(n, chunk int, fn func(ci, lo, hi int)) {
	if chunk < 1 {
		chunk = 1
	}
	nChunks := (n + chunk - 1) / chunk
	var next int64 = -1
	var wg sync.WaitGroup
	w := nWorkers
	if w > nChunks {
		w = nChunks
	}
	for i := 0; i < w; i++ {
		wg.Add(1)
		go func() {
			defer wg.Done()
			for {
				ci := int(atomic.AddInt64(&next, 1))
				if ci >= nChunks {
					return
				}
				lo := ci * chunk
				hi := lo + chunk
				if hi > n {
					hi = n
				}
				fn(ci, lo, hi)
			}
		}()
	}
	wg.Wait()
}

// splitmix64: the only PRNG of this check; streams are keyed by (seed, space, chunk).
type rng struct{ s uint64 }

func newRng(space string, chunk int) *rng {
	h := uint64(1469598103934665603)
	for i := 0; i < len(space); i++ {
		h = (h ^ uint64(space[i])) * 1099511628211
	}
	r := &rng{s: uint64(ev.Seed())*0x9E3779B97F4A7C15 ^ h ^ uint64(chunk)*0xD1B54A32D192ED03}
	r.u64()
	return r
}

func (r *rng) u64() uint64 {
	r.s += 0x9E3779B97F4A7C15
	z := r.s
	z = (z ^ (z >> 30)) * 0xBF58476D1CE4E5B9
	z = (z ^ (z >> 27)) * 0x94D049BB133111EB
	return z ^ (z >> 31)
}
func (r *rng) intn(n int) int {
	if n <= 0 {
		return 0
	}
	return int(r.u64() % uint64(n))
}
func (r *rng) chance(permille int) bool { return r.intn(1000) < permille }

// ---------------------------------------------------------------------------------------------
// space bookkeeping: evaluations, measured distinct non-trivial cases, exhaustive sub-spaces

type space struct {
	name       string
	evals      int64
	nontrivial int64 // evaluations that were non-trivial (not necessarily distinct)
	mu         sync.Mutex
	hashes     []uint64 // hashes of non-trivial cases (distinct count is measured by sort+unique)
	exhaustive string   // description when the sub-space is enumerated completely
	distinct   int64
}

type spaces struct {
	mu  sync.Mutex
	all []*space
}

var sp = &spaces{}

func (s *spaces) get(name string) *space {
	s.mu.Lock()
	defer s.mu.Unlock()
	for _, x := range s.all {
		if x.name == name {
			return x
		}
	}
	x := &space{name: name}
	s.all = append(s.all, x)
	return x
}

// batch is a per-chunk accumulator (no contention inside the hot loops).
type batch struct {
	sp     *space
	evals  int64
	nt     int64
	hashes []uint64
}

func (s *space) batch() *batch { return &batch{sp: s} }

func (b *batch) add(nontrivial bool, h uint64) {
	b.evals++
	if nontrivial {
		b.nt++
		b.hashes = append(b.hashes, h)
	}
}

func (b *batch) flush() {
	atomic.AddInt64(&b.sp.evals, b.evals)
	atomic.AddInt64(&b.sp.nontrivial, b.nt)
	b.sp.mu.Lock()
	b.sp.hashes = append(b.sp.hashes, b.hashes...)
	b.sp.mu.Unlock()
}

func (s *space) finish() {
	sort.Slice(s.hashes, func(i, j int) bool { return s.hashes[i] < s.hashes[j] })
	var d int64
	for i, h := range s.hashes {
		if i == 0 || h != s.hashes[i-1] {
			d++
		}
	}
	s.distinct = d
	s.hashes = nil
}

func hashStr(parts ...string) uint64 {
	h := uint64(14695981039346656037)
	for _, p := range parts {
		for i := 0; i < len(p); i++ {
			h = (h ^ uint64(p[i])) * 1099511628211
		}
		h = (h ^ 0xff) * 1099511628211
	}
	return h
}

// ---------------------------------------------------------------------------------------------
// violation aggregation: one Violate call per signature with every member of the class observed

type witness struct {
	key string
	val any
}

type sigAgg struct {
	Count     int64
	Members   map[string]int64
	witnesses []witness
}

type aggregator struct {
	mu sync.Mutex
	m  map[string]*sigAgg
}

var viol = &aggregator{m: map[string]*sigAgg{}}
var observations = &aggregator{m: map[string]*sigAgg{}} // reported, never a verdict

const maxWitnesses = 6

// hit records one refuting observation. member names the sub-class (function / input type), key
// orders witnesses (the smallest keys are kept, so the report is deterministic and minimal).
func (a *aggregator) hit(sig, member, key string, w any) {
	a.mu.Lock()
	defer a.mu.Unlock()
	s := a.m[sig]
	if s == nil {
		s = &sigAgg{Members: map[string]int64{}}
		a.m[sig] = s
	}
	s.Count++
	s.Members[member]++
	k := fmt.Sprintf("%06d|%s", len(key), key)
	if len(s.witnesses) < maxWitnesses || k < s.witnesses[len(s.witnesses)-1].key {
		for _, x := range s.witnesses {
			if x.key == k {
				return
			}
		}
		s.witnesses = append(s.witnesses, witness{k, w})
		sort.Slice(s.witnesses, func(i, j int) bool { return s.witnesses[i].key < s.witnesses[j].key })
		if len(s.witnesses) > maxWitnesses {
			s.witnesses = s.witnesses[:maxWitnesses]
		}
	}
}

func (a *aggregator) sigs() []string {
	a.mu.Lock()
	defer a.mu.Unlock()
	var out []string
	for k := range a.m {
		out = append(out, k)
	}
	sort.Strings(out)
	return out
}

func (a *aggregator) detail(sig string) map[string]any {
	a.mu.Lock()
	defer a.mu.Unlock()
	s := a.m[sig]
	ws := make([]any, 0, len(s.witnesses))
	for _, w := range s.witnesses {
		ws = append(ws, w.val)
	}
	return map[string]any{"observations": s.Count, "members": s.Members, "minimal_witnesses": ws}
}

// ---------------------------------------------------------------------------------------------
// marshaling helpers

func marshal(m graphql.Marshaler) (out []byte, panicked any) {
	var buf bytes.Buffer
	defer func() {
		if r := recover(); r != nil {
			panicked = r
			out = buf.Bytes()
		}
	}()
	m.MarshalGQL(&buf)
	return buf.Bytes(), nil
}

// stdDecode is what a client does: encoding/json with UseNumber, exactly one value, then EOF.
func stdDecode(b []byte) (any, error) {
	d := json.NewDecoder(bytes.NewReader(b))
	d.UseNumber()
	var v any
	if err := d.Decode(&v); err != nil {
		return nil, err
	}
	if d.More() {
		return nil, fmt.Errorf("trailing data after JSON value")
	}
	return v, nil
}

// fromStd converts an encoding/json (UseNumber) value into sjson form (member order is lost).
func fromStd(v any) *sjson.Value {
	switch x := v.(type) {
	case nil:
		return sjson.N()
	case bool:
		return sjson.Bo(x)
	case string:
		return sjson.S(x)
	case json.Number:
		return &sjson.Value{Kind: sjson.Number, Num: string(x)}
	case float64:
		return &sjson.Value{Kind: sjson.Number, Num: strconv.FormatFloat(x, 'g', -1, 64)}
	case int:
		return sjson.I(int64(x))
	case int64:
		return sjson.I(x)
	case []any:
		a := sjson.A()
		for _, e := range x {
			a.Arr = append(a.Arr, fromStd(e))
		}
		return a
	case map[string]any:
		o := sjson.O()
		ks := make([]string, 0, len(x))
		for k := range x {
			ks = append(ks, k)
		}
		sort.Strings(ks)
		for _, k := range ks {
			o.Set(k, fromStd(x[k]))
		}
		return o
	}
	return &sjson.Value{Kind: sjson.String, Str: fmt.Sprintf("<unconvertible %T>", v)}
}

// ---------------------------------------------------------------------------------------------
// expected-value trees (built independently of gqlgen from the Go values handed to it)

type xkind int

const (
	xNull xkind = iota
	xBool
	xStr
	xInt   // exact integer
	xFloat // float64 semantics: the literal must parse (strconv.ParseFloat) to exactly this value
	xNum   // a json.Number handed in: the literal must denote exactly the same rational
	xArr
	xObj
	xPred // semantic expectation (time / duration): pred decides, s describes
)

type xmember struct {
	k string
	v *xv
}

type xv struct {
	k       xkind
	b       bool
	s       string
	i       *big.Int
	f       float64
	arr     []*xv
	obj     []xmember
	ordered bool // member order is part of the expectation (FieldSet); Go maps are unordered
	pred    func(*sjson.Value) bool
}

func xnull() *xv            { return &xv{k: xNull} }
func xbool(b bool) *xv      { return &xv{k: xBool, b: b} }
func xstr(s string) *xv     { _, r := refUTF8(s); return &xv{k: xStr, s: r} }
func xint(i int64) *xv      { return &xv{k: xInt, i: big.NewInt(i)} }
func xuint(u uint64) *xv    { return &xv{k: xInt, i: new(big.Int).SetUint64(u)} }
func xbig(i *big.Int) *xv   { return &xv{k: xInt, i: i} }
func xfloat(f float64) *xv  { return &xv{k: xFloat, f: f} }
func xnum(s string) *xv     { return &xv{k: xNum, s: s} }
func xarr(e ...*xv) *xv     { return &xv{k: xArr, arr: e} }
func xobj(ordered bool) *xv { return &xv{k: xObj, ordered: ordered} }
func (x *xv) set(k string, v *xv) *xv {
	x.obj = append(x.obj, xmember{k, v})
	return x
}

func (x *xv) render() string {
	var sb strings.Builder
	x.renderTo(&sb)
	return sb.String()
}

func (x *xv) renderTo(sb *strings.Builder) {
	switch x.k {
	case xNull:
		sb.WriteString("null")
	case xBool:
		sb.WriteString(strconv.FormatBool(x.b))
	case xStr:
		sb.WriteString(strconv.Quote(x.s))
	case xInt:
		sb.WriteString(x.i.String())
	case xFloat:
		sb.WriteString(strconv.FormatFloat(x.f, 'g', -1, 64))
	case xNum:
		sb.WriteString(x.s)
	case xPred:
		sb.WriteString("<" + x.s + ">")
	case xArr:
		sb.WriteByte('[')
		for i, e := range x.arr {
			if i > 0 {
				sb.WriteByte(',')
			}
			e.renderTo(sb)
		}
		sb.WriteByte(']')
	case xObj:
		sb.WriteByte('{')
		for i, m := range x.obj {
			if i > 0 {
				sb.WriteByte(',')
			}
			sb.WriteString(strconv.Quote(m.k))
			sb.WriteByte(':')
			m.v.renderTo(sb)
		}
		sb.WriteByte('}')
	}
}

// ratOf parses a JSON number literal exactly.
func ratOf(lit string) (*big.Rat, bool) {
	return new(big.Rat).SetString(lit)
}

// intLit: fast path for plain integer literals.
func plainInt(lit string) bool {
	if lit == "" {
		return false
	}
	i := 0
	if lit[0] == '-' {
		i = 1
	}
	if i == len(lit) {
		return false
	}
	for ; i < len(lit); i++ {
		if lit[i] < '0' || lit[i] > '9' {
			return false
		}
	}
	return true
}

func numMatches(x *xv, lit string) bool {
	switch x.k {
	case xInt:
		if plainInt(lit) {
			if x.i.IsInt64() {
				if v, err := strconv.ParseInt(lit, 10, 64); err == nil {
					return v == x.i.Int64()
				}
			}
			g, ok := new(big.Int).SetString(lit, 10)
			return ok && g.Cmp(x.i) == 0
		}
		r, ok := ratOf(lit)
		return ok && r.IsInt() && r.Num().Cmp(x.i) == 0
	case xFloat:
		g, err := strconv.ParseFloat(lit, 64)
		return err == nil && g == x.f
	case xNum:
		if lit == x.s {
			return true
		}
		a, ok1 := ratOf(lit)
		b, ok2 := ratOf(x.s)
		return ok1 && ok2 && a.Cmp(b) == 0
	}
	return false
}

// diffX compares an expectation with a parsed JSON value; "" means equal. useOrder=false ignores
// member order even where the expectation is ordered (values decoded through Go maps).
func diffX(x *xv, g *sjson.Value, useOrder bool, path string) string {
	if g == nil {
		return path + ": value missing"
	}
	bad := func() string { return fmt.Sprintf("%s: expected %s, got %s", path, clip(x.render()), clip(g.Render())) }
	switch x.k {
	case xNull:
		if g.Kind != sjson.Null {
			return bad()
		}
	case xBool:
		if g.Kind != sjson.Bool || g.B != x.b {
			return bad()
		}
	case xStr:
		if g.Kind != sjson.String || g.Str != x.s {
			return bad()
		}
	case xPred:
		if !x.pred(g) {
			return bad()
		}
	case xInt, xFloat, xNum:
		if g.Kind != sjson.Number || !numMatches(x, g.Num) {
			return bad()
		}
	case xArr:
		if g.Kind != sjson.Array || len(g.Arr) != len(x.arr) {
			return bad()
		}
		for i := range x.arr {
			if d := diffX(x.arr[i], g.Arr[i], useOrder, path+"/"+strconv.Itoa(i)); d != "" {
				return d
			}
		}
	case xObj:
		if g.Kind != sjson.Object || len(g.Members) != len(x.obj) {
			return bad()
		}
		if x.ordered && useOrder {
			for i, m := range x.obj {
				if g.Members[i].Key != m.k {
					return fmt.Sprintf("%s: member %d is %q, expected %q", path, i, g.Members[i].Key, m.k)
				}
				if d := diffX(m.v, g.Members[i].Val, useOrder, path+"/"+m.k); d != "" {
					return d
				}
			}
		} else {
			for _, m := range x.obj {
				var gv *sjson.Value
				n := 0
				for _, gm := range g.Members {
					if gm.Key == m.k {
						gv = gm.Val
						n++
					}
				}
				if n != 1 {
					return fmt.Sprintf("%s: member %q occurs %d times", path, m.k, n)
				}
				if d := diffX(m.v, gv, useOrder, path+"/"+m.k); d != "" {
					return d
				}
			}
		}
	}
	return ""
}

func clip(s string) string {
	if len(s) > 300 {
		return s[:300] + "…"
	}
	return s
}

func hexOf(s string) string {
	const hx = "0123456789abcdef"
	var sb strings.Builder
	for i := 0; i < len(s); i++ {
		sb.WriteByte(hx[s[i]>>4])
		sb.WriteByte(hx[s[i]&15])
	}
	return sb.String()
}

// ---------------------------------------------------------------------------------------------
// UTF-8 reference (RFC 3629 table, written by hand; does not use unicode/utf8)

// refUTF8 reports whether s is well-formed UTF-8 and returns s with EACH OFFENDING BYTE replaced by
// U+FFFD: a byte is offending when no well-formed sequence starts at it (a lead byte whose tail is
// missing or out of range offends alone; the following bytes are examined again on their own).
func refUTF8(s string) (valid bool, repl string) {
	// fast path: pure ASCII
	ascii := true
	for i := 0; i < len(s); i++ {
		if s[i] >= 0x80 {
			ascii = false
			break
		}
	}
	if ascii {
		return true, s
	}
	valid = true
	var sb []byte
	i := 0
	for i < len(s) {
		b0 := s[i]
		if b0 < 0x80 {
			sb = append(sb, b0)
			i++
			continue
		}
		need := 0
		lo, hi := byte(0x80), byte(0xBF)
		switch {
		case b0 >= 0xC2 && b0 <= 0xDF:
			need = 1
		case b0 == 0xE0:
			need, lo = 2, 0xA0
		case b0 >= 0xE1 && b0 <= 0xEC, b0 == 0xEE, b0 == 0xEF:
			need = 2
		case b0 == 0xED:
			need, hi = 2, 0x9F
		case b0 == 0xF0:
			need, lo = 3, 0x90
		case b0 >= 0xF1 && b0 <= 0xF3:
			need = 3
		case b0 == 0xF4:
			need, hi = 3, 0x8F
		}
		ok := need > 0 && i+need < len(s)
		if ok {
			for k := 1; k <= need; k++ {
				c := s[i+k]
				l, h := byte(0x80), byte(0xBF)
				if k == 1 {
					l, h = lo, hi
				}
				if c < l || c > h {
					ok = false
					break
				}
			}
		}
		if ok {
			sb = append(sb, s[i:i+need+1]...)
			i += need + 1
			continue
		}
		valid = false
		sb = append(sb, 0xEF, 0xBF, 0xBD)
		i++
	}
	return valid, string(sb)
}

// ---------------------------------------------------------------------------------------------
// plain counters (flushed into the evidence at the end)

type counters struct {
	mu sync.Mutex
	m  map[string]int64
}

var ctr = &counters{m: map[string]int64{}}

func (c *counters) add(k string, n int64) {
	c.mu.Lock()
	c.m[k] += n
	c.mu.Unlock()
}

// wantSpace: VERIF_SPACE / replay selection; a full sub-space name or a prefix of it.
func wantSpace(only, name string) bool {
	return only == "" || only == name || strings.HasPrefix(name, only)
}

func b2i(b bool) int {
	if b {
		return 1
	}
	return 0
}
