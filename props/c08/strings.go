package main

import (
	"fmt"
	"unicode/utf8"

	"github.com/99designs/gqlgen/graphql"

	"verif/internal/ev"
	"verif/internal/sjson"
)

// strFn is one (Marshal, Unmarshal) pair whose Go value is a string.
type strFn struct {
	name string // signature prefix
	m    func(string) graphql.Marshaler
	u    func(any) (string, error)
}

var strFns = []strFn{
	{"string", graphql.MarshalString, graphql.UnmarshalString},
	{"id", graphql.MarshalID, graphql.UnmarshalID},
}

func strNontrivial(s string) bool {
	for i := 0; i < len(s); i++ {
		c := s[i]
		if c < 0x20 || c == '"' || c == '\\' || c >= 0x7f {
			return true
		}
	}
	return false
}

// checkString applies oracles 1-3 to one string through one function pair.
func checkString(fn strFn, s string, where string) {
	valid, want := refUTF8(s)
	out, pan := marshal(fn.m(s))
	wit := func(why string) map[string]any {
		return map[string]any{"space": where, "function": "Marshal" + fnTitle(fn.name), "input_hex": hexOf(s), "input_quoted": fmt.Sprintf("%q", s),
			"output_hex": hexOf(string(out)), "output_quoted": fmt.Sprintf("%q", clip(string(out))), "expected_decoded": fmt.Sprintf("%q", want), "why": why}
	}
	if pan != nil {
		viol.hit(fn.name+"-marshal-panic", where, s, wit(fmt.Sprint("panic: ", pan)))
		return
	}
	v, err := sjson.Parse(out)
	if err != nil {
		// classify: raw invalid bytes of the input copied to the output, or something else
		outValid, _ := refUTF8(string(out))
		if !valid && !outValid {
			viol.hit(fn.name+"-invalid-utf8-passthrough", where, s, wit("output is not valid UTF-8 (strict parser: "+err.Error()+")"))
		} else {
			viol.hit(fn.name+"-invalid-json", where, s, wit("strict parser: "+err.Error()))
		}
		return
	}
	if v.Kind != sjson.String || v.Str != want {
		viol.hit(fn.name+"-decode-mismatch", where, s, wit(fmt.Sprintf("strict parser decodes %s", clip(v.Render()))))
		return
	}
	dv, err := stdDecode(out)
	ds, isStr := dv.(string)
	if err != nil || !isStr || ds != want {
		viol.hit(fn.name+"-decode-mismatch", where+"/encoding-json", s, wit(fmt.Sprintf("encoding/json decodes %#v err=%v", dv, err)))
		return
	}
	back, err := fn.u(ds)
	if err != nil || back != want {
		viol.hit(fn.name+"-unmarshal-mismatch", where, s, wit(fmt.Sprintf("Unmarshal(decoded) = %q, %v", back, err)))
	}
}

func fnTitle(n string) string {
	switch n {
	case "string":
		return "String"
	case "id":
		return "ID"
	}
	return n
}

// utf8SelfTest cross-checks the hand-written reference against unicode/utf8 (two independent
// implementations of RFC 3629 must agree, otherwise the harness itself is wrong).
func utf8SelfTest() string {
	goRepl := func(s string) (bool, string) {
		ok := true
		var b []byte
		for i := 0; i < len(s); {
			r, n := utf8.DecodeRuneInString(s[i:])
			if r == utf8.RuneError && n == 1 {
				ok = false
				b = append(b, "\uFFFD"...)
			} else {
				b = append(b, s[i:i+n]...)
			}
			i += n
		}
		return ok, string(b)
	}
	chk := func(s string) string {
		v1, r1 := refUTF8(s)
		v2, r2 := goRepl(s)
		if v1 != v2 || r1 != r2 || v1 != utf8.ValidString(s) {
			return fmt.Sprintf("reference UTF-8 decoder disagrees with unicode/utf8 on %q", s)
		}
		return ""
	}
	for a := 0; a < 256; a++ {
		for b := 0; b < 256; b++ {
			if e := chk(string([]byte{byte(a), byte(b)})); e != "" {
				return e
			}
			if e := chk(string([]byte{byte(a), byte(b), 0x80})); e != "" {
				return e
			}
			if e := chk(string([]byte{0xF0, byte(a), byte(b), 0xBF})); e != "" {
				return e
			}
			if e := chk(string([]byte{0xF4, byte(a), byte(b)})); e != "" {
				return e
			}
		}
	}
	for cp := 0; cp <= 0x10FFFF; cp += 1 {
		if e := chk(encodeRaw(cp)); e != "" {
			return e
		}
	}
	return ""
}

// encodeRaw encodes any integer 0..0x1FFFFF in the UTF-8 bit layout without validity checks
// (surrogates come out as their 3-byte "WTF-8" form, > U+10FFFF as 4 bytes F4 90.. and above).
func encodeRaw(cp int) string {
	switch {
	case cp < 0x80:
		return string([]byte{byte(cp)})
	case cp < 0x800:
		return string([]byte{0xC0 | byte(cp>>6), 0x80 | byte(cp&0x3F)})
	case cp < 0x10000:
		return string([]byte{0xE0 | byte(cp>>12), 0x80 | byte((cp>>6)&0x3F), 0x80 | byte(cp&0x3F)})
	default:
		return string([]byte{0xF0 | byte(cp>>18), 0x80 | byte((cp>>12)&0x3F), 0x80 | byte((cp>>6)&0x3F), 0x80 | byte(cp&0x3F)})
	}
}

// overlong encodings of cp in n bytes (n larger than necessary).
func overlong(cp, n int) string {
	switch n {
	case 2:
		return string([]byte{0xC0 | byte(cp>>6), 0x80 | byte(cp&0x3F)})
	case 3:
		return string([]byte{0xE0 | byte(cp>>12), 0x80 | byte((cp>>6)&0x3F), 0x80 | byte(cp&0x3F)})
	default:
		return string([]byte{0xF0 | byte(cp>>18), 0x80 | byte((cp>>12)&0x3F), 0x80 | byte((cp>>6)&0x3F), 0x80 | byte(cp&0x3F)})
	}
}

// palette for random mixes
var strPalette = func() []string {
	p := []string{"", "a", "Z", "0", " ", "~", "\x7f", "\"", "\\", "/", "\\u0041", "\\\"", "\x00", "\x01", "\x08", "\t", "\n", "\x0b", "\x0c", "\r", "\x1f",
		"\u00e9", "\u00df", "\u0080", "\u07ff", "\u0800", "\u2028", "\u2029", "\ufeff", "\ufffd", "\ufffe", "\uffff", "\ud7ff", "\ue000", "\u20ac", "\u65e5\u672c", "\U00010000", "\U0001F600", "\U0010FFFF", "\U0002FFFE",
		"<", ">", "&", "'", "{", "}", "[", "]", ",", ":", "null", "true", "1e5",
		// offending bytes and broken sequences
		"\x80", "\xbf", "\xc0", "\xc1", "\xc2", "\xdf", "\xe0", "\xe0\x80", "\xe0\xa0", "\xed\xa0\x80", "\xed\xbf\xbf", "\xef\xbf", "\xf0", "\xf0\x90", "\xf0\x90\x80",
		"\xf4\x90\x80\x80", "\xf5", "\xf8\x88\x80\x80\x80", "\xfe", "\xff", "\xc0\x80", "\xc0\xaf", "\xe0\x80\xaf", "\xf0\x80\x80\xaf", "\xe2\x82", "\xe2\x28\xa1", "\xf0\x28\x8c\xbc"}
	return p
}()

func randString(r *rng, maxParts int) string {
	n := r.intn(maxParts + 1)
	var b []byte
	for i := 0; i < n; i++ {
		switch r.intn(10) {
		case 0: // random byte
			b = append(b, byte(r.intn(256)))
		case 1: // random valid rune
			cp := r.intn(0x110000)
			if cp >= 0xD800 && cp <= 0xDFFF {
				cp -= 0x800
			}
			b = append(b, encodeRaw(cp)...)
		case 2, 3: // ASCII letter
			b = append(b, byte('a'+r.intn(26)))
		default:
			b = append(b, strPalette[r.intn(len(strPalette))]...)
		}
	}
	return string(b)
}

func runStrings(only string) {
	want := func(n string) bool { return wantSpace(only, n) }

	// S1: every code point as a one-rune string (surrogates and nothing else come out ill-formed).
	if want("string/every-code-point") {
		s1 := sp.get("string/every-code-point")
		parallel(0x110000, 4096, func(ci, lo, hi int) {
			bs := make([]*batch, len(strFns))
			for i := range bs {
				bs[i] = s1.batch()
			}
			for cp := lo; cp < hi; cp++ {
				s := encodeRaw(cp)
				for i, fn := range strFns {
					checkString(fn, s, s1.name)
					bs[i].add(strNontrivial(s), hashStr(fn.name, s))
				}
			}
			for _, b := range bs {
				b.flush()
			}
		})
		s1.exhaustive = fmt.Sprintf("all %d integers 0..0x10FFFF in UTF-8 bit layout (1112064 scalar values + 2048 surrogate encodings) x %d functions", 0x110000, len(strFns))
	}

	// S2: every single byte, alone and embedded.
	if want("string/every-byte") {
		s2 := sp.get("string/every-byte")
		b := s2.batch()
		for c := 0; c < 256; c++ {
			for _, s := range []string{string([]byte{byte(c)}), "a" + string([]byte{byte(c)}) + "z", string([]byte{byte(c)}) + "\"", "\\" + string([]byte{byte(c)})} {
				for _, fn := range strFns {
					checkString(fn, s, s2.name)
					b.add(strNontrivial(s), hashStr(fn.name, s))
				}
			}
		}
		b.flush()
		s2.exhaustive = "all 256 byte values x {alone, a?z, ?\", \\?} x 2 functions"
	}

	// S3: every two-byte sequence.
	if want("string/every-two-bytes") {
		s3 := sp.get("string/every-two-bytes")
		parallel(65536, 1024, func(ci, lo, hi int) {
			b := s3.batch()
			for x := lo; x < hi; x++ {
				s := string([]byte{byte(x >> 8), byte(x)})
				for _, fn := range strFns {
					checkString(fn, s, s3.name)
					b.add(strNontrivial(s), hashStr(fn.name, s))
				}
			}
			b.flush()
		})
		s3.exhaustive = "all 65536 two-byte sequences x 2 functions"
	}

	// S4: structured ill-formed input: overlongs, beyond U+10FFFF, truncated tails, bad tails.
	if want("string/ill-formed-structured") {
		s4 := sp.get("string/ill-formed-structured")
		var list []string
		for _, cp := range []int{0, 0x2F, 0x7F} {
			list = append(list, overlong(cp, 2), overlong(cp, 3), overlong(cp, 4))
		}
		for _, cp := range []int{0x80, 0x7FF} {
			list = append(list, overlong(cp, 3), overlong(cp, 4))
		}
		for _, cp := range []int{0x800, 0xFFFF} {
			list = append(list, overlong(cp, 4))
		}
		for _, cp := range []int{0x110000, 0x13FFFF, 0x140000, 0x1FFFFF} {
			list = append(list, encodeRaw(cp))
		}
		// truncated tails of well-formed runes, followed by nothing / ASCII / quote / another lead
		for _, cp := range []int{0x80, 0x7FF, 0x800, 0xFFF, 0x1000, 0xD7FF, 0xE000, 0xFFFD, 0xFFFF, 0x10000, 0x3FFFF, 0x40000, 0xFFFFF, 0x100000, 0x10FFFF} {
			e := encodeRaw(cp)
			for cut := 1; cut < len(e); cut++ {
				for _, tail := range []string{"", "a", "\"", "\\", "\xc3", "\u00e9", e} {
					list = append(list, e[:cut]+tail, "x"+e[:cut]+tail)
				}
			}
		}
		// every 3-byte combination for the leads with restricted second bytes, third byte at the edges
		for _, lead := range []byte{0xE0, 0xED, 0xEF, 0xE1} {
			for b2 := 0; b2 < 256; b2++ {
				for _, b3 := range []byte{0x00, 0x22, 0x7F, 0x80, 0xBF, 0xC0, 0xFF} {
					list = append(list, string([]byte{lead, byte(b2), b3}))
				}
			}
		}
		for _, lead := range []byte{0xF0, 0xF4, 0xF1, 0xF5} {
			for b2 := 0; b2 < 256; b2++ {
				for _, b3 := range []byte{0x7F, 0x80, 0xBF, 0xC0} {
					for _, b4 := range []byte{0x22, 0x7F, 0x80, 0xBF, 0xC0} {
						list = append(list, string([]byte{lead, byte(b2), b3, b4}))
					}
				}
			}
		}
		parallel(len(list), 512, func(ci, lo, hi int) {
			b := s4.batch()
			for _, s := range list[lo:hi] {
				for _, fn := range strFns {
					checkString(fn, s, s4.name)
					b.add(true, hashStr(fn.name, s))
				}
			}
			b.flush()
		})
		s4.exhaustive = fmt.Sprintf("fixed list of %d overlong / out-of-range / truncated / bad-tail sequences x 2 functions", len(list))
	}

	// S5: random mixes.
	if want("string/random-mix") {
		s5 := sp.get("string/random-mix")
		n := ev.Pick(200_000, 3_000_000)
		parallel(n, 2000, func(ci, lo, hi int) {
			r := newRng(s5.name, ci)
			b := s5.batch()
			for i := lo; i < hi; i++ {
				s := randString(r, 1+r.intn(24))
				fn := strFns[i&1]
				checkString(fn, s, s5.name)
				b.add(strNontrivial(s), hashStr(fn.name, s))
			}
			b.flush()
		})
	}
}
