package main

import (
	"bytes"
	"context"
	"encoding/json"
	"fmt"
	"math"
	"math/big"
	"strconv"
	"strings"
	"time"

	"github.com/99designs/gqlgen/graphql"
	"github.com/google/uuid"

	"verif/internal/ev"
	"verif/internal/sjson"
)

// ---------------------------------------------------------------------------------------------
// floats

func respCtx() context.Context {
	return graphql.WithResponseContext(context.Background(), graphql.DefaultErrorPresenter, graphql.DefaultRecover)
}

func floatSpecials() []float64 {
	fs := []float64{0, math.Copysign(0, -1), 1, -1, 0.1, 0.5, 1.5, 1e-7, 1e-6, 1e-5, 1e-4, 123456, 1234567, 1e20, 1e21, 1e22, 1e100, 1e-100, 1e308, 1.7976931348623157e308,
		math.MaxFloat64, -math.MaxFloat64, math.SmallestNonzeroFloat64, -math.SmallestNonzeroFloat64, 2.2250738585072014e-308, 2.225073858507201e-308, math.MaxFloat32, math.SmallestNonzeroFloat32,
		1 << 53, 1<<53 + 2, 1<<53 - 1, -(1 << 53), 1 << 63, 1 << 64, math.Pi, math.E, 1.0 / 3, 2.0 / 3, 100, 1e15, 1e16, 1e17, 123456789012345680, 0.000001234, 5e-324, 4.9e-324, 1e-323}
	for e := -1074; e <= 1023; e += 7 {
		fs = append(fs, math.Ldexp(1, e), -math.Ldexp(1, e), math.Nextafter(math.Ldexp(1, e), 0), math.Nextafter(math.Ldexp(1, e), math.Inf(1)))
	}
	for e := -323; e <= 308; e++ {
		f, _ := strconv.ParseFloat("1e"+strconv.Itoa(e), 64)
		fs = append(fs, f, -f, math.Nextafter(f, 0), math.Nextafter(f, math.Inf(1)))
	}
	return fs
}

func nonFinite(r *rng, i int) float64 {
	switch i % 4 {
	case 0:
		return math.Inf(1)
	case 1:
		return math.Inf(-1)
	case 2:
		return math.NaN()
	}
	// random NaN payload, either sign
	return math.Float64frombits(0x7FF0000000000000 | (r.u64() & 0x800FFFFFFFFFFFFF) | 1)
}

func floatNontrivial(f float64) bool {
	if f == 0 {
		return math.Signbit(f)
	}
	a := math.Abs(f)
	return a < 1e-4 || a >= 1e21 || a < 2.2250738585072014e-308 || f != math.Trunc(f) || a >= 1<<53
}

func checkFloatBytes(sigp, where string, f float64, out []byte, pan any) (any, bool) {
	wit := func(why string) map[string]any {
		return map[string]any{"space": where, "function": sigp, "value": strconv.FormatFloat(f, 'g', -1, 64), "bits": fmt.Sprintf("%016x", math.Float64bits(f)), "output": clip(string(out)), "why": why}
	}
	key := fmt.Sprintf("%016x", math.Float64bits(f))
	if pan != nil {
		viol.hit(sigp+"-marshal-panic", where, key, wit(fmt.Sprint("panic: ", pan)))
		return nil, false
	}
	v, err := sjson.Parse(out)
	if err != nil {
		viol.hit(sigp+"-invalid-json", where, key, wit("strict parser: "+err.Error()))
		return nil, false
	}
	if v.Kind != sjson.Number || !numMatches(xfloat(f), v.Num) {
		viol.hit(sigp+"-decode-mismatch", where, key, wit("strict parser decodes "+v.Render()))
		return nil, false
	}
	dv, err := stdDecode(out)
	if err != nil || !numMatches(xfloat(f), fromStd(dv).Num) {
		viol.hit(sigp+"-decode-mismatch", where+"/encoding-json", key, wit(fmt.Sprintf("encoding/json decodes %#v err=%v", dv, err)))
		return nil, false
	}
	return dv, true
}

func checkFloat(f float64, where string) {
	key := fmt.Sprintf("%016x", math.Float64bits(f))
	// plain Float binding
	out, pan := marshal(graphql.MarshalFloat(f))
	if dv, ok := checkFloatBytes("float", where, f, out, pan); ok {
		var plain float64
		_ = json.Unmarshal(out, &plain)
		ins := []any{dv, plain}
		if lit := strings.TrimSpace(string(out)); plainInt(lit) { // an integer-looking token re-entering as a query literal is an int64
			if iv, err := strconv.ParseInt(lit, 10, 64); err == nil {
				ins = append(ins, iv)
			}
		}
		for _, in := range ins {
			back, err := graphql.UnmarshalFloat(in)
			if err != nil || back != f {
				viol.hit("float-unmarshal-mismatch", fmt.Sprintf("%T", in), key, map[string]any{"space": where, "function": "UnmarshalFloat", "value": strconv.FormatFloat(f, 'g', -1, 64), "output": string(out), "input": fmt.Sprintf("%#v", in), "result": back, "error": fmt.Sprint(err)})
			}
		}
	}
	// FloatContext binding (the default for the Float scalar)
	ctx := respCtx()
	var buf bytes.Buffer
	var cerr error
	func() {
		defer func() {
			if r := recover(); r != nil {
				pan = r
			}
		}()
		cerr = graphql.MarshalFloatContext(f).MarshalGQLContext(ctx, &buf)
	}()
	if cerr != nil {
		viol.hit("floatcontext-finite-rejected", where, key, map[string]any{"space": where, "function": "MarshalFloatContext", "value": strconv.FormatFloat(f, 'g', -1, 64), "error": cerr.Error()})
		return
	}
	if dv, ok := checkFloatBytes("floatcontext", where, f, buf.Bytes(), pan); ok {
		back, err := graphql.UnmarshalFloatContext(ctx, dv)
		if err != nil || back != f {
			viol.hit("floatcontext-unmarshal-mismatch", fmt.Sprintf("%T", dv), key, map[string]any{"space": where, "function": "UnmarshalFloatContext", "value": strconv.FormatFloat(f, 'g', -1, 64), "input": fmt.Sprintf("%#v", dv), "result": back, "error": fmt.Sprint(err)})
		}
	}
}

// checkNonFinite: oracle 5 at function level. The context marshaler must return an error and the
// adapter the generated code wraps it in must emit a valid JSON value and record exactly one error.
func checkNonFinite(f float64, where string) {
	key := fmt.Sprintf("%016x", math.Float64bits(f))
	ctx := respCtx()
	var buf bytes.Buffer
	err := graphql.MarshalFloatContext(f).MarshalGQLContext(ctx, &buf)
	wit := func(why string, out []byte) map[string]any {
		return map[string]any{"space": where, "function": "MarshalFloatContext", "value": fmt.Sprint(f), "bits": key, "output": string(out), "why": why}
	}
	if err == nil {
		viol.hit("floatcontext-nonfinite-emitted", where, key, wit("no error returned for a non-finite float", buf.Bytes()))
		return
	}
	if buf.Len() != 0 {
		viol.hit("floatcontext-nonfinite-emitted", where, key, wit("error returned but bytes were written first", buf.Bytes()))
	}
	ctx = respCtx()
	out, pan := marshal(graphql.WrapContextMarshaler(ctx, graphql.MarshalFloatContext(f)))
	if pan != nil {
		viol.hit("floatcontext-nonfinite-panic", where, key, wit(fmt.Sprint("panic: ", pan), out))
		return
	}
	v, perr := sjson.Parse(out)
	if perr != nil || v.Kind != sjson.Null {
		viol.hit("floatcontext-nonfinite-emitted", where, key, wit("WrapContextMarshaler output is not the JSON null", out))
		return
	}
	if n := len(graphql.GetErrors(ctx)); n != 1 {
		viol.hit("floatcontext-nonfinite-no-error", where, key, wit(fmt.Sprintf("%d errors recorded in the response context, expected 1", n), out))
	}
}

func runFloats(only string) {
	want := func(n string) bool { return wantSpace(only, n) }
	if want("float/specials") {
		s := sp.get("float/specials")
		b := s.batch()
		list := floatSpecials()
		for _, f := range list {
			checkFloat(f, s.name)
			b.add(true, hashStr("f", strconv.FormatUint(math.Float64bits(f), 16)))
		}
		b.flush()
		s.exhaustive = fmt.Sprintf("fixed list of %d finite specials (signed zeros, extremes, subnormals, every power of ten and every 7th power of two with both neighbours)", len(list))
	}
	if want("float/random-bits") {
		s := sp.get("float/random-bits")
		n := ev.Pick(150_000, 1_500_000)
		parallel(n, 2000, func(ci, lo, hi int) {
			r := newRng(s.name, ci)
			b := s.batch()
			for i := lo; i < hi; i++ {
				f := math.Float64frombits(r.u64())
				if math.IsNaN(f) || math.IsInf(f, 0) {
					checkNonFinite(f, s.name)
					b.add(true, hashStr("nf", strconv.FormatUint(math.Float64bits(f), 16)))
					continue
				}
				if i%4 == 0 { // a quarter of the draws: "human" magnitudes with few digits
					f = float64(int64(r.u64()>>uint(r.intn(64)))) / math.Pow(10, float64(r.intn(12)))
					if r.intn(2) == 0 {
						f = -f
					}
				}
				checkFloat(f, s.name)
				b.add(floatNontrivial(f), hashStr("f", strconv.FormatUint(math.Float64bits(f), 16)))
			}
			b.flush()
		})
	}
	if want("float/non-finite") {
		s := sp.get("float/non-finite")
		n := ev.Pick(4_000, 100_000)
		parallel(n, 1000, func(ci, lo, hi int) {
			r := newRng(s.name, ci)
			b := s.batch()
			for i := lo; i < hi; i++ {
				f := nonFinite(r, i)
				checkNonFinite(f, s.name)
				b.add(true, hashStr("nf", strconv.FormatUint(math.Float64bits(f), 16)))
			}
			b.flush()
		})
	}
}

// ---------------------------------------------------------------------------------------------
// booleans

func runBool(only string) {
	if !wantSpace(only, "boolean/both") {
		return
	}
	s := sp.get("boolean/both")
	b := s.batch()
	for _, v := range []bool{true, false} {
		out, pan := marshal(graphql.MarshalBoolean(v))
		key := strconv.FormatBool(v)
		wit := map[string]any{"space": s.name, "function": "MarshalBoolean", "value": v, "output": string(out)}
		pv, err := sjson.Parse(out)
		dv, derr := stdDecode(out)
		switch {
		case pan != nil:
			viol.hit("boolean-marshal-panic", s.name, key, wit)
		case err != nil:
			viol.hit("boolean-invalid-json", s.name, key, wit)
		case pv.Kind != sjson.Bool || pv.B != v || derr != nil || dv != any(v):
			viol.hit("boolean-decode-mismatch", s.name, key, wit)
		default:
			if back, err := graphql.UnmarshalBoolean(dv); err != nil || back != v {
				viol.hit("boolean-unmarshal-mismatch", s.name, key, wit)
			}
		}
		b.add(true, hashStr("b", key))
	}
	b.flush()
	s.exhaustive = "both values"
}

// ---------------------------------------------------------------------------------------------
// times

// parseRFC3339 is a hand-written strict RFC 3339 date-time parser (independent of package time's
// parser); it returns the UTC instant as (unix seconds, nanoseconds) and the zone offset in seconds.
func parseRFC3339(s string) (sec int64, nsec int64, off int, ok bool) {
	num := func(t string) (int, bool) {
		if t == "" {
			return 0, false
		}
		n := 0
		for i := 0; i < len(t); i++ {
			if t[i] < '0' || t[i] > '9' {
				return 0, false
			}
			n = n*10 + int(t[i]-'0')
		}
		return n, true
	}
	if len(s) < 20 || s[4] != '-' || s[7] != '-' || s[10] != 'T' || s[13] != ':' || s[16] != ':' {
		return
	}
	Y, o1 := num(s[0:4])
	M, o2 := num(s[5:7])
	D, o3 := num(s[8:10])
	h, o4 := num(s[11:13])
	mi, o5 := num(s[14:16])
	se, o6 := num(s[17:19])
	if !(o1 && o2 && o3 && o4 && o5 && o6) || M < 1 || M > 12 || D < 1 || D > 31 || h > 23 || mi > 59 || se > 60 {
		return
	}
	rest := s[19:]
	if rest[0] == '.' {
		j := 1
		for j < len(rest) && rest[j] >= '0' && rest[j] <= '9' {
			j++
		}
		frac := rest[1:j]
		if frac == "" || len(frac) > 9 {
			return
		}
		for len(frac) < 9 {
			frac += "0"
		}
		n, _ := num(frac)
		nsec = int64(n)
		rest = rest[j:]
	}
	switch {
	case rest == "Z":
	case len(rest) == 6 && (rest[0] == '+' || rest[0] == '-') && rest[3] == ':':
		oh, a := num(rest[1:3])
		om, b := num(rest[4:6])
		if !a || !b || oh > 23 || om > 59 {
			return
		}
		off = oh*3600 + om*60
		if rest[0] == '-' {
			off = -off
		}
	default:
		return
	}
	// days from civil (proleptic Gregorian), Howard Hinnant's algorithm
	y := int64(Y)
	if M <= 2 {
		y--
	}
	era := y / 400
	if y < 0 {
		era = (y - 399) / 400
	}
	yoe := y - era*400
	mp := int64((M + 9) % 12)
	doy := (153*mp+2)/5 + int64(D) - 1
	doe := yoe*365 + yoe/4 - yoe/100 + doy
	days := era*146097 + doe - 719468
	sec = days*86400 + int64(h)*3600 + int64(mi)*60 + int64(se) - int64(off)
	return sec, nsec, off, true
}

func checkTime(t time.Time, where string) {
	key := fmt.Sprintf("%020d.%09d%+d", t.Unix()+1<<40, t.Nanosecond(), zoneOff(t))
	out, pan := marshal(graphql.MarshalTime(t))
	wit := func(why string) map[string]any {
		return map[string]any{"space": where, "function": "MarshalTime", "unix": t.Unix(), "nanos": t.Nanosecond(), "zone_offset_s": zoneOff(t), "output": string(out), "why": why}
	}
	if pan != nil {
		viol.hit("time-marshal-panic", where, key, wit(fmt.Sprint("panic: ", pan)))
		return
	}
	v, err := sjson.Parse(out)
	if err != nil {
		viol.hit("time-invalid-json", where, key, wit("strict parser: "+err.Error()))
		return
	}
	if t.IsZero() {
		// specified mapping: the zero instant serialises as null
		if v.Kind != sjson.Null {
			viol.hit("time-zero-not-null", where, key, wit("zero time did not serialise as null"))
		}
		return
	}
	sec, nsec, off, ok := int64(0), int64(0), 0, false
	if v.Kind == sjson.String {
		sec, nsec, off, ok = parseRFC3339(v.Str)
	}
	if !ok || sec != t.Unix() || nsec != int64(t.Nanosecond()) || off != zoneOff(t) {
		viol.hit("time-decode-mismatch", where, key, wit(fmt.Sprintf("decoded %s denotes unix=%d nanos=%d offset=%d (well-formed=%v)", v.Render(), sec, nsec, off, ok)))
		return
	}
	dv, derr := stdDecode(out)
	if ds, isStr := dv.(string); derr != nil || !isStr || ds != v.Str {
		viol.hit("time-decode-mismatch", where+"/encoding-json", key, wit(fmt.Sprintf("encoding/json decodes %#v err=%v", dv, derr)))
		return
	}
	back, err := graphql.UnmarshalTime(dv)
	if err != nil || !back.Equal(t) || zoneOff(back) != zoneOff(t) {
		viol.hit("time-unmarshal-mismatch", where, key, wit(fmt.Sprintf("UnmarshalTime(%#v) = %v, %v", dv, back, err)))
	}
}

func zoneOff(t time.Time) int { _, o := t.Zone(); return o }

func randZone(r *rng) *time.Location {
	switch r.intn(8) {
	case 0:
		return time.UTC
	case 1:
		return time.FixedZone("zero", 0)
	case 2:
		return time.FixedZone("max", 23*3600+59*60)
	case 3:
		return time.FixedZone("min", -(23*3600 + 59*60))
	case 4:
		return time.FixedZone("IST", 5*3600+30*60)
	}
	m := r.intn(2*14*60+1) - 14*60 // whole minutes within +-14:00
	return time.FixedZone("", m*60)
}

func randNanos(r *rng) int {
	switch r.intn(8) {
	case 0:
		return 0
	case 1:
		return 1
	case 2:
		return 999999999
	case 3:
		return 100000000
	case 4:
		return r.intn(1000) * 1000000
	case 5:
		return r.intn(1000000) * 1000
	}
	return r.intn(1000000000)
}

func runTimes(only string) {
	want := func(n string) bool { return wantSpace(only, n) }
	if want("time/every-year") {
		s := sp.get("time/every-year")
		per := ev.Pick(6, 60)
		parallel(9999, 200, func(ci, lo, hi int) {
			r := newRng(s.name, ci)
			b := s.batch()
			for y := lo + 1; y <= hi; y++ {
				for k := 0; k < per; k++ {
					var t time.Time
					switch k {
					case 0:
						t = time.Date(y, 1, 1, 0, 0, 0, 0, time.UTC)
					case 1:
						t = time.Date(y, 12, 31, 23, 59, 59, 999999999, time.UTC)
					case 2:
						t = time.Date(y, 2, 29, 12, 0, 0, 0, time.UTC) // normalises in non-leap years
					default:
						t = time.Date(y, time.Month(1+r.intn(12)), 1+r.intn(28), r.intn(24), r.intn(60), r.intn(60), randNanos(r), randZone(r))
					}
					if t.Year() < 1 || t.Year() > 9999 {
						continue
					}
					checkTime(t, s.name)
					b.add(!t.IsZero(), hashStr("t", strconv.FormatInt(t.Unix(), 10), strconv.Itoa(t.Nanosecond()), strconv.Itoa(zoneOff(t))))
				}
			}
			b.flush()
		})
		s.exhaustive = fmt.Sprintf("every year 1..9999 x {first instant, last nanosecond, Feb 29 (normalised)} + %d seeded random instants per year with random whole-minute zones", per-3)
	}
	if want("time/zero-and-edges") {
		s := sp.get("time/zero-and-edges")
		b := s.batch()
		z := time.Time{}
		list := []time.Time{z, z.In(time.FixedZone("e", 3600)), z.In(time.FixedZone("w", -3600)), z.Add(1), z.Add(time.Second), time.Unix(0, 0).UTC(), time.Unix(0, 0), time.Unix(-1, 999999999).UTC(),
			time.Date(9999, 12, 31, 23, 59, 59, 999999999, time.FixedZone("", -14*3600)), time.Date(1, 1, 1, 0, 0, 0, 1, time.FixedZone("", 14*3600)),
			time.Date(2016, 12, 31, 23, 59, 59, 0, time.UTC), time.Date(2000, 2, 29, 0, 0, 0, 0, time.UTC), time.Date(2038, 1, 19, 3, 14, 8, 0, time.UTC)}
		for _, t := range list {
			if t.Year() < 1 || t.Year() > 9999 {
				continue
			}
			checkTime(t, s.name)
			b.add(true, hashStr("t", strconv.FormatInt(t.Unix(), 10), strconv.Itoa(t.Nanosecond()), strconv.Itoa(zoneOff(t))))
		}
		b.flush()
	}
}

// ---------------------------------------------------------------------------------------------
// durations

// parseISODuration: hand-written ISO 8601 duration reader ([-]PnYnMnWnDTnHnMnS, decimal fractions
// allowed), evaluated exactly with the conventions the marshaler documents: Y=365 d, M=Y/12, W=7 d,
// D=24 h. Returns nanoseconds as an exact rational.
func parseISODuration(s string) (*big.Rat, bool) {
	neg := false
	if strings.HasPrefix(s, "-") {
		neg = true
		s = s[1:]
	}
	if !strings.HasPrefix(s, "P") || len(s) < 3 {
		return nil, false
	}
	s = s[1:]
	total := new(big.Rat)
	inTime := false
	unitsDate := map[byte]int64{'Y': 365 * 24 * 3600, 'M': 365 * 24 * 3600 / 12, 'W': 7 * 24 * 3600, 'D': 24 * 3600}
	unitsTime := map[byte]int64{'H': 3600, 'M': 60, 'S': 1}
	order := "YMWD"
	pos := 0
	seenAny := false
	for len(s) > 0 {
		if s[0] == 'T' {
			if inTime {
				return nil, false
			}
			inTime = true
			order, pos = "HMS", 0
			s = s[1:]
			if s == "" {
				return nil, false
			}
			continue
		}
		j := 0
		dots := 0
		for j < len(s) && ((s[j] >= '0' && s[j] <= '9') || s[j] == '.') {
			if s[j] == '.' {
				dots++
			}
			j++
		}
		if j == 0 || j == len(s) || dots > 1 || s[0] == '.' || s[j-1] == '.' {
			return nil, false
		}
		u := s[j]
		k := strings.IndexByte(order[pos:], u)
		if k < 0 {
			return nil, false
		}
		pos += k + 1
		val, ok := new(big.Rat).SetString(s[:j])
		if !ok {
			return nil, false
		}
		secs := unitsDate[u]
		if inTime {
			secs = unitsTime[u]
		}
		total.Add(total, val.Mul(val, big.NewRat(secs*1_000_000_000, 1)))
		s = s[j+1:]
		seenAny = true
	}
	if !seenAny {
		return nil, false
	}
	if neg {
		total.Neg(total)
	}
	return total, true
}

func checkDuration(d time.Duration, where string) {
	mag := uint64(d)
	if d < 0 {
		mag = -mag
	}
	key := fmt.Sprintf("%020d%c", mag, "+-"[b2i(d < 0)]) // witnesses ordered by magnitude: the smallest failing durations are kept
	out, pan := marshal(graphql.MarshalDuration(d))
	wit := func(why string) map[string]any {
		return map[string]any{"space": where, "function": "MarshalDuration", "nanoseconds": int64(d), "go_string": d.String(), "output": string(out), "why": why}
	}
	if pan != nil {
		viol.hit("duration-marshal-panic", where, key, wit(fmt.Sprint("panic: ", pan)))
		return
	}
	v, err := sjson.Parse(out)
	if err != nil {
		viol.hit("duration-invalid-json", where, key, wit("strict parser: "+err.Error()))
		return
	}
	okDec := false
	var denotes string
	if v.Kind == sjson.String {
		if r, ok := parseISODuration(v.Str); ok {
			diff := new(big.Rat).Sub(r, big.NewRat(int64(d), 1))
			diff.Abs(diff)
			okDec = diff.Cmp(big.NewRat(1, 2)) < 0
			denotes = r.FloatString(3) + " ns"
		} else {
			denotes = "not an ISO 8601 duration"
		}
	}
	class := durClass(d, v)
	if !okDec {
		viol.hit("duration-decode-mismatch"+class, where, key, wit(fmt.Sprintf("decoded %s denotes %s", v.Render(), denotes)))
		return
	}
	dv, derr := stdDecode(out)
	if ds, isStr := dv.(string); derr != nil || !isStr || ds != v.Str {
		viol.hit("duration-decode-mismatch", where+"/encoding-json", key, wit(fmt.Sprintf("encoding/json decodes %#v err=%v", dv, derr)))
		return
	}
	var back time.Duration
	func() {
		defer func() {
			if r := recover(); r != nil {
				pan = r
			}
		}()
		back, err = graphql.UnmarshalDuration(dv)
	}()
	if pan != nil || err != nil || back != d {
		viol.hit("duration-unmarshal-mismatch"+class, where, key, wit(fmt.Sprintf("UnmarshalDuration(%#v) = %d ns, err=%v panic=%v", dv, int64(back), err, pan)))
	}
}

// durClass refines duration signatures so that distinct failure classes stay distinguishable:
// the one non-negatable value, and texts carrying a minus sign inside (a negative component).
func durClass(d time.Duration, v *sjson.Value) string {
	if d == math.MinInt64 {
		return "-minint64"
	}
	if v != nil && v.Kind == sjson.String && strings.Contains(strings.TrimPrefix(v.Str, "-"), "-") {
		return "-negative-component"
	}
	return ""
}

func runDurations(only string) {
	want := func(n string) bool { return wantSpace(only, n) }
	if want("duration/grid") {
		s := sp.get("duration/grid")
		var list []time.Duration
		units := []time.Duration{1, time.Microsecond, time.Millisecond, time.Second, time.Minute, time.Hour, 24 * time.Hour, 7 * 24 * time.Hour, 730 * time.Hour, 8760 * time.Hour}
		for _, u := range units {
			for _, k := range []int64{1, 2, 3, 7, 10, 11, 12, 13, 23, 24, 25, 59, 60, 61, 99, 100, 101, 291, 292, 999, 1000, 1001} {
				if k > math.MaxInt64/int64(u) {
					continue
				}
				base := time.Duration(k) * u
				for _, dlt := range []time.Duration{-1000000001, -1001, -1000, -2, -1, 0, 1, 2, 1000, 1001, 1000000001} {
					v := base + dlt
					if (dlt > 0 && v < base) || (dlt < 0 && v > base) {
						continue
					}
					list = append(list, v, -v)
				}
			}
		}
		list = append(list, 0, math.MaxInt64, math.MaxInt64-1, math.MinInt64, math.MinInt64+1, math.MinInt64+2)
		seen := map[time.Duration]bool{}
		uniq := list[:0]
		for _, d := range list {
			if !seen[d] {
				seen[d] = true
				uniq = append(uniq, d)
			}
		}
		list = uniq
		parallel(len(list), 256, func(ci, lo, hi int) {
			b := s.batch()
			for _, d := range list[lo:hi] {
				checkDuration(d, s.name)
				b.add(true, hashStr("d", strconv.FormatInt(int64(d), 10)))
			}
			b.flush()
		})
		s.exhaustive = fmt.Sprintf("fixed grid of %d durations: {1,2,3,7,10..13,23..25,59..61,99..101,291,292,999..1001} x {ns,us,ms,s,min,h,day,week,month(730h),year(8760h)} with neighbours at +-1ns, +-2ns, +-1us(+-1ns), +-1s+1ns, both signs, plus 0, MaxInt64(-1), MinInt64(+1,+2)", len(list))
	}
	if want("duration/random") {
		s := sp.get("duration/random")
		n := ev.Pick(120_000, 1_500_000)
		parallel(n, 2000, func(ci, lo, hi int) {
			r := newRng(s.name, ci)
			b := s.batch()
			for i := lo; i < hi; i++ {
				var d time.Duration
				switch r.intn(4) {
				case 0: // log-uniform magnitude
					d = time.Duration(r.u64() >> uint(1+r.intn(63)))
				case 1: // whole units plus or minus a few ns
					u := []time.Duration{time.Second, time.Minute, time.Hour, 24 * time.Hour, 7 * 24 * time.Hour, 730 * time.Hour, 8760 * time.Hour}[r.intn(7)]
					k := int64(r.u64()>>1) % (math.MaxInt64 / int64(u))
					if r.intn(2) == 0 {
						k %= 1000
					}
					d = time.Duration(k)*u + time.Duration(r.intn(7)-3)
				case 2: // full range
					d = time.Duration(r.u64() >> 1)
				default: // human: h/m/s.ms
					d = time.Duration(r.intn(100))*time.Hour + time.Duration(r.intn(60))*time.Minute + time.Duration(r.intn(60))*time.Second + time.Duration(r.intn(1000))*time.Millisecond
				}
				if r.intn(3) == 0 {
					d = -d
				}
				checkDuration(d, s.name)
				b.add(d != 0, hashStr("d", strconv.FormatInt(int64(d), 10)))
			}
			b.flush()
		})
	}
}

// ---------------------------------------------------------------------------------------------
// UUIDs

func checkUUID(id uuid.UUID, where string) {
	key := hexOf(string(id[:]))
	out, pan := marshal(graphql.MarshalUUID(id))
	wit := func(why string) map[string]any {
		return map[string]any{"space": where, "function": "MarshalUUID", "bytes_hex": key, "output": string(out), "why": why}
	}
	if pan != nil {
		viol.hit("uuid-marshal-panic", where, key, wit(fmt.Sprint("panic: ", pan)))
		return
	}
	v, err := sjson.Parse(out)
	if err != nil {
		viol.hit("uuid-invalid-json", where, key, wit("strict parser: "+err.Error()))
		return
	}
	if id == (uuid.UUID{}) {
		if v.Kind != sjson.Null {
			viol.hit("uuid-nil-not-null", where, key, wit("nil UUID did not serialise as null"))
		}
		return
	}
	want := key[0:8] + "-" + key[8:12] + "-" + key[12:16] + "-" + key[16:20] + "-" + key[20:32]
	if v.Kind != sjson.String || strings.ToLower(v.Str) != want {
		viol.hit("uuid-decode-mismatch", where, key, wit("strict parser decodes "+v.Render()+", expected "+want))
		return
	}
	dv, derr := stdDecode(out)
	if ds, isStr := dv.(string); derr != nil || !isStr || ds != v.Str {
		viol.hit("uuid-decode-mismatch", where+"/encoding-json", key, wit(fmt.Sprintf("encoding/json decodes %#v err=%v", dv, derr)))
		return
	}
	back, err := graphql.UnmarshalUUID(dv)
	if err != nil || back != id {
		viol.hit("uuid-unmarshal-mismatch", where, key, wit(fmt.Sprintf("UnmarshalUUID(%#v) = %v, %v", dv, back, err)))
	}
}

func randUUID(r *rng) uuid.UUID {
	var id uuid.UUID
	a, b := r.u64(), r.u64()
	for i := 0; i < 8; i++ {
		id[i] = byte(a >> (8 * uint(i)))
		id[8+i] = byte(b >> (8 * uint(i)))
	}
	if ver := r.intn(10); ver >= 1 && ver <= 8 { // v1..v8 with the RFC 4122 variant; otherwise raw bits
		id[6] = (id[6] & 0x0f) | byte(ver<<4)
		id[8] = (id[8] & 0x3f) | 0x80
	}
	return id
}

func runUUIDs(only string) {
	want := func(n string) bool { return wantSpace(only, n) }
	if want("uuid/fixed") {
		s := sp.get("uuid/fixed")
		b := s.batch()
		var list []uuid.UUID
		list = append(list, uuid.UUID{})
		var max uuid.UUID
		for i := range max {
			max[i] = 0xff
		}
		list = append(list, max)
		for i := 0; i < 16; i++ { // one non-zero byte at each position, each nibble value at position 6/8
			var u uuid.UUID
			u[i] = 1
			list = append(list, u)
			u[i] = 0xff
			list = append(list, u)
		}
		for ver := 0; ver < 16; ver++ {
			for variant := 0; variant < 4; variant++ {
				var u uuid.UUID
				u[6] = byte(ver << 4)
				u[8] = byte(variant << 6)
				u[15] = 1
				list = append(list, u)
			}
		}
		for _, id := range list {
			checkUUID(id, s.name)
			b.add(true, hashStr("u", string(id[:])))
		}
		b.flush()
		s.exhaustive = fmt.Sprintf("nil, max, single-byte patterns, every version nibble x variant (%d UUIDs)", len(list))
	}
	if want("uuid/random") {
		s := sp.get("uuid/random")
		n := ev.Pick(60_000, 1_000_000)
		parallel(n, 2000, func(ci, lo, hi int) {
			r := newRng(s.name, ci)
			b := s.batch()
			for i := lo; i < hi; i++ {
				id := randUUID(r)
				checkUUID(id, s.name)
				b.add(true, hashStr("u", string(id[:])))
			}
			b.flush()
		})
	}
}
