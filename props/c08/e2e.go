package main

import (
	"context"
	"encoding/json"
	"fmt"
	"math"
	"sort"
	"strconv"
	"strings"
	"time"

	"github.com/99designs/gqlgen/graphql"
	"github.com/99designs/gqlgen/graphql/executor"
	"github.com/google/uuid"

	"verif/internal/ev"
	"verif/internal/sjson"
	c08x "verif/work/farm/cur/c08x"
)

// End-to-end part: a server generated at check time from probes/c08x (default scalar bindings:
// Float -> FloatContext) returns seeded Box trees; the complete response, encoded the way the
// transports do (json.Marshal of graphql.Response), is judged by the strict parser, compared with
// the independently built expectation, decoded with encoding/json (UseNumber) and sent back as the
// variable of `echo(in:)`, whose resolver must receive the original values.

type boxKey struct{}
type echoKey struct{}

type e2eCase struct {
	box   *c08x.Box
	f     float64
	fo    *float64
	fl    []float64
	echo  *c08x.BoxIn
	echod bool
}

const boxFields = `s so id iid uid i i32 i64 u u32 u64 f fo b t d uu m a ls lf ll`

var boxQuery = `query { box { ` + boxFields + ` kid { ` + boxFields + ` kid { ` + boxFields + ` } kids { ` + boxFields + ` } } kids { ` + boxFields + ` kid { ` + boxFields + ` } kids { ` + boxFields + ` } } } }`

type boxMode struct {
	badStrings bool // ill-formed UTF-8 in String-typed fields
	badIDs     bool // ill-formed UTF-8 in ID fields
	nanOpt     bool // non-finite float in nullable Float positions (fo, lf elements)
	nanReq     bool // non-finite float in f: Float!
}

func cleanString(r *rng, bad bool) string {
	for {
		s := randString(r, 5)
		if ok, _ := refUTF8(s); ok || bad {
			return s
		}
	}
}

// randBox builds a Box and the JSON value the query above must deliver for it at selection level
// lvl (0 = root: kid/kids selected two more levels down).
func randBox(r *rng, lvl int, md boxMode, st *boxStats) (*c08x.Box, *xv) {
	b := &c08x.Box{}
	x := xobj(true)
	b.S = cleanString(r, md.badStrings)
	x.set("s", xstr(b.S))
	if r.intn(3) > 0 {
		s := cleanString(r, md.badStrings)
		b.So = &s
		x.set("so", xstr(s))
	} else {
		x.set("so", xnull())
	}
	b.ID = cleanString(r, md.badIDs)
	x.set("id", xstr(b.ID))
	b.Iid = int(int64(r.u64()) >> uint(r.intn(64)))
	x.set("iid", xstr(strconv.Itoa(b.Iid)))
	b.UID = uint(r.u64() >> uint(r.intn(64)))
	x.set("uid", xstr(strconv.FormatUint(uint64(b.UID), 10)))
	b.I = int(int64(r.u64()) >> uint(r.intn(64)))
	x.set("i", xint(int64(b.I)))
	b.I32 = int32(r.u64())
	x.set("i32", xint(int64(b.I32)))
	b.I64 = int64(r.u64()) >> uint(r.intn(64))
	x.set("i64", xint(b.I64))
	b.U = uint(r.u64() >> uint(r.intn(64)))
	x.set("u", xuint(uint64(b.U)))
	b.U32 = uint32(r.u64())
	x.set("u32", xuint(uint64(b.U32)))
	b.U64 = r.u64() >> uint(r.intn(64))
	x.set("u64", xuint(b.U64))
	b.F = randFiniteFloat(r)
	if md.nanReq && r.intn(2) == 0 {
		b.F = nonFinite(r, r.intn(4))
		st.nonFiniteReq++
		x.set("f", &xv{k: xPred, s: "anything (non-null violation is C01's business)", pred: func(*sjson.Value) bool { return true }})
	} else {
		x.set("f", xfloat(b.F))
	}
	switch {
	case md.nanOpt && r.intn(2) == 0:
		f := nonFinite(r, r.intn(4))
		b.Fo = &f
		st.nonFiniteOpt++
		x.set("fo", xnull())
	case r.intn(3) > 0:
		f := randFiniteFloat(r)
		b.Fo = &f
		x.set("fo", xfloat(f))
	default:
		x.set("fo", xnull())
	}
	b.B = r.intn(2) == 0
	x.set("b", xbool(b.B))
	if r.intn(4) > 0 {
		t := randTimeIn(r)
		b.T = &t
		x.set("t", xtime(t))
	} else {
		x.set("t", xnull())
	}
	b.D = safeDuration(r)
	x.set("d", xduration(b.D))
	if r.intn(4) > 0 {
		u := randUUID(r)
		if u == (uuid.UUID{}) {
			u[0] = 1
		}
		b.Uu = &u
		x.set("uu", xuuid(u))
	} else {
		x.set("uu", xnull())
	}
	if r.intn(4) > 0 {
		m, xm, _ := randMap(r, 2)
		b.M = m
		x.set("m", xm)
	} else {
		x.set("m", xnull())
	}
	{
		a, xa, _ := randJSON(r, 2)
		b.A = a
		x.set("a", xa)
	}
	b.Ls = []*string{}
	xls := xarr()
	xls.arr = []*xv{}
	for i, n := 0, r.intn(4); i < n; i++ {
		if r.intn(4) == 0 {
			b.Ls = append(b.Ls, nil)
			xls.arr = append(xls.arr, xnull())
		} else {
			s := cleanString(r, md.badStrings)
			b.Ls = append(b.Ls, &s)
			xls.arr = append(xls.arr, xstr(s))
		}
	}
	x.set("ls", xls)
	if r.intn(4) > 0 {
		b.Lf = []*float64{}
		xlf := xarr()
		xlf.arr = []*xv{}
		for i, n := 0, r.intn(4); i < n; i++ {
			switch {
			case md.nanOpt && r.intn(3) == 0:
				f := nonFinite(r, r.intn(4))
				b.Lf = append(b.Lf, &f)
				st.nonFiniteOpt++
				xlf.arr = append(xlf.arr, xnull())
			case r.intn(5) == 0:
				b.Lf = append(b.Lf, nil)
				xlf.arr = append(xlf.arr, xnull())
			default:
				f := randFiniteFloat(r)
				b.Lf = append(b.Lf, &f)
				xlf.arr = append(xlf.arr, xfloat(f))
			}
		}
		x.set("lf", xlf)
	} else {
		x.set("lf", xnull())
	}
	if r.intn(3) > 0 {
		b.Ll = [][]int{}
		xll := xarr()
		xll.arr = []*xv{}
		for i, n := 0, r.intn(3); i < n; i++ {
			// no null rows: gqlparser v2.5.25 validator.VariableValues panics (reflect on a zero Value,
			// vars.go:106) on a null element of a nested list variable such as [[Int!]] = [null];
			// that is input handling (C10), not serialisation, and would abort the echo step
			row := []int{}
			xr := xarr()
			xr.arr = []*xv{}
			for j, m := 0, r.intn(3); j < m; j++ {
				v := int(int64(r.u64()) >> uint(r.intn(64)))
				row = append(row, v)
				xr.arr = append(xr.arr, xint(int64(v)))
			}
			b.Ll = append(b.Ll, row)
			xll.arr = append(xll.arr, xr)
		}
		x.set("ll", xll)
	} else {
		x.set("ll", xnull())
	}
	b.Kids = []*c08x.Box{}
	st.boxes++
	if lvl < 2 {
		if r.intn(2) == 0 {
			k, xk := randBox(r, lvl+1, md, st)
			b.Kid = k
			x.set("kid", xk)
		} else {
			x.set("kid", xnull())
		}
		xks := xarr()
		xks.arr = []*xv{}
		for i, n := 0, r.intn(3); i < n; i++ {
			k, xk := randBox(r, lvl+1, md, st)
			b.Kids = append(b.Kids, k)
			xks.arr = append(xks.arr, xk)
		}
		x.set("kids", xks)
	}
	return b, x
}

type boxStats struct {
	boxes, nonFiniteOpt, nonFiniteReq int
}

type e2eServer struct {
	exec *executor.Executor
}

func newE2E() *e2eServer {
	st := &c08x.Stub{}
	get := func(ctx context.Context) *e2eCase { return ctx.Value(boxKey{}).(*e2eCase) }
	st.QueryResolver.Box = func(ctx context.Context) (*c08x.Box, error) { return get(ctx).box, nil }
	st.QueryResolver.F = func(ctx context.Context) (float64, error) { return get(ctx).f, nil }
	st.QueryResolver.Fo = func(ctx context.Context) (*float64, error) { return get(ctx).fo, nil }
	st.QueryResolver.Fl = func(ctx context.Context) ([]float64, error) { return get(ctx).fl, nil }
	st.QueryResolver.Echo = func(ctx context.Context, in c08x.BoxIn) (bool, error) {
		c := get(ctx)
		c.echo, c.echod = &in, true
		return true, nil
	}
	es := c08x.NewExecutableSchema(c08x.Config{Resolvers: st})
	ex := executor.New(es)
	ex.SetRecoverFunc(func(ctx context.Context, r any) error { return fmt.Errorf("PANIC:%v", r) })
	return &e2eServer{exec: ex}
}

// run executes one operation and returns the body a JSON transport would write.
func (s *e2eServer) run(c *e2eCase, query string, vars map[string]any) (body []byte, resp *graphql.Response, reqErrs []string, encErr error) {
	ctx := context.WithValue(context.Background(), boxKey{}, c)
	ctx = graphql.StartOperationTrace(ctx)
	oc, errs := s.exec.CreateOperationContext(ctx, &graphql.RawParams{Query: query, Variables: vars})
	if len(errs) > 0 {
		for _, e := range errs {
			reqErrs = append(reqErrs, e.Message)
		}
		return nil, nil, reqErrs, nil
	}
	responses, rctx := s.exec.DispatchOperation(ctx, oc)
	resp = responses(rctx)
	body, encErr = json.Marshal(resp)
	return body, resp, nil, encErr
}

func errTexts(resp *graphql.Response) []string {
	var out []string
	for _, e := range resp.Errors {
		out = append(out, e.Path.String()+": "+e.Message)
	}
	return out
}

func runE2E(only string) {
	want := func(n string) bool { return wantSpace(only, n) }
	srv := newE2E()

	if want("server/box-roundtrip") {
		s := sp.get("server/box-roundtrip")
		n := ev.Pick(3_000, 40_000)
		parallel(n, 200, func(ci, lo, hi int) {
			r := newRng(s.name, ci)
			b := s.batch()
			for i := lo; i < hi; i++ {
				md := boxMode{}
				switch i % 8 {
				case 1:
					md.badStrings = true
				case 2:
					md.badIDs = true
				case 3:
					md.nanOpt = true
				case 4:
					md.nanReq = true
				}
				st := &boxStats{}
				box, x := randBox(r, 0, md, st)
				e2eBox(srv, s.name, box, x, md, st)
				b.add(true, hashStr("box", x.render(), fmt.Sprint(md)))
			}
			b.flush()
		})
	}

	if want("server/non-finite-roots") {
		s := sp.get("server/non-finite-roots")
		n := ev.Pick(500, 10_000)
		parallel(n, 100, func(ci, lo, hi int) {
			r := newRng(s.name, ci)
			b := s.batch()
			for i := lo; i < hi; i++ {
				f := nonFinite(r, i)
				g := randFiniteFloat(r)
				c := &e2eCase{f: f, fo: &f, fl: []float64{g, f, g}}
				for _, q := range []string{`{ f }`, `{ fo }`, `{ fl }`, `{ a: fo b: fo }`} {
					body, resp, reqErrs, encErr := srv.run(c, q, nil)
					key := q + fmt.Sprintf("%016x", math.Float64bits(f))
					wit := func(why string) map[string]any {
						w := map[string]any{"space": s.name, "function": "generated server (default Float binding)", "query": q, "value": fmt.Sprint(f), "body_quoted": fmt.Sprintf("%q", clip(string(body))), "why": why}
						if resp != nil {
							w["data_quoted"] = fmt.Sprintf("%q", clip(string(resp.Data)))
							w["errors"] = errTexts(resp)
						}
						return w
					}
					switch {
					case len(reqErrs) > 0:
						viol.hit("server-harness-query-rejected", s.name, key, wit(strings.Join(reqErrs, "; ")))
					case encErr != nil:
						viol.hit("server-nonfinite-emitted", s.name, key, wit("response cannot be encoded by the transport: "+encErr.Error()))
					default:
						pv, err := sjson.Parse(body)
						if err != nil {
							viol.hit("server-nonfinite-emitted", s.name, key, wit("strict parser: "+err.Error()))
						} else if len(resp.Errors) == 0 || pv.Get("errors") == nil {
							viol.hit("server-nonfinite-no-error", s.name, key, wit("a non-finite float produced no error"))
						} else {
							ctr.add("server_nonfinite_answered_with_error", 1)
							if q == `{ fo }` {
								if d := pv.Get("data"); d == nil || d.Get("fo") == nil || d.Get("fo").Kind != sjson.Null {
									viol.hit("server-nonfinite-emitted", s.name, key, wit("nullable Float field is not null"))
								}
							}
						}
					}
					b.add(true, hashStr("nf", key))
				}
			}
			b.flush()
		})
	}
}

func e2eBox(srv *e2eServer, where string, box *c08x.Box, x *xv, md boxMode, st *boxStats) {
	c := &e2eCase{box: box}
	body, resp, reqErrs, encErr := srv.run(c, boxQuery, nil)
	key := x.render()
	wit := func(why string) map[string]any {
		w := map[string]any{"space": where, "function": "generated server c08x", "mode": fmt.Sprintf("%+v", md), "expected_box": clip(x.render()), "body_quoted": fmt.Sprintf("%q", clip(string(body))), "why": why}
		if resp != nil {
			w["errors"] = errTexts(resp)
			w["data_quoted"] = fmt.Sprintf("%q", clip(string(resp.Data)))
		}
		return w
	}
	ctr.add("server_boxes_marshaled", int64(st.boxes))
	if len(reqErrs) > 0 {
		viol.hit("server-harness-query-rejected", where, key, wit(strings.Join(reqErrs, "; ")))
		return
	}
	if encErr != nil {
		viol.hit("server-response-not-encodable", where, key, wit("json.Marshal(graphql.Response): "+encErr.Error()))
		return
	}
	pv, err := sjson.Parse(body)
	if err != nil {
		sig := attribute("server", body, md.badStrings, md.badIDs)
		viol.hit(sig, "generated-server", key, wit("strict parser: "+err.Error()))
		return
	}
	wantErrs := st.nonFiniteOpt + st.nonFiniteReq
	if len(resp.Errors) != wantErrs {
		viol.hit("server-error-count", where, key, wit(fmt.Sprintf("%d errors, expected %d (one per non-finite float)", len(resp.Errors), wantErrs)))
		return
	}
	ctr.add("server_nonfinite_floats_in_boxes", int64(wantErrs))
	data := pv.Get("data")
	if st.nonFiniteReq > 0 && (data == nil || data.Kind == sjson.Null || data.Get("box") == nil || data.Get("box").Kind == sjson.Null) {
		return // null propagation of the Float! violation: valid JSON + error is all C08 asks
	}
	if d := diffX(x, data.Get("box"), true, "data/box"); d != "" {
		viol.hit("server-decode-mismatch", where, key, wit(d))
		return
	}
	dv, err := stdDecode(body)
	if err != nil {
		viol.hit("server-decode-mismatch", where+"/encoding-json", key, wit("encoding/json: "+err.Error()))
		return
	}
	dbox, _ := dv.(map[string]any)["data"].(map[string]any)["box"].(map[string]any)
	if d := diffX(x, fromStd(dbox), false, "data/box"); d != "" {
		viol.hit("server-decode-mismatch", where+"/encoding-json", key, wit("encoding/json: "+d))
		return
	}
	if wantErrs > 0 {
		return // the non-finite positions came back as null: nothing to echo
	}
	// oracle 3 through the whole input pipeline: decoded response -> variables -> generated unmarshalers
	addKids(dbox)
	c2 := &e2eCase{}
	body2, resp2, reqErrs2, _ := srv.run(c2, `query($in: BoxIn!) { echo(in: $in) }`, map[string]any{"in": dbox})
	if len(reqErrs2) > 0 || resp2 == nil || len(resp2.Errors) > 0 || !c2.echod {
		w := wit("decoded response rejected as input")
		w["echo_request_errors"] = reqErrs2
		if resp2 != nil {
			w["echo_errors"] = errTexts(resp2)
		}
		w["echo_body"] = clip(string(body2))
		viol.hit("server-unmarshal-rejected", where, key, w)
		return
	}
	if d := eqBoxIn(box, c2.echo, "box"); d != "" {
		viol.hit("server-unmarshal-mismatch", where, key, wit("resolver received a different value: "+d))
	}
	ctr.add("server_boxes_echoed", int64(st.boxes))
}

// addKids supplies the members the query did not select at the deepest level (required in BoxIn).
func addKids(m map[string]any) {
	if m == nil {
		return
	}
	if _, ok := m["kids"]; !ok {
		m["kids"] = []any{}
	}
	if k, ok := m["kid"].(map[string]any); ok {
		addKids(k)
	}
	if ks, ok := m["kids"].([]any); ok {
		for _, k := range ks {
			if km, ok := k.(map[string]any); ok {
				addKids(km)
			}
		}
	}
}

func wantStr(s string) string { _, w := refUTF8(s); return w }

func eqBoxIn(b *c08x.Box, in *c08x.BoxIn, path string) string {
	if in == nil {
		return path + ": missing"
	}
	bad := func(f string, a, g any) string { return fmt.Sprintf("%s.%s: sent %#v, received %#v", path, f, a, g) }
	if in.S != wantStr(b.S) {
		return bad("s", b.S, in.S)
	}
	if (b.So == nil) != (in.So == nil) || (b.So != nil && *in.So != wantStr(*b.So)) {
		return bad("so", b.So, in.So)
	}
	if in.ID != wantStr(b.ID) {
		return bad("id", b.ID, in.ID)
	}
	if in.Iid != b.Iid {
		return bad("iid", b.Iid, in.Iid)
	}
	if in.UID != b.UID {
		return bad("uid", b.UID, in.UID)
	}
	if in.I != b.I {
		return bad("i", b.I, in.I)
	}
	if in.I32 != b.I32 {
		return bad("i32", b.I32, in.I32)
	}
	if in.I64 != b.I64 {
		return bad("i64", b.I64, in.I64)
	}
	if in.U != b.U {
		return bad("u", b.U, in.U)
	}
	if in.U32 != b.U32 {
		return bad("u32", b.U32, in.U32)
	}
	if in.U64 != b.U64 {
		return bad("u64", b.U64, in.U64)
	}
	if in.F != b.F {
		return bad("f", b.F, in.F)
	}
	if (b.Fo == nil) != (in.Fo == nil) || (b.Fo != nil && *in.Fo != *b.Fo) {
		return bad("fo", b.Fo, in.Fo)
	}
	if in.B != b.B {
		return bad("b", b.B, in.B)
	}
	if (b.T == nil) != (in.T == nil) || (b.T != nil && (!in.T.Equal(*b.T) || zoneOff(*in.T) != zoneOff(*b.T))) {
		return bad("t", b.T, in.T)
	}
	if in.D != b.D {
		return bad("d", b.D, in.D)
	}
	if (b.Uu == nil) != (in.Uu == nil) || (b.Uu != nil && *in.Uu != *b.Uu) {
		return bad("uu", b.Uu, in.Uu)
	}
	if (b.M == nil) != (in.M == nil) {
		return bad("m", b.M, in.M)
	}
	if b.M != nil {
		if d := diffX(xOfJSON(b.M), fromStd(in.M), false, path+".m"); d != "" {
			return d
		}
	}
	if d := diffX(xOfJSON(b.A), fromStd(in.A), false, path+".a"); d != "" {
		return d
	}
	if len(in.Ls) != len(b.Ls) {
		return bad("ls", len(b.Ls), len(in.Ls))
	}
	for i := range b.Ls {
		if (b.Ls[i] == nil) != (in.Ls[i] == nil) || (b.Ls[i] != nil && *in.Ls[i] != wantStr(*b.Ls[i])) {
			return bad("ls["+strconv.Itoa(i)+"]", b.Ls[i], in.Ls[i])
		}
	}
	if (b.Lf == nil) != (in.Lf == nil) || len(in.Lf) != len(b.Lf) {
		return bad("lf", b.Lf, in.Lf)
	}
	for i := range b.Lf {
		if (b.Lf[i] == nil) != (in.Lf[i] == nil) || (b.Lf[i] != nil && *in.Lf[i] != *b.Lf[i]) {
			return bad("lf["+strconv.Itoa(i)+"]", b.Lf[i], in.Lf[i])
		}
	}
	if (b.Ll == nil) != (in.Ll == nil) || len(in.Ll) != len(b.Ll) {
		return bad("ll", b.Ll, in.Ll)
	}
	for i := range b.Ll {
		if (b.Ll[i] == nil) != (in.Ll[i] == nil) || len(b.Ll[i]) != len(in.Ll[i]) {
			return bad("ll["+strconv.Itoa(i)+"]", b.Ll[i], in.Ll[i])
		}
		for j := range b.Ll[i] {
			if b.Ll[i][j] != in.Ll[i][j] {
				return bad("ll["+strconv.Itoa(i)+"]", b.Ll[i], in.Ll[i])
			}
		}
	}
	if (b.Kid == nil) != (in.Kid == nil) {
		return bad("kid", b.Kid != nil, in.Kid != nil)
	}
	if b.Kid != nil {
		if d := eqBoxIn(b.Kid, in.Kid, path+".kid"); d != "" {
			return d
		}
	}
	if len(b.Kids) != len(in.Kids) {
		return bad("kids", len(b.Kids), len(in.Kids))
	}
	for i := range b.Kids {
		if d := eqBoxIn(b.Kids[i], in.Kids[i], path+".kids["+strconv.Itoa(i)+"]"); d != "" {
			return d
		}
	}
	return ""
}

// xOfJSON rebuilds the expectation of a JSON-like Go value (the generator's own expectation is
// not kept per member, so it is recomputed from the value).
func xOfJSON(v any) *xv {
	switch t := v.(type) {
	case nil:
		return xnull()
	case bool:
		return xbool(t)
	case string:
		return xstr(t)
	case json.Number:
		return xnum(string(t))
	case float64:
		return xfloat(t)
	case int:
		return xint(int64(t))
	case int64:
		return xint(t)
	case int32:
		return xint(int64(t))
	case uint64:
		return xuint(t)
	case []string:
		a := xarr()
		a.arr = []*xv{}
		for _, s := range t {
			a.arr = append(a.arr, xstr(s))
		}
		return a
	case []any:
		a := xarr()
		a.arr = []*xv{}
		for _, e := range t {
			a.arr = append(a.arr, xOfJSON(e))
		}
		return a
	case map[string]any:
		o := xobj(false)
		ks := make([]string, 0, len(t))
		for k := range t {
			ks = append(ks, k)
		}
		sort.Strings(ks)
		for _, k := range ks {
			o.set(k, xOfJSON(t[k]))
		}
		return o
	}
	panic(fmt.Sprintf("xOfJSON: %T", v))
}

var _ = time.Second
