// C11: websocket sessions follow the subscription protocol for every message sequence.
//
// The tx farm probe (generated from the repo's current templates) is served by gqlgen's real
// handler.New + transport.Websocket behind a real httptest.Server. A scripted gorilla/websocket
// client plays seeded-random sessions and (thorough) every client sequence up to length 4 over
// {init, start, stop, ping, pong, terminate, invalid frame, abrupt close} for graphql-ws and
// graphql-transport-ws, interleaved with server-side events of a fully controlled subscription
// resolver. A per-connection protocol automaton runs over the frames received, the resolver /
// context events and the InitFunc / CloseFunc callbacks; quiescence is decided on goroutine dumps
// attributed to the connection by pprof labels. Sessions run in crash-isolated children under the
// race detector.
package main

import (
	"encoding/json"
	"fmt"
	"math/rand"
	"os"
	"strings"
	"sync"
	"time"

	"verif/internal/ev"
	"verif/internal/kids"
)

var clientSyms = []string{"init", "start", "stop", "ping", "pong", "terminate", "invalid", "abrupt"}

// enumerate returns every client sequence up to maxLen. start always introduces a fresh id;
// stop ranges over every id started so far plus one id that was never started. Sequences with a
// symbol after "abrupt" are dropped: the client cannot send on a socket it closed, so they are the
// same session as their prefix.
func enumerate(maxLen int) [][]Step {
	var out [][]Step
	var rec func(cur []Step, started int)
	rec = func(cur []Step, started int) {
		if len(cur) > 0 {
			out = append(out, append([]Step(nil), cur...))
		}
		if len(cur) == maxLen || (len(cur) > 0 && cur[len(cur)-1].Op == "abrupt") {
			return
		}
		for _, sym := range clientSyms {
			switch sym {
			case "start":
				rec(append(cur, Step{Who: "c", Op: "start", ID: started}), started+1)
			case "stop":
				for t := -1; t < started; t++ {
					rec(append(cur, Step{Who: "c", Op: "stop", ID: t}), started)
				}
			default:
				rec(append(cur, Step{Who: "c", Op: sym}), started)
			}
		}
	}
	rec(nil, 0)
	return out
}

var cfgNames = []string{"ka", "ka", "ka", "pp", "pp", "ppd", "plain", "plain"}

// weave interleaves the client steps with seeded server-side events and waits.
func weave(s *Session, client []Step, r *rand.Rand) {
	nOps := 0
	for _, st := range client {
		if (st.Op == "start" || st.Op == "startbad") && st.ID+1 > nOps {
			nOps = st.ID + 1
		}
	}
	s.Ops = make([]OpPlan, nOps)
	for i := range s.Ops {
		switch r.Intn(12) {
		case 0:
			s.Ops[i].Invoke = "error"
		case 1:
			s.Ops[i].Invoke = "panic"
		case 2, 3:
			s.Ops[i].OnCancel = "adderr"
		case 4, 5:
			s.Ops[i].OnCancel = "ignore"
		}
	}
	// server-side events per operation, to be placed after the client's start of that operation
	pending := map[int][]Step{}
	for i := range s.Ops {
		var evs []Step
		for k, n := 0, r.Intn(4); k < n; k++ {
			evs = append(evs, Step{Who: "s", Op: "emit", ID: i})
		}
		if len(evs) >= 2 && i%5 == 3 {
			// one event in the middle of the stream cannot be serialized
			evs[len(evs)/2-1+i%2].Op = "emitbad"
		}
		switch r.Intn(6) {
		case 0, 1:
			evs = append(evs, Step{Who: "s", Op: "end", ID: i})
		case 2:
			evs = append(evs, Step{Who: "s", Op: "adderr", ID: i})
		}
		if r.Intn(3) == 0 {
			evs = append(evs, Step{Who: "w", Op: "frames"})
		}
		pending[i] = evs
	}
	var avail []Step // server events whose operation the client has started
	takeAvail := func() (Step, bool) {
		if len(avail) == 0 {
			return Step{}, false
		}
		// keep per-operation order: take the first event of a random operation
		ids := map[int]bool{}
		var order []int
		for _, e := range avail {
			if !ids[e.ID] {
				ids[e.ID] = true
				order = append(order, e.ID)
			}
		}
		pick := order[r.Intn(len(order))]
		for i, e := range avail {
			if e.ID == pick {
				avail = append(avail[:i:i], avail[i+1:]...)
				return e, true
			}
		}
		return Step{}, false
	}
	var steps []Step
	emitGap := func(st Step) Step { st.Gap = []int{0, 0, 1, 2, 2, 3}[r.Intn(6)]; return st }
	sawInit := false
	for _, cst := range client {
		// some server events before the next client message
		for r.Intn(3) == 0 {
			if e, ok := takeAvail(); ok {
				steps = append(steps, emitGap(e))
			} else {
				break
			}
		}
		if r.Intn(7) == 0 {
			steps = append(steps, Step{Who: "w", Op: "tick"})
		}
		if sawInit && r.Intn(25) == 0 {
			steps = append(steps, emitGap(Step{Who: "s", Op: []string{"cancel", "cancel", "reqcancel"}[r.Intn(3)]}))
		}
		cst.Var = r.Intn(60)
		if cst.Op == "init" {
			cst.Var = r.Intn(2)
			sawInit = true
		}
		steps = append(steps, emitGap(cst))
		if cst.Op == "start" || cst.Op == "startbad" {
			avail = append(avail, pending[cst.ID]...)
			delete(pending, cst.ID)
		}
	}
	for {
		e, ok := takeAvail()
		if !ok {
			break
		}
		steps = append(steps, emitGap(e))
	}
	if r.Intn(3) == 0 {
		steps = append(steps, Step{Who: "w", Op: "tick"})
	}
	if sawInit && r.Intn(8) == 0 {
		steps = append(steps, emitGap(Step{Who: "s", Op: []string{"cancel", "reqcancel"}[r.Intn(2)]}))
		if r.Intn(2) == 0 {
			steps = append(steps, Step{Who: "w", Op: "tick"})
		}
	}
	s.Steps = steps
	s.Init = []string{"accept", "accept", "accept", "accept", "acceptpayload", "reject"}[r.Intn(6)]
	s.Detached = r.Intn(4) == 0
	s.CloseReason = r.Intn(4) == 0
	s.Final = []string{"abrupt", "closeframe", "terminate"}[r.Intn(3)]
	s.Cfg = cfgNames[r.Intn(len(cfgNames))]
	// init timeout: only when the client does not open with init straight away
	if len(client) > 0 && r.Intn(10) == 0 {
		s.Cfg = "it"
		if r.Intn(2) == 0 {
			s.Steps = append([]Step{{Who: "w", Op: "serverclose"}}, s.Steps...)
		}
	}
}

func randomClient(r *rand.Rand, dup bool) []Step {
	var out []Step
	started := 0
	if r.Intn(10) < 8 {
		out = append(out, Step{Who: "c", Op: "init"})
	} else if r.Intn(3) == 0 && !dup {
		out = append(out, Step{Who: "c", Op: "initbad"})
	}
	n := 2 + r.Intn(9)
	for i := 0; i < n; i++ {
		switch k := r.Intn(100); {
		case k < 34:
			out = append(out, Step{Who: "c", Op: "start", ID: started})
			started++
		case k < 42:
			out = append(out, Step{Who: "c", Op: "startbad", ID: started})
			started++
		case k < 62:
			t := -1
			if started > 0 && r.Intn(8) != 0 {
				t = r.Intn(started)
			}
			out = append(out, Step{Who: "c", Op: "stop", ID: t})
		case k < 72:
			out = append(out, Step{Who: "c", Op: "ping"})
		case k < 80:
			out = append(out, Step{Who: "c", Op: "pong"})
		case k < 84:
			out = append(out, Step{Who: "c", Op: "init"}) // a second init
		case k < 88:
			out = append(out, Step{Who: "c", Op: "invalid"})
		case k < 92:
			out = append(out, Step{Who: "c", Op: "terminate"})
		case k < 95:
			out = append(out, Step{Who: "c", Op: "closeframe"})
		case k < 97:
			out = append(out, Step{Who: "c", Op: "abrupt"})
			return out
		default:
			out = append(out, Step{Who: "c", Op: "start", ID: started})
			started++
		}
	}
	return out
}

func genSessions(seed int64) []Session {
	var out []Session
	add := func(class, proto string, client []Step, r *rand.Rand) {
		s := Session{Idx: len(out), Class: class, Proto: proto, Seed: seed}
		weave(&s, client, r)
		out = append(out, s)
	}
	nRandom := ev.Pick(400, 8000)
	for i := 0; i < nRandom; i++ {
		r := rand.New(rand.NewSource(seed*7_000_003 + int64(i)))
		proto := legacy
		if i%2 == 1 {
			proto = modern
		}
		add("random", proto, randomClient(r, false), r)
	}
	nDup := ev.Pick(40, 600)
	for i := 0; i < nDup; i++ {
		r := rand.New(rand.NewSource(seed*9_000_011 + int64(i)))
		proto := legacy
		if i%2 == 1 {
			proto = modern
		}
		add("dup", proto, randomClient(r, true), r)
	}
	all := enumerate(4)
	stride := ev.Pick(11, 1) // quick: a seeded sample of the enumeration; thorough: all of it
	off := int(seed) % stride
	if off < 0 {
		off = 0
	}
	nSched := ev.Pick(1, 3) // seeded interleavings per enumerated client sequence
	for pi, proto := range []string{legacy, modern} {
		for i := off; i < len(all); i += stride {
			for k := 0; k < nSched; k++ {
				r := rand.New(rand.NewSource(seed*11_000_027 + int64(i)*8 + int64(pi)*4 + int64(k)))
				add("enum", proto, all[i], r)
			}
		}
	}
	return out
}

const batchSize = 150

func main() {
	seed := ev.Seed()
	sessions := genSessions(seed)
	nBatches := (len(sessions) + batchSize - 1) / batchSize

	if kids.IsChild() {
		out := kids.Child()
		dm := newDumper()
		lo := out.Batch * batchSize
		hi := min(lo+batchSize, len(sessions))
		var wg sync.WaitGroup
		sem := make(chan struct{}, 8)
		for i := lo; i < hi; i++ {
			if out.Skip(i) {
				continue
			}
			wg.Add(1)
			sem <- struct{}{}
			go func(i int) {
				defer wg.Done()
				defer func() { <-sem }()
				out.Begin(i)
				t0 := time.Now()
				runSession(&sessions[i], out.C(i), dm)
				if os.Getenv("C11_TIMES") != "" {
					b, _ := json.Marshal(sessions[i])
					fmt.Fprintf(os.Stderr, "TIME %d ms %s\n", time.Since(t0).Milliseconds(), trunc(string(b), 400))
				}
				out.End(i)
			}(i)
		}
		wg.Wait()
		time.Sleep(20 * time.Millisecond)
		oc := out.C(-1)
		dm.mu.Lock()
		taken := dm.taken
		dm.mu.Unlock()
		oc.Count("goroutine_dumps_taken", taken)
		httpLog.mu.Lock()
		for _, l := range httpLog.lines {
			if strings.Contains(l, "panic") {
				oc.Violate("http-server-panic", map[string]any{"batch": out.Batch, "log": trunc(l, 4000)})
			} else {
				oc.Count("http_server_log_lines", 1)
			}
		}
		httpLog.mu.Unlock()
		out.Close()
		return
	}

	rep := ev.New("C11", "exploration")
	rep.Rule = "a case = one websocket connection: (subprotocol, transport config, client message sequence, seeded interleaving with server-side events); the trace of a session is its client symbols and server-side events (InitFunc, resolver invoked, payload consumed, end, error, context cancelled, CloseFunc, handler return) in the order they actually happened; non-trivial = more than one client message or more than one server-side event; distinct = distinct traces among those"
	rep.Assumptions = []string{
		"operation ids are unique per connection except in the 'dup' class, which is checked only for panics and races",
		"payload order/gaps are judged against the number of values the generated code took from the resolver's unbuffered channel: once an operation was terminated on the wire all of them must have been delivered, in order",
		"'connection completed init' = InitFunc returned without error; quiescence = handler returned, no goroutine carrying the connection's pprof label has a gqlgen or generated frame, socket closed by the server, every started operation context cancelled",
		"a literal null start payload is not sent (nil dereference already claimed by C10); a second error frame for one id is counted, not refuted (the statement forbids results after an error, not errors)",
		"1 ms tickers, the 4 ms init timeout and the 10 ms pong deadline make some sessions end by a server-side timeout; the automaton accepts a server-side close at any time, timing decides no verdict",
	}
	if len(sessions) == 0 {
		rep.Inconclusive("no sessions generated")
		os.Exit(rep.Finish(0, 0))
	}
	if rp := os.Getenv("VERIF_REPLAY"); rp != "" {
		os.Exit(replay(rep, rp))
	}
	tot := kids.RunBatches(rep, "c11", nBatches, ev.Pick(4, 4), 14*time.Minute)
	for _, cr := range tot.Crashes {
		d := map[string]any{"batch": cr.Batch, "exit": cr.ExitCode, "signal": cr.Signal, "headline": cr.Headline, "frames": cr.Frames, "stderr_tail": cr.Stderr}
		var infl []Session
		for _, i := range cr.InFlight {
			if i >= 0 && i < len(sessions) {
				infl = append(infl, sessions[i])
			}
		}
		d["sessions_in_flight"] = infl
		switch {
		case cr.TimedOut:
			rep.Inconclusive(fmt.Sprintf("child batch %d exceeded its watchdog", cr.Batch))
		case strings.Contains(cr.Headline, "concurrent write to websocket connection"):
			rep.Violate("ws-concurrent-write", d)
		default:
			if fn, ok := cr.HasTargetFrame(); ok {
				rep.Violate("crash:"+fn, d)
			} else if cr.Headline != "" {
				rep.Inconclusive(fmt.Sprintf("child batch %d crashed outside gqlgen: %s", cr.Batch, cr.Headline))
				fmt.Println(cr.Stderr)
			} else {
				rep.Inconclusive(fmt.Sprintf("child batch %d exited with code %d: %s", cr.Batch, cr.ExitCode, trunc(cr.Stderr, 2000)))
			}
		}
	}
	rep.Set("sessions_planned", len(sessions))
	rep.Set("client_sequences_enumerated_up_to_length_4", len(enumerate(4)))
	rep.Set("distinct_traces_observed", rep.DistinctLen("traces"))
	rep.Exhaustive(false)
	os.Exit(rep.Finish(tot.Evals, int64(rep.DistinctLen("nontrivial"))))
}

func replay(rep *ev.Reporter, path string) int {
	b, err := os.ReadFile(path)
	if err != nil {
		fmt.Println("replay:", err)
		return 2
	}
	var f struct {
		Detail struct {
			Session *Session `json:"session"`
		} `json:"detail"`
	}
	if err := json.Unmarshal(b, &f); err != nil || f.Detail.Session == nil {
		fmt.Println("replay: no session in", path, err)
		return 2
	}
	dir, _ := os.MkdirTemp("", "c11replay")
	defer os.RemoveAll(dir)
	os.Setenv("KIDS_BATCH", "0")
	os.Setenv("KIDS_OUT", dir+"/out")
	os.Setenv("KIDS_PROGRESS", dir+"/prog")
	out := kids.Child()
	dm := newDumper()
	const n = 10
	for i := 0; i < n; i++ { // the interleaving is schedule dependent: several tries
		s := *f.Detail.Session
		s.Idx = 1000000 + i
		out.Begin(i)
		runSession(&s, out.C(i), dm)
		out.End(i)
	}
	out.Close()
	ob, _ := os.ReadFile(dir + "/out")
	nv := strings.Count(string(ob), `"k":"violate"`)
	fmt.Printf("replay: %d violation records in %d runs of the session\n", nv, n)
	if nv > 0 {
		rep.Violate("", map[string]any{"session": f.Detail.Session, "replayed_from": path})
	}
	return rep.Finish(n, 2)
}
