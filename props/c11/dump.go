package main

// Goroutine-dump service: one goroutine profile (debug=1, which carries pprof labels) serves every
// session that is waiting for "a dump started after now". The middleware labels the handler
// goroutine with conn=<key>; goroutines inherit labels from their creator, so every goroutine the
// transport starts for a connection (init reader, tickers, closeOnCancel, one per operation) is
// attributable to that connection.

import (
	"bytes"
	"regexp"
	"runtime/pprof"
	"sort"
	"strings"
	"sync"
	"time"
)

type dump struct {
	started time.Time
	byConn  map[string][]string // conn label -> sorted stack signatures (function names) with target frames
}

type dumper struct {
	mu      sync.Mutex
	cond    *sync.Cond
	last    *dump
	waiters int
	taken   int64
}

func newDumper() *dumper {
	d := &dumper{}
	d.cond = sync.NewCond(&d.mu)
	go d.loop()
	return d
}

func (d *dumper) loop() {
	for {
		d.mu.Lock()
		for d.waiters == 0 {
			d.cond.Wait()
		}
		d.mu.Unlock()
		nd := takeDump()
		d.mu.Lock()
		d.last = nd
		d.taken++
		d.cond.Broadcast()
		d.mu.Unlock()
		time.Sleep(3 * time.Millisecond)
	}
}

// fresh returns a dump whose collection started after the call.
func (d *dumper) fresh() *dump {
	t := time.Now()
	d.mu.Lock()
	d.waiters++
	d.cond.Broadcast()
	for d.last == nil || !d.last.started.After(t) {
		d.cond.Wait()
	}
	r := d.last
	d.waiters--
	d.mu.Unlock()
	return r
}

var labelRe = regexp.MustCompile(`"conn":"([^"]+)"`)

func isTargetFrame(fn string) bool {
	return strings.Contains(fn, "github.com/99designs/gqlgen/") || strings.Contains(fn, "verif/work/farm/")
}

func takeDump() *dump {
	d := &dump{started: time.Now(), byConn: map[string][]string{}}
	var buf bytes.Buffer
	pprof.Lookup("goroutine").WriteTo(&buf, 1)
	for _, blk := range strings.Split(buf.String(), "\n\n") {
		lines := strings.Split(blk, "\n")
		conn := ""
		var fns []string
		target := false
		count := "1"
		for i, l := range lines {
			if i == 0 || (!strings.HasPrefix(l, "#") && strings.Contains(l, " @ ")) {
				if j := strings.Index(l, " @ "); j > 0 {
					count = l[:j]
				}
				continue
			}
			if strings.HasPrefix(l, "# labels:") {
				if m := labelRe.FindStringSubmatch(l); m != nil {
					conn = m[1]
				}
				continue
			}
			if strings.HasPrefix(l, "#\t") {
				fs := strings.Fields(l[2:])
				if len(fs) >= 2 {
					fn := fs[1]
					if k := strings.LastIndex(fn, "+0x"); k > 0 {
						fn = fn[:k]
					}
					fns = append(fns, fn)
					if isTargetFrame(fn) {
						target = true
					}
				}
			}
		}
		if conn == "" || !target {
			continue
		}
		d.byConn[conn] = append(d.byConn[conn], count+"x "+strings.Join(fns, " < "))
	}
	for k := range d.byConn {
		sort.Strings(d.byConn[k])
	}
	return d
}

func sameStacks(a, b []string) bool {
	if len(a) != len(b) {
		return false
	}
	for i := range a {
		if a[i] != b[i] {
			return false
		}
	}
	return true
}
