package main

// One session = one websocket connection driven by a scripted client, interleaved with scripted
// server-side events, followed by the protocol automaton and the quiescence obligations.

import (
	"encoding/json"
	"fmt"
	"net/http"
	"runtime"
	"sort"
	"strings"
	"sync"
	"time"

	"github.com/gorilla/websocket"

	"verif/internal/kids"
)

type OpPlan struct {
	Invoke   string `json:"invoke,omitempty"`    // "" (returns a channel) | error | panic
	OnCancel string `json:"on_cancel,omitempty"` // "" | adderr (AddSubscriptionError when the stream is cancelled)
}

type Step struct {
	Who string `json:"w"`           // c = client message, s = server-side event, w = wait
	Op  string `json:"op"`          // see below
	ID  int    `json:"id"`          // operation index; -1 = an id the client never started
	Var int    `json:"v,omitempty"` // variant
	Gap int    `json:"g,omitempty"` // pause before the step: 0 none, 1 yield, 2 50µs, 3 1ms
}

// client ops: init initbad start startbad stop ping pong terminate invalid abrupt closeframe
// server ops: emit end adderr cancel reqcancel
// wait ops:   frames (until every consumed payload arrived or the connection closed)
//             tick (≈2.5 ms: lets the 1 ms tickers fire)  serverclose (until the server closed: init timeout)

type Session struct {
	Idx         int      `json:"idx"`
	Class       string   `json:"class"` // enum | random | dup
	Proto       string   `json:"proto"`
	Cfg         string   `json:"cfg"`
	Init        string   `json:"init"` // accept | acceptpayload | reject
	Detached    bool     `json:"detached,omitempty"`
	CloseReason bool     `json:"close_reason,omitempty"`
	Ops         []OpPlan `json:"ops"`
	Steps       []Step   `json:"steps"`
	Final       string   `json:"final"` // abrupt | closeframe | terminate
	Seed        int64    `json:"seed"`
}

const legacy = "graphql-ws"
const modern = "graphql-transport-ws"

func opID(s *Session, i int) string {
	if i < 0 {
		return "never-started"
	}
	if s.Class == "dup" {
		return "dup"
	}
	return fmt.Sprintf("o%d", i)
}

type frame struct {
	Type    string          `json:"type"`
	ID      string          `json:"id,omitempty"`
	Payload json.RawMessage `json:"payload,omitempty"`
}

type client struct {
	conn      *websocket.Conn
	mu        sync.Mutex
	cond      *sync.Cond
	frames    []frame
	badFrames []string
	closed    bool
	closeErr  string
	closeCode int
	wmu       sync.Mutex
	writeErrs int
}

func (c *client) reader(cs *connState) {
	for {
		mt, b, err := c.conn.ReadMessage()
		c.mu.Lock()
		if err != nil {
			c.closed = true
			c.closeErr = err.Error()
			if ce, ok := err.(*websocket.CloseError); ok {
				c.closeCode = ce.Code
			}
			cs.ev("client-saw-close", fmt.Sprint(c.closeCode))
			c.cond.Broadcast()
			c.mu.Unlock()
			return
		}
		var f frame
		if mt != websocket.TextMessage || json.Unmarshal(b, &f) != nil || f.Type == "" {
			c.badFrames = append(c.badFrames, string(b))
		} else {
			c.frames = append(c.frames, f)
			cs.ev("frame:"+f.Type, f.ID)
		}
		c.cond.Broadcast()
		c.mu.Unlock()
	}
}

func (c *client) send(mt int, b []byte) bool {
	c.wmu.Lock()
	defer c.wmu.Unlock()
	c.conn.SetWriteDeadline(time.Now().Add(20 * time.Second))
	if err := c.conn.WriteMessage(mt, b); err != nil {
		c.writeErrs++
		return false
	}
	return true
}

func (c *client) control(mt int, b []byte) bool {
	if err := c.conn.WriteControl(mt, b, time.Now().Add(20*time.Second)); err != nil {
		c.wmu.Lock()
		c.writeErrs++
		c.wmu.Unlock()
		return false
	}
	return true
}

func (c *client) isClosed() bool {
	c.mu.Lock()
	defer c.mu.Unlock()
	return c.closed
}

// waitFor blocks until cond() holds or the connection is closed or the (generous, non-deciding) bound passes.
func (c *client) waitFor(bound time.Duration, cond func() bool) bool {
	deadline := time.Now().Add(bound)
	t := time.AfterFunc(bound, func() { c.mu.Lock(); c.cond.Broadcast(); c.mu.Unlock() })
	defer t.Stop()
	c.mu.Lock()
	defer c.mu.Unlock()
	for !cond() && !c.closed {
		if time.Now().After(deadline) {
			return false
		}
		c.cond.Wait()
	}
	return true
}

func gap(g int) {
	switch g {
	case 1:
		runtime.Gosched()
	case 2:
		time.Sleep(50 * time.Microsecond)
	case 3:
		time.Sleep(time.Millisecond)
	}
}

type sent struct {
	started  map[string]int  // id -> number of successful start writes
	stopped  map[string]bool // stop written after a start
	badStart map[string]bool
	syms     []string
}

func runSession(s *Session, o *kids.Case, dm *dumper) {
	srv := serverFor(s.Cfg)
	key := fmt.Sprintf("c%d-%d", s.Idx, s.Seed)
	cs := &connState{key: key, sess: s, ops: map[string]*opState{}, handlerDone: make(chan struct{})}
	for i, p := range s.Ops {
		id := opID(s, i)
		if cs.ops[id] == nil {
			cs.ops[id] = &opState{id: id, plan: p, cmd: make(chan string, 256)}
		}
	}
	conns.Store(key, cs)
	defer conns.Delete(key)
	defer func() { // harness clean-up: let every producer go
		for _, op := range cs.ops {
			select {
			case op.cmd <- "quit":
			default:
			}
		}
		cs.mu.Lock()
		ci, cr := cs.cancelInit, cs.cancelReq
		cs.mu.Unlock()
		if ci != nil {
			ci()
		}
		if cr != nil {
			cr()
		}
	}()
	o.Eval(1)
	o.Count("sessions_"+s.Class, 1)
	o.Count("sessions_"+s.Proto, 1)
	o.Count("sessions_cfg_"+s.Cfg, 1)

	d := websocket.Dialer{Subprotocols: []string{s.Proto}, HandshakeTimeout: 30 * time.Second}
	conn, _, err := d.Dial(wsURL(srv), http.Header{"X-Conn": {key}})
	if err != nil {
		o.Inconclusive(fmt.Sprintf("session %d: websocket dial failed: %v", s.Idx, err))
		return
	}
	defer conn.Close()
	if conn.Subprotocol() != s.Proto {
		o.Violate("ws-subprotocol", map[string]any{"session": s, "why": "negotiated subprotocol " + conn.Subprotocol()})
		return
	}
	local := conn.LocalAddr().String()
	cl := &client{conn: conn}
	cl.cond = sync.NewCond(&cl.mu)
	go cl.reader(cs)

	st := sent{started: map[string]int{}, stopped: map[string]bool{}, badStart: map[string]bool{}}
	query := func(id string) string {
		return fmt.Sprintf(`{"query":"subscription { ctl(id:\"%s\") { seq payload ratio } }"}`, id)
	}
	clientOpen := true
	for _, step := range s.Steps {
		gap(step.Gap)
		id := opID(s, step.ID)
		switch step.Who {
		case "c":
			if !clientOpen {
				continue
			}
			st.syms = append(st.syms, step.Op)
			cs.ev("send:"+step.Op, id)
			switch step.Op {
			case "init":
				if step.Var == 0 {
					cl.send(websocket.TextMessage, []byte(`{"type":"connection_init"}`))
				} else {
					cl.send(websocket.TextMessage, []byte(`{"type":"connection_init","payload":{"Authorization":"Bearer x","n":1}}`))
				}
			case "initbad":
				cl.send(websocket.TextMessage, []byte([]string{`{"type":"connection_init","payload":[1,2]}`, `{"type":"connection_init","payload":"str"}`, `{"type":"connection_init","payload":7}`}[step.Var%3]))
			case "start", "startbad":
				t := "start"
				if s.Proto == modern {
					t = "subscribe"
				}
				pl := query(id)
				if step.Op == "startbad" {
					o.Count(fmt.Sprintf("startbad_variant_%d", []int{0, 1, 2, 3, 3, 3}[step.Var%6]), 1)
					// the last one is well-formed but refused by an extension with an ordinary (user-kind)
					// error: it is answered with a result frame carrying the errors, then terminated
					pl = []string{`[1]`, `"str"`, `{"query":5}`, fmt.Sprintf(`{"query":"subscription RejectMe { ctl(id:\"%s\") { seq payload } }"}`, id)}[[]int{0, 1, 2, 3, 3, 3}[step.Var%6]]
				}
				if cl.send(websocket.TextMessage, []byte(fmt.Sprintf(`{"type":"%s","id":"%s","payload":%s}`, t, id, pl))) {
					st.started[id]++
					if step.Op == "startbad" {
						st.badStart[id] = true
					}
				}
			case "stop":
				t := "stop"
				if s.Proto == modern {
					t = "complete"
				}
				if cl.send(websocket.TextMessage, []byte(fmt.Sprintf(`{"type":"%s","id":"%s"}`, t, id))) && st.started[id] > 0 {
					st.stopped[id] = true
				}
			case "ping":
				if s.Proto == modern && step.Var%2 == 0 {
					cl.send(websocket.TextMessage, []byte(`{"type":"ping"}`))
				} else {
					cl.control(websocket.PingMessage, []byte("hp"))
				}
			case "pong":
				if s.Proto == modern && step.Var%2 == 0 {
					cl.send(websocket.TextMessage, []byte(`{"type":"pong"}`))
				} else {
					cl.control(websocket.PongMessage, []byte("hp"))
				}
			case "terminate":
				if s.Proto == legacy {
					cl.send(websocket.TextMessage, []byte(`{"type":"connection_terminate"}`))
				} else {
					cl.control(websocket.CloseMessage, websocket.FormatCloseMessage(websocket.CloseNormalClosure, "bye"))
				}
			case "closeframe":
				cl.control(websocket.CloseMessage, websocket.FormatCloseMessage(websocket.CloseNormalClosure, "bye"))
			case "invalid":
				switch step.Var % 5 {
				case 0:
					cl.send(websocket.TextMessage, []byte(`{`))
				case 1:
					cl.send(websocket.TextMessage, []byte(`{"type":"bogus","id":"1"}`))
				case 2:
					if s.Proto == legacy {
						cl.send(websocket.TextMessage, []byte(`{"type":"data","id":"1","payload":{}}`))
					} else {
						cl.send(websocket.TextMessage, []byte(`{"type":"next","id":"1","payload":{}}`))
					}
				case 3:
					cl.send(websocket.BinaryMessage, []byte{0xff, 0x00, 0x7b})
				case 4:
					cl.send(websocket.TextMessage, []byte(`[]`))
				}
			case "abrupt":
				conn.UnderlyingConn().Close()
				clientOpen = false
			}
		case "s":
			cs.ev("cmd:"+step.Op, id)
			switch step.Op {
			case "emit", "emitbad", "end", "adderr":
				if op := cs.ops[id]; op != nil {
					select {
					case op.cmd <- step.Op:
					default:
					}
				}
			case "cancel":
				cs.mu.Lock()
				f := cs.cancelInit
				cs.mu.Unlock()
				if f != nil {
					f()
				}
			case "reqcancel":
				cs.mu.Lock()
				f := cs.cancelReq
				cs.mu.Unlock()
				if f != nil {
					f()
				}
			}
		case "w":
			switch step.Op {
			case "tick":
				time.Sleep(2500 * time.Microsecond)
			case "frames":
				cl.waitFor(5*time.Second, func() bool { return deliveredAll(cs, cl) })
			case "serverclose":
				if !cl.waitFor(30*time.Second, func() bool { return false }) {
					o.Count("serverclose_wait_expired", 1)
				}
			}
		}
	}

	settle(s, o, dm, srv, cs, cl, &st, local, clientOpen)
}

// deliveredAll: every payload the generated code took from a resolver channel has arrived as a frame
// (caller holds cl.mu through waitFor).
func deliveredAll(cs *connState, cl *client) bool {
	got := map[string]int64{}
	for _, f := range cl.frames {
		if f.Type == "data" || f.Type == "next" {
			got[f.ID]++
		}
	}
	for id, op := range cs.ops {
		if got[id] < op.consumed.Load() {
			return false
		}
	}
	return true
}

func terminalSeen(cl *client, id string) bool {
	for _, f := range cl.frames {
		if f.ID == id && (f.Type == "complete" || f.Type == "error") {
			return true
		}
	}
	return false
}

func ackSeen(cl *client) bool {
	for _, f := range cl.frames {
		if f.Type == "connection_ack" {
			return true
		}
	}
	return false
}

func settle(s *Session, o *kids.Case, dm *dumper, srv *server, cs *connState, cl *client, st *sent, local string, clientOpen bool) {
	firstClient := ""
	for _, stp := range s.Steps {
		if stp.Who == "c" {
			firstClient = stp.Op
			break
		}
	}
	fail := func(sig, why string, extra map[string]any) {
		if sig == "ws-socket-left-open" && firstClient == "initbad" {
			sig = "ws-init-nonobject-payload-socket-left-open"
		}
		cs.mu.Lock()
		lg := append([]event(nil), cs.log...)
		cs.mu.Unlock()
		cl.mu.Lock()
		fr := append([]frame(nil), cl.frames...)
		ce := cl.closeErr
		cl.mu.Unlock()
		if len(fr) > 80 {
			fr = fr[len(fr)-80:]
		}
		if len(lg) > 200 {
			lg = lg[len(lg)-200:]
		}
		d := map[string]any{"session": s, "why": why, "frames_received": fr, "event_log": lg, "client_close": ce}
		for k, v := range extra {
			d[k] = v
		}
		o.Violate(sig, d)
	}
	tracked := func() *trackedConn {
		v, _ := srv.tl.byRemote.Load(local)
		t, _ := v.(*trackedConn)
		return t
	}
	handlerReturned := func() bool {
		select {
		case <-cs.handlerDone:
			return true
		default:
			return false
		}
	}
	// an operation must have been terminated on the wire (error and/or complete) when the client
	// started it on an acknowledged connection and it ended, was refused, or was stopped
	expectTerminal := func(id string) bool {
		if st.started[id] == 0 || !ackSeen(cl) {
			return false
		}
		op := cs.ops[id]
		if st.badStart[id] || st.stopped[id] {
			return true
		}
		if op == nil {
			return false
		}
		return op.ended.Load() || (op.plan.Invoke != "" && op.invoked.Load() > 0)
	}
	pendingTerminals := func() []string { // caller holds cl.mu
		var out []string
		for id := range st.started {
			if expectTerminal(id) && !terminalSeen(cl, id) {
				out = append(out, id)
			}
		}
		return out
	}

	dup := s.Class == "dup"

	// ---- phase 1: while the connection is open, every terminated operation gets its terminal frame
	if clientOpen && !dup {
		start := time.Now()
		for {
			ok := cl.waitFor(150*time.Millisecond, func() bool { return len(pendingTerminals()) == 0 })
			if ok {
				break
			}
			if handlerReturned() {
				break // nothing will serve this connection any more; judged below
			}
			if time.Since(start) > 4*time.Second {
				d1 := dm.fresh()
				time.Sleep(time.Second)
				d2 := dm.fresh()
				if cl.isClosed() {
					break
				}
				if pend := lockedPending(cl, pendingTerminals); len(pend) > 0 && sameStacks(d1.byConn[cs.key], d2.byConn[cs.key]) {
					fail("ws-missing-terminal-frame", "operations that ended / were stopped on an open connection never got error or complete; two goroutine dumps 1 s apart are identical", map[string]any{"pending_operations": pend, "goroutines": d2.byConn[cs.key]})
					break
				}
				if time.Since(start) > 40*time.Second {
					o.Inconclusive(fmt.Sprintf("session %d: terminal frames still pending after 40 s but goroutines keep changing", s.Idx))
					break
				}
			}
		}
	}

	// ---- the handler returned while the client still holds the connection: the transport must have
	// closed the socket (or still have a goroutine that will). net/http never closes a hijacked socket.
	leftOpen := false
	checkLeftOpen := func() {
		if leftOpen || dup || !handlerReturned() || cl.isClosed() {
			return
		}
		for i := 0; i < 200; i++ {
			t := tracked()
			if t == nil || t.closed.Load() || cl.isClosed() {
				return
			}
			dp := dm.fresh()
			if len(dp.byConn[cs.key]) == 0 && !t.closed.Load() {
				leftOpen = true
				fail("ws-socket-left-open", "the transport's handler returned and no transport goroutine of this connection exists, but the socket was not closed: the client is left on a connection nobody serves", map[string]any{"pending_operations": lockedPending(cl, pendingTerminals)})
				o.Count("socket_left_open", 1)
				return
			}
			time.Sleep(5 * time.Millisecond)
		}
	}
	if clientOpen {
		checkLeftOpen()
	}

	// ---- phase 2: the client ends the session (if it has not) and everything must wind down
	if leftOpen {
		cl.conn.UnderlyingConn().Close()
	} else if clientOpen && !cl.isClosed() {
		cs.ev("send:final-"+s.Final, "")
		switch s.Final {
		case "abrupt":
			cl.conn.UnderlyingConn().Close()
		case "closeframe":
			cl.control(websocket.CloseMessage, websocket.FormatCloseMessage(websocket.CloseNormalClosure, "done"))
		case "terminate":
			if s.Proto == legacy {
				cl.send(websocket.TextMessage, []byte(`{"type":"connection_terminate"}`))
			} else {
				cl.control(websocket.CloseMessage, websocket.FormatCloseMessage(websocket.CloseNormalClosure, "done"))
			}
		}
	}
	// the client must observe the end of the connection (server closes in response), except when the
	// socket-left-open defect was already established
	for i := 0; i < 50 && !cl.waitFor(200*time.Millisecond, func() bool { return false }); i++ {
		if clientOpen {
			checkLeftOpen()
		}
		if leftOpen || i == 49 {
			cl.conn.UnderlyingConn().Close() // give up waiting for the server's close
			if !leftOpen {
				o.Count("client_gave_up_waiting_for_server_close", 1)
			}
			cl.waitFor(20*time.Second, func() bool { return false })
			break
		}
	}
	if !cs.handlerSeen.Load() {
		o.Inconclusive(fmt.Sprintf("session %d: request never reached the handler", s.Idx))
		return
	}

	var opIDs []string
	for id := range cs.ops {
		opIDs = append(opIDs, id)
	}
	sort.Strings(opIDs)
	quiet := func() (bool, string, *dump) {
		if !handlerReturned() {
			return false, "handler has not returned", nil
		}
		if dup {
			// duplicate operation ids are a client protocol violation: this class is only run for
			// panics and races (an overwritten cancel function can leave the first operation running
			// under a detached context; counted, not judged)
			time.Sleep(2 * time.Millisecond)
			if g := dm.fresh().byConn[cs.key]; len(g) > 0 {
				o.Count("dup_class_sessions_with_goroutines_left_after_close", 1)
			}
			return true, "", nil
		}
		dp := dm.fresh()
		if g := dp.byConn[cs.key]; len(g) > 0 {
			return false, fmt.Sprintf("%d transport goroutine stack(s) of this connection still present", len(g)), dp
		}
		if !dup {
			for _, id := range opIDs {
				if op := cs.ops[id]; op.hasProd.Load() && !op.ctxDone.Load() {
					return false, "context of operation " + id + " not cancelled", dp
				}
			}
		}
		if t := tracked(); t != nil && !t.closed.Load() {
			return false, "socket not closed by the server", dp
		}
		return true, "", dp
	}
	start := time.Now()
	var why string
	settled := false
	stableBad := 0
	for {
		ok, w, dp := quiet()
		if ok {
			settled = true
			break
		}
		el := time.Since(start)
		// Stable by construction: the handler returned and no goroutine of this connection is left, so
		// nothing can still close the socket / cancel a detached operation context. (Seen on two
		// dumps >= 50 ms apart so that a harness goroutine that is about to record the cancellation
		// has run.)
		if dp != nil && len(dp.byConn[cs.key]) == 0 && handlerReturned() && w == why && !leftOpen {
			stableBad++
			if stableBad >= 3 {
				sig := "ws-socket-left-open"
				if strings.HasPrefix(w, "context of operation") {
					sig = "ws-operation-context-not-cancelled"
				}
				fail(sig, "after the connection ended (handler returned, no transport goroutine left): "+w, nil)
				break
			}
			why = w
			time.Sleep(50 * time.Millisecond)
			continue
		}
		if leftOpen && dp != nil && len(dp.byConn[cs.key]) == 0 && handlerReturned() {
			break // already reported
		}
		if w != why {
			stableBad = 0
		}
		why = w
		if el > 3*time.Second {
			d1 := dm.fresh()
			time.Sleep(time.Second)
			d2 := dm.fresh()
			ok, w2, _ := quiet()
			if ok {
				settled = true
				break
			}
			if w2 == why && sameStacks(d1.byConn[cs.key], d2.byConn[cs.key]) {
				sig := "ws-not-quiescent"
				switch {
				case strings.HasPrefix(why, "context of operation"):
					sig = "ws-operation-context-not-cancelled"
				case strings.Contains(why, "goroutine"):
					sig = "ws-goroutine-left"
				case strings.Contains(why, "socket"):
					sig = "ws-socket-left-open"
				case strings.Contains(why, "handler"):
					sig = "ws-handler-stuck"
				}
				fail(sig, "after the connection ended: "+why+"; two goroutine dumps 1 s apart are identical", map[string]any{"goroutines": d2.byConn[cs.key]})
				break
			}
			why = w2
			if el > 40*time.Second {
				o.Inconclusive(fmt.Sprintf("session %d: not quiescent after 40 s (%s) but state keeps changing", s.Idx, why))
				break
			}
		} else {
			time.Sleep(time.Duration(1+el.Milliseconds()/10) * time.Millisecond)
		}
	}

	// ---- verdicts that need the final state
	cs.mu.Lock()
	closeCalls, accepted, recovered, initCalls := cs.closeCalls, cs.initAccepted, append([]string(nil), cs.recovered...), cs.initCalls
	lg := append([]event(nil), cs.log...)
	cs.mu.Unlock()
	for _, r := range recovered {
		sig := "ws-panic-recovered"
		if strings.Contains(r, "concurrent write to websocket connection") {
			sig = "ws-concurrent-write"
		}
		fail(sig, "a panic that the harness did not plan was recovered", map[string]any{"recovered": trunc(r, 6000)})
	}
	if closeCalls > 1 {
		fail("ws-closefunc-twice", fmt.Sprintf("CloseFunc called %d times", closeCalls), nil)
	}
	if settled && accepted && closeCalls != 1 && !dup {
		fail("ws-closefunc-missing", fmt.Sprintf("connection completed init and is over (no goroutine left), CloseFunc called %d times", closeCalls), nil)
	}
	if initCalls > 1 {
		fail("ws-initfunc-twice", fmt.Sprintf("InitFunc called %d times on one connection", initCalls), nil)
	}
	for id, op := range cs.ops {
		if op.earlyCall.Load() {
			fail("ws-resolver-before-init", "subscription resolver of operation "+id+" was invoked although InitFunc had not accepted the connection", nil)
		}
	}
	if !dup {
		automaton(s, o, cs, cl, st, fail)
	}

	// ---- coverage
	cl.mu.Lock()
	nf := len(cl.frames)
	kinds := map[string]int{}
	for _, f := range cl.frames {
		kinds[f.Type]++
	}
	cc := cl.closeCode
	cl.mu.Unlock()
	o.Count("frames_received", int64(nf))
	if kinds["ka"]+kinds["pong"]+kinds["ping"] > 1 && kinds["data"]+kinds["next"]+kinds["complete"]+kinds["error"] > 0 {
		o.Count("sessions_with_ticker_frames_and_operation_frames", 1)
	}
	for k, v := range kinds {
		o.Count("frames_"+k, int64(v))
	}
	o.Count(fmt.Sprintf("client_close_code_%d", cc), 1)
	cl.mu.Lock()
	ce := cl.closeErr
	cl.mu.Unlock()
	for _, w := range []string{"connection initialisation timeout", "unexpected message", "decoding error", "terminated", "use of closed network connection", "unexpected EOF", "timeout"} {
		if strings.Contains(ce, w) {
			o.Count("client_saw_close:"+w, 1)
			break
		}
	}
	for _, e := range lg {
		switch e.Kind {
		case "initfunc", "invoke", "consumed", "end", "adderr", "ctxdone", "closefunc", "cmd:cancel", "cmd:reqcancel", "handler-return":
			o.Count("server_event_"+e.Kind, 1)
		}
	}
	if s.CloseReason && accepted {
		o.Count("connections_with_close_reason", 1)
	}
	if s.Detached && accepted {
		o.Count("connections_with_detached_init_context", 1)
	}
	if accepted {
		o.Count("connections_init_accepted", 1)
	}
	if closeCalls == 1 {
		o.Count("closefunc_once", 1)
	}
	for _, op := range cs.ops {
		if op.invoked.Load() > 0 {
			o.Count("operations_invoked", 1)
		}
		if op.ctxDone.Load() {
			o.Count("operation_contexts_seen_cancelled", 1)
		}
		o.Count("payloads_consumed", op.consumed.Load())
	}
	// the trace: client symbols and server-side events in the order they actually happened
	var tr []string
	serverSide := 0
	for _, e := range lg {
		switch {
		case strings.HasPrefix(e.Kind, "send:"):
			tr = append(tr, strings.TrimPrefix(e.Kind, "send:"))
		case strings.HasPrefix(e.Kind, "frame:"), strings.HasPrefix(e.Kind, "cmd:"):
		default:
			tr = append(tr, strings.ToUpper(e.Kind))
			serverSide++
		}
	}
	trace := s.Proto + "|" + s.Cfg + "|" + strings.Join(tr, ",")
	o.Distinct("traces", trace)
	o.Distinct("client_sequences", s.Proto+"|"+strings.Join(st.syms, ","))
	if serverSide > 1 || len(st.syms) > 1 {
		o.Distinct("nontrivial", trace)
	}
	if s.Idx%97 == 0 {
		o.Sample(map[string]any{"session": s.Idx, "class": s.Class, "proto": s.Proto, "cfg": s.Cfg, "client": st.syms, "trace": tr, "frames": nf})
	}
}

func lockedPending(cl *client, f func() []string) []string {
	cl.mu.Lock()
	defer cl.mu.Unlock()
	return f()
}

func trunc(s string, n int) string {
	if len(s) > n {
		return s[:n] + "…"
	}
	return s
}

// automaton checks the frames the client received against the per-id protocol rules.
func automaton(s *Session, o *kids.Case, cs *connState, cl *client, st *sent, fail func(sig, why string, extra map[string]any)) {
	cl.mu.Lock()
	frames := append([]frame(nil), cl.frames...)
	bad := append([]string(nil), cl.badFrames...)
	cl.mu.Unlock()
	if len(bad) > 0 {
		fail("ws-unparsable-frame", "server sent a frame that is not a JSON message with a type: "+trunc(bad[0], 200), nil)
	}
	type idState struct {
		completed, errored bool
		next               int64
		errData            int
	}
	ids := map[string]*idState{}
	acks := 0
	cs.mu.Lock()
	accepted := cs.initAccepted
	cs.mu.Unlock()
	dataT := "data"
	if s.Proto == modern {
		dataT = "next"
	}
	get := func(id string) *idState {
		if ids[id] == nil {
			ids[id] = &idState{}
		}
		return ids[id]
	}
	for i, f := range frames {
		switch f.Type {
		case "connection_ack":
			acks++
			if acks > 1 {
				fail("ws-double-ack", fmt.Sprintf("frame %d: second connection_ack", i), nil)
			}
			if !accepted {
				fail("ws-ack-without-accept", "connection_ack although InitFunc did not accept", nil)
			}
		case "ka", "connection_error", "ping", "pong":
			if (f.Type == "ka" || f.Type == "connection_error") && s.Proto == modern || (f.Type == "ping" || f.Type == "pong") && s.Proto == legacy {
				fail("ws-foreign-frame", fmt.Sprintf("frame %d: %s is not a %s message", i, f.Type, s.Proto), nil)
			}
		case dataT:
			x := get(f.ID)
			if st.started[f.ID] == 0 {
				fail("ws-frame-for-unknown-id", fmt.Sprintf("frame %d: %s for id %q the client never started", i, f.Type, f.ID), nil)
			}
			if acks == 0 {
				fail("ws-result-before-ack", fmt.Sprintf("frame %d: %s for %q before connection_ack", i, f.Type, f.ID), nil)
			}
			if x.completed {
				fail("ws-frame-after-complete", fmt.Sprintf("frame %d: %s for %q after its complete", i, f.Type, f.ID), nil)
			} else if x.errored {
				fail("ws-result-after-error", fmt.Sprintf("frame %d: %s for %q after its error", i, f.Type, f.ID), nil)
			}
			var p struct {
				Data *struct {
					Ctl *struct {
						Seq *int64 `json:"seq"`
					} `json:"ctl"`
				} `json:"data"`
			}
			if json.Unmarshal(f.Payload, &p) == nil && p.Data != nil && p.Data.Ctl != nil && p.Data.Ctl.Seq != nil {
				if *p.Data.Ctl.Seq != x.next {
					fail("ws-payload-order", fmt.Sprintf("frame %d: operation %q delivered seq %d, expected %d", i, f.ID, *p.Data.Ctl.Seq, x.next), nil)
				}
				x.next = *p.Data.Ctl.Seq + 1
			} else {
				x.errData++
			}
		case "error":
			x := get(f.ID)
			if x.completed {
				fail("ws-frame-after-complete", fmt.Sprintf("frame %d: error for %q after its complete", i, f.ID), nil)
			}
			if x.errored {
				o.Count("second_error_frame_for_one_id", 1)
			}
			x.errored = true
		case "complete":
			x := get(f.ID)
			if x.completed {
				fail("ws-double-complete", fmt.Sprintf("frame %d: second complete for %q", i, f.ID), nil)
			}
			x.completed = true
		default:
			fail("ws-unknown-frame-type", fmt.Sprintf("frame %d: type %q", i, f.Type), nil)
		}
	}
	// results in order without gaps: once an operation was terminated on the wire, everything the
	// executor took from the resolver's channel must have been delivered before the terminal frame
	for id, x := range ids {
		op := cs.ops[id]
		if op == nil {
			continue
		}
		// an event that cannot be encoded is taken from the channel but never becomes a result frame
		c := op.consumed.Load() - op.bad.Load()
		if op.bad.Load() > 0 {
			o.Count("operations_with_unencodable_event", 1)
		}
		if x.next > c {
			fail("ws-payload-invented", fmt.Sprintf("operation %q: %d payload frames but the resolver's channel delivered %d values", id, x.next, c), nil)
		}
		if (x.completed || x.errored) && x.next < c {
			fail("ws-payload-lost", fmt.Sprintf("operation %q was terminated on the wire after %d payload frames but %d values had been taken from the resolver", id, x.next, c), nil)
		}
		if x.completed {
			o.Count("operations_completed_on_wire", 1)
		}
		if x.errored {
			o.Count("operations_errored_on_wire", 1)
		}
		if x.errored && x.completed {
			o.Count("operations_error_then_complete", 1)
		}
	}
}
