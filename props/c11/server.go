package main

// Harness side of the server: the tx probe with a fully controlled `ctl` subscription resolver,
// InitFunc / CloseFunc / ErrorFunc callbacks, a middleware that labels the handler goroutine and
// observes handler return, and a listener that observes whether the transport closed the socket.

import (
	"context"
	"fmt"
	"log"
	"math"
	"net"
	"net/http"
	"net/http/httptest"
	"runtime"
	"runtime/pprof"
	"strings"
	"sync"
	"sync/atomic"
	"time"

	"github.com/99designs/gqlgen/graphql"
	"github.com/99designs/gqlgen/graphql/handler"
	"github.com/99designs/gqlgen/graphql/handler/transport"
	"github.com/vektah/gqlparser/v2/gqlerror"

	tx "verif/work/farm/cur/tx"
)

type event struct {
	Kind string `json:"k"`
	ID   string `json:"id,omitempty"`
}

type opState struct {
	id        string
	plan      OpPlan
	cmd       chan string
	invoked   atomic.Int32
	consumed  atomic.Int64
	ended     atomic.Bool  // producer closed the channel on command (end / adderr)
	bad       atomic.Int64 // events taken by gqlgen that cannot be encoded (Any holding NaN)
	ctxDone   atomic.Bool
	hasProd   atomic.Bool
	prodExit  atomic.Bool
	earlyCall atomic.Bool // resolver invoked while InitFunc had not accepted
}

type connState struct {
	key  string
	sess *Session

	mu           sync.Mutex
	log          []event
	ops          map[string]*opState
	initCalls    int
	initAccepted bool
	closeCalls   int
	closeCodes   []int
	errorCalls   int
	recovered    []string
	planned      int
	cancelInit   context.CancelFunc
	cancelReq    context.CancelFunc
	handlerDone  chan struct{}
	handlerSeen  atomic.Bool
}

func (cs *connState) ev(kind, id string) {
	cs.mu.Lock()
	cs.log = append(cs.log, event{kind, id})
	cs.mu.Unlock()
}

type connKey struct{}

var conns sync.Map // X-Conn -> *connState

func connFrom(ctx context.Context) *connState {
	cs, _ := ctx.Value(connKey{}).(*connState)
	return cs
}

// ---- socket tracking ------------------------------------------------------------------------

type trackedConn struct {
	net.Conn
	closed atomic.Bool
}

func (t *trackedConn) Close() error {
	t.closed.Store(true)
	return t.Conn.Close()
}

type trackListener struct {
	net.Listener
	byRemote sync.Map // remote addr -> *trackedConn
}

func (l *trackListener) Accept() (net.Conn, error) {
	c, err := l.Listener.Accept()
	if err != nil {
		return nil, err
	}
	t := &trackedConn{Conn: c}
	l.byRemote.Store(c.RemoteAddr().String(), t)
	return t, nil
}

// ---- resolver ---------------------------------------------------------------------------------

const plannedPanic = "planned panic in ctl resolver"

func resolvers() *tx.Stub {
	s := &tx.Stub{}
	s.SubscriptionResolver.Ctl = func(ctx context.Context, id string) (<-chan *tx.Event, error) {
		cs := connFrom(ctx)
		if cs == nil {
			return nil, fmt.Errorf("no connection state")
		}
		cs.mu.Lock()
		op := cs.ops[id]
		accepted := cs.initAccepted
		cs.log = append(cs.log, event{"invoke", id})
		cs.mu.Unlock()
		if op == nil {
			return nil, fmt.Errorf("unknown operation %q", id)
		}
		op.invoked.Add(1)
		if !accepted {
			op.earlyCall.Store(true)
		}
		switch op.plan.Invoke {
		case "error":
			return nil, gqlerror.Errorf("planned resolver error")
		case "panic":
			cs.mu.Lock()
			cs.planned++
			cs.mu.Unlock()
			panic(plannedPanic)
		}
		ch := make(chan *tx.Event)
		op.hasProd.Store(true)
		go produce(ctx, cs, op, ch)
		return ch, nil
	}
	return s
}

func produce(ctx context.Context, cs *connState, op *opState, ch chan *tx.Event) {
	defer op.prodExit.Store(true)
	onCancel := func() {
		op.ctxDone.Store(true)
		cs.ev("ctxdone", op.id)
		if op.plan.OnCancel == "adderr" {
			// the documented pattern: the stream failed (here: because it was cancelled) -> report, close
			transport.AddSubscriptionError(ctx, gqlerror.Errorf("stream cancelled"))
		}
		close(ch)
	}
	seq := 0
	done := ctx.Done()
	for {
		select {
		case <-done:
			if op.plan.OnCancel == "ignore" {
				// a resolver that does not watch its context: it neither closes its channel nor
				// stops; the operation must end all the same (the stream is idle at that moment)
				op.ctxDone.Store(true)
				cs.ev("ctxdone", op.id)
				done = nil
				continue
			}
			onCancel()
			return
		case cmd := <-op.cmd:
			switch cmd {
			case "emit":
				p := fmt.Sprintf("p%d", seq)
				if done == nil {
					continue // (ignoring resolver after the cancellation: nobody listens any more)
				}
				select {
				case ch <- &tx.Event{Seq: seq, Payload: &p}:
					seq++
					op.consumed.Add(1)
					cs.ev("consumed", op.id)
				case <-ctx.Done():
					if op.plan.OnCancel == "ignore" {
						op.ctxDone.Store(true)
						cs.ev("ctxdone", op.id)
						done = nil
						continue
					}
					onCancel()
					return
				}
			case "emitbad":
				// an event that cannot be serialized (ratio: a float scalar written as it is, holding NaN): the operation fails with
				// an error frame and is over; nothing of it may follow that error
				p := fmt.Sprintf("p%d", seq)
				nan := math.NaN()
				op.bad.Add(1) // before the hand-over: gqlgen may fail on the event at once
				select {
				case ch <- &tx.Event{Seq: seq, Payload: &p, Ratio: &nan}:
					seq++
					op.consumed.Add(1)
					cs.ev("consumed", op.id)
				case <-ctx.Done():
					op.bad.Add(-1)
					onCancel()
					return
				}
			case "end", "adderr":
				if cmd == "adderr" {
					transport.AddSubscriptionError(ctx, gqlerror.Errorf("planned subscription error"))
				}
				op.ended.Store(true)
				cs.ev(cmd, op.id)
				close(ch)
				if done == nil {
					return // (the cancellation was seen, and ignored, before)
				}
				<-ctx.Done() // the transport cancels the operation context when it is over
				op.ctxDone.Store(true)
				cs.ev("ctxdone", op.id)
				return
			case "quit": // harness clean-up after the verdict
				return
			}
		}
	}
}

// ---- servers ----------------------------------------------------------------------------------

var cfgs = map[string]func() transport.Websocket{
	"plain": func() transport.Websocket { return transport.Websocket{} },
	"ka": func() transport.Websocket {
		return transport.Websocket{KeepAlivePingInterval: time.Millisecond, PongOnlyInterval: time.Millisecond}
	},
	"pp": func() transport.Websocket {
		return transport.Websocket{KeepAlivePingInterval: time.Millisecond, PingPongInterval: time.Millisecond, MissingPongOk: true}
	},
	"ppd": func() transport.Websocket {
		return transport.Websocket{KeepAlivePingInterval: time.Millisecond, PingPongInterval: 5 * time.Millisecond, PongOnlyInterval: time.Millisecond}
	},
	"it": func() transport.Websocket {
		return transport.Websocket{KeepAlivePingInterval: time.Millisecond, PongOnlyInterval: time.Millisecond, InitTimeout: 4 * time.Millisecond}
	},
}

type srvLog struct {
	mu    sync.Mutex
	lines []string
}

func (l *srvLog) Write(p []byte) (int, error) {
	l.mu.Lock()
	l.lines = append(l.lines, string(p))
	l.mu.Unlock()
	return len(p), nil
}

type server struct {
	ts *httptest.Server
	tl *trackListener
}

var (
	srvMu   sync.Mutex
	servers = map[string]*server{}
	httpLog = &srvLog{}
)

func serverFor(name string) *server {
	srvMu.Lock()
	defer srvMu.Unlock()
	if s := servers[name]; s != nil {
		return s
	}
	ws := cfgs[name]()
	ws.InitFunc = func(ctx context.Context, p transport.InitPayload) (context.Context, *transport.InitPayload, error) {
		cs := connFrom(ctx)
		if cs == nil {
			return ctx, nil, nil
		}
		cs.mu.Lock()
		cs.initCalls++
		cs.log = append(cs.log, event{"initfunc", ""})
		cs.mu.Unlock()
		if cs.sess.Init == "reject" {
			return nil, nil, fmt.Errorf("planned init rejection")
		}
		base := ctx
		if cs.sess.Detached {
			// a context that does not descend from the request context: only the transport's own
			// close() can cancel the operations of this connection
			base = context.WithoutCancel(ctx)
		}
		if cs.sess.CloseReason {
			base = transport.AppendCloseReason(base, "planned close reason")
		}
		nctx, cancel := context.WithCancel(base)
		cs.mu.Lock()
		cs.cancelInit = cancel
		cs.initAccepted = true
		cs.mu.Unlock()
		if cs.sess.Init == "acceptpayload" {
			return nctx, &transport.InitPayload{"ack": "yes"}, nil
		}
		return nctx, nil, nil
	}
	ws.CloseFunc = func(ctx context.Context, code int) {
		if cs := connFrom(ctx); cs != nil {
			cs.mu.Lock()
			cs.closeCalls++
			cs.closeCodes = append(cs.closeCodes, code)
			cs.log = append(cs.log, event{"closefunc", fmt.Sprint(code)})
			cs.mu.Unlock()
		}
	}
	ws.ErrorFunc = func(ctx context.Context, err error) {
		if cs := connFrom(ctx); cs != nil {
			cs.mu.Lock()
			cs.errorCalls++
			cs.mu.Unlock()
		}
	}
	es := tx.NewExecutableSchema(tx.Config{Resolvers: resolvers()})
	h := handler.New(es)
	h.AddTransport(ws)
	h.AddTransport(transport.POST{})
	h.Use(rejectGate{})
	h.SetRecoverFunc(func(ctx context.Context, err any) error {
		if cs := connFrom(ctx); cs != nil {
			unencodable := false
			if e, ok := err.(error); ok && (strings.Contains(e.Error(), "json.RawMessage") || strings.Contains(e.Error(), "unsupported value: NaN")) {
				// the transport could not encode a payload (an event the script made unencodable)
				cs.mu.Lock()
				for _, op := range cs.ops {
					if op.bad.Load() > 0 {
						unencodable = true
					}
				}
				cs.mu.Unlock()
			}
			if s, ok := err.(string); (!ok || s != plannedPanic) && !unencodable {
				buf := make([]byte, 16384)
				buf = buf[:runtime.Stack(buf, false)]
				cs.mu.Lock()
				cs.recovered = append(cs.recovered, fmt.Sprintf("%v\n%s", err, buf))
				cs.mu.Unlock()
			}
		}
		return gqlerror.Errorf("internal system error")
	})
	mw := http.HandlerFunc(func(w http.ResponseWriter, r *http.Request) {
		v, _ := conns.Load(r.Header.Get("X-Conn"))
		cs, _ := v.(*connState)
		if cs == nil {
			h.ServeHTTP(w, r)
			return
		}
		ctx, cancel := context.WithCancel(r.Context())
		cs.mu.Lock()
		cs.cancelReq = cancel
		cs.mu.Unlock()
		cs.handlerSeen.Store(true)
		ctx = context.WithValue(ctx, connKey{}, cs)
		pprof.Do(ctx, pprof.Labels("conn", cs.key), func(ctx context.Context) {
			defer func() {
				cs.ev("handler-return", "")
				close(cs.handlerDone)
				cancel() // what net/http does with the request context when the handler returns
			}()
			h.ServeHTTP(w, r.WithContext(ctx))
		})
	})
	ts := httptest.NewUnstartedServer(mw)
	tl := &trackListener{Listener: ts.Listener}
	ts.Listener = tl
	ts.Config.ErrorLog = log.New(httpLog, "", 0)
	ts.Start()
	s := &server{ts: ts, tl: tl}
	servers[name] = s
	return s
}

// rejectGate refuses operations named RejectMe with an ordinary error (no protocol error code).
type rejectGate struct{}

func (rejectGate) ExtensionName() string                   { return "VerifRejectGate" }
func (rejectGate) Validate(graphql.ExecutableSchema) error { return nil }
func (rejectGate) MutateOperationParameters(ctx context.Context, rp *graphql.RawParams) *gqlerror.Error {
	if strings.Contains(rp.Query, "RejectMe") {
		return gqlerror.Errorf("refused by the gate")
	}
	return nil
}

func wsURL(s *server) string {
	return "ws" + strings.TrimPrefix(s.ts.URL, "http") + "/query"
}
