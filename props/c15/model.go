package main

import (
	"crypto/sha256"
	"encoding/hex"
	"fmt"
	"sort"
	"strings"
)

func sha(s string) string {
	b := sha256.Sum256([]byte(s))
	return hex.EncodeToString(b[:])
}

// texts: index 1 and 2 differ only in whitespace (same root field, different hashes).
var texts = []string{
	"{ q1 }",
	"{ q2 }",
	"{  q2 }",
	// the next two are equal after white-space normalisation but are different documents: the line
	// break ends the comment in the first, so q2 is selected there and commented out in the second
	"{ q1 # c\n q2\n}",
	"{ q1 # c q2\n}",
	"{ q3 }",
	"{ q1 q2 }",
	"query A { q3 q1 }",
	"{ nn }",
	"{ q2\n}",
	// same operation name, same fragment name, different fragment bodies: two documents
	"query F { ...P } fragment P on Query { q1 }",
	"query F { ...P } fragment P on Query { q3 }",
}

// textRoots: the root fields a text resolves (sorted), written down by hand - not derived from gqlgen.
var textRoots = map[string][]string{
	"{ q1 }":            {"q1"},
	"{ q2 }":            {"q2"},
	"{  q2 }":           {"q2"},
	"{ q1 # c\n q2\n}":  {"q1", "q2"},
	"{ q1 # c q2\n}":    {"q1"},
	"{ q3 }":            {"q3"},
	"{ q1 q2 }":         {"q1", "q2"},
	"query A { q3 q1 }": {"q1", "q3"},
	"{ nn }":            {"nn"},
	"{ q2\n}":           {"q2"},
	"query F { ...P } fragment P on Query { q1 }": {"q1"},
	"query F { ...P } fragment P on Query { q3 }": {"q3"},
}

type symbol struct {
	Name    string `json:"name"`
	Text    string `json:"text,omitempty"`
	Ext     string `json:"extensions,omitempty"` // JSON text of the extensions object ("" = none)
	TextIdx int    `json:"-"`
	Kind    string `json:"kind"` // text-only | pair | mismatch | hash-only | malformed
	HasPQ   bool   `json:"-"`    // extensions carry a non-null persistedQuery
	WF      bool   `json:"-"`    // persistedQuery is an object with a string sha256Hash and version 1
	Hash    string `json:"-"`    // the claimed hash when persistedQuery is an object with a string sha256Hash
	// RawGetQuery: over GET the `query` pair is sent with exactly these bytes (an incompletely
	// escaped text: stray '%', raw ';'); the extensions pair is appended properly escaped
	RawGetQuery string `json:"raw_get_query,omitempty"`
}

func (s *symbol) trivial() bool { return s.Kind == "text-only" || s.Kind == "malformed" }

func pq(version string, hash string) string {
	return fmt.Sprintf(`{"persistedQuery":{"version":%s,"sha256Hash":%q}}`, version, hash)
}

func symTextOnly(i int) *symbol {
	return &symbol{Name: fmt.Sprintf("t%d:text", i), Text: texts[i], TextIdx: i, Kind: "text-only"}
}

func symPair(i int) *symbol {
	h := sha(texts[i])
	return &symbol{Name: fmt.Sprintf("t%d:text+hash", i), Text: texts[i], Ext: pq("1", h), TextIdx: i, Kind: "pair", HasPQ: true, WF: true, Hash: h}
}

func symMismatch(i, j int) *symbol {
	h := sha(texts[j])
	return &symbol{Name: fmt.Sprintf("t%d:text+hash(t%d)", i, j), Text: texts[i], Ext: pq("1", h), TextIdx: i, Kind: "mismatch", HasPQ: true, WF: true, Hash: h}
}

func symHashOnly(i int) *symbol {
	h := sha(texts[i])
	return &symbol{Name: fmt.Sprintf("t%d:hash", i), Ext: pq("1", h), TextIdx: i, Kind: "hash-only", HasPQ: true, WF: true, Hash: h}
}

// symBlank: a text made of white space only, sent with the hash of ANOTHER text: it does not hash to
// that value, so it is a mismatch like any other (rejected, nothing executed, nothing registered).
func symBlank(j int, blank, name string) *symbol {
	h := sha(texts[j])
	return &symbol{Name: fmt.Sprintf("blank(%s)+hash(t%d)", name, j), Text: blank, Ext: pq("1", h), TextIdx: j, Kind: "mismatch", HasPQ: true, WF: true, Hash: h}
}

// symRawGet: a text whose GET encoding is not a well-formed query-string pair, with another text's hash.
func symRawGet(j int, text, raw, name string) *symbol {
	h := sha(texts[j])
	return &symbol{Name: fmt.Sprintf("rawget(%s)+hash(t%d)", name, j), Text: text, Ext: pq("1", h), TextIdx: j, Kind: "mismatch", HasPQ: true, WF: true, Hash: h, RawGetQuery: raw}
}

func flipTail(h string) string {
	c := byte('0')
	if h[len(h)-1] == '0' {
		c = '1'
	}
	return h[:len(h)-1] + string(c)
}

func flipHead(h string) string {
	c := byte('0')
	if h[0] == '0' {
		c = '1'
	}
	return string(c) + h[1:]
}

// near-miss hashes: the claimed hash shares a long prefix / suffix with the right one.
func symNear(i int, how string) *symbol {
	h := sha(texts[i])
	switch how {
	case "tail":
		h = flipTail(h)
	case "head":
		h = flipHead(h)
	case "trunc":
		h = h[:16]
	case "longer":
		h = h + "00"
	}
	return &symbol{Name: fmt.Sprintf("t%d:text+hash~%s", i, how), Text: texts[i], Ext: pq("1", h), TextIdx: i, Kind: "mismatch", HasPQ: true, WF: true, Hash: h}
}

func symNearHashOnly(i int, how string) *symbol {
	s := symNear(i, how)
	s.Name = fmt.Sprintf("t%d:hash~%s", i, how)
	s.Text = ""
	s.Kind = "hash-only"
	return s
}

func malformed(name, text, ext string, ti int, hash string) *symbol {
	return &symbol{Name: name, Text: text, Ext: ext, TextIdx: ti, Kind: "malformed", HasPQ: true, Hash: hash}
}

// alphabet18: the exhaustively enumerated alphabet.
func alphabet18() []*symbol {
	var a []*symbol
	for i := 0; i < 3; i++ {
		a = append(a, symTextOnly(i), symPair(i), symMismatch(i, (i+1)%3), symHashOnly(i))
	}
	h0 := sha(texts[0])
	a = append(a,
		malformed("bad:string+t0", texts[0], `{"persistedQuery":"not-an-object"}`, 0, ""),
		malformed("bad:number", "", `{"persistedQuery":12345}`, 0, ""),
		malformed("bad:nohash+t1", texts[1], `{"persistedQuery":{"version":1}}`, 1, ""),
		malformed("bad:version-string,hash(t0)", "", `{"persistedQuery":{"version":"1","sha256Hash":"`+h0+`"}}`, 0, h0),
		malformed("v2:t0+hash", texts[0], pq("2", h0), 0, h0),
		symNear(0, "tail"),
	)
	return a
}

// alphabetBig: the alphabet of the random and concurrent histories.
func alphabetBig() []*symbol {
	var a []*symbol
	n := len(texts)
	for i := 0; i < n; i++ {
		a = append(a, symTextOnly(i), symPair(i), symPair(i), symMismatch(i, (i+1)%n), symMismatch(i, (i+3)%n),
			symHashOnly(i), symHashOnly(i), symHashOnly(i))
		h := sha(texts[i])
		a = append(a, symNear(i, "tail"), symNear(i, "head"), symNear(i, "trunc"), symNear(i, "longer"),
			symNearHashOnly(i, "tail"), symNearHashOnly(i, "trunc"),
			malformed(fmt.Sprintf("bad:string+t%d", i), texts[i], `{"persistedQuery":"`+h+`"}`, i, ""),
			malformed(fmt.Sprintf("bad:hash-number+t%d", i), texts[i], `{"persistedQuery":{"version":1,"sha256Hash":12345}}`, i, ""),
			malformed(fmt.Sprintf("bad:noversion,hash(t%d)", i), "", `{"persistedQuery":{"sha256Hash":"`+h+`"}}`, i, h),
			malformed(fmt.Sprintf("v2:t%d+hash", i), texts[i], pq("2", h), i, h),
			malformed(fmt.Sprintf("v0:hash(t%d)", i), "", pq("0", h), i, h),
			malformed(fmt.Sprintf("bad:list+t%d", i), texts[i], `{"persistedQuery":[1,"`+h+`"]}`, i, ""),
			malformed(fmt.Sprintf("bad:version-float,hash(t%d)", i), "", `{"persistedQuery":{"version":1.5,"sha256Hash":"`+h+`"}}`, i, h),
			symBlank(i, " ", "space"), symBlank(i, "\n\t ", "newline-tab"),
			symRawGet(i, "{ q1 %zz }", "query=%7B+q1+%zz+%7D", "stray-percent"), symRawGet(i, "{ q1; q2 }", "query={+q1;+q2+}", "raw-semicolon"),
		)
	}
	return a
}

// ---------------------------------------------------------------------------------------------
// the model

type model struct {
	cap      int               // 0 = cannot evict
	must     map[string]string // hash -> text registered by a well-formed (text, sha256(text)) v1 request
	may      map[string]string // hash -> text for every earlier request that carried text and its own correct hash
	added    map[string]bool   // distinct keys the real cache was asked to add so far
	prevSnap map[string]string
}

func newModel(cap int) *model {
	return &model{cap: cap, must: map[string]string{}, may: map[string]string{}, added: map[string]bool{}, prevSnap: map[string]string{}}
}

func (m *model) mustHit(h string) bool {
	if _, ok := m.must[h]; !ok {
		return false
	}
	return m.cap == 0 || len(m.added) <= m.cap
}

func rootsOf(executed []string) (roots []string, raws map[string]bool) {
	raws = map[string]bool{}
	for _, e := range executed {
		i := strings.IndexByte(e, '|')
		roots = append(roots, e[:i])
		raws[e[i+1:]] = true
	}
	sort.Strings(roots)
	return
}

// executedExactly: the resolver log shows exactly text t running.
func executedExactly(executed []string, t string) bool {
	roots, raws := rootsOf(executed)
	if len(raws) != 1 || !raws[t] {
		return false
	}
	want := textRoots[t]
	if len(roots) != len(want) {
		return false
	}
	for i := range want {
		if roots[i] != want[i] {
			return false
		}
	}
	return true
}

func hasNotFound(errs []errInfo) bool {
	for _, e := range errs {
		if e.Msg == "PersistedQueryNotFound" {
			return true
		}
	}
	return false
}

// integrity judges the recorded cache traffic of one request; it needs no model.
func integrity(sym *symbol, out *outcome) string {
	for _, op := range out.Cache {
		switch op.Op {
		case "add":
			if sha(op.Val) != op.Key {
				return fmt.Sprintf("the cache was asked to store text %q under hash %s, but sha256(text)=%s", op.Val, op.Key, sha(op.Val))
			}
		case "get":
			if op.OK && sha(op.Val) != op.Key {
				return fmt.Sprintf("the cache returned text %q for hash %s, but sha256(text)=%s", op.Val, op.Key, sha(op.Val))
			}
		}
	}
	if len(out.Executed) > 0 {
		if _, raws := rootsOf(out.Executed); len(raws) != 1 {
			return "resolvers of one request ran under different query texts"
		}
	}
	return ""
}

// step advances the model over one request and judges its outcome. snap is the content of the
// inspectable cache after the request (nil for LRU kinds). It returns (violation, class).
func (m *model) step(sym *symbol, out *outcome, snap map[string]string) (string, string) {
	if out.Broken != "" {
		return out.Broken, ""
	}
	if why := integrity(sym, out); why != "" {
		return why, ""
	}
	adds := 0
	for _, op := range out.Cache {
		if op.Op == "add" {
			adds++
			m.added[op.Key] = true
		}
	}
	ownPair := sym.Text != "" && sym.Hash != "" && sym.Hash == sha(sym.Text)
	class := ""
	why := ""
	switch {
	case !sym.HasPQ:
		class = "text-only"
		if !executedExactly(out.Executed, sym.Text) || len(out.Errs) > 0 {
			why = "a plain request (no persistedQuery extension) did not simply execute its own text"
		} else if adds > 0 {
			why = "a plain request (no persistedQuery extension) changed the persisted-query cache"
		}
	case sym.WF && sym.Text != "" && ownPair:
		class = "registered"
		if !executedExactly(out.Executed, sym.Text) || len(out.Errs) > 0 {
			why = "a request carrying text and its correct hash did not execute that text"
		}
		m.must[sym.Hash] = sym.Text
	case sym.WF && sym.Text != "":
		class = "mismatch-rejected"
		switch {
		case len(out.Executed) > 0:
			why = "a request whose text does not match its hash executed something"
		case len(out.Errs) == 0:
			why = "a request whose text does not match its hash was not rejected"
		case adds > 0:
			why = "a request whose text does not match its hash registered something"
		case snap != nil && !sameMap(snap, m.prevSnap):
			why = "a request whose text does not match its hash changed the cache"
		}
	case sym.WF:
		t, sent := m.may[sym.Hash]
		if len(out.Executed) > 0 {
			class = "hit"
			switch {
			case !sent:
				why = "a hash-only request executed although no text was ever sent with that hash"
			case !executedExactly(out.Executed, t):
				why = fmt.Sprintf("a hash-only request executed something other than the text registered under its hash (%q)", t)
			case len(out.Errs) > 0:
				why = "a hash-only request executed and reported errors"
			}
		} else {
			class = "miss"
			if _, reg := m.must[sym.Hash]; reg {
				class = "miss-after-registration"
			}
			switch {
			case !hasNotFound(out.Errs):
				why = "a hash-only request executed nothing and was not answered PersistedQueryNotFound"
			case m.mustHit(sym.Hash):
				why = "a registered hash was answered PersistedQueryNotFound although the cache cannot have evicted it"
			}
		}
	default:
		// malformed or wrong version: only "nothing foreign executes / registers" is required
		class = "malformed-rejected"
		if len(out.Executed) > 0 {
			class = "malformed-executed"
			ok := false
			if sym.Text != "" {
				ok = executedExactly(out.Executed, sym.Text)
			} else if t, sent := m.may[sym.Hash]; sym.Hash != "" && sent {
				ok = executedExactly(out.Executed, t)
			}
			if !ok {
				why = "a request with a malformed / unsupported persistedQuery extension executed text it did not send"
			}
		}
	}
	if ownPair {
		m.may[sym.Hash] = sym.Text
	}
	if why == "" && snap != nil {
		for k, v := range snap {
			if sha(v) != k {
				why = fmt.Sprintf("the cache holds text %q under hash %s, but sha256(text)=%s", v, k, sha(v))
			} else if m.may[k] != v {
				why = fmt.Sprintf("the cache holds (%s, %q) which no request ever sent together", k, v)
			}
		}
	}
	if snap != nil {
		m.prevSnap = snap
	}
	return why, class
}

func sameMap(a, b map[string]string) bool {
	if len(a) != len(b) {
		return false
	}
	for k, v := range a {
		if w, ok := b[k]; !ok || w != v {
			return false
		}
	}
	return true
}
