package main

import (
	"fmt"
	"math/rand"
	"sync"
	"sync/atomic"
	"time"

	"github.com/anishathalye/porcupine"

	"verif/internal/ev"
)

// porcupine vocabulary
type pin struct {
	Kind string // register | mayregister | lookup
	Hash string
}

type pout struct {
	Res string // ok | hit | notfound | none
}

type histOp struct {
	Client int      `json:"client"`
	Sym    string   `json:"symbol"`
	Call   int64    `json:"call"`
	Ret    int64    `json:"return"`
	Res    string   `json:"result"`
	Exec   []string `json:"executed,omitempty"`
}

// cacheModel: per hash, state 0 = absent, 1 = present.
func cacheModel(evicting bool) porcupine.Model {
	nm := porcupine.NondeterministicModel{
		Init: func() []interface{} { return []interface{}{0} },
		Step: func(state, input, output interface{}) []interface{} {
			s := state.(int)
			in := input.(pin)
			out := output.(pout)
			switch in.Kind {
			case "register":
				if out.Res == "ok" {
					return []interface{}{1}
				}
				return nil
			case "mayregister":
				if s == 1 {
					return []interface{}{1}
				}
				return []interface{}{0, 1}
			case "lookup":
				switch out.Res {
				case "hit":
					if s == 1 {
						return []interface{}{1}
					}
					return nil
				case "notfound":
					if s == 0 {
						return []interface{}{0}
					}
					if evicting {
						return []interface{}{0, 1}
					}
					return nil
				}
			}
			return nil
		},
		Equal: func(a, b interface{}) bool { return a.(int) == b.(int) },
		DescribeOperation: func(in, out interface{}) string {
			return fmt.Sprintf("%s(%.8s) -> %s", in.(pin).Kind, in.(pin).Hash, out.(pout).Res)
		},
	}
	return nm.ToModel()
}

// concurrent runs count histories: 8 clients issue requests against one server; every request is
// judged locally (integrity, nothing foreign executes, mismatches rejected and inert) and the
// register/lookup history is checked for linearizability against cacheModel, per hash.
func concurrent(rep *ev.Reporter, alpha []*symbol, seed int64, count int) (int64, int64) {
	ks := []cacheKind{{"map", 0}, {"lru1", 1}, {"lru2", 2}, {"lru100", 100}, {"lru3", 3}}
	const clients = 8
	opsPer := 40
	var total int64
	for h := 0; h < count; h++ {
		if rep.Violations() > 5 {
			break
		}
		k := ks[h%len(ks)]
		srv := newServer(k, false)
		r := rand.New(rand.NewSource(seed*15485863 + int64(h)))
		wset := 2 + r.Intn(4)
		plan := make([][]*symbol, clients)
		for c := range plan {
			for i := 0; i < opsPer; i++ {
				for {
					s := alpha[r.Intn(len(alpha))]
					// concurrent histories concentrate on pairs, lookups and mismatches
					if s.TextIdx < wset && (s.Kind != "text-only" || r.Intn(4) == 0) {
						plan[c] = append(plan[c], s)
						break
					}
				}
			}
		}
		var clock atomic.Int64
		var mu sync.Mutex
		var ops []porcupine.Operation
		var hist []histOp
		var local []map[string]any
		distinctAdds := map[string]bool{}
		start := make(chan struct{})
		var wg sync.WaitGroup
		for c := 0; c < clients; c++ {
			wg.Add(1)
			go func(c int) {
				defer wg.Done()
				<-start
				for i, sym := range plan[c] {
					call := clock.Add(1)
					out := srv.do(sym, (c+i)%3)
					ret := clock.Add(1)
					why := integrity(sym, out)
					ownPair := sym.Text != "" && sym.Hash != "" && sym.Hash == sha(sym.Text)
					var in *pin
					res := "none"
					switch {
					case why != "":
					case !sym.HasPQ:
						if !executedExactly(out.Executed, sym.Text) {
							why = "a plain request did not simply execute its own text"
						}
					case sym.WF && ownPair:
						in = &pin{"register", sym.Hash}
						if executedExactly(out.Executed, sym.Text) && len(out.Errs) == 0 {
							res = "ok"
						} else {
							why = "a request carrying text and its correct hash did not execute that text"
						}
					case sym.WF && sym.Text != "":
						adds := 0
						for _, op := range out.Cache {
							if op.Op == "add" {
								adds++
							}
						}
						if len(out.Executed) > 0 || len(out.Errs) == 0 || adds > 0 {
							why = "a request whose text does not match its hash executed, was not rejected, or registered something"
						}
					case sym.WF:
						in = &pin{"lookup", sym.Hash}
						if len(out.Executed) > 0 {
							res = "hit"
							_, raws := rootsOf(out.Executed)
							for raw := range raws {
								if sha(raw) != sym.Hash || !executedExactly(out.Executed, raw) {
									why = fmt.Sprintf("a hash-only request executed text %q whose sha256 is not the requested hash", raw)
								}
							}
						} else if hasNotFound(out.Errs) {
							res = "notfound"
						} else {
							why = "a hash-only request executed nothing and was not answered PersistedQueryNotFound"
						}
					default:
						if ownPair {
							in = &pin{"mayregister", sym.Hash}
						}
						if len(out.Executed) > 0 {
							_, raws := rootsOf(out.Executed)
							for raw := range raws {
								if (sym.Text != "" && raw != sym.Text) || (sym.Text == "" && (sym.Hash == "" || sha(raw) != sym.Hash)) {
									why = "a request with a malformed / unsupported persistedQuery extension executed text it did not send"
								}
							}
						}
					}
					mu.Lock()
					for _, op := range out.Cache {
						if op.Op == "add" {
							distinctAdds[op.Key] = true
						}
					}
					hist = append(hist, histOp{Client: c, Sym: sym.Name, Call: call, Ret: ret, Res: res, Exec: out.Executed})
					if in != nil {
						ops = append(ops, porcupine.Operation{ClientId: c, Input: *in, Call: call, Output: pout{res}, Return: ret})
					}
					if why != "" {
						local = append(local, map[string]any{"client": c, "index": i, "symbol": sym, "why": why, "outcome": out})
					}
					mu.Unlock()
				}
			}(c)
		}
		close(start)
		wg.Wait()
		total += int64(clients * opsPer)
		sc := seqCase{Part: "concurrent", Cache: k.Name, Via: "executor"}
		if len(local) > 0 {
			rep.Violate("", map[string]any{"case": sc, "history_index": h, "why": local[0]["why"], "violations": local, "history": hist})
			continue
		}
		evicting := k.Cap > 0 && len(distinctAdds) > k.Cap
		if evicting {
			rep.Count("concurrent_histories_with_possible_eviction", 1)
		} else {
			rep.Count("concurrent_histories_exact_model", 1)
		}
		// partition by hash
		parts := map[string][]porcupine.Operation{}
		for _, op := range ops {
			hh := op.Input.(pin).Hash
			parts[hh] = append(parts[hh], op)
		}
		overlap := 0
		for _, p := range parts {
			for i := range p {
				for j := i + 1; j < len(p); j++ {
					if p[i].ClientId != p[j].ClientId && p[i].Call <= p[j].Return && p[j].Call <= p[i].Return {
						overlap++
					}
				}
			}
		}
		rep.Count("concurrent_overlapping_same_hash_operation_pairs", int64(overlap))
		rep.Count("concurrent_linearizability_partitions_checked", int64(len(parts)))
		rep.Count("concurrent_history_operations_checked", int64(len(ops)))
		model := cacheModel(evicting)
		for hh, p := range parts {
			switch porcupine.CheckOperationsTimeout(model, p, 120*time.Second) {
			case porcupine.Illegal:
				var sub []histOp
				for _, o := range p {
					sub = append(sub, histOp{Client: o.ClientId, Sym: o.Input.(pin).Kind, Call: o.Call, Ret: o.Return, Res: o.Output.(pout).Res})
				}
				rep.Violate("", map[string]any{"case": sc, "history_index": h, "hash": hh, "evicting_model": evicting,
					"why":       "the register/lookup history of this hash is not linearizable against the cache model (a hit without a preceding registration, or a miss of a registered hash in a cache that cannot evict)",
					"partition": sub})
			case porcupine.Unknown:
				rep.Inconclusive("porcupine timed out on a concurrent history partition")
			default:
				rep.Count("concurrent_partitions_linearizable", 1)
			}
		}
		for _, o := range hist {
			rep.Count("concurrent_result_"+o.Res, 1)
		}
	}
	return int64(count), total
}
