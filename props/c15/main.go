// C15: the persisted-query cache binds a hash only to the text that hashes to it.
//
// The real extension.AutomaticPersistedQuery is attached to a real graphql/executor (and, for a
// subset, to handler.Server with the POST and GET transports) over the tx probe generated from the
// repository's current templates. The harness supplies the Cache: an inspectable map cache and
// gqlgen's lru.New[string](n), both behind a recording wrapper. Resolvers log (root field, raw query
// text of the operation they run in), so "which text executed" is observed in user code.
//
// Workloads:
//   - EXHAUSTIVE: every request sequence up to length 3 (quick) / 4 (thorough) over an 18-symbol
//     alphabet, each on a fresh server, against {map, LRU 1, LRU 2, LRU 100};
//   - the same alphabet, every sequence up to length 2, through handler.Server POST and GET;
//   - random histories of length 200 over a larger alphabet with LRU eviction;
//   - 8-client concurrent histories on one server, checked with porcupine against a (non)deterministic
//     model of the cache partitioned by hash, under the race detector.
//
// The oracle is a model map[hash]text stepped alongside the real server (model.go).
package main

import (
	"bytes"
	"context"
	"encoding/json"
	"fmt"
	"math/rand"
	"mime/multipart"
	"net/http"
	"net/http/httptest"
	"net/url"
	"os"
	"sort"
	"strings"
	"sync"
	"sync/atomic"

	"github.com/99designs/gqlgen/graphql"
	"github.com/99designs/gqlgen/graphql/executor"
	"github.com/99designs/gqlgen/graphql/handler"
	"github.com/99designs/gqlgen/graphql/handler/extension"
	"github.com/99designs/gqlgen/graphql/handler/lru"
	"github.com/99designs/gqlgen/graphql/handler/transport"
	"github.com/vektah/gqlparser/v2/ast"
	"github.com/vektah/gqlparser/v2/gqlerror"

	"verif/internal/ev"
	tx "verif/work/farm/cur/tx"
)

// ---------------------------------------------------------------------------------------------
// per-request observation carried in the context

type cacheOp struct {
	Op  string `json:"op"` // get | add
	Key string `json:"key"`
	Val string `json:"val,omitempty"`
	OK  bool   `json:"ok,omitempty"`
}

type reqLog struct {
	mu       sync.Mutex
	Executed []string // "root|raw query text"
	Cache    []cacheOp
}

type logKey struct{}

func withLog(ctx context.Context, l *reqLog) context.Context {
	return context.WithValue(ctx, logKey{}, l)
}

func getLog(ctx context.Context) *reqLog {
	l, _ := ctx.Value(logKey{}).(*reqLog)
	return l
}

func root(name string) func(ctx context.Context) (string, error) {
	return func(ctx context.Context) (string, error) {
		raw := "?"
		if oc := graphql.GetOperationContext(ctx); oc != nil {
			raw = oc.RawQuery
		}
		if l := getLog(ctx); l != nil {
			l.mu.Lock()
			l.Executed = append(l.Executed, name+"|"+raw)
			l.mu.Unlock()
		}
		return "v:" + name, nil
	}
}

var es = func() graphql.ExecutableSchema {
	s := &tx.Stub{}
	s.QueryResolver.Q1 = root("q1")
	s.QueryResolver.Q2 = root("q2")
	s.QueryResolver.Q3 = root("q3")
	s.QueryResolver.Nn = root("nn")
	return tx.NewExecutableSchema(tx.Config{Resolvers: s})
}()

// ---------------------------------------------------------------------------------------------
// caches

// mapCache is the inspectable cache (never evicts).
type mapCache struct {
	mu sync.Mutex
	m  map[string]string
}

func (c *mapCache) Get(_ context.Context, k string) (string, bool) {
	c.mu.Lock()
	defer c.mu.Unlock()
	v, ok := c.m[k]
	return v, ok
}

func (c *mapCache) Add(_ context.Context, k, v string) {
	c.mu.Lock()
	c.m[k] = v
	c.mu.Unlock()
}

func (c *mapCache) snapshot() map[string]string {
	c.mu.Lock()
	defer c.mu.Unlock()
	out := make(map[string]string, len(c.m))
	for k, v := range c.m {
		out[k] = v
	}
	return out
}

// recCache records every call (into the request's log) and delegates.
type recCache struct {
	inner graphql.Cache[string]
	gets  atomic.Int64
	adds  atomic.Int64
}

func (r *recCache) Get(ctx context.Context, k string) (string, bool) {
	v, ok := r.inner.Get(ctx, k)
	r.gets.Add(1)
	if l := getLog(ctx); l != nil {
		l.mu.Lock()
		l.Cache = append(l.Cache, cacheOp{Op: "get", Key: k, Val: v, OK: ok})
		l.mu.Unlock()
	}
	return v, ok
}

func (r *recCache) Add(ctx context.Context, k, v string) {
	if l := getLog(ctx); l != nil {
		l.mu.Lock()
		l.Cache = append(l.Cache, cacheOp{Op: "add", Key: k, Val: v})
		l.mu.Unlock()
	}
	r.adds.Add(1)
	r.inner.Add(ctx, k, v)
}

type cacheKind struct {
	Name string
	Cap  int // 0 = unbounded
}

var kinds = []cacheKind{{"map", 0}, {"lru1", 1}, {"lru2", 2}, {"lru100", 100}}

func kindByName(n string) (cacheKind, bool) {
	for _, k := range append(kinds, cacheKind{"lru3", 3}, cacheKind{"lru5", 5}) {
		if k.Name == n {
			return k, true
		}
	}
	return cacheKind{}, false
}

type server struct {
	kind  cacheKind
	mc    *mapCache // nil for LRU kinds
	rc    *recCache
	exec  *executor.Executor
	httpS *handler.Server
}

func newServer(k cacheKind, withHTTP bool) *server {
	s := &server{kind: k}
	var inner graphql.Cache[string]
	if k.Cap == 0 {
		s.mc = &mapCache{m: map[string]string{}}
		inner = s.mc
	} else {
		inner = lru.New[string](k.Cap)
	}
	s.rc = &recCache{inner: inner}
	s.exec = executor.New(es)
	// a parsed-document cache as in the default server: what a hash resolves to must not depend on it
	s.exec.SetQueryCache(lru.New[*ast.QueryDocument](64))
	s.exec.Use(extension.AutomaticPersistedQuery{Cache: s.rc})
	if withHTTP {
		s.httpS = handler.New(es)
		s.httpS.SetQueryCache(lru.New[*ast.QueryDocument](64))
		s.httpS.AddTransport(transport.GET{})
		s.httpS.AddTransport(transport.MultipartForm{})
		s.httpS.AddTransport(transport.POST{})
		s.httpS.Use(extension.AutomaticPersistedQuery{Cache: s.rc})
	}
	return s
}

// ---------------------------------------------------------------------------------------------
// running one request

type errInfo struct {
	Msg  string `json:"msg"`
	Code string `json:"code,omitempty"`
}

type outcome struct {
	Errs     []errInfo `json:"errors,omitempty"`
	Executed []string  `json:"executed,omitempty"`
	Cache    []cacheOp `json:"cache_ops,omitempty"`
	Data     string    `json:"data,omitempty"`
	Status   int       `json:"status,omitempty"`
	Broken   string    `json:"broken,omitempty"` // harness-level problem (unparsable HTTP body ...)
}

func convErrs(l gqlerror.List) []errInfo {
	var out []errInfo
	for _, e := range l {
		c, _ := e.Extensions["code"].(string)
		out = append(out, errInfo{Msg: e.Message, Code: c})
	}
	return out
}

// decodeExt decodes the extensions JSON the way a transport would (mode 0: json.Number), or with
// float64 (1) / int64 (2) numbers as other callers of the executor API may supply them.
func decodeExt(js string, mode int) map[string]any {
	if js == "" {
		return nil
	}
	var out map[string]any
	d := json.NewDecoder(strings.NewReader(js))
	if mode == 0 {
		d.UseNumber()
	}
	if err := d.Decode(&out); err != nil {
		panic("harness: bad extension JSON " + js)
	}
	if mode == 2 {
		out = intify(out).(map[string]any)
	}
	return out
}

func intify(v any) any {
	switch x := v.(type) {
	case map[string]any:
		for k, e := range x {
			x[k] = intify(e)
		}
		return x
	case []any:
		for i, e := range x {
			x[i] = intify(e)
		}
		return x
	case float64:
		if x == float64(int64(x)) {
			return int64(x)
		}
	}
	return v
}

func (s *server) do(sym *symbol, mode int) *outcome {
	l := &reqLog{}
	ctx := graphql.StartOperationTrace(withLog(context.Background(), l))
	params := &graphql.RawParams{Query: sym.Text, Extensions: decodeExt(sym.Ext, mode)}
	out := &outcome{}
	opCtx, errs := s.exec.CreateOperationContext(ctx, params)
	if len(errs) > 0 {
		resp := s.exec.DispatchError(graphql.WithOperationContext(ctx, opCtx), errs)
		out.Errs = convErrs(resp.Errors)
		out.Data = string(resp.Data)
	} else {
		responses, rctx := s.exec.DispatchOperation(ctx, opCtx)
		for i := 0; i < 100; i++ {
			r := responses(rctx)
			if r == nil {
				break
			}
			out.Errs = append(out.Errs, convErrs(r.Errors)...)
			out.Data += string(r.Data)
		}
	}
	l.mu.Lock()
	out.Executed = append([]string{}, l.Executed...)
	out.Cache = append([]cacheOp{}, l.Cache...)
	l.mu.Unlock()
	sort.Strings(out.Executed)
	return out
}

func (s *server) doHTTP(sym *symbol, method string) *outcome {
	l := &reqLog{}
	ctx := withLog(context.Background(), l)
	var req *http.Request
	if method == http.MethodGet {
		q := url.Values{}
		if sym.Text != "" {
			q.Set("query", sym.Text)
		}
		if sym.Ext != "" {
			q.Set("extensions", sym.Ext)
		}
		target := "/query?" + q.Encode()
		if sym.RawGetQuery != "" {
			q.Del("query")
			target = "/query?" + sym.RawGetQuery
			if e := q.Encode(); e != "" {
				target += "&" + e
			}
		}
		req = httptest.NewRequest(http.MethodGet, target, nil)
	} else {
		var b bytes.Buffer
		b.WriteString("{")
		sep := ""
		if sym.Text != "" {
			t, _ := json.Marshal(sym.Text)
			b.WriteString(`"query":` + string(t))
			sep = ","
		}
		if sym.Ext != "" {
			b.WriteString(sep + `"extensions":` + sym.Ext)
		}
		b.WriteString("}")
		if method == "MULTIPART" {
			// the upload transport carries the same parameters in its `operations` part
			var form bytes.Buffer
			mw := multipart.NewWriter(&form)
			mw.WriteField("operations", b.String())
			mw.WriteField("map", "{}")
			mw.Close()
			req = httptest.NewRequest(http.MethodPost, "/query", &form)
			req.Header.Set("Content-Type", mw.FormDataContentType())
		} else {
			req = httptest.NewRequest(http.MethodPost, "/query", &b)
			req.Header.Set("Content-Type", "application/json")
		}
	}
	req = req.WithContext(ctx)
	rec := httptest.NewRecorder()
	s.httpS.ServeHTTP(rec, req)
	out := &outcome{Status: rec.Code}
	var resp struct {
		Data   json.RawMessage `json:"data"`
		Errors []struct {
			Message    string         `json:"message"`
			Extensions map[string]any `json:"extensions"`
		} `json:"errors"`
	}
	if err := json.Unmarshal(rec.Body.Bytes(), &resp); err != nil {
		out.Broken = "response body is not JSON: " + rec.Body.String()
	}
	for _, e := range resp.Errors {
		c, _ := e.Extensions["code"].(string)
		out.Errs = append(out.Errs, errInfo{Msg: e.Message, Code: c})
	}
	out.Data = string(resp.Data)
	l.mu.Lock()
	out.Executed = append([]string{}, l.Executed...)
	out.Cache = append([]cacheOp{}, l.Cache...)
	l.mu.Unlock()
	sort.Strings(out.Executed)
	return out
}

// ---------------------------------------------------------------------------------------------
// sequential histories

type seqCase struct {
	Part  string   `json:"part"`
	Cache string   `json:"cache"`
	Via   string   `json:"via"` // executor | POST | GET
	Mode  int      `json:"number_mode"`
	Seq   []string `json:"sequence"`
}

type runStats struct {
	requests, hits, misses, evictionMisses, registered, mismatchRejected, malformed, textOnly int64
	malformedExecuted, malformedRejected                                                      int64
}

// runSeq runs one history on a fresh server. It returns false after reporting a violation.
func runSeq(rep *ev.Reporter, sc seqCase, syms []*symbol, st *runStats) bool {
	if len(syms) >= 3 && len(syms) <= 4 {
		nonTrivial := 0
		for _, sy := range syms {
			if !sy.trivial() {
				nonTrivial++
			}
		}
		if nonTrivial >= 2 {
			rep.Sample(map[string]any{"case": sc, "requests": syms}) // the reporter keeps the first few
		}
	}
	k, _ := kindByName(sc.Cache)
	srv := newServer(k, sc.Via != "executor")
	m := newModel(k.Cap)
	for i, sym := range syms {
		var out *outcome
		if sc.Via == "executor" {
			out = srv.do(sym, sc.Mode)
		} else {
			out = srv.doHTTP(sym, sc.Via)
		}
		var snap map[string]string
		if srv.mc != nil {
			snap = srv.mc.snapshot()
		}
		why, class := m.step(sym, out, snap)
		if st != nil {
			st.requests++
			switch class {
			case "hit":
				st.hits++
			case "miss":
				st.misses++
			case "miss-after-registration":
				st.misses++
				st.evictionMisses++
			case "registered":
				st.registered++
			case "mismatch-rejected":
				st.mismatchRejected++
			case "malformed-executed":
				st.malformed++
				st.malformedExecuted++
				rep.Count("malformed_executed:"+strings.Map(func(r rune) rune {
					if r >= '0' && r <= '9' {
						return -1
					}
					return r
				}, sym.Name), 1)
			case "malformed-rejected":
				st.malformed++
				st.malformedRejected++
			case "text-only":
				st.textOnly++
			}
		}
		if why != "" {
			rep.Violate("", map[string]any{"case": sc, "step": i, "symbol": sym, "why": why, "outcome": out, "cache_snapshot": snap,
				"model_registered": m.must, "model_sent_with_hash": m.may})
			return false
		}
	}
	return true
}

func flush(rep *ev.Reporter, prefix string, st *runStats) {
	rep.Count(prefix+"_requests", st.requests)
	rep.Count(prefix+"_hash_only_hits", st.hits)
	rep.Count(prefix+"_hash_only_not_found", st.misses)
	rep.Count(prefix+"_not_found_after_registration(eviction)", st.evictionMisses)
	rep.Count(prefix+"_registrations", st.registered)
	rep.Count(prefix+"_mismatching_pairs_rejected", st.mismatchRejected)
	rep.Count(prefix+"_malformed_or_wrong_version", st.malformed)
	rep.Count(prefix+"_malformed_rejected", st.malformedRejected)
	rep.Count(prefix+"_malformed_executed_own_text", st.malformedExecuted)
	rep.Count(prefix+"_text_only", st.textOnly)
}

// exhaustive enumerates every sequence of length 1..maxLen over alpha, on a fresh server each.
func exhaustive(rep *ev.Reporter, alpha []*symbol, maxLen int, via []string, part string) (int64, int64) {
	n := len(alpha)
	var total int64
	type job struct {
		length int
		first  int // index of the first symbol: the unit of parallel work
	}
	var jobs []job
	for L := 1; L <= maxLen; L++ {
		for f := 0; f < n; f++ {
			jobs = append(jobs, job{L, f})
		}
	}
	var wg sync.WaitGroup
	sem := make(chan struct{}, 16)
	var seqs, stop atomic.Int64
	var mu sync.Mutex
	for _, j := range jobs {
		wg.Add(1)
		go func(j job) {
			defer wg.Done()
			sem <- struct{}{}
			defer func() { <-sem }()
			var st runStats
			idx := make([]int, j.length)
			idx[0] = j.first
			syms := make([]*symbol, j.length)
			names := make([]string, j.length)
			count := 1
			for i := 1; i < j.length; i++ {
				count *= n
			}
			for c := 0; c < count && stop.Load() < 20; c++ {
				x := c
				for i := j.length - 1; i >= 1; i-- {
					idx[i] = x % n
					x /= n
				}
				for i, a := range idx {
					syms[i] = alpha[a]
					names[i] = alpha[a].Name
				}
				for _, k := range kinds {
					for _, v := range via {
						sc := seqCase{Part: part, Cache: k.Name, Via: v, Mode: (c + j.first) % 3, Seq: append([]string{}, names...)}
						if !runSeq(rep, sc, syms, &st) {
							stop.Add(1)
						}
						seqs.Add(1)
					}
				}
			}
			mu.Lock()
			flush(rep, part, &st)
			total += st.requests
			mu.Unlock()
		}(j)
	}
	wg.Wait()
	return seqs.Load(), total
}

func randomHistories(rep *ev.Reporter, alpha []*symbol, seed int64, count, length int) (int64, int64) {
	ks := []cacheKind{{"lru1", 1}, {"lru2", 2}, {"lru3", 3}, {"lru5", 5}, {"lru100", 100}, {"map", 0}}
	var wg sync.WaitGroup
	sem := make(chan struct{}, 16)
	var mu sync.Mutex
	var total int64
	for h := 0; h < count; h++ {
		wg.Add(1)
		go func(h int) {
			defer wg.Done()
			sem <- struct{}{}
			defer func() { <-sem }()
			r := rand.New(rand.NewSource(seed*104729 + int64(h)))
			k := ks[h%len(ks)]
			// a working set of texts somewhat larger than the cache so that eviction happens
			wset := 2 + r.Intn(len(texts)-1)
			if h%3 == 0 {
				wset = len(texts) // every third history draws on all texts
			}
			syms := make([]*symbol, length)
			names := make([]string, length)
			for i := range syms {
				for {
					s := alpha[r.Intn(len(alpha))]
					if s.TextIdx < wset {
						syms[i], names[i] = s, s.Name
						break
					}
				}
			}
			var st runStats
			runSeq(rep, seqCase{Part: "random", Cache: k.Name, Via: []string{"executor", http.MethodPost, http.MethodGet, "executor", "MULTIPART"}[(h/3)%5], Mode: h % 3, Seq: names}, syms, &st)
			mu.Lock()
			flush(rep, "random", &st)
			total += st.requests
			mu.Unlock()
		}(h)
	}
	wg.Wait()
	return int64(count), total
}

func main() {
	rep := ev.New("C15", "exploration")
	rep.Rule = "evaluations = requests executed against the real extension and judged by the model; a history is non-trivial when it contains at least one hash-only request, one mismatching (text, hash) pair or one registration; distinct = distinct (cache kind, transport, request sequence) histories among those (every enumerated sequence of length >= 1 over the alphabet qualifies except those made only of text-only and malformed symbols) plus distinct concurrent histories"
	rep.Assumptions = []string{
		"SHA-256 is recomputed by the harness (crypto/sha256); collisions are ignored",
		"'executes text T' is observed in user code: every root resolver logs its field and the RawQuery of the operation context it runs in",
		"hash-only lookups may miss after a registration only when the cache can have evicted (more distinct keys added than its capacity); the inspectable map cache and any LRU that never exceeded its capacity must hit",
		"for malformed / wrong-version extensions the property fixes no outcome: the oracle only requires that nothing but the request's own text executes and nothing but (sha256(text), text) is added",
		"porcupine model: per hash, state in {absent, present}; register -> present; lookup hit needs present; lookup miss needs absent (exact caches) or is always allowed (evicting caches); rejected mismatches do not change the state",
	}
	seed := ev.Seed()
	if p := os.Getenv("VERIF_REPLAY"); p != "" {
		os.Exit(doReplay(rep, p))
	}
	var evals int64

	small := alphabet18()
	rep.Set("alphabet", symbolNames(small))
	maxLen := ev.Pick(3, 4)
	seqs, reqs := exhaustive(rep, small, maxLen, []string{"executor"}, "exhaustive")
	evals += reqs
	rep.Count("exhaustive_sequences_run", seqs)
	hs, hreqs := exhaustive(rep, small, 2, []string{http.MethodPost, http.MethodGet}, "http")
	evals += hreqs
	rep.Count("http_sequences_run", hs)

	n := int64(len(small))
	var want int64
	p := int64(1)
	for L := 1; L <= maxLen; L++ {
		p *= n
		want += p
	}
	rep.Set("exhaustive_subspaces", []map[string]any{
		{"space": fmt.Sprintf("all request sequences of length 1..%d over the %d-symbol alphabet, each on a fresh executor", maxLen, n),
			"cache_kinds": []string{"map", "lru1", "lru2", "lru100"}, "sequences_per_cache_kind": want, "sequences_run": seqs, "complete": seqs == want*int64(len(kinds))},
		{"space": fmt.Sprintf("all request sequences of length 1..2 over the %d-symbol alphabet through handler.Server", n),
			"transports": []string{"POST", "GET"}, "cache_kinds": []string{"map", "lru1", "lru2", "lru100"}, "sequences_run": hs, "complete": hs == (n+n*n)*int64(len(kinds))*2},
	})
	if rep.Violations() == 0 && seqs != want*int64(len(kinds)) {
		rep.Inconclusive(fmt.Sprintf("exhaustive enumeration incomplete: %d of %d", seqs, want*int64(len(kinds))))
	}
	rep.Exhaustive(seqs == want*int64(len(kinds)))

	big := alphabetBig()
	rep.Set("random_alphabet_size", len(big))
	rh, rreqs := randomHistories(rep, big, seed, ev.Pick(120, 1500), 200)
	evals += rreqs
	rep.Count("random_histories", rh)

	ch, creqs := concurrent(rep, big, seed, ev.Pick(40, 400))
	evals += creqs
	rep.Count("concurrent_histories", ch)

	// every enumerated sequence contains a non-trivial symbol unless all its symbols are trivial
	trivial := int64(0)
	for _, s := range small {
		if s.trivial() {
			trivial++
		}
	}
	var nontrivial int64
	p = 1
	q := int64(1)
	for L := 1; L <= maxLen; L++ {
		p *= n
		q *= trivial
		nontrivial += p - q
	}
	nontrivial *= int64(len(kinds))
	if seqs != want*int64(len(kinds)) {
		nontrivial = 0
	}
	rep.Set("distinct_nontrivial_breakdown", map[string]int64{"exhaustive_histories": nontrivial, "random_histories": rh, "concurrent_histories": ch})
	os.Exit(rep.Finish(evals, nontrivial+rh+ch))
}

func symbolNames(a []*symbol) []string {
	out := make([]string, len(a))
	for i, s := range a {
		out[i] = s.Name
	}
	return out
}

func doReplay(rep *ev.Reporter, path string) int {
	b, err := os.ReadFile(path)
	if err != nil {
		fmt.Println("replay:", err)
		return 2
	}
	var f struct {
		Detail struct {
			Case seqCase `json:"case"`
		} `json:"detail"`
	}
	if err := json.Unmarshal(b, &f); err != nil {
		fmt.Println("replay:", err)
		return 2
	}
	sc := f.Detail.Case
	if sc.Part == "concurrent" || len(sc.Seq) == 0 {
		fmt.Println("replay: concurrent histories are not replayable deterministically; re-running the concurrent part")
		n, reqs := concurrent(rep, alphabetBig(), ev.Seed(), ev.Pick(40, 400))
		return rep.Finish(reqs, n)
	}
	byName := map[string]*symbol{}
	for _, s := range append(alphabet18(), alphabetBig()...) {
		byName[s.Name] = s
	}
	var syms []*symbol
	for _, n := range sc.Seq {
		s, ok := byName[n]
		if !ok {
			fmt.Println("replay: unknown symbol", n)
			return 2
		}
		syms = append(syms, s)
	}
	var st runStats
	runSeq(rep, sc, syms, &st)
	return rep.Finish(st.requests, 2)
}
