// C06: results are independent of resolver scheduling; mutation roots run serially.
// Every (operation, plan) is executed under several induced schedules (no delay, random yields,
// delay by hash, reversed delays, stragglers) x GOMAXPROCS {1,4,16} x worker_limit {0,1,2,8}
// (the farm configurations), under the race detector. Each run is compared with the
// schedule-free reference; mutation root fields are checked for strict serial order on the
// logical-clock event log; the completion orders actually observed are counted.
package main

import (
	"context"
	"fmt"
	"os"
	"runtime"
	"sort"
	"strings"
	"sync"
	"time"

	"github.com/99designs/gqlgen/graphql"
	"github.com/99designs/gqlgen/graphql/executor"
	"github.com/99designs/gqlgen/graphql/handler/apollotracing"
	"github.com/99designs/gqlgen/graphql/handler/extension"
	"github.com/vektah/gqlparser/v2/ast"

	"verif/internal/diffrun"
	"verif/internal/drive"
	"verif/internal/ev"
	"verif/internal/opgen"
	"verif/internal/univ"
	"verif/work/farm/cur/registry"
)

var schedNames = []string{"none", "yields", "delay-by-hash", "reversed-delay", "straggler"}

func main() {
	rep := ev.New("C06", "exploration")
	rep.Rule = "cases = (generated probe/config incl. worker_limit 0/1/2/8) x (seeded operation) x (plan with errors and nulls) x (5 induced schedules) x GOMAXPROCS; each compared with the schedule-free reference; distinct_nontrivial = distinct (probe, operation, plan) triples for which at least two different resolver completion orders were actually observed"
	rep.Assumptions = []string{
		"schedules are induced by resolver-side yields/sleeps chosen by the seeded plan; the race detector decides on happens-before, not on overlap luck",
		"the event log's mutex adds synchronisation edges inside resolvers; races in gqlgen code between two resolver calls on different goroutines remain visible in at least one of the induced orders",
		"reference executor and world function as in C01",
	}
	seed := ev.Seed()
	nOps := ev.Pick(25, 160)
	procs := []int{1, 16}
	if ev.Tier() == "thorough" {
		procs = []int{1, 4, 16}
	}
	var names []string
	for n := range registry.Probes {
		if strings.HasPrefix(n, "core_") || strings.HasPrefix(n, "rnd_") || strings.HasPrefix(n, "bound") {
			names = append(names, n)
		}
	}
	sort.Strings(names)
	if len(names) == 0 {
		rep.Inconclusive("no core probe generated and compiled on this tree")
		os.Exit(rep.Finish(0, 0))
	}
	type srvT struct {
		env *univ.Env
		srv *drive.Server
		// traced: the same schema behind a server with the Apollo tracing extension, whose field
		// interceptor records every resolver into one per-request list from all field goroutines
		traced *drive.Server
	}
	servers := map[string]*srvT{}
	for _, n := range names {
		env := univ.Bind(registry.Probes[n]())
		tr := drive.NewServer(env)
		tr.Exec.Use(apollotracing.Tracer{})
		// ... and with a field interceptor that looks at the errors of its field afterwards, as
		// logging / tracing middleware does
		tr.Exec.AroundFields(func(ctx context.Context, next graphql.Resolver) (any, error) {
			res, err := next(ctx)
			_ = graphql.GetFieldErrors(ctx, graphql.GetFieldContext(ctx))
			return res, err
		})
		servers[n] = &srvT{env, drive.NewServer(env), tr}
	}
	var evals int64
	var mu sync.Mutex
	// introspection fields are ordinary fields of the executor: list elements of __Type are
	// completed concurrently and concurrent requests share one *ast.Schema. This stage runs first,
	// on a schema nothing has touched yet.
	for _, name := range names {
		evals += introspectStage(rep, name, servers[name].env)
	}
	orders := map[string]map[string]bool{} // case -> set of completion-order hashes
	for _, np := range procs {
		runtime.GOMAXPROCS(np)
		var wg sync.WaitGroup
		sem := make(chan struct{}, 8)
		for _, name := range names {
			wg.Add(1)
			go func(name string) {
				defer wg.Done()
				sem <- struct{}{}
				defer func() { <-sem }()
				s := servers[name]
				wl := fmt.Sprint(s.env.Probe.Options["worker_limit"])
				for i := 0; i < nOps; i++ {
					opSeed := seed*7000003 + int64(i)
					kind := ast.Query
					if i%4 == 3 {
						kind = ast.Mutation
					}
					op, doc, why := diffrun.GenValid(s.env.Schema, opSeed, kind, opgen.Config{MaxDepth: 4, MaxSel: 5})
					if doc == nil {
						rep.Count("opgen_rejected", 1)
						_ = why
						continue
					}
					vars := diffrun.DecodeVars(op.Vars)
					for pi, base := range []univ.SeedPlan{
						{Seed: uint64(opSeed), ErrPermille: 80, NullPermille: 80, DirPermille: 60, MaxList: 4},
						{Seed: uint64(opSeed) + 1, ErrPermille: 200, ListPermille: 80, NullPermille: 100, MaxList: 3},
					} {
						for sm := 0; sm < len(schedNames); sm++ {
							p := base
							p.SchedMode = sm
							run := &univ.Run{Plan: &p, RegisterExt: true}
							o := diffrun.Compare(context.Background(), s.env, s.srv, doc, op.Query, op.OpName, vars, &p, run, 30*time.Second)
							cid := diffrun.Case{Probe: name, OpSeed: opSeed, Kind: string(kind), Plan: p, Query: op.Query, OpName: op.OpName, Vars: op.Vars,
								Extra: map[string]any{"gomaxprocs": np, "schedule": schedNames[sm]}}
							mu.Lock()
							evals++
							mu.Unlock()
							rep.Count("runs_gomaxprocs_"+fmt.Sprint(np), 1)
							rep.Count("runs_worker_limit_"+wl, 1)
							rep.Count("runs_schedule_"+schedNames[sm], 1)
							if o.Mismatch == "timeout" {
								rep.Inconclusive("watchdog fired for " + name + ": " + op.Query)
								continue
							}
							if o.Mismatch != "" {
								rep.Violate("", map[string]any{"case": cid, "why": "result under schedule '" + schedNames[sm] + "' differs from the schedule-free reference: " + o.Mismatch + ": " + o.Detail, "detail": o.Describe()})
								continue
							}
							if o.Want.RequestError != "" {
								continue
							}
							// completion order actually observed
							evs := o.Got.Events
							var rs []univ.Event
							for _, e := range evs {
								if e.Kind == "resolver" {
									rs = append(rs, e)
								}
							}
							sort.Slice(rs, func(a, b int) bool { return rs[a].End < rs[b].End })
							var sb strings.Builder
							for _, e := range rs {
								sb.WriteString(e.Path)
								sb.WriteByte(';')
							}
							key := fmt.Sprintf("%s|%d|%d", name, opSeed, pi)
							mu.Lock()
							if orders[key] == nil {
								orders[key] = map[string]bool{}
							}
							orders[key][fmt.Sprint(univ.H(sb.String()))] = true
							mu.Unlock()
							gs := map[int64]bool{}
							for _, e := range rs {
								gs[e.G] = true
							}
							if len(gs) > 1 {
								rep.Count("runs_with_resolvers_on_several_goroutines", 1)
							}
							// every resolver registered one response extension under its own key: none may be lost
							nExt := 0
							for _, pl := range o.Got.Payloads {
								nExt += pl.Extensions
							}
							if nExt != len(rs) {
								rep.Violate("", map[string]any{"case": cid, "why": fmt.Sprintf("%d resolver invocations registered a response extension each (concurrently), the response carries %d", len(rs), nExt)})
							} else if len(rs) > 1 {
								rep.Count("runs_with_all_concurrently_registered_extensions_present", 1)
							}
							if sm == 1 && kind == ast.Query {
								// same case with the tracing extension installed: same data and errors, every
								// resolver of the operation recorded by the tracer (and no race while it does)
								pt := base
								pt.SchedMode = sm
								ot := diffrun.Compare(context.Background(), s.env, s.traced, doc, op.Query, op.OpName, vars, &pt, &univ.Run{Plan: &pt}, 30*time.Second)
								mu.Lock()
								evals++
								mu.Unlock()
								if ot.Mismatch != "" && ot.Mismatch != "timeout" {
									rep.Violate("", map[string]any{"case": cid, "why": "with the Apollo tracing extension installed: " + ot.Mismatch + " differ from the reference: " + ot.Detail})
								} else {
									rep.Count("runs_with_apollo_tracing", 1)
								}
							}
							rep.Count("resolver_events", int64(len(rs)))
							rep.Count("errors_in_responses", int64(len(o.Want.Errors)))
							if kind == ast.Mutation {
								checkSerial(rep, cid, o.Want.MutationOrder, evs)
							}
							if sm == 3 && pi == 0 {
								rep.Sample(map[string]any{"probe": name, "query": op.Query, "schedule": schedNames[sm], "gomaxprocs": np,
									"resolver_events": len(rs), "goroutines": len(gs)})
							}
						}
					}
				}
			}(name)
		}
		wg.Wait()
	}
	runtime.GOMAXPROCS(runtime.NumCPU())
	multi := 0
	totalOrders := 0
	for _, set := range orders {
		totalOrders += len(set)
		if len(set) >= 2 {
			multi++
		}
	}
	rep.Set("cases_observed", len(orders))
	rep.Set("distinct_completion_orders_total", totalOrders)
	rep.Set("cases_with_at_least_two_completion_orders", multi)
	rep.Set("probes", names)
	os.Exit(rep.Finish(evals, int64(multi)))
}

// checkSerial verifies that every event under root field k+1 starts after every event under root
// field k has ended (logical clock of the event log).
func checkSerial(rep *ev.Reporter, cid diffrun.Case, order []string, evs []univ.Event) {
	if len(order) < 2 {
		return
	}
	idx := map[string]int{}
	for i, k := range order {
		idx[k] = i
	}
	maxEnd := make([]int64, len(order))
	minStart := make([]int64, len(order))
	for i := range minStart {
		minStart[i] = 1 << 62
	}
	for _, e := range evs {
		root := e.Path
		if j := strings.IndexAny(root, ".["); j >= 0 {
			root = root[:j]
		}
		i, ok := idx[root]
		if !ok {
			continue
		}
		if e.End > maxEnd[i] {
			maxEnd[i] = e.End
		}
		if e.Seq < minStart[i] {
			minStart[i] = e.Seq
		}
	}
	rep.Count("mutation_root_pairs_checked", int64(len(order)-1))
	prevEnd := int64(0)
	for i := range order {
		if minStart[i] != 1<<62 && minStart[i] < prevEnd {
			rep.Violate("", map[string]any{"case": cid, "why": fmt.Sprintf("mutation root field %q started (clock %d) before the previous root fields finished (clock %d)", order[i], minStart[i], prevEnd), "events": evs})
			return
		}
		if maxEnd[i] > prevEnd {
			prevEnd = maxEnd[i]
		}
	}
}

const introQuery = `{ __schema { types { name kind fields(includeDeprecated:true) { name type { name ofType { name possibleTypes { name } } possibleTypes { name } } } interfaces { name possibleTypes { name } } possibleTypes { name interfaces { name } } enumValues(includeDeprecated:true) { name } inputFields { name } } directives { name locations args { name } } } }`

// introspectStage: 12 concurrent introspection requests, each reaching every abstract type from
// several list elements at once, must all answer alike (and like a later, serial request); the race
// detector watches the shared schema meanwhile.
func introspectStage(rep *ev.Reporter, name string, env *univ.Env) int64 {
	ex := executor.New(env.ES)
	ex.Use(extension.Introspection{})
	srv := &drive.Server{Env: env, Exec: ex}
	const n = 12
	outs := make([]string, n+1)
	one := func(i int) {
		r := srv.Run(context.Background(), &univ.Run{Plan: env.DefaultPlan}, introQuery, "", nil, 60*time.Second)
		switch {
		case r.TimedOut:
			outs[i] = "timeout"
		case len(r.RequestErrors) > 0:
			outs[i] = "refused: " + strings.Join(r.RequestErrors, "; ")
		case len(r.Payloads) != 1:
			outs[i] = fmt.Sprintf("%d payloads", len(r.Payloads))
		default:
			outs[i] = string(r.Payloads[0].Raw)
		}
	}
	var wg sync.WaitGroup
	start := make(chan struct{})
	for i := 0; i < n; i++ {
		wg.Add(1)
		go func(i int) { defer wg.Done(); <-start; one(i) }(i)
	}
	close(start)
	wg.Wait()
	one(n)
	if strings.HasPrefix(outs[n], "refused") || outs[n] == "timeout" || !strings.Contains(outs[n], `"possibleTypes":[{`) && len(env.Schema.PossibleTypes) > 0 && hasAbstract(env) {
		rep.Violate("", map[string]any{"probe": name, "why": "introspection request not answered as expected: " + clip(outs[n])})
		return n + 1
	}
	for i := 0; i < n; i++ {
		if outs[i] != outs[n] {
			rep.Violate("", map[string]any{"probe": name, "why": "concurrent introspection requests answered differently", "one": clip(outs[i]), "serial": clip(outs[n])})
			return n + 1
		}
	}
	rep.Count("concurrent_introspection_requests_agreeing", n)
	return n + 1
}

func hasAbstract(env *univ.Env) bool {
	for _, d := range env.Schema.Types {
		if (d.Kind == ast.Interface || d.Kind == ast.Union) && !strings.HasPrefix(d.Name, "__") && len(env.Schema.PossibleTypes[d.Name]) > 0 {
			return true
		}
	}
	return false
}

func clip(s string) string {
	if len(s) > 400 {
		return s[:400] + "..."
	}
	return s
}
