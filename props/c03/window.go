package main

// The rule-swap window.
//
// SetDisableSuggestion(true) swaps a rule of gqlparser's process-global rule set: the suggesting
// FieldsOnCorrectType rule is exchanged for the one without suggestions. Whatever order and place
// the two updates have (originally on every request, now once while the executor is configured),
// between them another executor of the same process may be validating; if the rule set then has
// no field-existence rule at all, a document with an unknown field passes validation. The guarded
// hook graphql/verifhook (build tag verif) marks the point between the two updates
// ("executor.rules.between"); this stage parks whoever reaches it first (the configuring
// goroutine or the first request) and meanwhile sends a document with an unknown field to a second
// executor of the same process. The document is invalid by construction, so it must be refused
// with no hook / resolver event and no data. The window exists once per process, so every variant
// runs in a fresh child process (this binary re-executed with VERIF_C03_WINDOW set).

import (
	"bufio"
	"encoding/json"
	"fmt"
	"os"
	"os/exec"
	"strings"
	"time"

	"github.com/99designs/gqlgen/graphql/verifhook"

	"verif/internal/univ"
)

type windowSpec struct {
	Probe  string `json:"probe"`
	CacheA string `json:"cache_a"` // cache of the executor that disables suggestions
	CacheB string `json:"cache_b"` // cache of the second executor
	HTTPB  bool   `json:"http_b"`  // second server driven through handler.Server + POST
	Doc    string `json:"doc"`     // root | nested | mixed
	Same   bool   `json:"same"`    // second request goes to the SAME executor (it swaps the rules itself first)
}

type windowResult struct {
	Spec          windowSpec `json:"spec"`
	HookReached   bool       `json:"hook_reached"`
	HookPhase     string     `json:"hook_phase"` // configuration (inside SetDisableSuggestion) | request
	BlockedInB    bool       `json:"second_request_blocked_until_release"`
	Query         string     `json:"query"`
	Refused       bool       `json:"refused"`
	HasData       bool       `json:"has_data"`
	Body          string     `json:"body"`
	Status        int        `json:"status"`
	Panic         string     `json:"panic"`
	Trace         []string   `json:"trace"`
	ResolverCalls int        `json:"resolver_events"`
	Verdict       string     `json:"verdict"` // "" lawful, else the oracle's complaint
	VerdictSig    string     `json:"verdict_sig"`
	AfterRefused  bool       `json:"same_document_refused_after_release"`
	FirstOK       bool       `json:"parked_request_completed_normally"`
	RecoverCalls  int64      `json:"recover_func_calls"`
}

const windowSig = "rule-swap-window:unknown-field-document-executed"

func windowDoc(kind string) string {
	switch kind {
	case "nested":
		return "query W { an { vid zzNoSuchField } }"
	case "mixed":
		return "query W { scalarN an { vid } zzNoSuchField }"
	}
	return "query W { zzNoSuchField }"
}

// windowChild runs one variant and prints one WINDOW-RESULT line.
func windowChild() {
	var spec windowSpec
	if err := json.Unmarshal([]byte(os.Getenv("VERIF_C03_WINDOW")), &spec); err != nil {
		fmt.Println("WINDOW-ERROR bad spec", err)
		os.Exit(3)
	}
	res := windowResult{Spec: spec}
	all := extList{63}
	// the second executor exists before anybody disables suggestions
	cb := spec.CacheB
	if spec.Same {
		cb = spec.CacheA
	}
	b0 := newServer(config{Probe: spec.Probe, Cache: cb, DisableSuggestion: false, Exts: all, HTTP: spec.HTTPB})
	var a *server
	aReady := make(chan struct{})
	reached := make(chan struct{})
	release := make(chan struct{})
	first := true
	var gate = make(chan struct{}, 1)
	gate <- struct{}{}
	verifhook.Set(func(point string) {
		if point != "executor.rules.between" {
			return
		}
		<-gate
		mine := first
		first = false
		gate <- struct{}{}
		if mine {
			close(reached)
			<-release
		}
	})
	plan := &univ.SeedPlan{Seed: 7, MaxList: 2}
	okDoc := &variant{Name: "window-valid", Query: "query V { scalarN }", OpName: "V", fields: 1, rootFields: 1}
	firstDone := make(chan *outcome, 1)
	// the swap happens either while the executor is being configured (SetDisableSuggestion) or on
	// its first request; whichever reaches the hook point first is parked there
	go func() {
		a = newServer(config{Probe: spec.Probe, Cache: spec.CacheA, DisableSuggestion: true, Exts: all})
		close(aReady)
		firstDone <- a.run(step{V: okDoc}, plan)
	}()
	select {
	case <-reached:
		res.HookReached = true
	case o := <-firstDone:
		// the hook point was never reached: there is no window to hold open
		firstDone <- o
	case <-time.After(20 * time.Second):
	}
	b := b0
	select {
	case <-aReady:
		res.HookPhase = "request"
		if spec.Same {
			b = a
		}
	default:
		res.HookPhase = "configuration"
	}
	bad := &variant{Name: "window-unknown-field-" + spec.Doc, Stage: "validate", Query: windowDoc(spec.Doc), OpName: "W"}
	res.Query = bad.Query
	secondDone := make(chan *outcome, 1)
	go func() { secondDone <- b.run(step{V: bad}, plan) }()
	var o *outcome
	select {
	case o = <-secondDone:
	case <-time.After(3 * time.Second):
		// the second request waits for the parked one (e.g. a lock now serialises the swap):
		// release and let it finish; the verdict below is about what it then answers
		res.BlockedInB = true
	}
	close(release)
	if o == nil {
		o = <-secondDone
	}
	fo := <-firstDone
	<-aReady
	res.FirstOK = !fo.refused && fo.hasData && fo.panicked == ""
	res.Refused, res.HasData, res.Body, res.Status, res.Panic = o.refused, o.hasData, o.body, o.status, o.panicked
	res.Trace = renderTrace(o.events, 60)
	res.ResolverCalls = len(o.univ)
	for _, e := range o.events {
		if e.Kind == "resolver" {
			res.ResolverCalls++
		}
	}
	if v := checkTrace(expect{exts: all, rejectStage: "validate"}, o.events); v != nil {
		res.Verdict, res.VerdictSig = v.why, v.sig
	} else if len(o.univ) > 0 {
		res.Verdict, res.VerdictSig = "resolver events for a document with an unknown field", "rejected-request-reached-resolver"
	} else if o.hasData || !o.refused {
		res.Verdict, res.VerdictSig = "a document with an unknown field was not answered with errors only", "invalid-request-accepted"
	} else if o.panicked != "" {
		res.Verdict, res.VerdictSig = "panic: "+o.panicked, "rejected-request-panicked"
	}
	// after the swap completed the same document must be refused (and must not have been cached)
	o2 := b.run(step{V: bad}, plan)
	res.AfterRefused = o2.refused && !o2.hasData && len(o2.events) == len(checkless(o2.events))
	res.RecoverCalls = a.recovers.Load() + b.recovers.Load()
	out, _ := json.Marshal(res)
	fmt.Println("WINDOW-RESULT " + string(out))
}

// checkless keeps only the events a refused request may produce.
func checkless(ev []hev) []hev {
	var out []hev
	for _, e := range ev {
		switch e.Kind {
		case "pm", "cm", "resp":
			out = append(out, e)
		}
	}
	return out
}

func runWindowStage(probes []string, seed int64) {
	self, err := os.Executable()
	if err != nil {
		rep.Inconclusive("cannot locate own executable for the window stage: " + err.Error())
		return
	}
	specs := []windowSpec{
		{CacheA: "none", CacheB: "none", Doc: "root"},
		{CacheA: "lru1000", CacheB: "lru1000", Doc: "nested"},
		{CacheA: "none", CacheB: "lru2", Doc: "mixed"},
		{CacheA: "lru1", CacheB: "none", Doc: "nested", HTTPB: true},
		{CacheA: "none", CacheB: "none", Doc: "root", HTTPB: true},
		{CacheA: "none", Doc: "mixed", Same: true},
	}
	if n := len(specs); true {
		for i := 0; i < ev2(0, 12); i++ {
			s := specs[i%n]
			s.CacheB = []string{"none", "lru1", "lru2", "lru1000"}[(i+int(seed))%4]
			specs = append(specs, s)
		}
	}
	type job struct {
		spec windowSpec
		out  string
		err  error
	}
	jobs := make([]job, len(specs))
	done := make(chan int, len(specs))
	sem := make(chan struct{}, 6)
	for i := range specs {
		specs[i].Probe = probes[(i+int(seed))%len(probes)]
		jobs[i].spec = specs[i]
		go func(i int) {
			sem <- struct{}{}
			defer func() { <-sem; done <- i }()
			sj, _ := json.Marshal(jobs[i].spec)
			cmd := exec.Command(self)
			cmd.Env = append(os.Environ(), "VERIF_C03_WINDOW="+string(sj))
			b, err := cmd.CombinedOutput()
			jobs[i].out, jobs[i].err = string(b), err
		}(i)
	}
	for range specs {
		<-done
	}
	for _, j := range jobs {
		rep.Count("window_children", 1)
		var res *windowResult
		sc := bufio.NewScanner(strings.NewReader(j.out))
		sc.Buffer(make([]byte, 1<<20), 1<<24)
		for sc.Scan() {
			if l := sc.Text(); strings.HasPrefix(l, "WINDOW-RESULT ") {
				res = &windowResult{}
				if json.Unmarshal([]byte(strings.TrimPrefix(l, "WINDOW-RESULT ")), res) != nil {
					res = nil
				}
			}
		}
		if res == nil {
			tail := j.out
			if len(tail) > 3000 {
				tail = tail[len(tail)-3000:]
			}
			if strings.Contains(j.out, "panic:") || strings.Contains(j.out, "fatal error:") {
				rep.Violate("rule-swap-window:child-process-crashed", map[string]any{"spec": j.spec, "error": fmt.Sprint(j.err), "output_tail": tail})
			} else {
				// killed from outside (e.g. memory pressure): not an observation of gqlgen
				rep.Inconclusive(fmt.Sprintf("window child ended without a result and without a Go crash report: %v", j.err))
			}
			continue
		}
		rep.Count("requests", 2)
		rep.Count("class_refused:validate", 2)
		if res.HookReached {
			rep.Count("window_hook_reached", 1)
			rep.Count("window_hook_reached_during_"+res.HookPhase, 1)
		} else {
			rep.Count("window_hook_not_on_request_path", 1)
		}
		if res.BlockedInB {
			rep.Count("window_second_request_waited_for_parked_one", 1)
		}
		rep.Distinct("cases", fmt.Sprintf("window|%v", j.spec))
		if res.Verdict != "" {
			rep.Count("window_unknown_field_document_executed", 1)
			rep.Violate(windowSig, map[string]any{"why": res.Verdict, "oracle_signature": res.VerdictSig, "result": res,
				"how": "the executor with SetDisableSuggestion(true) parked at verifhook point executor.rules.between (see hook_phase: while being configured, or on its first request); meanwhile the shown query was sent to a second executor of the same process"})
		} else {
			rep.Count("window_unknown_field_document_refused", 1)
		}
		if !res.AfterRefused {
			rep.Violate("rule-swap-window:document-accepted-after-swap", map[string]any{"result": res})
		}
		if !res.FirstOK {
			rep.Violate("rule-swap-window:parked-request-failed", map[string]any{"result": res})
		}
	}
}

func ev2(q, t int) int {
	if os.Getenv("VERIF_TIER") == "thorough" {
		return t
	}
	return q
}
