// C03: nothing executes unless the operation passed parsing, validation and every gate; hook order.
//
// Trace monitor. Servers generated from the repository's current templates (core probes bound to
// the universal resolver) are driven through graphql/executor.Executor directly and through
// handler.Server + POST. Instrumented extensions (lists of 0-4, each implementing a seeded subset
// of the six hook interfaces, some scripted to reject) and the universal resolver write into one
// per-request event log; an online pushdown automaton (oracle.go) decides every request.
// Whether a request must be refused is known by construction (mutate.go).
package main

import (
	"context"
	"encoding/json"
	"fmt"
	"math/rand"
	"net/http"
	"net/http/httptest"
	"os"
	"runtime"
	"runtime/pprof"
	"sort"
	"strconv"
	"strings"
	"sync"
	"sync/atomic"
	"time"

	"github.com/99designs/gqlgen/graphql"
	"github.com/99designs/gqlgen/graphql/executor"
	"github.com/99designs/gqlgen/graphql/handler"
	"github.com/99designs/gqlgen/graphql/handler/lru"
	"github.com/99designs/gqlgen/graphql/handler/transport"
	legacy "github.com/99designs/gqlgen/handler"
	"github.com/gorilla/websocket"
	"github.com/vektah/gqlparser/v2/ast"
	"github.com/vektah/gqlparser/v2/lexer"

	"verif/internal/ev"
	"verif/internal/opgen"
	"verif/internal/sjson"
	"verif/internal/univ"
	"verif/work/farm/cur/registry"
)

var rep *ev.Reporter

// invalidTexts: query texts that are, by construction, not valid documents (parse / validate
// stage). Built before any request runs, read-only afterwards.
var invalidTexts = map[string]string{}

// ---------------------------------------------------------------------------------------------
// query cache wrapper: counts hits / misses / adds and watches what is stored

type watchCache struct {
	inner                graphql.Cache[*ast.QueryDocument]
	hits, misses, adds   atomic.Int64
	poisoned, servedEvil atomic.Int64
}

func (c *watchCache) Get(ctx context.Context, key string) (*ast.QueryDocument, bool) {
	d, ok := c.inner.Get(ctx, key)
	if ok {
		c.hits.Add(1)
		if _, bad := invalidTexts[key]; bad {
			c.servedEvil.Add(1)
		}
	} else {
		c.misses.Add(1)
	}
	return d, ok
}

func (c *watchCache) Add(ctx context.Context, key string, d *ast.QueryDocument) {
	c.adds.Add(1)
	if _, bad := invalidTexts[key]; bad {
		c.poisoned.Add(1)
	}
	c.inner.Add(ctx, key, d)
}

func newCache(kind string) graphql.Cache[*ast.QueryDocument] {
	switch kind {
	case "none":
		return graphql.NoCache[*ast.QueryDocument]{}
	case "map":
		return graphql.MapCache[*ast.QueryDocument]{}
	case "lru1":
		return lru.New[*ast.QueryDocument](1)
	case "lru2":
		return lru.New[*ast.QueryDocument](2)
	case "lru1000":
		return lru.New[*ast.QueryDocument](1000)
	}
	panic("cache kind " + kind)
}

// ---------------------------------------------------------------------------------------------
// servers

type config struct {
	Probe             string  `json:"probe"`
	Exts              extList `json:"ext_masks"`
	ExtsText          string  `json:"exts"`
	Cache             string  `json:"cache"`
	DisableSuggestion bool    `json:"disable_suggestion"`
	HTTP              bool    `json:"http"`
	WS                bool    `json:"websocket"` // with HTTP: requests travel as graphql-transport-ws subscribe messages
	SSE               bool    `json:"sse,omitempty"` // with HTTP: POST with Accept: text/event-stream
	TokenLimit        int     `json:"parser_token_limit,omitempty"`
}

type reqCtx struct {
	log *reqLog
	run *univ.Run
}

type server struct {
	cfg      config
	env      *univ.Env
	exec     *executor.Executor
	hs       *handler.Server
	cache    *watchCache
	ts       *httptest.Server // websocket mode
	reg      sync.Map         // request id -> *reqCtx (HTTP path)
	recovers atomic.Int64
	nextID   atomic.Int64
}

var envs sync.Map // probe name -> *univ.Env (one bound schema per probe, shared by its servers)

func envOf(probe string) *univ.Env {
	if e, ok := envs.Load(probe); ok {
		return e.(*univ.Env)
	}
	e := univ.Bind(registry.Probes[probe]())
	a, _ := envs.LoadOrStore(probe, e)
	return a.(*univ.Env)
}

func newServer(cfg config) *server {
	cfg.ExtsText = cfg.Exts.String()
	s := &server{cfg: cfg, env: envOf(cfg.Probe)}
	s.cache = &watchCache{inner: newCache(cfg.Cache)}
	rf := func(ctx context.Context, r any) error {
		s.recovers.Add(1)
		return fmt.Errorf("PANIC:%v", r)
	}
	if cfg.HTTP {
		s.hs = handler.New(s.env.ES)
		if cfg.WS {
			s.hs.AddTransport(transport.Websocket{Upgrader: websocket.Upgrader{CheckOrigin: func(*http.Request) bool { return true }}})
			s.ts = httptest.NewServer(s)
		}
		if cfg.SSE {
			s.hs.AddTransport(transport.SSE{})
		}
		s.hs.AddTransport(transport.POST{})
		s.hs.SetQueryCache(s.cache)
		s.hs.SetDisableSuggestion(cfg.DisableSuggestion)
		if cfg.TokenLimit > 0 {
			s.hs.SetParserTokenLimit(cfg.TokenLimit)
		}
		s.hs.SetRecoverFunc(rf)
		for _, x := range cfg.Exts.build() {
			s.hs.Use(x)
		}
		return s
	}
	s.exec = executor.New(s.env.ES)
	s.exec.SetQueryCache(s.cache)
	s.exec.SetDisableSuggestion(cfg.DisableSuggestion)
	if cfg.TokenLimit > 0 {
		s.exec.SetParserTokenLimit(cfg.TokenLimit)
	}
	s.exec.SetRecoverFunc(rf)
	for _, x := range cfg.Exts.build() {
		s.exec.Use(x)
	}
	return s
}

func (s *server) ServeHTTP(w http.ResponseWriter, r *http.Request) {
	ctx := r.Context()
	if v, ok := s.reg.Load(r.Header.Get("X-Verif-Req")); ok {
		rc := v.(*reqCtx)
		ctx = withLog(univ.WithRun(ctx, rc.run), rc.log)
	}
	s.hs.ServeHTTP(w, r.WithContext(ctx))
}

// step is one request of a history.
type step struct {
	V          *variant `json:"variant"`
	RejectKind string   `json:"reject_kind,omitempty"` // "pm" | "cm": scripted refusal by an extension
	RejectExt  int      `json:"reject_ext,omitempty"`
}

type outcome struct {
	refused   bool // CreateOperationContext returned errors (direct) / no events and no data (HTTP)
	hasData   bool // response carried a non-null data member
	hasErrors bool
	panicked  string
	status    int
	body      string
	events    []hev
	univ      []univ.Event
}

func (s *server) run(st step, plan univ.Plan) *outcome {
	l := &reqLog{rejectKind: st.RejectKind, rejectExt: st.RejectExt}
	run := &univ.Run{Plan: &logPlan{Plan: plan, l: l, ext: -1}}
	out := &outcome{}
	vars := jsonRoundTrip(st.V.Vars)
	if s.cfg.HTTP {
		id := strconv.FormatInt(s.nextID.Add(1), 10)
		s.reg.Store(id, &reqCtx{log: l, run: run})
		defer s.reg.Delete(id)
		body := map[string]any{"query": st.V.Query}
		if st.V.OpName != "" {
			body["operationName"] = st.V.OpName
		}
		if vars != nil {
			body["variables"] = st.V.Vars
		}
		if s.cfg.WS {
			s.runWS(id, body, out)
		} else {
			b, _ := json.Marshal(body)
			r := httptest.NewRequest("POST", "/query", strings.NewReader(string(b)))
			r.Header.Set("Content-Type", "application/json")
			r.Header.Set("X-Verif-Req", id)
			if s.cfg.SSE {
				r.Header.Set("Accept", "text/event-stream")
			}
			w := httptest.NewRecorder()
			s.ServeHTTP(w, r)
			out.status = w.Code
			out.body = w.Body.String()
			if s.cfg.SSE && strings.HasPrefix(w.Header().Get("Content-Type"), "text/event-stream") {
				// every `next` event carries one response
				for _, ev := range strings.Split(out.body, "\n\n") {
					if !strings.Contains(ev, "event: next") {
						continue
					}
					i := strings.Index(ev, "data: ")
					if i < 0 {
						continue
					}
					v, err := sjson.Parse([]byte(ev[i+6:]))
					if err != nil || v.Kind != sjson.Object {
						out.panicked = "SSE next event is not a JSON object: " + ev
						continue
					}
					if d := v.Get("data"); d != nil && d.Kind != sjson.Null {
						out.hasData = true
					}
					if e := v.Get("errors"); e != nil && e.Kind == sjson.Array && len(e.Arr) > 0 {
						out.hasErrors = true
					}
				}
			} else if v, err := sjson.Parse(w.Body.Bytes()); err == nil && v.Kind == sjson.Object {
				if d := v.Get("data"); d != nil && d.Kind != sjson.Null {
					out.hasData = true
				}
				if e := v.Get("errors"); e != nil && e.Kind == sjson.Array && len(e.Arr) > 0 {
					out.hasErrors = true
				}
			} else {
				out.panicked = "response body is not a JSON object: " + out.body
			}
		}
		out.events = l.snapshot()
		out.univ = run.Events()
		// over HTTP "refused" is inferred: no data and no evidence of execution in the log (an
		// executed operation always leaves a resolver, directive or hook event, or data)
		executed := out.hasData
		for _, e := range out.events {
			switch e.Kind {
			case "cm", "op", "root", "field", "resolver", "directive":
				executed = true
			}
		}
		out.refused = !executed && out.hasErrors && st.RejectKind != "cm"
		if st.RejectKind == "cm" {
			out.refused = !out.hasData && out.hasErrors
		}
		return out
	}
	ctx := withLog(univ.WithRun(context.Background(), run), l)
	ctx = graphql.StartOperationTrace(ctx)
	params := &graphql.RawParams{Query: st.V.Query, OperationName: st.V.OpName, Variables: vars}
	var resp *graphql.Response
	func() {
		defer func() {
			if r := recover(); r != nil {
				out.panicked = fmt.Sprint(r)
			}
		}()
		opCtx, errs := s.exec.CreateOperationContext(ctx, params)
		if len(errs) > 0 {
			out.refused = true
			resp = s.exec.DispatchError(graphql.WithOperationContext(ctx, opCtx), errs)
			return
		}
		responses, rctx := s.exec.DispatchOperation(ctx, opCtx)
		resp = responses(rctx) // one call, as the single-payload transports do
	}()
	if resp != nil {
		out.hasErrors = len(resp.Errors) > 0
		d := strings.TrimSpace(string(resp.Data))
		out.hasData = d != "" && d != "null"
		out.body = string(resp.Data)
	}
	out.events = l.snapshot()
	out.univ = run.Events()
	return out
}

// runWS sends the operation as one subscribe message on a fresh graphql-transport-ws connection
// and folds the frames of that operation into the outcome.
func (s *server) runWS(id string, payload map[string]any, out *outcome) {
	d := websocket.Dialer{Subprotocols: []string{"graphql-transport-ws"}}
	c, _, err := d.Dial("ws"+strings.TrimPrefix(s.ts.URL, "http"), http.Header{"X-Verif-Req": []string{id}})
	if err != nil {
		out.panicked = "websocket dial: " + err.Error()
		return
	}
	defer c.Close()
	c.WriteJSON(map[string]any{"type": "connection_init"})
	c.WriteJSON(map[string]any{"type": "subscribe", "id": "1", "payload": payload})
	c.SetReadDeadline(time.Now().Add(20 * time.Second))
	var frames []string
	for i := 0; i < 64; i++ {
		_, raw, err := c.ReadMessage()
		if err != nil {
			frames = append(frames, "read: "+err.Error())
			break
		}
		frames = append(frames, string(raw))
		v, perr := sjson.Parse(raw)
		if perr != nil || v.Kind != sjson.Object || v.Get("type") == nil {
			out.panicked = "websocket frame is not a JSON message: " + string(raw)
			break
		}
		typ := v.Get("type").Str
		if v.Get("id") == nil || v.Get("id").Str != "1" {
			continue
		}
		if typ == "error" {
			out.hasErrors = true
		}
		if typ == "next" {
			if p := v.Get("payload"); p != nil && p.Kind == sjson.Object {
				if dd := p.Get("data"); dd != nil && dd.Kind != sjson.Null {
					out.hasData = true
				}
				if e := p.Get("errors"); e != nil && e.Kind == sjson.Array && len(e.Arr) > 0 {
					out.hasErrors = true
				}
			}
		}
		if typ == "complete" {
			break
		}
	}
	out.status = 200
	out.body = strings.Join(frames, "\n")
	// the operation goroutine may still be winding down after its complete frame
	c.WriteMessage(websocket.CloseMessage, websocket.FormatCloseMessage(websocket.CloseNormalClosure, ""))
}

func legacyStage(probe string) {
	env := envOf(probe)
	for n := 1; n <= 3; n++ {
		var mu sync.Mutex
		var trace []string
		log := func(s string) { mu.Lock(); trace = append(trace, s); mu.Unlock() }
		var opts []legacy.Option
		for i := 0; i < n; i++ {
			i := i
			opts = append(opts, legacy.ResolverMiddleware(func(ctx context.Context, next graphql.Resolver) (any, error) {
				log(fmt.Sprintf("fieldE%d", i))
				r, err := next(ctx)
				log(fmt.Sprintf("fieldX%d", i))
				return r, err
			}))
			opts = append(opts, legacy.RequestMiddleware(func(ctx context.Context, next graphql.ResponseHandler) *graphql.Response {
				log(fmt.Sprintf("respE%d", i))
				r := next(ctx)
				log(fmt.Sprintf("respX%d", i))
				return r
			}))
		}
		h := legacy.GraphQL(env.ES, opts...)
		body, _ := json.Marshal(map[string]any{"query": "{ scalarN }"})
		r := httptest.NewRequest("POST", "/query", strings.NewReader(string(body)))
		r.Header.Set("Content-Type", "application/json")
		w := httptest.NewRecorder()
		h.ServeHTTP(w, r)
		var want []string
		for i := 0; i < n; i++ {
			want = append(want, fmt.Sprintf("respE%d", i))
		}
		for i := 0; i < n; i++ {
			want = append(want, fmt.Sprintf("fieldE%d", i))
		}
		for i := n - 1; i >= 0; i-- {
			want = append(want, fmt.Sprintf("fieldX%d", i))
		}
		for i := n - 1; i >= 0; i-- {
			want = append(want, fmt.Sprintf("respX%d", i))
		}
		rep.Count("legacy_entry_point_cases", 1)
		rep.Count("requests", 1)
		rep.Count("class_accepted", 1)
		rep.Distinct("cases", fmt.Sprintf("legacy|%d", n))
		if got := strings.Join(trace, " "); got != strings.Join(want, " ") || !strings.Contains(w.Body.String(), `"scalarN"`) {
			rep.Violate("legacy-entry-point-hook-order", map[string]any{"why": fmt.Sprintf("handler.GraphQL with %d ResolverMiddleware and %d RequestMiddleware options: hook sequence [%s], first option outermost gives [%s]", n, n, got, strings.Join(want, " ")), "body": w.Body.String()})
		}
	}
}

// tokensOf counts the lexical tokens of a document with gqlparser's lexer (comments excluded).
func tokensOf(q string) int {
	lx := lexer.New(&ast.Source{Input: q})
	n := 0
	for {
		t, err := lx.ReadToken()
		if err != nil || t.Kind == lexer.EOF {
			return n
		}
		if t.Kind != lexer.Comment {
			n++
		}
	}
}

func tokenLimitStage(probes []string, r *rand.Rand) {
	for pi, p := range probes {
		ks := famByProbe[p]
		if len(ks) == 0 {
			continue
		}
		for rep2 := 0; rep2 < ev.Pick(2, 8); rep2++ {
			k := ks[r.Intn(len(ks))]
			fe := families[k]
			v := fe.fam.Valid[0]
			n := tokensOf(v.Query)
			if n < 8 {
				continue
			}
			for li, lim := range []int{n / 2, 3, 4*n + 16} {
				for _, cache := range []string{"none", "lru1000"} {
					cfg := config{Probe: p, Cache: cache, Exts: extList{63}, HTTP: (pi+li)%2 == 1, TokenLimit: lim}
					s := newServer(cfg)
					want := *v
					want.Name = fmt.Sprintf("token-limit-%d-of-%d-tokens", lim, n)
					if lim < n {
						want.Stage = "parse"
						want.Name = "over-" + want.Name
					}
					h := &history{Probe: p, OpSeed: k.opSeed, Kind: fe.kind, HSeed: int64(lim), Steps: []step{{V: &want}, {V: &want}}, PlanVal: fe.plan}
					runHistory(s, h, "token-limit")
					s.harvest()
					rep.Count("token_limit_cases", 1)
					if lim < n {
						rep.Count("token_limit_cases_over_limit", 1)
					}
				}
			}
		}
	}
}

// agg batches counters of one history so 16 clients do not serialise on the reporter's mutex.
type agg struct {
	counts   map[string]int64
	distinct map[string]map[string]struct{}
}

func newAgg() *agg {
	return &agg{counts: map[string]int64{}, distinct: map[string]map[string]struct{}{}}
}

func (a *agg) Count(k string, n int64) { a.counts[k] += n }
func (a *agg) Distinct(set, member string) {
	m := a.distinct[set]
	if m == nil {
		m = map[string]struct{}{}
		a.distinct[set] = m
	}
	m[member] = struct{}{}
}

func (a *agg) flush() {
	for k, n := range a.counts {
		rep.Count(k, n)
	}
	for set, m := range a.distinct {
		for member := range m {
			rep.Distinct(set, member)
		}
	}
}

// judge applies the oracle to one request.
func (s *server) judge(ag *agg, st step, o *outcome, hist *history, idx int, mode string) {
	x := expect{exts: s.cfg.Exts, rejectStage: st.V.Stage, fields: st.V.fields, rootFields: st.V.rootFields, streamed: s.cfg.WS || s.cfg.SSE}
	if st.RejectKind != "" {
		x.rejectStage, x.rejectExt = st.RejectKind, st.RejectExt
	}
	class := "accepted"
	if x.rejectStage != "" {
		class = "refused:" + x.rejectStage
	}
	ag.Count("requests", 1)
	ag.Count("requests_"+mode, 1)
	ag.Count("class_"+class, 1)
	ag.Count("variant_"+st.V.Name, 1)
	ag.Count("hook_and_resolver_events", int64(len(o.events)))
	ag.Distinct("traces", traceShape(o.events))
	if x.rejectStage != "" || len(s.cfg.Exts) > 0 {
		ag.Distinct("cases", fmt.Sprintf("%s|%s|%v|%v|%s|%s%d", s.cfg.ExtsText, s.cfg.Cache, s.cfg.DisableSuggestion, s.cfg.HTTP, st.V.Name, st.RejectKind, st.RejectExt))
	}
	if idx == 3 && hist.HSeed%7 == 0 {
		rep.Sample(map[string]any{"mode": mode, "exts": s.cfg.ExtsText, "cache": s.cfg.Cache, "disable_suggestion": s.cfg.DisableSuggestion,
			"construction": st.V.Name, "scripted_refusal": st.RejectKind, "must_be_refused_at": x.rejectStage, "query": st.V.Query,
			"operationName": st.V.OpName, "variables": st.V.Vars, "expected_field_interceptions": x.fields, "trace_shape": traceShape(o.events)})
	}
	fail := func(sig, why string) {
		rep.Violate(sig, map[string]any{
			"why": why, "mode": mode, "config": s.cfg, "history": hist.describe(), "index": idx,
			"request": st, "expected_refusal_stage": x.rejectStage, "response_data": o.body, "status": o.status,
			"panic": o.panicked, "trace": renderTrace(o.events, 400), "replay": hist.replay(s.cfg),
		})
	}
	if v := checkTrace(x, o.events); v != nil {
		fail(v.sig, v.why)
		return
	}
	if x.rejectStage != "" {
		for _, e := range o.univ {
			fail("rejected-request-reached-"+e.Kind, "universal resolver logged "+e.Kind+" "+e.Object+"."+e.Field+e.Name)
			return
		}
		if o.hasData {
			fail("rejected-request-has-data", "a request that must be refused at "+x.rejectStage+" was answered with data")
			return
		}
		if !o.refused || !o.hasErrors {
			fail("invalid-request-accepted", "a request that must be refused at "+x.rejectStage+" was not answered with errors only")
			return
		}
		if o.panicked != "" {
			fail("rejected-request-panicked", o.panicked)
		}
		return
	}
	if o.refused {
		fail("valid-request-refused", "a request that passes every gate by construction was refused: "+o.body)
		return
	}
	if o.panicked != "" {
		fail("accepted-request-panicked", o.panicked)
	}
}

// ---------------------------------------------------------------------------------------------
// histories

type history struct {
	Probe   string
	OpSeed  int64
	Kind    string
	HSeed   int64
	Steps   []step
	PlanVal univ.SeedPlan
}

func (h *history) describe() []string {
	out := make([]string, len(h.Steps))
	for i, s := range h.Steps {
		out[i] = s.V.Name
		if s.RejectKind != "" {
			out[i] += fmt.Sprintf("+reject-by-%s%d", s.RejectKind, s.RejectExt)
		}
	}
	return out
}

type replayFile struct {
	Config config        `json:"config"`
	Probe  string        `json:"probe"`
	OpSeed int64         `json:"op_seed"`
	Kind   string        `json:"kind"`
	HSeed  int64         `json:"history_seed"`
	Plan   univ.SeedPlan `json:"plan"`
}

func (h *history) replay(cfg config) replayFile {
	return replayFile{Config: cfg, Probe: h.Probe, OpSeed: h.OpSeed, Kind: h.Kind, HSeed: h.HSeed, Plan: h.PlanVal}
}

type famKey struct {
	probe  string
	opSeed int64
}

type famEntry struct {
	fam  *family
	plan univ.SeedPlan
	kind string
}

var families = map[famKey]*famEntry{}
var famByProbe = map[string][]famKey{}

func planFor(opSeed int64) univ.SeedPlan {
	p := univ.SeedPlan{Seed: uint64(opSeed), MaxList: 3}
	switch opSeed % 3 {
	case 1:
		p.ErrPermille, p.NullPermille, p.DirPermille = 60, 60, 80
	case 2:
		p.NullPermille, p.DirPermille = 150, 200
	}
	return p
}

func makeFamily(probe string, opSeed int64) *famEntry {
	env := envOf(probe)
	kind := ast.Query
	if opSeed%5 == 4 {
		kind = ast.Mutation
	}
	op := opgen.Generate(env.Schema, opSeed, kind, opgen.Config{MaxDepth: 3})
	fam := buildFamily(env.Schema, op)
	plan := planFor(opSeed)
	fam.vet(env, &plan, func(k string) { rep.Count(k, 1) })
	return &famEntry{fam: fam, plan: plan, kind: string(kind)}
}

// makeHistory interleaves the variants of one family so that one TEXT is seen valid, then
// refused, then valid again (operationName / variables / scripted extension refusal), and refused
// documents are repeated (a refused document must never be served from the cache later).
func makeHistory(probe string, k famKey, fe *famEntry, exts extList, hseed int64) *history {
	r := rand.New(rand.NewSource(hseed))
	f := fe.fam
	V := map[string]*variant{}
	for _, v := range f.Valid {
		V[v.Name] = v
	}
	I := map[string]*variant{}
	var docInvalid []*variant
	for _, v := range f.Invalid {
		I[v.Name] = v
		if v.Stage == "parse" || v.Stage == "validate" {
			docInvalid = append(docInvalid, v)
		}
	}
	h := &history{Probe: probe, OpSeed: k.opSeed, Kind: fe.kind, HSeed: hseed, PlanVal: fe.plan}
	add := func(v *variant) {
		if v != nil {
			h.Steps = append(h.Steps, step{V: v})
		}
	}
	pm, cm := exts.with(hPM), exts.with(hCM)
	blocks := []func(){
		func() {
			if len(docInvalid) == 0 {
				return
			}
			d := docInvalid[r.Intn(len(docInvalid))]
			add(V["base"])
			add(d)
			add(d)
			add(V["base"])
			add(docInvalid[r.Intn(len(docInvalid))])
		},
		func() {
			add(V["multi-named"])
			add(I["multi-unknown-operationName"])
			add(V["multi-other"])
			add(I["multi-missing-operationName"])
			add(V["multi-named"])
		},
		func() {
			add(V["reqvar-7"])
			add(I["missing-required-variable"])
			add(V["reqvar-8"])
			names := []string{"wrong-variable-json-type-string", "wrong-variable-json-type-object", "wrong-variable-json-type-list", "null-required-variable", "required-variable-no-variables-member", "required-variable-no-variables-member"}
			add(I[names[r.Intn(len(names))]])
			add(V["reqvar-7"])
		},
		func() {
			b := V["base"]
			if b == nil {
				return
			}
			add(b)
			if len(pm) > 0 {
				h.Steps = append(h.Steps, step{V: b, RejectKind: "pm", RejectExt: pm[r.Intn(len(pm))]})
				add(b)
			}
			if len(cm) > 0 {
				h.Steps = append(h.Steps, step{V: b, RejectKind: "cm", RejectExt: cm[r.Intn(len(cm))]})
				add(b)
			}
		},
		func() {
			add(V["comment-then-newline"])
			add(I["comment-swallows-close"])
			add(V["comment-then-newline"])
			add(V["typename-alias"])
			add(I["typename-alias-upper-case"])
			add(V["typename-alias"])
		},
		func() {
			add(I["unbalanced-missing-close"])
			add(V["base"])
			add(I["unknown-operationName-single"])
			add(V["base-anonymous-selection"])
			add(I["unbalanced-extra-open"])
		},
	}
	r.Shuffle(len(blocks), func(i, j int) { blocks[i], blocks[j] = blocks[j], blocks[i] })
	for _, b := range blocks {
		b()
	}
	return h
}

func runHistory(s *server, h *history, mode string) {
	plan := h.PlanVal
	ag := newAgg()
	for i, st := range h.Steps {
		o := s.run(st, &plan)
		s.judge(ag, st, o, h, i, mode)
	}
	ag.flush()
	rep.Count("histories", 1)
	rep.Count("histories_"+mode, 1)
	rep.Distinct("history_shapes", strings.Join(h.describe(), ","))
}

func (s *server) harvest() {
	rep.Count("cache_hits", s.cache.hits.Load())
	rep.Count("cache_misses", s.cache.misses.Load())
	rep.Count("cache_adds", s.cache.adds.Load())
	rep.Count("cache_"+s.cfg.Cache+"_hits", s.cache.hits.Load())
	rep.Count("recover_func_calls", s.recovers.Load())
	if n := s.cache.poisoned.Load(); n > 0 {
		rep.Violate("rejected-document-stored-in-query-cache", map[string]any{"config": s.cfg, "adds_of_invalid_documents": n,
			"why": "queryCache.Add was called with a text that is not a valid document by construction"})
	}
	if n := s.cache.servedEvil.Load(); n > 0 {
		rep.Violate("rejected-document-served-from-query-cache", map[string]any{"config": s.cfg, "hits_for_invalid_documents": n})
	}
}

// ---------------------------------------------------------------------------------------------

func randExts(r *rand.Rand) extList {
	n := r.Intn(5)
	x := make(extList, n)
	for i := range x {
		x[i] = 1 + r.Intn(63)
	}
	return x
}

func main() {
	if os.Getenv("VERIF_C03_WINDOW") != "" {
		windowChild()
		return
	}
	rep = ev.New("C03", "exploration")
	if os.Getenv("VERIF_BLOCKPROFILE") != "" {
		runtime.SetBlockProfileRate(1000)
		runtime.SetMutexProfileFraction(5)
	}
	if pf := os.Getenv("VERIF_CPUPROFILE"); pf != "" {
		if f, err := os.Create(pf); err == nil {
			pprof.StartCPUProfile(f)
			defer pprof.StopCPUProfile()
		}
	}
	rep.Rule = "a case = (extension list with per-extension hook subset, query cache kind, suggestions on/off, direct|POST, request construction, scripted refusal); non-trivial when the request must be refused or at least one extension is registered; distinct = distinct such tuples actually judged by the trace automaton"
	rep.Assumptions = []string{
		"refusal is known by construction: invalid variants are named mutations of valid opgen operations; each construction is vetted once with gqlparser on a quiescent process and dropped (counted) if it did not have the intended effect",
		"expected interception counts come from the reference executor (internal/ref): one field interception per executed field node (every response key except __typename, also struct-backed fields: the generated code calls ResolverMiddleware for every field and leaves IsMethod/IsResolver filtering to the extension), minus fields whose arguments fail coercion (gqlgen refuses those before the field hook; none occurred unless counters say so); one root-field interception per root field",
		"'no data' for a refused request means the data member is absent or null (graphql.Response always serialises the member)",
		"the response function is called once per operation, as the single-payload transports (POST/GET) do; in the websocket stage the transport calls it until it answers nil, so one more round of response interceptors (for the end-of-stream nil) is expected there; subscriptions and @defer are not part of this check (C11/C13)",
		"argument / input-field directives (@chk) run during argument coercion, i.e. outside the field interceptor; operation directives run outside field interceptors: only their presence on refused requests is judged",
		"the rule-swap window stage needs the guarded hook graphql/verifhook (build tag verif) and two executors in one process, one with SetDisableSuggestion(true)",
	}
	if os.Getenv("VERIF_REPLAY") != "" {
		os.Exit(doReplay(os.Getenv("VERIF_REPLAY")))
	}
	seed := ev.Seed()
	t0 := time.Now()
	var probes []string
	for n := range registry.Probes {
		if strings.HasPrefix(n, "core_") {
			probes = append(probes, n)
		}
	}
	sort.Strings(probes)
	if len(probes) == 0 {
		rep.Inconclusive("no core probe generated and compiled on this tree")
		os.Exit(rep.Finish(0, 0))
	}
	r := rand.New(rand.NewSource(seed * 7919))
	r.Shuffle(len(probes), func(i, j int) { probes[i], probes[j] = probes[j], probes[i] })
	nProbes := ev.Pick(4, len(probes))
	if nProbes > len(probes) {
		nProbes = len(probes)
	}
	probes = probes[:nProbes]
	sort.Strings(probes)
	nFam := ev.Pick(10, 40)

	// 1. build and vet every family on the quiescent process
	for _, p := range probes {
		for i := 0; i < nFam; i++ {
			k := famKey{p, seed*1000003 + int64(i)}
			fe := makeFamily(p, k.opSeed)
			if len(fe.fam.Valid) == 0 {
				continue
			}
			families[k] = fe
			famByProbe[p] = append(famByProbe[p], k)
			for _, v := range fe.fam.Invalid {
				if v.Stage == "parse" || v.Stage == "validate" {
					invalidTexts[v.Query] = v.Name
				}
			}
			rep.Count("families", 1)
			rep.Count("valid_variants", int64(len(fe.fam.Valid)))
			rep.Count("invalid_variants", int64(len(fe.fam.Invalid)))
		}
	}
	for k, fe := range families {
		for _, v := range fe.fam.Valid {
			if _, clash := invalidTexts[v.Query]; clash {
				delete(invalidTexts, v.Query)
				_ = k
			}
		}
	}
	rep.Set("probes", probes)

	stageT := map[string]float64{}
	lap := func(name string) {
		stageT[name] = time.Since(t0).Seconds()
		t0 = time.Now()
	}
	lap("build_and_vet_families")

	// 2. the rule-swap window (child processes: the window exists once per process)
	runWindowStage(probes, seed)
	lap("window_children")

	caches := []string{"none", "map", "lru1", "lru2", "lru1000"}
	fixedExts := []extList{{}, {63}, {63, 63, 63, 63}, {hOI | hRI, hFI, hRF | hFI, hPM | hCM}}

	// 3. sequential histories, direct executor (the first config disables suggestions so the one
	// process-wide rule swap happens single-threaded, before any concurrency)
	nSeq := ev.Pick(40, 400)
	for c := 0; c < nSeq; c++ {
		cfg := config{Probe: probes[c%len(probes)], Cache: caches[c%len(caches)], DisableSuggestion: c%2 == 0}
		if c < len(fixedExts) {
			cfg.Exts = fixedExts[c]
		} else {
			cfg.Exts = randExts(r)
		}
		s := newServer(cfg)
		ks := famByProbe[cfg.Probe]
		for hI := 0; hI < ev.Pick(2, 4); hI++ {
			k := ks[r.Intn(len(ks))]
			runHistory(s, makeHistory(cfg.Probe, k, families[k], cfg.Exts, r.Int63()), "direct-sequential")
		}
		s.harvest()
		rep.Distinct("extension_lists", cfg.Exts.String())
	}

	lap("direct_sequential")

	// 4. sequential histories through handler.Server + POST
	nHTTP := ev.Pick(10, 80)
	for c := 0; c < nHTTP; c++ {
		cfg := config{Probe: probes[c%len(probes)], Cache: caches[(c+1)%len(caches)], DisableSuggestion: c%2 == 1, HTTP: true, Exts: randExts(r)}
		if c == 0 {
			cfg.Exts = extList{63, 63}
		}
		s := newServer(cfg)
		ks := famByProbe[cfg.Probe]
		for hI := 0; hI < 2; hI++ {
			k := ks[r.Intn(len(ks))]
			runHistory(s, makeHistory(cfg.Probe, k, families[k], cfg.Exts, r.Int63()), "post-sequential")
		}
		s.harvest()
		rep.Distinct("extension_lists", cfg.Exts.String())
	}

	lap("post_sequential")

	// 4b. sequential histories as websocket subscribe messages (the transport has its own
	// refuse-or-dispatch decision)
	nWS := ev.Pick(6, 40)
	for c := 0; c < nWS; c++ {
		cfg := config{Probe: probes[c%len(probes)], Cache: caches[(c+2)%len(caches)], DisableSuggestion: c%2 == 1, HTTP: true, WS: true, Exts: randExts(r)}
		if c == 0 {
			cfg.Exts = extList{63, 63}
		}
		s := newServer(cfg)
		ks := famByProbe[cfg.Probe]
		for hI := 0; hI < 2; hI++ {
			k := ks[r.Intn(len(ks))]
			runHistory(s, makeHistory(cfg.Probe, k, families[k], cfg.Exts, r.Int63()), "websocket-sequential")
		}
		s.harvest()
		s.ts.Close()
		rep.Distinct("extension_lists", cfg.Exts.String())
	}
	lap("websocket_sequential")

	// 4b'. the same over server-sent events (again a transport with its own refuse-or-dispatch code)
	for c := 0; c < ev.Pick(6, 40); c++ {
		cfg := config{Probe: probes[c%len(probes)], Cache: caches[(c+1)%len(caches)], DisableSuggestion: c%2 == 0, HTTP: true, SSE: true, Exts: randExts(r)}
		if c == 0 {
			cfg.Exts = extList{63, 63}
		}
		s := newServer(cfg)
		ks := famByProbe[cfg.Probe]
		for hI := 0; hI < 2; hI++ {
			k := ks[r.Intn(len(ks))]
			runHistory(s, makeHistory(cfg.Probe, k, families[k], cfg.Exts, r.Int63()), "sse-sequential")
		}
		s.harvest()
		rep.Distinct("extension_lists", cfg.Exts.String())
	}
	lap("sse_sequential")

	// 4d. the deprecated entry point handler.GraphQL(es, options...): its ResolverMiddleware and
	// RequestMiddleware options are extensions too, first option outermost
	legacyStage(probes[0])
	subscriptionStage()
	lap("legacy_entry_point")

	// 4c. the configured parser token limit is part of parsing: a document with more tokens than
	// the limit is refused like any other unparsable document, one with clearly fewer is served
	tokenLimitStage(probes, r)
	lap("token_limit")

	// 5. 16 concurrent clients on one server (no MapCache: documented as not safe for that)
	concCaches := []string{"none", "lru1", "lru2", "lru1000"}
	nConc := ev.Pick(6, 48)
	for c := 0; c < nConc; c++ {
		cfg := config{Probe: probes[c%len(probes)], Cache: concCaches[c%len(concCaches)], DisableSuggestion: c%2 == 0, HTTP: c%4 == 3, Exts: randExts(r)}
		if c == 0 {
			cfg.Exts = extList{63, 63, 63}
		}
		s := newServer(cfg)
		ks := famByProbe[cfg.Probe]
		// a small shared pool of families so the clients collide on the same texts
		pool := []famKey{ks[r.Intn(len(ks))], ks[r.Intn(len(ks))], ks[r.Intn(len(ks))]}
		var hs [16][]*history
		for cl := 0; cl < 16; cl++ {
			for hI := 0; hI < ev.Pick(2, 5); hI++ {
				k := pool[r.Intn(len(pool))]
				hs[cl] = append(hs[cl], makeHistory(cfg.Probe, k, families[k], cfg.Exts, r.Int63()))
			}
		}
		var wg sync.WaitGroup
		for cl := 0; cl < 16; cl++ {
			wg.Add(1)
			go func(cl int) {
				defer wg.Done()
				mode := "direct-concurrent16"
				if cfg.HTTP {
					mode = "post-concurrent16"
				}
				for _, h := range hs[cl] {
					runHistory(s, h, mode)
				}
			}(cl)
		}
		wg.Wait()
		if os.Getenv("VERIF_DEBUG") != "" {
			fmt.Printf("conc cfg %d %+v took %.2fs\n", c, cfg, time.Since(t0).Seconds())
		}
		s.harvest()
		rep.Distinct("extension_lists", cfg.Exts.String())
	}

	lap("concurrent16")
	rep.Set("stage_wall_s", stageT)

	if rep.Get("class_accepted") == 0 || rep.Get("requests")-rep.Get("class_accepted") == 0 {
		rep.Inconclusive("no accepted or no refused request was judged")
	}
	code := rep.Finish(rep.Get("requests"), int64(rep.DistinctLen("cases")))
	pprof.StopCPUProfile()
	if pf := os.Getenv("VERIF_BLOCKPROFILE"); pf != "" {
		if f, err := os.Create(pf); err == nil {
			pprof.Lookup("block").WriteTo(f, 0)
			f.Close()
		}
		if f, err := os.Create(pf + ".mutex"); err == nil {
			pprof.Lookup("mutex").WriteTo(f, 0)
			f.Close()
		}
	}
	os.Exit(code)
}

func doReplay(path string) int {
	b, err := os.ReadFile(path)
	if err != nil {
		fmt.Println("replay:", err)
		return 2
	}
	var f struct {
		Detail struct {
			Replay replayFile `json:"replay"`
		} `json:"detail"`
	}
	if err := json.Unmarshal(b, &f); err != nil || f.Detail.Replay.Probe == "" {
		fmt.Println("replay: file has no replayable history", err)
		return 2
	}
	rf := f.Detail.Replay
	if _, ok := registry.Probes[rf.Probe]; !ok {
		fmt.Println("replay: probe not available:", rf.Probe)
		return 2
	}
	fe := makeFamily(rf.Probe, rf.OpSeed)
	for _, v := range fe.fam.Invalid {
		if v.Stage == "parse" || v.Stage == "validate" {
			invalidTexts[v.Query] = v.Name
		}
	}
	s := newServer(rf.Config)
	runHistory(s, makeHistory(rf.Probe, famKey{rf.Probe, rf.OpSeed}, fe, rf.Config.Exts, rf.HSeed), "replay")
	s.harvest()
	return rep.Finish(rep.Get("requests"), 2)
}

// subscriptionStage: for a subscription the generated Exec starts the subscription field (field
// interceptors, directives, the resolver returning the channel) right away; that too must happen
// inside the operation interceptors, first registered outermost, never before them.
func subscriptionStage() {
	var names []string
	for n := range registry.Probes {
		if strings.HasPrefix(n, "core_") && envOf(n).Schema.Subscription != nil {
			names = append(names, n)
		}
	}
	sort.Strings(names)
	if len(names) > 3 {
		names = names[:3]
	}
	for _, probe := range names {
		for _, q := range []string{"subscription { tick2 }", "subscription S { t: ticks(n: 2) { __typename } }"} {
			for _, exts := range []extList{{hOI | hFI, hOI | hRI}, {hOI, hFI | hOI | hRF, hOI | hCM}} {
				s := newServer(config{Probe: probe, Exts: exts, Cache: "none"})
				l := &reqLog{}
				p := planFor(int64(len(q)))
				p.ErrPermille, p.NullPermille, p.DirPermille = 0, 0, 0
				run := &univ.Run{Plan: &logPlan{Plan: &p, l: l, ext: -1}}
				ctx, cancel := context.WithTimeout(withLog(univ.WithRun(context.Background(), run), l), 20*time.Second)
				ctx = graphql.StartOperationTrace(ctx)
				opCtx, errs := s.exec.CreateOperationContext(ctx, &graphql.RawParams{Query: q})
				if len(errs) > 0 {
					cancel()
					rep.Violate("subscription-refused", map[string]any{"probe": probe, "query": q, "why": "valid subscription refused: " + errs.Error()})
					continue
				}
				responses, rctx := s.exec.DispatchOperation(ctx, opCtx)
				n := 0
				for ; n < 50; n++ {
					if responses(rctx) == nil {
						break
					}
				}
				cancel()
				evs := l.snapshot()
				opsOpen, firstInner, nOps := 0, "", len(exts.with(hOI))
				var order []string
				bad := ""
				for _, e := range evs {
					switch {
					case e.Kind == "op" && e.Phase == 'E':
						opsOpen++
						order = append(order, strconv.Itoa(e.Ext))
					case e.Kind == "field" || e.Kind == "resolver" || e.Kind == "root" || e.Kind == "directive":
						if firstInner == "" {
							firstInner = e.String()
							if opsOpen < nOps {
								bad = fmt.Sprintf("%s happened after %d of %d operation interceptors had been entered", e, opsOpen, nOps)
							}
						}
					}
				}
				wantOrder := []string{}
				for _, i := range exts.with(hOI) {
					wantOrder = append(wantOrder, strconv.Itoa(i))
				}
				if bad == "" && strings.Join(order, ",") != strings.Join(wantOrder, ",") {
					bad = "operation interceptors entered in order [" + strings.Join(order, ",") + "], registration order is [" + strings.Join(wantOrder, ",") + "]"
				}
				if bad == "" && firstInner == "" {
					bad = "the subscription left no field / resolver event at all"
				}
				rep.Count("subscription_order_cases", 1)
				rep.Count("requests", 1)
				rep.Count("class_accepted", 1)
				rep.Distinct("cases", "subscription|"+probe+"|"+q+"|"+exts.String())
				if bad != "" {
					var tr []string
					for _, e := range evs {
						tr = append(tr, e.String())
					}
					rep.Violate("subscription-hook-order", map[string]any{"probe": probe, "query": q, "exts": exts.String(), "why": bad, "trace": tr, "payloads": n})
				}
			}
		}
	}
}
