package main

// Online trace oracle: a small pushdown automaton over the per-request event stream.

import (
	"fmt"
	"strings"
)

// expect is what is known about a request BY CONSTRUCTION (never derived from what gqlgen did).
type expect struct {
	exts extList
	// stage at which the request must be refused: "" (must be accepted), "parse", "validate",
	// "opselect", "varcoerce", "pm", "cm"
	rejectStage string
	rejectExt   int
	fields      int // field interceptions expected per FieldInterceptor (accepted requests)
	rootFields  int // root-field interceptions expected per RootFieldInterceptor
	// streamed: the transport keeps calling the response function until it answers nil (websocket,
	// SSE): the end-of-stream call passes through the response interceptors once more
	streamed bool
}

type traceVerdict struct {
	sig string
	why string
}

func indexIn(xs []int, v int) int {
	for i, x := range xs {
		if x == v {
			return i
		}
	}
	return -1
}

func rootKeyOf(path string) string {
	if i := strings.IndexAny(path, ".["); i >= 0 {
		return path[:i]
	}
	return path
}

// expectedMainline is the exact sequence of parameter-mutator, context-mutator, operation- and
// response-interceptor events the lifecycle prescribes (first registered = outermost / first).
func expectedMainline(x expect) []string {
	var out []string
	pm, cm, oi, ri := x.exts.with(hPM), x.exts.with(hCM), x.exts.with(hOI), x.exts.with(hRI)
	for _, i := range pm {
		out = append(out, fmt.Sprintf("pmE%d", i), fmt.Sprintf("pmX%d", i))
		if x.rejectStage == "pm" && i == x.rejectExt {
			break
		}
	}
	if x.rejectStage == "" || x.rejectStage == "cm" {
		for _, i := range cm {
			out = append(out, fmt.Sprintf("cmE%d", i), fmt.Sprintf("cmX%d", i))
			if x.rejectStage == "cm" && i == x.rejectExt {
				break
			}
		}
	}
	if x.rejectStage == "" {
		for _, i := range oi {
			out = append(out, fmt.Sprintf("opE%d", i))
		}
		for k := len(oi) - 1; k >= 0; k-- {
			out = append(out, fmt.Sprintf("opX%d", oi[k]))
		}
	}
	// one response (the payload, or the error response produced by DispatchError)
	for _, i := range ri {
		out = append(out, fmt.Sprintf("respE%d", i))
	}
	for k := len(ri) - 1; k >= 0; k-- {
		out = append(out, fmt.Sprintf("respX%d", ri[k]))
	}
	if x.streamed && x.rejectStage == "" {
		for _, i := range ri {
			out = append(out, fmt.Sprintf("respE%d", i))
		}
		for k := len(ri) - 1; k >= 0; k-- {
			out = append(out, fmt.Sprintf("respX%d", ri[k]))
		}
	}
	return out
}

type frame struct {
	kind      string
	ext       int
	path      string
	inner     bool   // the next extension in registration order was entered inside this frame
	of        string // "Object.field" (field frames)
	resolvers int
}

// checkTrace decides one request's event stream (events in log order, a linearisation of the
// request's happens-before order). A nil result means the trace is lawful.
func checkTrace(x expect, ev []hev) *traceVerdict {
	bad := func(sig, f string, a ...any) *traceVerdict {
		return &traceVerdict{sig: sig, why: fmt.Sprintf(f, a...)}
	}
	var mainline []string
	maxPre, minPost := -1, len(ev)
	for i, e := range ev {
		switch e.Kind {
		case "pm", "cm", "op", "resp":
			mainline = append(mainline, fmt.Sprintf("%s%c%d", e.Kind, e.Phase, e.Ext))
			if e.Kind == "resp" && e.Phase == 'X' {
				if i < minPost {
					minPost = i
				}
			} else if i > maxPre && !(x.streamed && minPost < len(ev)) {
				// (streamed: the end-of-stream round after the first response does not move the window)
				maxPre = i
			}
		}
	}
	if x.rejectStage != "" {
		for _, e := range ev {
			switch e.Kind {
			case "op", "root", "field", "resolver", "directive":
				return bad("rejected-request-reached-"+e.Kind, "request refused at stage %q still produced event %s", x.rejectStage, e)
			}
		}
		if got, want := strings.Join(mainline, " "), strings.Join(expectedMainline(x), " "); got != want {
			return bad("rejected-request-hook-sequence", "hook sequence of a request refused at %q: got [%s] want [%s]", x.rejectStage, got, want)
		}
		return nil
	}
	if got, want := strings.Join(mainline, " "), strings.Join(expectedMainline(x), " "); got != want {
		return bad("hook-order", "operation-level hook sequence: got [%s] want [%s]", got, want)
	}
	rootExts, fieldExts := x.exts.with(hRF), x.exts.with(hFI)
	// one stack per (kind, response path): interceptions of different fields never share a path,
	// and the chain of one field is strictly sequential, so no goroutine identity is needed
	rootSt := map[string][]*frame{}
	fieldSt := map[string][]*frame{}
	openFields := map[string]int{} // root key -> field frames currently open below it
	fieldCount := map[int]int{}
	rootCount := map[int]int{}
	fieldPaths := map[int]map[string]bool{}
	rootPaths := map[int]map[string]bool{}
	for i, e := range ev {
		switch e.Kind {
		case "root", "field", "resolver", "directive":
		default:
			continue
		}
		if i < maxPre || i > minPost {
			return bad("hook-order", "event %s (#%d) lies outside the response interception window (%d,%d)", e, i, maxPre, minPost)
		}
		switch {
		case e.Kind == "root" && e.Phase == 'E':
			p := indexIn(rootExts, e.Ext)
			if p < 0 {
				return bad("hook-order", "root-field event from extension %d which has no RootFieldInterceptor", e.Ext)
			}
			st := rootSt[e.Path]
			if p == 0 {
				if len(st) != 0 {
					return bad("hook-count", "root field %q: outermost root-field interceptor entered while an interception of that root field is open", e.Path)
				}
			} else {
				if len(st) == 0 || st[len(st)-1].ext != rootExts[p-1] {
					return bad("hook-order", "root-field interceptor of extension %d at %q not entered directly inside extension %d", e.Ext, e.Path, rootExts[p-1])
				}
				st[len(st)-1].inner = true
			}
			rootCount[e.Ext]++
			if rootPaths[e.Ext] == nil {
				rootPaths[e.Ext] = map[string]bool{}
			}
			if rootPaths[e.Ext][e.Path] {
				return bad("hook-count", "root field %q intercepted twice by extension %d", e.Path, e.Ext)
			}
			rootPaths[e.Ext][e.Path] = true
			rootSt[e.Path] = append(st, &frame{kind: "root", ext: e.Ext, path: e.Path})
		case e.Kind == "field" && e.Phase == 'E':
			p := indexIn(fieldExts, e.Ext)
			if p < 0 {
				return bad("hook-order", "field event from extension %d which has no FieldInterceptor", e.Ext)
			}
			st := fieldSt[e.Path]
			if p == 0 {
				if len(st) != 0 {
					return bad("hook-count", "field %q: outermost field interceptor entered while an interception of that field is open", e.Path)
				}
				if len(rootExts) > 0 && len(rootSt[rootKeyOf(e.Path)]) != len(rootExts) {
					return bad("hook-order", "field %q intercepted while the root-field interceptors of %q are not all open (%d of %d)", e.Path, rootKeyOf(e.Path), len(rootSt[rootKeyOf(e.Path)]), len(rootExts))
				}
			} else {
				if len(st) == 0 || st[len(st)-1].ext != fieldExts[p-1] {
					return bad("hook-order", "field interceptor of extension %d at %q not entered directly inside extension %d", e.Ext, e.Path, fieldExts[p-1])
				}
				st[len(st)-1].inner = true
			}
			fieldCount[e.Ext]++
			if fieldPaths[e.Ext] == nil {
				fieldPaths[e.Ext] = map[string]bool{}
			}
			if fieldPaths[e.Ext][e.Path] {
				return bad("hook-count", "field %q intercepted twice by extension %d", e.Path, e.Ext)
			}
			fieldPaths[e.Ext][e.Path] = true
			f := &frame{kind: "field", ext: e.Ext, path: e.Path, of: e.Note}
			fieldSt[e.Path] = append(st, f)
			openFields[rootKeyOf(e.Path)]++
		case e.Phase == 'X':
			m, list := fieldSt, fieldExts
			if e.Kind == "root" {
				m, list = rootSt, rootExts
			}
			st := m[e.Path]
			if len(st) == 0 || st[len(st)-1].ext != e.Ext {
				return bad("hook-order", "exit %s does not match the innermost open %s interception at that path", e, e.Kind)
			}
			top := st[len(st)-1]
			p := indexIn(list, e.Ext)
			if p < len(list)-1 && !top.inner {
				return bad("hook-order", "%s interceptor of extension %d at %q returned without the next extension (%d) having run inside it", e.Kind, e.Ext, e.Path, list[p+1])
			}
			m[e.Path] = st[:len(st)-1]
			if e.Kind == "field" {
				openFields[rootKeyOf(e.Path)]--
			} else if openFields[e.Path] != 0 {
				return bad("hook-order", "root-field interceptor %d of %q returned while %d field interceptions below it are open", e.Ext, e.Path, openFields[e.Path])
			}
		case e.Kind == "resolver":
			if len(fieldExts) > 0 {
				// the event names the interception whose context the resolver received
				st := fieldSt[e.Path]
				if e.Ext != fieldExts[len(fieldExts)-1] || len(st) != len(fieldExts) {
					return bad("hook-order", "resolver %s ran outside the innermost field interceptor (context from extension %d at %q, %d of %d interceptors open there)", e.Note, e.Ext, e.Path, len(st), len(fieldExts))
				}
				st[len(st)-1].resolvers++
				if st[len(st)-1].resolvers > 1 {
					return bad("hook-count", "two resolver invocations inside one field interception at %q", e.Path)
				}
			}
		case e.Kind == "directive":
			if strings.HasPrefix(e.Note, "chk") || e.Path == "" {
				break // argument / input-field directives run during argument coercion; operation directives wrap the root selection set
			}
			if len(fieldExts) > 0 && len(fieldSt[e.Path]) != len(fieldExts) {
				return bad("hook-order", "field directive %s at %q ran outside the innermost field interceptor of that field", e.Note, e.Path)
			}
		}
	}
	for p, st := range rootSt {
		if len(st) != 0 {
			return bad("hook-order", "root-field interception of %q by extension %d never returned", p, st[len(st)-1].ext)
		}
	}
	for p, st := range fieldSt {
		if len(st) != 0 {
			return bad("hook-order", "field interception of %q by extension %d never returned", p, st[len(st)-1].ext)
		}
	}
	for _, xi := range fieldExts {
		if fieldCount[xi] != x.fields {
			return bad("hook-count", "extension %d intercepted %d fields, the reference executed %d", xi, fieldCount[xi], x.fields)
		}
	}
	for _, xi := range rootExts {
		if rootCount[xi] != x.rootFields {
			return bad("hook-count", "extension %d intercepted %d root fields, the reference executed %d", xi, rootCount[xi], x.rootFields)
		}
	}
	return nil
}

// traceShape is the identity under which distinct traces are counted: the operation-level
// sequence plus the multiset sizes of the body events.
func traceShape(ev []hev) string {
	var sb strings.Builder
	n := map[string]int{}
	for _, e := range ev {
		switch e.Kind {
		case "pm", "cm", "op", "resp":
			fmt.Fprintf(&sb, "%s%c%d ", e.Kind, e.Phase, e.Ext)
		default:
			if e.Phase != 'X' {
				n[e.Kind]++
			}
		}
	}
	fmt.Fprintf(&sb, "| root=%d field=%d res=%d dir=%d", n["root"], n["field"], n["resolver"], n["directive"])
	return sb.String()
}

func renderTrace(ev []hev, max int) []string {
	out := make([]string, 0, len(ev))
	for i, e := range ev {
		if i >= max {
			out = append(out, fmt.Sprintf("... %d more", len(ev)-max))
			break
		}
		out = append(out, e.String())
	}
	return out
}
