package main

// Instrumented handler extensions and the per-request event log.
//
// exts_gen.go holds the 63 struct types x01..x3f, one per non-empty subset of the six hook
// interfaces (a Go method set is static, so "an extension implementing a seeded subset of the
// hooks" needs one type per subset). It was produced by:
//
//	names=['PM','CM','OI','RI','RF','FI']
//	for m in 1..63: type x<m> struct{ extBase; m<name> for each bit set }; newExt(mask, core)

import (
	"context"
	"strconv"
	"strings"
	"sync"

	"github.com/99designs/gqlgen/complexity"
	"github.com/99designs/gqlgen/graphql"
	"github.com/vektah/gqlparser/v2/gqlerror"

	"verif/internal/univ"
)

const (
	hPM = 1 << iota // OperationParameterMutator
	hCM             // OperationContextMutator
	hOI             // OperationInterceptor
	hRI             // ResponseInterceptor
	hRF             // RootFieldInterceptor
	hFI             // FieldInterceptor
)

var hookNames = map[int]string{hPM: "pm", hCM: "cm", hOI: "op", hRI: "resp", hRF: "root", hFI: "field"}

// hev is one entry of the per-request log. Hook events come in enter ('E') / exit ('X') pairs;
// resolver and directive invocations are points ('.'). Root-field and field events carry the
// response path (the automaton keeps one stack per path, so it needs no goroutine identity).
type hev struct {
	Kind  string `json:"k"`
	Phase byte   `json:"p"`
	Ext   int    `json:"x"`
	Path  string `json:"path,omitempty"`
	Note  string `json:"n,omitempty"`
}

func (e hev) String() string {
	s := e.Kind + string(e.Phase)
	if e.Kind != "directive" {
		s += strconv.Itoa(e.Ext)
	}
	if e.Path != "" {
		s += "@" + e.Path
	}
	if e.Note != "" {
		s += "(" + e.Note + ")"
	}
	return s
}

// reqLog is the log of ONE request. It travels in the request context, so the monitor's own state
// is shared only between goroutines of that request and is guarded by mu; append order under mu is
// a linearisation consistent with happens-before.
type reqLog struct {
	mu sync.Mutex
	ev []hev
	// script: the extension at index rejectExt rejects in its hook rejectKind ("pm" | "cm" | "")
	rejectKind string
	rejectExt  int
	paramsAddr uintptr
}

type logKey struct{}

func withLog(ctx context.Context, l *reqLog) context.Context {
	return context.WithValue(ctx, logKey{}, l)
}

func getLog(ctx context.Context) *reqLog {
	l, _ := ctx.Value(logKey{}).(*reqLog)
	return l
}

func (l *reqLog) add(e hev) {
	if l == nil {
		return
	}
	l.mu.Lock()
	l.ev = append(l.ev, e)
	l.mu.Unlock()
}

func (l *reqLog) snapshot() []hev {
	l.mu.Lock()
	defer l.mu.Unlock()
	return append([]hev(nil), l.ev...)
}

// logPlan wraps the request's plan: the universal resolver asks the plan for the outcome of every
// resolver (Fault) and directive (Directive) invocation from inside that invocation, which puts
// resolver / directive events into the same totally ordered log as the hook events.
//
// Every instrumented FieldInterceptor hands its `next` a context whose Run carries a copy of the
// plan tagged with that interception's (extension, path): a resolver event therefore names the
// interception whose context the resolver actually received (ext = -1: none).
type logPlan struct {
	univ.Plan
	l    *reqLog
	ext  int
	path string
}

func (p *logPlan) Fault(k univ.Key) univ.Fault {
	p.l.add(hev{Kind: "resolver", Phase: '.', Ext: p.ext, Path: p.path, Note: k.Object + "." + k.Field})
	return p.Plan.Fault(k)
}

func (p *logPlan) Directive(path, name string) int {
	p.l.add(hev{Kind: "directive", Phase: '.', Path: path, Note: name})
	return p.Plan.Directive(path, name)
}

// extCore is the identity of one registered extension: its index in the registration list.
type extCore struct {
	idx  int
	mask int
	es   graphql.ExecutableSchema
}

type extBase struct{ c *extCore }

func (b extBase) ExtensionName() string                          { return "verifExt" + strconv.Itoa(b.c.idx) }
func (b extBase) Validate(schema graphql.ExecutableSchema) error { b.c.es = schema; return nil }

type mPM struct{ c *extCore }

func (m mPM) MutateOperationParameters(ctx context.Context, p *graphql.RawParams) *gqlerror.Error {
	l := getLog(ctx)
	l.add(hev{Kind: "pm", Phase: 'E', Ext: m.c.idx})
	defer l.add(hev{Kind: "pm", Phase: 'X', Ext: m.c.idx})
	if l != nil && l.rejectKind == "pm" && l.rejectExt == m.c.idx {
		return gqlerror.Errorf("REJECT-BY-PM-%d", m.c.idx)
	}
	return nil
}

type mCM struct{ c *extCore }

func (m mCM) MutateOperationContext(ctx context.Context, oc *graphql.OperationContext) *gqlerror.Error {
	l := getLog(ctx)
	l.add(hev{Kind: "cm", Phase: 'E', Ext: m.c.idx})
	defer l.add(hev{Kind: "cm", Phase: 'X', Ext: m.c.idx})
	// what extension.ComplexityLimit does at this gate: the generated Complexity() of every selected
	// field runs before the operation is accepted; it must not reach a directive or resolver
	if m.c.es != nil && oc.Operation != nil {
		_ = complexity.Calculate(ctx, m.c.es, oc.Operation, oc.Variables)
	}
	if l != nil && l.rejectKind == "cm" && l.rejectExt == m.c.idx {
		return gqlerror.Errorf("REJECT-BY-CM-%d", m.c.idx)
	}
	return nil
}

type mOI struct{ c *extCore }

func (m mOI) InterceptOperation(ctx context.Context, next graphql.OperationHandler) graphql.ResponseHandler {
	l := getLog(ctx)
	l.add(hev{Kind: "op", Phase: 'E', Ext: m.c.idx})
	defer l.add(hev{Kind: "op", Phase: 'X', Ext: m.c.idx})
	return next(ctx)
}

type mRI struct{ c *extCore }

func (m mRI) InterceptResponse(ctx context.Context, next graphql.ResponseHandler) *graphql.Response {
	l := getLog(ctx)
	l.add(hev{Kind: "resp", Phase: 'E', Ext: m.c.idx})
	r := next(ctx)
	note := ""
	if r == nil {
		note = "nil"
	}
	l.add(hev{Kind: "resp", Phase: 'X', Ext: m.c.idx, Note: note})
	return r
}

type mRF struct{ c *extCore }

func (m mRF) InterceptRootField(ctx context.Context, next graphql.RootResolver) graphql.Marshaler {
	l := getLog(ctx)
	path := "?"
	if rc := graphql.GetRootFieldContext(ctx); rc != nil {
		path = rc.Field.Alias
	}
	l.add(hev{Kind: "root", Phase: 'E', Ext: m.c.idx, Path: path})
	defer l.add(hev{Kind: "root", Phase: 'X', Ext: m.c.idx, Path: path})
	return next(ctx)
}

type mFI struct{ c *extCore }

func (m mFI) InterceptField(ctx context.Context, next graphql.Resolver) (any, error) {
	l := getLog(ctx)
	path := graphql.GetPath(ctx).String()
	of := ""
	if fc := graphql.GetFieldContext(ctx); fc != nil {
		of = fc.Object + "." + fc.Field.Name
	}
	l.add(hev{Kind: "field", Phase: 'E', Ext: m.c.idx, Path: path, Note: of})
	defer l.add(hev{Kind: "field", Phase: 'X', Ext: m.c.idx, Path: path})
	if run := univ.GetRun(ctx); run != nil {
		if lp, ok := run.Plan.(*logPlan); ok {
			ctx = univ.WithRun(ctx, &univ.Run{Plan: &logPlan{Plan: lp.Plan, l: lp.l, ext: m.c.idx, path: path}})
		}
	}
	return next(ctx)
}

// extList is a registration list: masks[i] is the hook subset of the extension at index i.
type extList []int

func (x extList) String() string {
	if len(x) == 0 {
		return "[]"
	}
	parts := make([]string, len(x))
	for i, m := range x {
		var hs []string
		for b := hPM; b <= hFI; b <<= 1 {
			if m&b != 0 {
				hs = append(hs, hookNames[b])
			}
		}
		parts[i] = strings.Join(hs, "+")
	}
	return "[" + strings.Join(parts, " | ") + "]"
}

// with returns the indices of the extensions implementing hook h, in registration order.
func (x extList) with(h int) []int {
	var out []int
	for i, m := range x {
		if m&h != 0 {
			out = append(out, i)
		}
	}
	return out
}

func (x extList) build() []graphql.HandlerExtension {
	out := make([]graphql.HandlerExtension, len(x))
	for i, m := range x {
		out[i] = newExt(m, &extCore{idx: i, mask: m})
	}
	return out
}
