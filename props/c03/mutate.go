package main

// Request variants. Every variant is built from a valid opgen operation by a NAMED construction,
// so whether it must be refused — and at which gate — is known before gqlgen sees it.

import (
	"encoding/json"
	"sort"
	"strings"

	"github.com/vektah/gqlparser/v2/ast"
	"github.com/vektah/gqlparser/v2/parser"
	"github.com/vektah/gqlparser/v2/validator"

	"verif/internal/opgen"
	"verif/internal/ref"
	"verif/internal/univ"
)

// variant is one (text, operationName, variables) triple with its by-construction classification.
type variant struct {
	Name   string         `json:"name"`  // construction name
	Stage  string         `json:"stage"` // "" valid | parse | validate | opselect | varcoerce
	Query  string         `json:"query"`
	OpName string         `json:"operationName"`
	Vars   map[string]any `json:"variables,omitempty"`
	// expected counts for valid variants (from the reference executor)
	fields, rootFields int
}

// family is the set of variants derived from one base operation. Several variants share one
// query TEXT on purpose (same text, different operationName / variables / verdict).
type family struct {
	Base     *opgen.Op
	Valid    []*variant
	Invalid  []*variant
	ValidSet map[string]bool // texts that are valid documents (may legitimately enter the query cache)
}

func jsonRoundTrip(v map[string]any) map[string]any {
	if v == nil {
		return nil
	}
	b, _ := json.Marshal(v)
	var out map[string]any
	d := json.NewDecoder(strings.NewReader(string(b)))
	d.UseNumber()
	d.Decode(&out)
	return out
}

func copyVars(v map[string]any, extra map[string]any) map[string]any {
	out := map[string]any{}
	for k, x := range v {
		out[k] = x
	}
	for k, x := range extra {
		out[k] = x
	}
	return out
}

// intArgRoot finds a root field of the operation's root type taking a nullable Int argument.
func intArgRoot(root *ast.Definition, s *ast.Schema) (field, arg, sel string) {
	var names []string
	for _, f := range root.Fields {
		names = append(names, f.Name)
	}
	sort.Strings(names)
	for _, n := range names {
		f := root.Fields.ForName(n)
		if strings.HasPrefix(n, "__") {
			continue
		}
		for _, a := range f.Arguments {
			if a.Type.NamedType == "Int" && !a.Type.NonNull {
				// every other argument must be optional
				ok := true
				for _, o := range f.Arguments {
					if o != a && o.Type.NonNull && o.DefaultValue == nil {
						ok = false
					}
				}
				if !ok {
					continue
				}
				sel = ""
				if d := s.Types[f.Type.Name()]; d != nil && (d.Kind == ast.Object || d.Kind == ast.Interface || d.Kind == ast.Union) {
					sel = " { __typename }"
				}
				return n, a.Name, sel
			}
		}
	}
	return "", "", ""
}

func compositeRoot(root *ast.Definition, s *ast.Schema) string {
	var names []string
	for _, f := range root.Fields {
		names = append(names, f.Name)
	}
	sort.Strings(names)
	for _, n := range names {
		f := root.Fields.ForName(n)
		if strings.HasPrefix(n, "__") {
			continue
		}
		req := false
		for _, o := range f.Arguments {
			if o.Type.NonNull && o.DefaultValue == nil {
				req = true
			}
		}
		if d := s.Types[f.Type.Name()]; !req && d != nil && d.Kind == ast.Object {
			return n
		}
	}
	return ""
}

// insertRootSelection puts sel right after the opening brace of the operation's selection set.
func insertRootSelection(q, sel string) string {
	i := strings.Index(q, "{")
	return q[:i+1] + " " + sel + q[i+1:]
}

// addVariableDefinition adds a variable definition to the operation header.
func addVariableDefinition(q, def string) string {
	brace := strings.Index(q, "{")
	if p := strings.Index(q[:brace], "("); p >= 0 {
		return q[:p+1] + def + ", " + q[p+1:]
	}
	head := strings.TrimRight(q[:brace], " ")
	return head + "(" + def + ") " + q[brace:]
}

// buildFamily derives all variants of one base operation.
func buildFamily(schema *ast.Schema, op *opgen.Op) *family {
	f := &family{Base: op, ValidSet: map[string]bool{}}
	T := op.Query
	rootDef := schema.Query
	if op.Kind == string(ast.Mutation) {
		rootDef = schema.Mutation
	}
	rootName := rootDef.Name
	vars := op.Vars
	valid := func(name, q, opn string, v map[string]any) {
		f.Valid = append(f.Valid, &variant{Name: name, Query: q, OpName: opn, Vars: v})
		f.ValidSet[q] = true
	}
	invalid := func(name, stage, q, opn string, v map[string]any) {
		f.Invalid = append(f.Invalid, &variant{Name: name, Stage: stage, Query: q, OpName: opn, Vars: v})
	}
	// --- same text T
	valid("base", T, op.OpName, vars)
	valid("base-anonymous-selection", T, "", vars) // a single operation is selected without a name
	invalid("unknown-operationName-single", "opselect", T, "ZzNoSuchOp", vars)

	// --- document-level invalidations (each a different text)
	invalid("unknown-field", "validate", insertRootSelection(T, "zzNoSuchField"), op.OpName, vars)
	if c := compositeRoot(rootDef, schema); c != "" {
		invalid("unknown-field-nested", "validate", insertRootSelection(T, "zq2: "+c+" { zzNoSuchField }"), op.OpName, vars)
	}
	fld, arg, sel := intArgRoot(rootDef, schema)
	if fld != "" {
		invalid("wrong-literal-type", "validate", insertRootSelection(T, "zq3: "+fld+"("+arg+": \"notAnInt\")"+sel), op.OpName, vars)
		invalid("undefined-variable", "validate", insertRootSelection(T, "zq4: "+fld+"("+arg+": $zzUndefined)"+sel), op.OpName, vars)
	}
	invalid("unused-variable", "validate", addVariableDefinition(T, "$zzUnused: Int"), op.OpName, vars)
	invalid("unused-fragment", "validate", T+"\nfragment ZzUnused on "+rootName+" { __typename }", op.OpName, vars)
	invalid("cyclic-fragment", "validate", insertRootSelection(T, "...ZzCycA")+
		"\nfragment ZzCycA on "+rootName+" { __typename ...ZzCycB }\nfragment ZzCycB on "+rootName+" { ...ZzCycA }", op.OpName, vars)
	invalid("unbalanced-missing-close", "parse", strings.TrimRight(T, " \n")[:len(strings.TrimRight(T, " \n"))-1], op.OpName, vars)
	invalid("unbalanced-extra-open", "parse", insertRootSelection(T, "{"), op.OpName, vars)
	invalid("no-operation", "validate", "fragment ZzOnly on "+rootName+" { __typename }", "", nil)

	// --- a valid and an invalid text that a cache keyed by a "normalised" text would confuse: they
	// differ only in white space (a line break after a comment) resp. only in letter case
	if tt := strings.TrimRight(T, " \n"); strings.HasSuffix(tt, "}") {
		valid("comment-then-newline", tt[:len(tt)-1]+"# c\n}", op.OpName, vars)
		invalid("comment-swallows-close", "parse", tt[:len(tt)-1]+"# c }", op.OpName, vars)
	}
	valid("typename-alias", insertRootSelection(T, "zc: __typename"), op.OpName, vars)
	invalid("typename-alias-upper-case", "validate", insertRootSelection(T, "zc: __TYPENAME"), op.OpName, vars)

	// --- several operations in one document: same text Tm, verdict decided by operationName
	Tm := T + "\nquery ZzOther { zt: __typename }"
	valid("multi-named", Tm, op.OpName, vars)
	valid("multi-other", Tm, "ZzOther", nil)
	invalid("multi-unknown-operationName", "opselect", Tm, "ZzNope", vars)
	invalid("multi-missing-operationName", "opselect", Tm, "", vars)

	// --- a required variable: same text Tv, verdict decided by the variables
	if fld != "" {
		Tv := addVariableDefinition(insertRootSelection(T, "zq9: "+fld+"("+arg+": $zzReq)"+sel), "$zzReq: Int!")
		valid("reqvar-7", Tv, op.OpName, copyVars(vars, map[string]any{"zzReq": 7}))
		valid("reqvar-8", Tv, op.OpName, copyVars(vars, map[string]any{"zzReq": 8}))
		invalid("missing-required-variable", "varcoerce", Tv, op.OpName, copyVars(vars, nil))
		invalid("null-required-variable", "varcoerce", Tv, op.OpName, copyVars(vars, map[string]any{"zzReq": nil}))
		invalid("required-variable-no-variables-member", "varcoerce", Tv, op.OpName, nil) // the request has no variables at all
		invalid("wrong-variable-json-type-string", "varcoerce", Tv, op.OpName, copyVars(vars, map[string]any{"zzReq": "seven"}))
		invalid("wrong-variable-json-type-object", "varcoerce", Tv, op.OpName, copyVars(vars, map[string]any{"zzReq": map[string]any{"x": 1}}))
		invalid("wrong-variable-json-type-list", "varcoerce", Tv, op.OpName, copyVars(vars, map[string]any{"zzReq": []any{1, 2}}))
	}
	return f
}

// vet confirms the construction on a quiescent process (before any executor touched gqlparser's
// global rule set): valid variants parse, validate and coerce; invalid ones fail at their stage.
// A variant whose construction did not have the intended effect is dropped and counted — it is
// never used with a guessed verdict. For valid variants the reference executor supplies the
// expected numbers of executed fields.
func (f *family) vet(env *univ.Env, plan univ.Plan, count func(string)) {
	keepV := f.Valid[:0]
	for _, v := range f.Valid {
		doc, perr := parser.ParseQuery(&ast.Source{Input: v.Query})
		if perr != nil || len(validator.Validate(env.Schema, doc)) > 0 {
			count("construction_dropped_valid:" + v.Name)
			delete(f.ValidSet, v.Query)
			continue
		}
		op := doc.Operations.ForName(v.OpName)
		if op == nil {
			count("construction_dropped_valid:" + v.Name)
			continue
		}
		if _, err := validator.VariableValues(env.Schema, op, jsonRoundTrip(v.Vars)); err != nil {
			count("construction_dropped_valid:" + v.Name)
			continue
		}
		omit, _ := env.Probe.Options["nullable_input_omittable"].(bool)
		want := ref.Execute(env, plan, doc, op.Name, jsonRoundTrip(v.Vars), ref.Options{Omittable: omit})
		if want.RequestError != "" {
			count("construction_dropped_valid:" + v.Name)
			continue
		}
		coercion := 0
		for _, e := range want.Errors {
			if e.Class == "coercion" {
				coercion++
			}
		}
		v.fields, v.rootFields = want.Stats.Fields-coercion, want.Stats.RootFields
		keepV = append(keepV, v)
	}
	f.Valid = keepV
	keepI := f.Invalid[:0]
	for _, v := range f.Invalid {
		stage := ""
		doc, perr := parser.ParseQuery(&ast.Source{Input: v.Query})
		switch {
		case perr != nil:
			stage = "parse"
		case len(doc.Operations) == 0 || len(validator.Validate(env.Schema, doc)) > 0:
			stage = "validate"
		default:
			op := doc.Operations.ForName(v.OpName)
			if op == nil {
				stage = "opselect"
			} else if _, err := validator.VariableValues(env.Schema, op, jsonRoundTrip(v.Vars)); err != nil {
				stage = "varcoerce"
			}
		}
		if stage != v.Stage {
			count("construction_dropped_invalid:" + v.Name)
			continue
		}
		if f.ValidSet[v.Query] && (v.Stage == "parse" || v.Stage == "validate") {
			count("construction_dropped_invalid:" + v.Name)
			continue
		}
		keepI = append(keepI, v)
	}
	f.Invalid = keepI
}
