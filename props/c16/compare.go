package main

// Rebuilds the type graph from the JSON of an introspection response and compares it, element by
// element, with an *ast.Schema loaded independently by gqlparser from the same SDL. Lists are
// compared as sets keyed by name (order is not part of the property); default values are compared
// as parsed GraphQL values; descriptions exactly; every element's *own* @deprecated.

import (
	"fmt"
	"sort"
	"strconv"
	"strings"
	"unicode"

	"github.com/vektah/gqlparser/v2/ast"
	"github.com/vektah/gqlparser/v2/parser"

	"verif/internal/sjson"
)

// caps says which optional members the query asked for (the superset query asks for everything the
// served meta-schema offers; the repo's standard query asks for less).
type caps struct {
	schemaDescription bool
	specifiedByURL    bool
	isOneOf           bool
	isRepeatable      bool
	inputDeprecation  bool
	// arguments accepted by the served meta-schema
	argsInclDeprecated          bool // __Field.args(includeDeprecated:)
	inputFieldsInclDeprecated   bool // __Type.inputFields(includeDeprecated:)
	directiveArgsInclDeprecated bool // __Directive.args(includeDeprecated:)
	// the query did not pass includeDeprecated to args / inputFields: a server may then hide
	// deprecated input values, so their absence is not a mismatch (repo's standard query)
	inputsMayHideDeprecated bool
}

type mismatch struct {
	Sig      string `json:"signature"`
	Where    string `json:"where"`
	Expected string `json:"expected"`
	Observed string `json:"observed"`
}

type tally map[string]int64

type cmp struct {
	s    *ast.Schema
	c    caps
	out  []mismatch
	seen tally
}

func (c *cmp) bad(sig, where, exp, obs string) {
	c.out = append(c.out, mismatch{Sig: sig, Where: where, Expected: exp, Observed: obs})
}

func (c *cmp) n(k string) { c.seen[k]++ }

func jstr(v *sjson.Value) (string, bool) {
	if v == nil || v.Kind != sjson.String {
		return "", false
	}
	return v.Str, true
}

func isNullOrAbsent(v *sjson.Value) bool { return v == nil || v.Kind == sjson.Null }

func render(v *sjson.Value) string {
	if v == nil {
		return "<absent>"
	}
	s := v.Render()
	if len(s) > 300 {
		s = s[:300] + "…"
	}
	return s
}

// index turns a JSON array of objects into a map by "name", reporting duplicates and malformed entries.
func (c *cmp) index(v *sjson.Value, where, what string, nullMeansEmpty bool) (map[string]*sjson.Value, bool) {
	m := map[string]*sjson.Value{}
	if isNullOrAbsent(v) {
		if nullMeansEmpty {
			return m, true
		}
		c.bad("shape:"+what, where, "a list", render(v))
		return m, false
	}
	if v.Kind != sjson.Array {
		c.bad("shape:"+what, where, "a list", render(v))
		return m, false
	}
	for _, e := range v.Arr {
		n, ok := jstr(e.Get("name"))
		if !ok {
			c.bad("shape:"+what, where, "entries with a name", render(e))
			continue
		}
		if _, dup := m[n]; dup {
			c.bad("duplicate:"+what, where+"/"+n, "one entry", "listed more than once")
		}
		m[n] = e
	}
	return m, true
}

func sortedKeys[V any](m map[string]V) []string {
	ks := make([]string, 0, len(m))
	for k := range m {
		ks = append(ks, k)
	}
	sort.Strings(ks)
	return ks
}

// refString rebuilds "[[T!]]!" from kind/name/ofType and validates the chain.
func (c *cmp) refString(v *sjson.Value) (string, string) {
	if isNullOrAbsent(v) || v.Kind != sjson.Object {
		return "", "type reference is " + render(v)
	}
	kind, _ := jstr(v.Get("kind"))
	switch kind {
	case "NON_NULL", "LIST":
		if !isNullOrAbsent(v.Get("name")) {
			return "", kind + " wrapper carries a name " + render(v.Get("name"))
		}
		of := v.Get("ofType")
		if isNullOrAbsent(of) {
			return "", kind + " wrapper without ofType"
		}
		inner, err := c.refString(of)
		if err != "" {
			return "", err
		}
		if kind == "NON_NULL" {
			if strings.HasSuffix(inner, "!") {
				return "", "NON_NULL directly wraps NON_NULL"
			}
			return inner + "!", ""
		}
		return "[" + inner + "]", ""
	case "":
		return "", "type reference without kind: " + render(v)
	}
	name, ok := jstr(v.Get("name"))
	if !ok {
		return "", "named type reference without name: " + render(v)
	}
	if of := v.Get("ofType"); of != nil && of.Kind != sjson.Null {
		return "", "named type " + name + " has ofType " + render(of)
	}
	if def := c.s.Types[name]; def != nil && string(def.Kind) != kind {
		return "", fmt.Sprintf("reference to %s says kind %s, the type is %s", name, kind, def.Kind)
	}
	return name, ""
}

func (c *cmp) typeRef(where, pos string, exp *ast.Type, v *sjson.Value) {
	c.n("typeref@" + pos)
	got, err := c.refString(v)
	if err != "" {
		c.bad("type-ref:"+pos, where, exp.String(), err)
		return
	}
	if got != exp.String() {
		c.bad("type-ref:"+pos, where, exp.String(), got)
	}
}

func (c *cmp) description(where, pos, exp string, v *sjson.Value) {
	obs := ""
	if !isNullOrAbsent(v) {
		s, ok := jstr(v)
		if !ok {
			c.bad("description:"+pos, where, strconv.Quote(exp), render(v))
			return
		}
		obs = s
	}
	if exp != "" {
		c.n("description@" + pos)
		if strings.Contains(exp, "\n") {
			c.n("description_multiline@" + pos)
		}
		for _, r := range exp {
			if r > unicode.MaxASCII {
				c.n("description_nonascii@" + pos)
				break
			}
		}
	}
	if obs != exp {
		c.bad("description:"+pos, where, strconv.Quote(exp), strconv.Quote(obs))
	}
}

const specDefaultReason = "No longer supported"

func reasonOf(d *ast.Directive) (string, bool) {
	if d == nil {
		return "", false
	}
	a := d.Arguments.ForName("reason")
	if a == nil || a.Value == nil || (a.Value.Kind != ast.StringValue && a.Value.Kind != ast.BlockValue) {
		return "", false
	}
	return a.Value.Raw, true
}

// deprecation compares an element's own deprecation. enclosing (field arguments only) is the
// @deprecated of the field that owns the argument: it is used ONLY to name the failure class.
func (c *cmp) deprecation(where, pos string, own *ast.Directive, j *sjson.Value, enclosing *ast.Directive, isFieldArg bool) {
	exp := own != nil
	iv := j.Get("isDeprecated")
	if iv == nil || iv.Kind != sjson.Bool {
		c.bad("shape:isDeprecated", where, "a Boolean", render(iv))
		return
	}
	obs := iv.B
	if exp {
		if _, explicit := reasonOf(own); explicit {
			c.n("deprecated_with_reason@" + pos)
		} else {
			c.n("deprecated_without_reason@" + pos)
		}
	} else {
		c.n("not_deprecated@" + pos)
	}
	if isFieldArg && enclosing != nil {
		c.n("fieldArg_under_deprecated_field")
	}
	fromField := func(sig string) string {
		if isFieldArg && obs == (enclosing != nil) {
			return "arg-deprecation-from-field"
		}
		if pos == "directiveArg" && exp && !obs {
			return "directive-arg-deprecation-lost"
		}
		return sig
	}
	if exp != obs {
		c.bad(fromField("deprecation-status:"+pos), where, fmt.Sprintf("isDeprecated=%v (own @deprecated %s)", exp, dirText(own)),
			fmt.Sprintf("isDeprecated=%v%s", obs, enclosingNote(isFieldArg, enclosing)))
		return
	}
	rv := j.Get("deprecationReason")
	if rv == nil {
		c.bad("shape:deprecationReason", where, "member present", "<absent>")
		return
	}
	var obsReason *string
	if rv.Kind == sjson.String {
		obsReason = &rv.Str
	} else if rv.Kind != sjson.Null {
		c.bad("shape:deprecationReason", where, "String or null", render(rv))
		return
	}
	if !exp {
		if obsReason != nil {
			c.bad("deprecation-reason:"+pos, where, "null (element is not deprecated)", strconv.Quote(*obsReason))
		}
		return
	}
	want, explicit := reasonOf(own)
	ok := false
	if explicit {
		ok = obsReason != nil && *obsReason == want
	} else {
		ok = obsReason == nil || *obsReason == specDefaultReason
	}
	if !ok {
		o := "null"
		if obsReason != nil {
			o = strconv.Quote(*obsReason)
		}
		sig := "deprecation-reason:" + pos
		if isFieldArg && enclosing != nil {
			er, eexp := reasonOf(enclosing)
			if (eexp && obsReason != nil && *obsReason == er) || (!eexp && (obsReason == nil || *obsReason == specDefaultReason)) {
				sig = "arg-deprecation-from-field"
			}
		}
		e := "null or the spec default (no explicit reason)"
		if explicit {
			e = strconv.Quote(want)
		}
		c.bad(sig, where, e, o+enclosingNote(isFieldArg, enclosing))
	}
}

func dirText(d *ast.Directive) string {
	if d == nil {
		return "absent"
	}
	if r, ok := reasonOf(d); ok {
		return "reason " + strconv.Quote(r)
	}
	return "present, no reason"
}

func enclosingNote(isFieldArg bool, enclosing *ast.Directive) string {
	if !isFieldArg {
		return ""
	}
	return " [enclosing field @deprecated: " + dirText(enclosing) + "]"
}

// ---------------------------------------------------------------------------------------------
// default values

func valueKindName(v *ast.Value) string {
	switch v.Kind {
	case ast.IntValue:
		return "int"
	case ast.FloatValue:
		return "float"
	case ast.StringValue:
		return "string"
	case ast.BlockValue:
		return "blockstring"
	case ast.BooleanValue:
		return "boolean"
	case ast.NullValue:
		return "null"
	case ast.EnumValue:
		return "enum"
	case ast.ListValue:
		return "list"
	case ast.ObjectValue:
		return "object"
	}
	return "other"
}

func parseValue(s string) (*ast.Value, error) {
	doc, err := parser.ParseQuery(&ast.Source{Input: "{f(a: " + s + "\n)}"})
	if err != nil {
		return nil, err
	}
	if len(doc.Operations) != 1 || len(doc.Operations[0].SelectionSet) != 1 {
		return nil, fmt.Errorf("not a single value")
	}
	f, ok := doc.Operations[0].SelectionSet[0].(*ast.Field)
	if !ok || len(f.Arguments) != 1 || f.Arguments[0].Name != "a" {
		return nil, fmt.Errorf("not a single value")
	}
	return f.Arguments[0].Value, nil
}

func valueEqual(a, b *ast.Value) bool {
	if a == nil || b == nil {
		return a == b
	}
	ak, bk := a.Kind, b.Kind
	if ak == ast.BlockValue {
		ak = ast.StringValue
	}
	if bk == ast.BlockValue {
		bk = ast.StringValue
	}
	if ak != bk {
		return false
	}
	switch ak {
	case ast.IntValue, ast.FloatValue:
		return a.Raw == b.Raw || sjson.NumEqual(a.Raw, b.Raw)
	case ast.StringValue, ast.EnumValue, ast.BooleanValue, ast.Variable:
		return a.Raw == b.Raw
	case ast.NullValue:
		return true
	case ast.ListValue:
		if len(a.Children) != len(b.Children) {
			return false
		}
		for i := range a.Children {
			if !valueEqual(a.Children[i].Value, b.Children[i].Value) {
				return false
			}
		}
		return true
	case ast.ObjectValue:
		if len(a.Children) != len(b.Children) {
			return false
		}
		for _, ca := range a.Children {
			cb := b.Children.ForName(ca.Name)
			if cb == nil || !valueEqual(ca.Value, cb) {
				return false
			}
		}
		return true
	}
	return false
}

// hasNonGraphQLQuoting reports whether a value contains a string for which Go's strconv.Quote
// produces an escape that GraphQL's string grammar does not have (\a \v \x.. \U........).
func hasNonGraphQLQuoting(v *ast.Value) bool {
	if v == nil {
		return false
	}
	if v.Kind == ast.StringValue || v.Kind == ast.BlockValue {
		q := strconv.Quote(v.Raw)
		for i := 0; i+1 < len(q); i++ {
			if q[i] == '\\' {
				switch q[i+1] {
				case 'a', 'v', 'x', 'U':
					return true
				}
				i++
			}
		}
	}
	for _, ch := range v.Children {
		if hasNonGraphQLQuoting(ch.Value) {
			return true
		}
	}
	return false
}

func (c *cmp) countDefaultKinds(v *ast.Value, pos string, top bool) {
	if v == nil {
		return
	}
	if top {
		c.n("default_" + valueKindName(v) + "@" + pos)
	} else {
		c.n("default_nested_" + valueKindName(v))
	}
	for _, ch := range v.Children {
		c.countDefaultKinds(ch.Value, pos, false)
	}
}

func (c *cmp) defaultValue(where, pos string, exp *ast.Value, v *sjson.Value) {
	if exp == nil {
		c.n("no_default@" + pos)
		if !isNullOrAbsent(v) {
			c.bad("default-value:"+pos, where, "null (no default)", render(v))
		}
		return
	}
	c.countDefaultKinds(exp, pos, true)
	s, ok := jstr(v)
	if !ok {
		c.bad("default-value-dropped:"+pos, where, exp.String(), render(v))
		return
	}
	got, err := parseValue(s)
	if err != nil {
		sig := "default-unparsable:" + pos
		if hasNonGraphQLQuoting(exp) {
			sig = "default-string-escape-not-graphql"
		}
		c.bad(sig, where, "a GraphQL value equal to "+exp.String(), strconv.Quote(s)+" ("+err.Error()+")")
		return
	}
	if !valueEqual(exp, got) {
		c.bad("default-value:"+pos, where, exp.String(), s)
	}
}

// ---------------------------------------------------------------------------------------------

func (c *cmp) inputValues(where, pos string, exp ast.ArgumentDefinitionList, fexp ast.FieldList, v *sjson.Value, enclosing *ast.Directive) {
	type iv struct {
		name, desc string
		typ        *ast.Type
		def        *ast.Value
		dirs       ast.DirectiveList
	}
	var want []iv
	for _, a := range exp {
		want = append(want, iv{a.Name, a.Description, a.Type, a.DefaultValue, a.Directives})
	}
	for _, f := range fexp {
		want = append(want, iv{f.Name, f.Description, f.Type, f.DefaultValue, f.Directives})
	}
	got, ok := c.index(v, where, pos+"s", false)
	if !ok {
		return
	}
	seen := map[string]bool{}
	for _, w := range want {
		seen[w.name] = true
		j := got[w.name]
		wh := where + "/" + w.name
		if j == nil {
			if c.c.inputsMayHideDeprecated && w.dirs.ForName("deprecated") != nil {
				continue
			}
			c.bad("missing:"+pos, wh, "present", "absent")
			continue
		}
		c.n(pos + "s")
		c.description(wh, pos, w.desc, j.Get("description"))
		c.typeRef(wh, pos, w.typ, j.Get("type"))
		c.defaultValue(wh, pos, w.def, j.Get("defaultValue"))
		if c.c.inputDeprecation {
			c.deprecation(wh, pos, w.dirs.ForName("deprecated"), j, enclosing, pos == "fieldArg")
		}
	}
	for _, n := range sortedKeys(got) {
		if !seen[n] {
			c.bad("unexpected:"+pos, where+"/"+n, "absent", "present")
		}
	}
}

func (c *cmp) emptyList(where, what string, v *sjson.Value) {
	// for kinds where a member does not apply the spec says null; [] carries the same information
	if isNullOrAbsent(v) {
		return
	}
	if v.Kind != sjson.Array || len(v.Arr) != 0 {
		c.bad("unexpected:"+what, where, "null or []", render(v))
	}
}

func (c *cmp) nameSet(where, what string, want []string, v *sjson.Value, wantKind func(name string) string) (missing, extra []string, got map[string]*sjson.Value) {
	got, ok := c.index(v, where, what, false)
	if !ok {
		return nil, nil, got
	}
	w := map[string]bool{}
	for _, n := range want {
		w[n] = true
		if got[n] == nil {
			missing = append(missing, n)
		}
	}
	for _, n := range sortedKeys(got) {
		if !w[n] {
			extra = append(extra, n)
			continue
		}
		k, _ := jstr(got[n].Get("kind"))
		if wk := wantKind(n); k != wk {
			c.bad("type-ref:"+what, where+"/"+n, "kind "+wk, "kind "+k)
		}
	}
	sort.Strings(missing)
	return missing, extra, got
}

func (c *cmp) typeDef(def *ast.Definition, j *sjson.Value) {
	where := "type " + def.Name
	kind := strings.ToLower(string(def.Kind))
	c.n("types_" + kind)
	if k, _ := jstr(j.Get("kind")); k != string(def.Kind) {
		c.bad("type-kind", where, string(def.Kind), k)
		return
	}
	c.description(where, kind, def.Description, j.Get("description"))
	if !isNullOrAbsent(j.Get("ofType")) {
		c.bad("type-ref:named-type-ofType", where, "null", render(j.Get("ofType")))
	}

	if c.c.specifiedByURL {
		var want *string
		if d := def.Directives.ForName("specifiedBy"); d != nil && def.Kind == ast.Scalar {
			if u := d.Arguments.ForName("url"); u != nil {
				want = &u.Value.Raw
				c.n("specifiedByURL")
			}
		}
		v := j.Get("specifiedByURL")
		switch {
		case want == nil && !isNullOrAbsent(v):
			c.bad("specifiedByURL", where, "null", render(v))
		case want != nil:
			if s, ok := jstr(v); !ok || s != *want {
				c.bad("specifiedByURL", where, strconv.Quote(*want), render(v))
			}
		}
	}
	if c.c.isOneOf {
		want := def.Kind == ast.InputObject && def.Directives.ForName("oneOf") != nil
		v := j.Get("isOneOf")
		obs := v != nil && v.Kind == sjson.Bool && v.B
		if want {
			c.n("isOneOf_true")
		}
		if want != obs {
			c.bad("isOneOf", where, fmt.Sprint(want), render(v))
		}
	}

	// fields
	if def.Kind == ast.Object || def.Kind == ast.Interface {
		got, ok := c.index(j.Get("fields"), where, "fields", false)
		seen := map[string]bool{}
		for _, f := range def.Fields {
			if !ok {
				break
			}
			if strings.HasPrefix(f.Name, "__") {
				continue // __schema / __type / __typename are never listed
			}
			seen[f.Name] = true
			fj := got[f.Name]
			wh := where + "." + f.Name
			if fj == nil {
				c.bad("missing:field", wh, "present", "absent")
				continue
			}
			c.n("fields")
			c.description(wh, "field", f.Description, fj.Get("description"))
			c.typeRef(wh, "field", f.Type, fj.Get("type"))
			dep := f.Directives.ForName("deprecated")
			c.deprecation(wh, "field", dep, fj, nil, false)
			c.inputValues(wh, "fieldArg", f.Arguments, nil, fj.Get("args"), dep)
		}
		for _, n := range sortedKeys(got) {
			if !seen[n] {
				c.bad("unexpected:field", where+"."+n, "absent", "present")
			}
		}
	} else {
		c.emptyList(where, "fields", j.Get("fields"))
	}

	// input fields
	if def.Kind == ast.InputObject {
		c.inputValues(where, "inputField", nil, def.Fields, j.Get("inputFields"), nil)
	} else {
		c.emptyList(where, "inputFields", j.Get("inputFields"))
	}

	// interfaces
	ifaceKind := func(string) string { return "INTERFACE" }
	if def.Kind == ast.Object || def.Kind == ast.Interface {
		missing, extra, got := c.nameSet(where, "interfaces", def.Interfaces, j.Get("interfaces"), ifaceKind)
		edge := "object_implements_interface_edges"
		if def.Kind == ast.Interface {
			edge = "interface_implements_interface_edges"
		}
		c.seen[edge] += int64(len(def.Interfaces))
		if len(missing) > 0 {
			sig := "missing:interface-edge"
			if def.Kind == ast.Interface && len(got) == 0 {
				sig = "interface-interfaces-empty"
			}
			c.bad(sig, where+" interfaces", strings.Join(def.Interfaces, ","), strings.Join(sortedKeys(got), ","))
		}
		if len(extra) > 0 {
			c.bad("unexpected:interface-edge", where+" interfaces", strings.Join(def.Interfaces, ","), strings.Join(sortedKeys(got), ","))
		}
	} else {
		c.emptyList(where, "interfaces", j.Get("interfaces"))
	}

	// possible types: unions list their members; interfaces list the OBJECT types implementing them
	if def.Kind == ast.Union || def.Kind == ast.Interface {
		var want []string
		if def.Kind == ast.Union {
			want = append(want, def.Types...)
			c.seen["union_member_edges"] += int64(len(want))
		} else {
			for _, o := range c.s.Types {
				if o.Kind != ast.Object {
					continue
				}
				for _, i := range o.Interfaces {
					if i == def.Name {
						want = append(want, o.Name)
						break
					}
				}
			}
			sort.Strings(want)
			c.seen["interface_possible_type_edges"] += int64(len(want))
		}
		objKind := func(n string) string { return "OBJECT" }
		missing, extra, got := c.nameSet(where, "possibleTypes", want, j.Get("possibleTypes"), objKind)
		if len(missing) > 0 {
			c.bad("missing:possible-type", where+" possibleTypes", strings.Join(want, ","), strings.Join(sortedKeys(got), ","))
		}
		if len(extra) > 0 {
			sig := "possible-types-include-interface"
			for _, n := range extra {
				d := c.s.Types[n]
				impl := false
				if d != nil && d.Kind == ast.Interface {
					for _, i := range d.Interfaces {
						if i == def.Name {
							impl = true
						}
					}
				}
				if !impl {
					sig = "unexpected:possible-type"
				}
			}
			c.bad(sig, where+" possibleTypes", "the OBJECT types "+strings.Join(want, ","), strings.Join(sortedKeys(got), ","))
		}
	} else {
		c.emptyList(where, "possibleTypes", j.Get("possibleTypes"))
	}

	// enum values
	if def.Kind == ast.Enum {
		got, ok := c.index(j.Get("enumValues"), where, "enumValues", false)
		seen := map[string]bool{}
		for _, ev := range def.EnumValues {
			if !ok {
				break
			}
			seen[ev.Name] = true
			ej := got[ev.Name]
			wh := where + "." + ev.Name
			if ej == nil {
				c.bad("missing:enumValue", wh, "present", "absent")
				continue
			}
			c.n("enumValues")
			c.description(wh, "enumValue", ev.Description, ej.Get("description"))
			c.deprecation(wh, "enumValue", ev.Directives.ForName("deprecated"), ej, nil, false)
		}
		for _, n := range sortedKeys(got) {
			if !seen[n] {
				c.bad("unexpected:enumValue", where+"."+n, "absent", "present")
			}
		}
	} else {
		c.emptyList(where, "enumValues", j.Get("enumValues"))
	}
}

func (c *cmp) rootType(where string, def *ast.Definition, v *sjson.Value) {
	if def == nil {
		if !isNullOrAbsent(v) {
			c.bad("root-type", where, "null", render(v))
		}
		return
	}
	c.n("root_types")
	if n, ok := jstr(v.Get("name")); !ok || n != def.Name {
		c.bad("root-type", where, def.Name, render(v))
	}
}

// compareSchema compares data.__schema with s.
func compareSchema(s *ast.Schema, js *sjson.Value, cp caps, seen tally) []mismatch {
	c := &cmp{s: s, c: cp, seen: seen}
	if js == nil || js.Kind != sjson.Object {
		c.bad("shape:__schema", "__schema", "an object", render(js))
		return c.out
	}
	if cp.schemaDescription {
		c.description("schema", "schema", s.Description, js.Get("description"))
	}
	c.rootType("queryType", s.Query, js.Get("queryType"))
	c.rootType("mutationType", s.Mutation, js.Get("mutationType"))
	c.rootType("subscriptionType", s.Subscription, js.Get("subscriptionType"))

	got, ok := c.index(js.Get("types"), "__schema.types", "types", false)
	if ok {
		for _, n := range sortedKeys(s.Types) {
			tj := got[n]
			if tj == nil {
				c.bad("missing:type", "type "+n, "present", "absent")
				continue
			}
			c.typeDef(s.Types[n], tj)
		}
		for _, n := range sortedKeys(got) {
			if s.Types[n] == nil {
				c.bad("unexpected:type", "type "+n, "absent", "present")
			}
		}
	}

	dgot, ok := c.index(js.Get("directives"), "__schema.directives", "directives", false)
	if ok {
		for _, n := range sortedKeys(s.Directives) {
			d := s.Directives[n]
			dj := dgot[n]
			wh := "directive @" + n
			if dj == nil {
				c.bad("missing:directive", wh, "present", "absent")
				continue
			}
			c.n("directives")
			c.description(wh, "directive", d.Description, dj.Get("description"))
			if cp.isRepeatable {
				v := dj.Get("isRepeatable")
				if d.IsRepeatable {
					c.n("directives_repeatable")
				}
				if v == nil || v.Kind != sjson.Bool || v.B != d.IsRepeatable {
					c.bad("directive-isRepeatable", wh, fmt.Sprint(d.IsRepeatable), render(v))
				}
			}
			want := map[string]bool{}
			for _, l := range d.Locations {
				want[string(l)] = true
			}
			obs := map[string]bool{}
			lv := dj.Get("locations")
			if lv == nil || lv.Kind != sjson.Array {
				c.bad("shape:locations", wh, "a list", render(lv))
			} else {
				for _, e := range lv.Arr {
					obs[e.Str] = true
				}
				c.seen["directive_locations"] += int64(len(want))
				if strings.Join(sortedKeys(want), "|") != strings.Join(sortedKeys(obs), "|") {
					c.bad("directive-locations", wh, strings.Join(sortedKeys(want), "|"), strings.Join(sortedKeys(obs), "|"))
				}
			}
			c.inputValues(wh, "directiveArg", d.Arguments, nil, dj.Get("args"), nil)
		}
		for _, n := range sortedKeys(dgot) {
			if s.Directives[n] == nil {
				c.bad("unexpected:directive", "directive @"+n, "absent", "present")
			}
		}
	}
	return c.out
}

// ---------------------------------------------------------------------------------------------
// query construction

const typeRefDepth = 9

func typeRefFragment() string {
	var sb strings.Builder
	sb.WriteString("fragment TR on __Type { kind name ")
	for i := 0; i < typeRefDepth; i++ {
		sb.WriteString("ofType { kind name ")
	}
	sb.WriteString(strings.Repeat("} ", typeRefDepth))
	sb.WriteString("}\n")
	return sb.String()
}

func fullTypeFragments(cp caps) string {
	incl := func(b bool) string {
		if b {
			return "(includeDeprecated: true)"
		}
		return ""
	}
	opt := func(b bool, s string) string {
		if b {
			return s
		}
		return ""
	}
	return "fragment FullType on __Type {\n kind name description" + opt(cp.specifiedByURL, " specifiedByURL") + opt(cp.isOneOf, " isOneOf") + "\n" +
		" fields(includeDeprecated: true) { name description args" + incl(cp.argsInclDeprecated) + " { ...IV } type { ...TR } isDeprecated deprecationReason }\n" +
		" inputFields" + incl(cp.inputFieldsInclDeprecated) + " { ...IV }\n" +
		" interfaces { ...TR }\n" +
		" enumValues(includeDeprecated: true) { name description isDeprecated deprecationReason }\n" +
		" possibleTypes { ...TR }\n ofType { name }\n}\n" +
		"fragment IV on __InputValue { name description type { ...TR } defaultValue" + opt(cp.inputDeprecation, " isDeprecated deprecationReason") + " }\n" +
		typeRefFragment()
}

func fullQuery(cp caps) string {
	incl := ""
	if cp.directiveArgsInclDeprecated {
		incl = "(includeDeprecated: true)"
	}
	d := ""
	if cp.schemaDescription {
		d = " description"
	}
	r := ""
	if cp.isRepeatable {
		r = " isRepeatable"
	}
	return "query Full {\n __schema {" + d + "\n  queryType { name kind }\n  mutationType { name kind }\n  subscriptionType { name kind }\n" +
		"  types { ...FullType }\n  directives { name description" + r + " locations args" + incl + " { ...IV } }\n }\n}\n" + fullTypeFragments(cp)
}

func typeQuery(cp caps) string {
	return "query OneType($a: String!, $b: String!, $c: String!) {\n a: __type(name: $a) { ...FullType }\n b: __type(name: $b) { ...FullType }\n c: __type(name: $c) { ...FullType }\n nope: __type(name: \"NoSuchType__\") { name }\n}\n" + fullTypeFragments(cp)
}

// stdCaps describes what the repo's own introspection.Query asks for.
var stdCaps = caps{schemaDescription: true, specifiedByURL: true, inputsMayHideDeprecated: true}
