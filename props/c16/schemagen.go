package main

// Seeded random schema grammar for C16. It emits SDL text only; the ground truth is always the
// *ast.Schema gqlparser builds from that text (never this generator's own model), so a bug here can
// only cost validity (rejection sampling) or diversity, never a verdict.

import (
	"fmt"
	"math/rand"
	"sort"
	"strings"
)

type tref struct {
	named   string
	elem    *tref
	nonNull bool
}

func (t *tref) String() string {
	s := t.named
	if t.elem != nil {
		s = "[" + t.elem.String() + "]"
	}
	if t.nonNull {
		s += "!"
	}
	return s
}

func (t *tref) base() string {
	for t.elem != nil {
		t = t.elem
	}
	return t.named
}

func (t *tref) clone() *tref {
	c := *t
	if t.elem != nil {
		c.elem = t.elem.clone()
	}
	return &c
}

type argM struct {
	name string
	typ  *tref
	text string // full rendered text incl. description / default / directives
}

type fieldM struct {
	name string
	typ  *tref
	args []*argM // structural copy needed by implementors
}

type typeM struct {
	kind    string // scalar enum input iface object union
	name    string
	ifaces  []string // transitive closure
	fields  []*fieldM
	members []string
	values  []string
	oneOf   bool
}

type dirM struct {
	name       string
	locs       []string
	args       []*argM
	repeatable bool
	ready      bool
}

type sgen struct {
	r       *rand.Rand
	hostile bool // allow string defaults containing characters strconv.Quote escapes in a non-GraphQL way
	types   []*typeM
	byName  map[string]*typeM
	dirs    []*dirM
	feat    map[string]int
	uniq    int
}

var allLocations = []string{"QUERY", "MUTATION", "SUBSCRIPTION", "FIELD", "FRAGMENT_DEFINITION", "FRAGMENT_SPREAD",
	"INLINE_FRAGMENT", "VARIABLE_DEFINITION", "SCHEMA", "SCALAR", "OBJECT", "FIELD_DEFINITION", "ARGUMENT_DEFINITION",
	"INTERFACE", "UNION", "ENUM", "ENUM_VALUE", "INPUT_OBJECT", "INPUT_FIELD_DEFINITION"}

var fieldWords = []string{"id", "name", "type", "input", "on", "query", "fragment", "value", "items", "node", "edges", "total",
	"_x", "a", "b", "null", "true", "false", "enum", "interface", "schema", "extend", "union", "scalar", "directive",
	"repeatable", "implements", "title", "createdAt", "owner", "x_y", "Z9", "mutation", "subscription", "kind", "ofType"}

var typeWords = []string{"User", "Post", "Node", "Edge", "Page", "Item", "Thing", "Account", "Order", "Shape", "Result",
	"Entity", "Media", "Tag", "_T", "Mutation", "Subscription", "Filter", "Where", "Sort", "Color", "Status", "Role", "Payload"}

var builtinScalars = []string{"Int", "Float", "String", "Boolean", "ID"}

func (g *sgen) p(n int) bool { return g.r.Intn(100) < n }

func (g *sgen) pick(l []string) string { return l[g.r.Intn(len(l))] }

func (g *sgen) f(k string) { g.feat[k]++ }

func (g *sgen) typeName(suffix string) string {
	for {
		n := g.pick(typeWords)
		if g.p(60) {
			n += suffix
		}
		if g.p(40) {
			g.uniq++
			n += fmt.Sprint(g.uniq)
		}
		if _, ok := g.byName[n]; !ok && n != "Query" {
			return n
		}
	}
}

func (g *sgen) newType(kind, name string) *typeM {
	t := &typeM{kind: kind, name: name}
	g.types = append(g.types, t)
	g.byName[name] = t
	return t
}

func (g *sgen) ofKind(kinds ...string) []string {
	var out []string
	for _, t := range g.types {
		for _, k := range kinds {
			if t.kind == k {
				out = append(out, t.name)
			}
		}
	}
	return out
}

// wrap puts a named type into a random list / non-null nesting (at most three list levels so the
// repo's standard query, which follows ofType seven levels deep, can still see the whole reference).
func (g *sgen) wrap(named string) *tref {
	t := &tref{named: named, nonNull: g.p(40)}
	depth := 0
	switch x := g.r.Intn(100); {
	case x < 55:
	case x < 85:
		depth = 1
	case x < 95:
		depth = 2
	default:
		depth = 3
	}
	for i := 0; i < depth; i++ {
		t = &tref{elem: t, nonNull: g.p(40)}
	}
	g.f(fmt.Sprintf("typeref_list_depth_%d", depth))
	return t
}

func (g *sgen) outType() *tref {
	var names []string
	switch x := g.r.Intn(100); {
	case x < 35:
		names = builtinScalars
	case x < 45:
		names = g.ofKind("scalar")
	case x < 55:
		names = g.ofKind("enum")
	case x < 75:
		names = g.ofKind("object")
	case x < 88:
		names = g.ofKind("iface")
	default:
		names = g.ofKind("union")
	}
	if len(names) == 0 {
		names = builtinScalars
	}
	return g.wrap(g.pick(names))
}

func (g *sgen) inType() *tref {
	var names []string
	switch x := g.r.Intn(100); {
	case x < 45:
		names = builtinScalars
	case x < 55:
		names = g.ofKind("scalar")
	case x < 75:
		names = g.ofKind("enum")
	default:
		names = g.ofKind("input")
	}
	if len(names) == 0 {
		names = builtinScalars
	}
	return g.wrap(g.pick(names))
}

// ---------------------------------------------------------------------------------------------
// text pieces: strings, descriptions, default values

var unicodeBits = []string{"é", "ß", "漢字", "😀", "Ω", "ё", "\u00a0", "→", "𝔘", "ñ"}
var plainBits = []string{"a", "the", "value", "of", "node", "id", "x", "DEPRECATED", "use", "other", "field", "0", "42", "#", ",", "{", "}", ":", "$", "@", "'", "`", "/"}

func (g *sgen) quoted(hostileOK bool) string {
	var sb strings.Builder
	sb.WriteByte('"')
	n := g.r.Intn(5)
	for i := 0; i < n; i++ {
		if i > 0 {
			sb.WriteByte(' ')
		}
		switch x := g.r.Intn(100); {
		case x < 50:
			sb.WriteString(g.pick(plainBits))
		case x < 62:
			sb.WriteString(g.pick(unicodeBits))
			g.f("string_unicode_literal")
		case x < 70:
			sb.WriteString(`\"`)
			g.f("string_escaped_quote")
		case x < 76:
			sb.WriteString(`\\`)
			g.f("string_escaped_backslash")
		case x < 82:
			sb.WriteString(`\n`)
			g.f("string_escaped_newline")
		case x < 86:
			sb.WriteString(`\t`)
		case x < 90:
			sb.WriteString(`\u00e9\u4e2d`)
			g.f("string_u_escape")
		case x < 93:
			sb.WriteString(`\/\b\f\r`)
		case x < 96:
			sb.WriteString(`\uD83D\uDE00`)
			g.f("string_surrogate_escape")
		default:
			if hostileOK && g.hostile {
				sb.WriteString(g.pick([]string{`\u0007`, `\u000b`, `\u0001`, `\u007f`, `\u001f`}))
				g.f("string_control_char_escape")
			} else {
				sb.WriteString("q")
			}
		}
	}
	sb.WriteByte('"')
	return sb.String()
}

func (g *sgen) block() string {
	var sb strings.Builder
	sb.WriteString(`"""`)
	lines := 1 + g.r.Intn(4)
	if lines > 1 {
		g.f("blockstring_multiline")
		sb.WriteString("\n")
	}
	for l := 0; l < lines; l++ {
		if l > 0 {
			sb.WriteString("\n")
		}
		sb.WriteString(strings.Repeat(" ", 2+g.r.Intn(3)))
		n := 1 + g.r.Intn(4)
		for i := 0; i < n; i++ {
			if i > 0 {
				sb.WriteByte(' ')
			}
			switch x := g.r.Intn(100); {
			case x < 55:
				sb.WriteString(g.pick(plainBits))
			case x < 72:
				sb.WriteString(g.pick(unicodeBits))
				g.f("string_unicode_literal")
			case x < 80:
				sb.WriteString(`say "hi"`)
			case x < 86:
				sb.WriteString(`back\slash \n`)
			case x < 92:
				sb.WriteString(`\"""`)
				g.f("blockstring_escaped_triple_quote")
			default:
				sb.WriteString("tab\there")
			}
		}
	}
	if lines > 1 {
		sb.WriteString("\n")
	} else {
		sb.WriteString(" ") // keep a trailing quote of the content away from the terminator
	}
	sb.WriteString(`"""`)
	return sb.String()
}

// desc returns "" or a description followed by sep.
func (g *sgen) desc(pos, sep string) string {
	switch x := g.r.Intn(100); {
	case x < 45:
		return ""
	case x < 75:
		g.f("desc_quoted@" + pos)
		return g.quoted(false) + sep
	default:
		g.f("desc_block@" + pos)
		return g.block() + sep
	}
}

func (g *sgen) intLit() string {
	return g.pick([]string{"0", "1", "-1", "42", "2147483647", "-2147483648", "7", "-0", "100000"})
}

func (g *sgen) floatLit() string {
	return g.pick([]string{"1.5", "-0.0", "1e10", "1E-5", "3", "0.1", "-2.5e+3", "123456789.125", "6.02E23"})
}

// value renders a literal that is valid for t. top=true allows the null literal for nullable types.
func (g *sgen) value(t *tref, depth int) string {
	if !t.nonNull && g.p(12) {
		g.f("default_null")
		return "null"
	}
	if t.elem != nil {
		if g.p(12) && t.elem.elem == nil { // single value coerced to a list
			g.f("default_list_coerced_single")
			inner := *t.elem
			inner.nonNull = true
			return g.value(&inner, depth+1)
		}
		n := g.r.Intn(4)
		if depth > 2 {
			n = g.r.Intn(2)
		}
		g.f("default_list")
		if n == 0 {
			g.f("default_list_empty")
		}
		parts := make([]string, n)
		for i := range parts {
			parts[i] = g.value(t.elem, depth+1)
		}
		return "[" + strings.Join(parts, g.pick([]string{", ", ",", " "})) + "]"
	}
	switch t.named {
	case "Int":
		g.f("default_int")
		return g.intLit()
	case "Float":
		g.f("default_float")
		return g.floatLit()
	case "String":
		if g.p(25) {
			g.f("default_blockstring")
			return g.block()
		}
		g.f("default_string")
		return g.quoted(true)
	case "Boolean":
		g.f("default_boolean")
		return g.pick([]string{"true", "false"})
	case "ID":
		g.f("default_id")
		if g.p(50) {
			return g.intLit()
		}
		return g.quoted(false)
	}
	tm := g.byName[t.named]
	switch tm.kind {
	case "enum":
		g.f("default_enum")
		return g.pick(tm.values)
	case "scalar":
		g.f("default_custom_scalar")
		switch g.r.Intn(6) {
		case 0:
			return g.intLit()
		case 1:
			return g.quoted(true)
		case 2:
			return "{k: " + g.intLit() + ", nested: {s: " + g.quoted(false) + ", l: [1, 2.5, true, null, ENUMISH]}}"
		case 3:
			return "[" + g.floatLit() + ", " + g.quoted(false) + "]"
		case 4:
			return "true"
		default:
			return g.floatLit()
		}
	case "input":
		g.f("default_object")
		if depth > 3 {
			// only required fields, and those only shallowly
			depth = 9
		}
		var parts []string
		fs := append([]*fieldM(nil), tm.fields...)
		g.r.Shuffle(len(fs), func(i, j int) { fs[i], fs[j] = fs[j], fs[i] })
		if tm.oneOf {
			f := fs[0]
			nn := *f.typ
			nn.nonNull = true
			if g.inputDepthOK(&nn, depth) {
				return "{" + f.name + ": " + g.value(&nn, depth+1) + "}"
			}
			return "{}"
		}
		for _, f := range fs {
			required := f.typ.nonNull
			if !required && (depth >= 9 || !g.p(50)) {
				continue
			}
			if !g.inputDepthOK(f.typ, depth) {
				if required {
					return "{}" // gqlparser does not validate defaults; keep it finite
				}
				continue
			}
			parts = append(parts, f.name+": "+g.value(f.typ, depth+1))
		}
		if len(parts) == 0 {
			g.f("default_object_empty")
		}
		return "{" + strings.Join(parts, g.pick([]string{", ", ",", " "})) + "}"
	}
	return "null"
}

func (g *sgen) inputDepthOK(t *tref, depth int) bool {
	if depth < 3 {
		return true
	}
	tm := g.byName[t.base()]
	return tm == nil || tm.kind != "input"
}

func (g *sgen) deprecated(pos string) string {
	switch x := g.r.Intn(100); {
	case x < 45:
		g.f("deprecated_no_reason@" + pos)
		return " @deprecated"
	case x < 85:
		g.f("deprecated_reason@" + pos)
		return " @deprecated(reason: " + g.quoted(false) + ")"
	default:
		g.f("deprecated_block_reason@" + pos)
		return " @deprecated(reason: " + g.block() + ")"
	}
}

// applied renders applications of custom directives valid at loc (never @deprecated).
func (g *sgen) applied(loc string, self string) string {
	if !g.p(18) {
		return ""
	}
	var out string
	for _, d := range g.dirs {
		if d.name == self || !d.ready || !g.p(50) {
			continue
		}
		ok := false
		for _, l := range d.locs {
			if l == loc {
				ok = true
			}
		}
		if !ok {
			continue
		}
		n := 1
		if d.repeatable && g.p(40) {
			n = 2
			g.f("applied_repeatable_twice")
		}
		for i := 0; i < n; i++ {
			var as []string
			for _, a := range d.args {
				if a.typ.nonNull || g.p(40) {
					nn := *a.typ
					nn.nonNull = true
					as = append(as, a.name+": "+g.value(&nn, 2))
				}
			}
			out += " @" + d.name
			if len(as) > 0 {
				out += "(" + strings.Join(as, ", ") + ")"
			}
			g.f("applied_custom_directive@" + loc)
		}
	}
	return out
}

// inputValue renders an argument / input field. pos is fieldArg | inputField | directiveArg.
func (g *sgen) inputValue(name string, t *tref, pos, self string, forceOptional bool, indent string) *argM {
	a := &argM{name: name, typ: t}
	var sb strings.Builder
	sb.WriteString(g.desc(pos, "\n"+indent))
	sb.WriteString(name + ": " + t.String())
	hasDefault := false
	if (forceOptional && t.nonNull) || g.p(45) {
		sb.WriteString(" = " + g.value(t, 0))
		hasDefault = true
		g.f("default@" + pos)
	}
	if (!t.nonNull || hasDefault) && g.p(30) {
		sb.WriteString(g.deprecated(pos))
	}
	loc := "ARGUMENT_DEFINITION"
	if pos == "inputField" {
		loc = "INPUT_FIELD_DEFINITION"
	}
	sb.WriteString(g.applied(loc, self))
	a.text = sb.String()
	return a
}

func (g *sgen) argName(used map[string]bool) string {
	for {
		n := g.pick(fieldWords)
		if g.p(30) {
			g.uniq++
			n += fmt.Sprint(g.uniq)
		}
		if !used[n] {
			used[n] = true
			return n
		}
	}
}

func (g *sgen) renderArgs(args []*argM, indent string) string {
	if len(args) == 0 {
		return ""
	}
	multiline := false
	for _, a := range args {
		if strings.Contains(a.text, "\n") {
			multiline = true
		}
	}
	if !multiline && g.p(60) {
		parts := make([]string, len(args))
		for i, a := range args {
			parts[i] = a.text
		}
		return "(" + strings.Join(parts, ", ") + ")"
	}
	var sb strings.Builder
	sb.WriteString("(\n")
	for _, a := range args {
		sb.WriteString(indent + "  " + a.text + "\n")
	}
	sb.WriteString(indent + ")")
	return sb.String()
}

// outField renders one object / interface field. inherit, when non-nil, is the interface field it
// must stay compatible with (same argument names and types; covariant result type).
func (g *sgen) outField(owner *typeM, name string, inherit *fieldM, narrow bool) (string, *fieldM) {
	fm := &fieldM{name: name}
	used := map[string]bool{}
	if inherit != nil {
		fm.typ = inherit.typ.clone()
		if narrow {
			g.narrow(fm.typ)
		}
		for _, ia := range inherit.args {
			used[ia.name] = true
			fm.args = append(fm.args, g.inputValue(ia.name, ia.typ.clone(), "fieldArg", "", false, "    "))
		}
		if narrow && g.p(25) {
			fm.args = append(fm.args, g.inputValue(g.argName(used), g.inType(), "fieldArg", "", true, "    "))
		}
	} else {
		fm.typ = g.outType()
		n := 0
		if g.p(55) {
			n = 1 + g.r.Intn(3)
		}
		for i := 0; i < n; i++ {
			fm.args = append(fm.args, g.inputValue(g.argName(used), g.inType(), "fieldArg", "", false, "    "))
		}
	}
	var sb strings.Builder
	sb.WriteString("  " + g.desc("field", "\n  "))
	sb.WriteString(name + g.renderArgs(fm.args, "  ") + ": " + fm.typ.String())
	if g.p(28) {
		sb.WriteString(g.deprecated("field"))
	}
	sb.WriteString(g.applied("FIELD_DEFINITION", ""))
	sb.WriteString("\n")
	return sb.String(), fm
}

// narrow makes a result type more specific in ways interface implementation allows.
func (g *sgen) narrow(t *tref) {
	for x := t; x != nil; x = x.elem {
		if !x.nonNull && g.p(25) {
			x.nonNull = true
			g.f("covariant_nonnull_strengthened")
		}
		if x.elem == nil {
			tm := g.byName[x.named]
			if tm == nil || !g.p(50) {
				return
			}
			switch tm.kind {
			case "union":
				x.named = g.pick(tm.members)
				g.f("covariant_union_member")
			case "iface":
				var impl []string
				for _, o := range g.types {
					if o.kind == "object" || o.kind == "iface" {
						for _, i := range o.ifaces {
							if i == tm.name {
								impl = append(impl, o.name)
							}
						}
					}
				}
				if len(impl) > 0 {
					x.named = g.pick(impl)
					g.f("covariant_interface_implementor")
				}
			}
		}
	}
}

func (g *sgen) fieldName(used map[string]bool, unique bool) string {
	for {
		n := g.pick(fieldWords)
		if unique || g.p(25) {
			g.uniq++
			n += fmt.Sprint(g.uniq)
		}
		if !used[n] {
			used[n] = true
			return n
		}
	}
}

// ---------------------------------------------------------------------------------------------

// GenSchema returns SDL text and the generator-side feature tallies.
func GenSchema(seed int64, hostile bool) (string, map[string]int) {
	g := &sgen{r: rand.New(rand.NewSource(seed)), hostile: hostile, byName: map[string]*typeM{}, feat: map[string]int{}}
	big := g.p(15)
	cnt := func(lo, hi int) int {
		if big {
			hi *= 2
		}
		return lo + g.r.Intn(hi-lo+1)
	}

	// 1. names of every type first, so bodies can refer forwards
	for i, n := 0, cnt(0, 3); i < n; i++ {
		g.newType("scalar", g.typeName("Scalar"))
	}
	for i, n := 0, cnt(1, 3); i < n; i++ {
		t := g.newType("enum", g.typeName("Enum"))
		used := map[string]bool{"true": true, "false": true, "null": true}
		for j, m := 0, 1+g.r.Intn(6); j < m; j++ {
			t.values = append(t.values, g.pick([]string{"A", "B", "RED", "green", "Blue_1", "_X", "ACTIVE", "on", "type", "input"})+fmt.Sprint(j))
		}
		if g.p(20) {
			n := g.pick([]string{"on", "type", "query", "fragment", "enum"})
			if !used[n] {
				t.values = append(t.values, n)
			}
		}
	}
	for i, n := 0, cnt(0, 4); i < n; i++ {
		t := g.newType("input", g.typeName("Input"))
		t.oneOf = g.p(20)
	}
	nIface := cnt(0, 4)
	for i := 0; i < nIface; i++ {
		g.newType("iface", g.typeName("Iface"))
	}
	queryName := "Query"
	explicitSchema := g.p(35)
	if explicitSchema && g.p(60) {
		queryName = g.typeName("Root")
	}
	q := g.newType("object", queryName)
	var mut, sub *typeM
	if g.p(45) {
		n := "Mutation"
		if explicitSchema && g.p(50) || g.byName[n] != nil {
			n = g.typeName("Mut")
		}
		mut = g.newType("object", n)
	}
	if g.p(30) {
		n := "Subscription"
		if explicitSchema && g.p(50) || g.byName[n] != nil {
			n = g.typeName("Sub")
		}
		sub = g.newType("object", n)
	}
	if !explicitSchema {
		// without a schema block root types are inferred by name: avoid accidental roots
		for _, t := range g.types {
			if (t.name == "Mutation" && t != mut) || (t.name == "Subscription" && t != sub) {
				if t.kind != "object" {
					explicitSchema = true
				}
			}
		}
	}
	for i, n := 0, cnt(1, 5); i < n; i++ {
		g.newType("object", g.typeName("Obj"))
	}
	objs := g.ofKind("object")
	for i, n := 0, cnt(0, 3); i < n; i++ {
		t := g.newType("union", g.typeName("Union"))
		perm := g.r.Perm(len(objs))
		for _, k := range perm[:1+g.r.Intn(min(3, len(objs)))] {
			t.members = append(t.members, objs[k])
		}
	}
	_ = q

	// 2. directive definitions (names + signatures first; bodies of args rendered later)
	var dirText []string
	for i, n := 0, cnt(0, 3); i < n; i++ {
		g.uniq++
		d := &dirM{name: g.pick([]string{"auth", "tag", "meta", "deprecatedToo", "cost", "key", "_d", "on", "type"}) + fmt.Sprint(g.uniq), repeatable: g.p(35)}
		perm := g.r.Perm(len(allLocations))
		for _, k := range perm[:1+g.r.Intn(6)] {
			d.locs = append(d.locs, allLocations[k])
		}
		g.dirs = append(g.dirs, d)
	}

	// 3. interface hierarchy (an interface may implement earlier interfaces; closure is explicit)
	ifaces := g.ofKind("iface")
	for idx, name := range ifaces {
		t := g.byName[name]
		set := map[string]bool{}
		if idx > 0 && g.p(60) {
			perm := g.r.Perm(idx)
			for _, k := range perm[:1+g.r.Intn(min(2, idx))] {
				p := g.byName[ifaces[k]]
				set[p.name] = true
				for _, a := range p.ifaces {
					set[a] = true
				}
			}
		}
		for n := range set {
			t.ifaces = append(t.ifaces, n)
		}
		sort.Strings(t.ifaces)
		g.r.Shuffle(len(t.ifaces), func(i, j int) { t.ifaces[i], t.ifaces[j] = t.ifaces[j], t.ifaces[i] })
	}
	for _, name := range g.ofKind("object") {
		t := g.byName[name]
		if len(ifaces) == 0 || !g.p(55) {
			continue
		}
		set := map[string]bool{}
		perm := g.r.Perm(len(ifaces))
		for _, k := range perm[:1+g.r.Intn(min(2, len(ifaces)))] {
			p := g.byName[ifaces[k]]
			set[p.name] = true
			for _, a := range p.ifaces {
				set[a] = true
			}
		}
		for n := range set {
			t.ifaces = append(t.ifaces, n)
		}
		sort.Strings(t.ifaces)
		g.r.Shuffle(len(t.ifaces), func(i, j int) { t.ifaces[i], t.ifaces[j] = t.ifaces[j], t.ifaces[i] })
	}

	// 4. input object field signatures (needed by default values), then their text
	for _, name := range g.ofKind("input") {
		t := g.byName[name]
		used := map[string]bool{}
		for j, m := 0, 1+g.r.Intn(5); j < m; j++ {
			ft := g.inType()
			if t.oneOf {
				ft.nonNull = false
			}
			// a non-null reference to an input object could make an unsatisfiable cycle: keep input
			// object references nullable at the top level
			if bt := g.byName[ft.base()]; bt != nil && bt.kind == "input" && ft.elem == nil {
				ft.nonNull = false
			}
			t.fields = append(t.fields, &fieldM{name: g.fieldName(used, false), typ: ft})
		}
	}

	var out []string
	// directive definition text (after input signatures exist, for defaults)
	for _, d := range g.dirs {
		used := map[string]bool{}
		n := 0
		if g.p(65) {
			n = 1 + g.r.Intn(3)
		}
		for i := 0; i < n; i++ {
			d.args = append(d.args, g.inputValue(g.argName(used), g.inType(), "directiveArg", d.name, false, "  "))
		}
		var sb strings.Builder
		sb.WriteString(g.desc("directive", "\n"))
		sb.WriteString("directive @" + d.name + g.renderArgs(d.args, ""))
		if d.repeatable {
			sb.WriteString(" repeatable")
			g.f("directive_repeatable")
		}
		sb.WriteString(" on ")
		if g.p(30) {
			sb.WriteString("| ")
		}
		sb.WriteString(strings.Join(d.locs, " | "))
		dirText = append(dirText, sb.String())
		d.ready = true
		g.f("directive_definitions")
	}
	if g.p(6) {
		dirText = append(dirText, `directive @deprecated(reason: String = "No longer supported") on FIELD_DEFINITION | ARGUMENT_DEFINITION | INPUT_FIELD_DEFINITION | ENUM_VALUE`)
		g.f("builtin_directive_redeclared")
	}

	// scalars
	for _, name := range g.ofKind("scalar") {
		var sb strings.Builder
		sb.WriteString(g.desc("scalar", "\n"))
		sb.WriteString("scalar " + name)
		late := false
		if g.p(50) {
			if g.p(25) {
				late = true
			} else {
				sb.WriteString(" @specifiedBy(url: " + g.pick([]string{`"https://example.com/spec"`, `"urn:x:\u00e9"`, `"""https://block.example/"""`}) + ")")
			}
			g.f("scalar_specifiedBy")
		}
		sb.WriteString(g.applied("SCALAR", ""))
		out = append(out, sb.String())
		if late {
			out = append(out, "extend scalar "+name+` @specifiedBy(url: "https://ext.example/s")`)
			g.f("extend_scalar")
		}
	}
	// enums
	for _, name := range g.ofKind("enum") {
		t := g.byName[name]
		var sb, ext strings.Builder
		sb.WriteString(g.desc("enum", "\n"))
		sb.WriteString("enum " + name + g.applied("ENUM", "") + " {\n")
		split := len(t.values)
		if len(t.values) > 1 && g.p(20) {
			split = 1 + g.r.Intn(len(t.values)-1)
			g.f("extend_enum")
		}
		allDep := g.p(12) // an enum whose values are ALL deprecated: the default (non-deprecated) view of it is empty
		if allDep {
			g.f("enum_all_values_deprecated")
		}
		for i, v := range t.values {
			w := &sb
			if i >= split {
				w = &ext
			}
			w.WriteString("  " + g.desc("enumValue", "\n  ") + v)
			if allDep || g.p(30) {
				w.WriteString(g.deprecated("enumValue"))
			}
			w.WriteString(g.applied("ENUM_VALUE", "") + "\n")
		}
		sb.WriteString("}")
		out = append(out, sb.String())
		if ext.Len() > 0 {
			out = append(out, "extend enum "+name+" {\n"+ext.String()+"}")
		}
	}
	// inputs
	for _, name := range g.ofKind("input") {
		t := g.byName[name]
		var sb, ext strings.Builder
		sb.WriteString(g.desc("input", "\n"))
		sb.WriteString("input " + name)
		if t.oneOf {
			sb.WriteString(" @oneOf")
			g.f("input_oneOf")
		}
		sb.WriteString(g.applied("INPUT_OBJECT", "") + " {\n")
		split := len(t.fields)
		if len(t.fields) > 1 && g.p(15) {
			split = 1 + g.r.Intn(len(t.fields)-1)
			g.f("extend_input")
		}
		for i, f := range t.fields {
			w := &sb
			if i >= split {
				w = &ext
			}
			var a *argM
			if t.oneOf {
				// oneOf fields: nullable, no default
				a = &argM{name: f.name, typ: f.typ}
				a.text = g.desc("inputField", "\n  ") + f.name + ": " + f.typ.String()
				if g.p(30) {
					a.text += g.deprecated("inputField")
				}
			} else {
				a = g.inputValue(f.name, f.typ, "inputField", "", false, "  ")
			}
			w.WriteString("  " + a.text + "\n")
		}
		sb.WriteString("}")
		out = append(out, sb.String())
		if ext.Len() > 0 {
			out = append(out, "extend input "+name+" {\n"+ext.String()+"}")
		}
	}
	// interfaces, in hierarchy order
	for _, name := range ifaces {
		t := g.byName[name]
		var sb strings.Builder
		sb.WriteString(g.desc("interface", "\n"))
		sb.WriteString("interface " + name)
		if len(t.ifaces) > 0 {
			sb.WriteString(" implements " + g.joinIfaces(t.ifaces))
			g.f("iface_implements_iface_edges")
		}
		sb.WriteString(g.applied("INTERFACE", "") + " {\n")
		used := map[string]bool{}
		for _, pn := range t.ifaces {
			for _, pf := range g.byName[pn].fields {
				if used[pf.name] {
					continue
				}
				used[pf.name] = true
				txt, fm := g.outField(t, pf.name, pf, false)
				sb.WriteString(txt)
				t.fields = append(t.fields, fm)
			}
		}
		n := 1 + g.r.Intn(3)
		if len(t.fields) > 0 {
			n = g.r.Intn(3)
		}
		for i := 0; i < n; i++ {
			txt, fm := g.outField(t, g.fieldName(used, true), nil, false)
			sb.WriteString(txt)
			t.fields = append(t.fields, fm)
		}
		sb.WriteString("}")
		out = append(out, sb.String())
	}
	// objects
	for _, name := range g.ofKind("object") {
		t := g.byName[name]
		var sb, ext strings.Builder
		sb.WriteString(g.desc("object", "\n"))
		sb.WriteString("type " + name)
		if len(t.ifaces) > 0 {
			sb.WriteString(" implements " + g.joinIfaces(t.ifaces))
			g.f("object_implements_iface_edges")
		}
		sb.WriteString(g.applied("OBJECT", "") + " {\n")
		used := map[string]bool{}
		for _, pn := range t.ifaces {
			for _, pf := range g.byName[pn].fields {
				if used[pf.name] {
					continue
				}
				used[pf.name] = true
				txt, fm := g.outField(t, pf.name, pf, true)
				sb.WriteString(txt)
				t.fields = append(t.fields, fm)
			}
		}
		n := 1 + g.r.Intn(5)
		extFrom := 99
		if n > 1 && g.p(15) {
			extFrom = 1 + g.r.Intn(n-1)
			g.f("extend_type")
		}
		for i := 0; i < n; i++ {
			txt, fm := g.outField(t, g.fieldName(used, false), nil, false)
			if i >= extFrom {
				ext.WriteString(txt)
			} else {
				sb.WriteString(txt)
			}
			t.fields = append(t.fields, fm)
		}
		sb.WriteString("}")
		out = append(out, sb.String())
		if ext.Len() > 0 {
			out = append(out, "extend type "+name+" {\n"+ext.String()+"}")
		}
	}
	// unions
	for _, name := range g.ofKind("union") {
		t := g.byName[name]
		var sb strings.Builder
		sb.WriteString(g.desc("union", "\n"))
		ms := t.members
		var late []string
		if len(ms) > 1 && g.p(25) {
			late, ms = ms[len(ms)-1:], ms[:len(ms)-1]
			g.f("extend_union")
		}
		sb.WriteString("union " + name + g.applied("UNION", "") + " = ")
		if g.p(30) {
			sb.WriteString("| ")
		}
		sb.WriteString(strings.Join(ms, " | "))
		out = append(out, sb.String())
		if late != nil {
			out = append(out, "extend union "+name+" = "+late[0])
		}
	}
	// schema block
	if explicitSchema {
		var sb strings.Builder
		sb.WriteString(g.desc("schema", "\n"))
		sb.WriteString("schema" + g.applied("SCHEMA", "") + " {\n  query: " + queryName + "\n")
		lateMut := false
		if mut != nil {
			if g.p(25) {
				lateMut = true
			} else {
				sb.WriteString("  mutation: " + mut.name + "\n")
			}
		}
		if sub != nil {
			sb.WriteString("  subscription: " + sub.name + "\n")
		}
		sb.WriteString("}")
		out = append(out, sb.String())
		if lateMut {
			out = append(out, "extend schema {\n  mutation: "+mut.name+"\n}")
			g.f("extend_schema")
		}
		g.f("explicit_schema_block")
	}
	g.r.Shuffle(len(out), func(i, j int) { out[i], out[j] = out[j], out[i] })
	all := append(out, dirText...)
	if g.p(50) {
		all = append(dirText, out...)
	}
	return strings.Join(all, "\n\n") + "\n", g.feat
}

func (g *sgen) joinIfaces(l []string) string {
	if g.p(30) {
		return "& " + strings.Join(l, " & ")
	}
	return strings.Join(l, " & ")
}
