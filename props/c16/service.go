package main

// Federation `_service { sdl }` with introspection disabled: the property names the federation
// service field explicitly. Histories alternate allowed and disallowed requests on one server and
// across two server instances of one process: a disallowed request must never obtain the SDL,
// whatever was served before it.

import (
	"context"
	"fmt"

	"github.com/99designs/gqlgen/graphql"
	"github.com/99designs/gqlgen/graphql/executor"
	"github.com/vektah/gqlparser/v2/gqlerror"

	"verif/internal/ev"
	"verif/internal/sjson"
	fed2 "verif/work/farm/cur/fed2"
)

type allowKey struct{}

type introspectionSwitch struct{}

func (introspectionSwitch) ExtensionName() string                          { return "verif-introspection-switch" }
func (introspectionSwitch) Validate(schema graphql.ExecutableSchema) error { return nil }
func (introspectionSwitch) MutateOperationContext(ctx context.Context, opCtx *graphql.OperationContext) *gqlerror.Error {
	allowed, _ := ctx.Value(allowKey{}).(bool)
	opCtx.DisableIntrospection = !allowed
	return nil
}

var serviceQueries = []struct {
	q    string
	vars map[string]any
	keys []string
}{
	{`{ _service { sdl } }`, nil, []string{"_service"}},
	{`query S { s: _service { text: sdl } ping }`, nil, []string{"s"}},
	{`query S($v: Boolean!) { ...F @include(if: $v) ping } fragment F on Query { svc: _service { sdl } }`, map[string]any{"v": true}, []string{"svc"}},
	{`query A { ping } query B { ... on Query { x: _service { ... on _Service { sdl } } } }`, nil, []string{"x"}},
}

func serviceChecks(rep *ev.Reporter) int64 {
	var evals int64
	newExec := func() *executor.Executor {
		ex := executor.New(fed2.NewExecutableSchema(fed2.Config{Resolvers: &fed2.Stub{}}))
		ex.Use(introspectionSwitch{})
		// the stub's ordinary resolvers are unset (nil): keep their recovered panics quiet
		ex.SetRecoverFunc(func(ctx context.Context, r any) error { return fmt.Errorf("stub resolver not bound") })
		return ex
	}
	run := func(ex *executor.Executor, qi int, allowed bool) (*sjson.Value, int, string) {
		c := serviceQueries[qi]
		ctx := context.WithValue(context.Background(), allowKey{}, allowed)
		ctx = graphql.StartOperationTrace(ctx)
		opName := ""
		if qi == 3 {
			opName = "B"
		}
		var vars map[string]any
		if c.vars != nil {
			vars = map[string]any{}
			for k, v := range c.vars {
				vars[k] = v
			}
		}
		oc, errs := ex.CreateOperationContext(ctx, &graphql.RawParams{Query: c.q, OperationName: opName, Variables: vars})
		if len(errs) > 0 {
			return nil, len(errs), errs[0].Message
		}
		h, rctx := ex.DispatchOperation(ctx, oc)
		resp := h(rctx)
		v, err := sjson.Parse(resp.Data)
		if err != nil {
			return nil, len(resp.Errors), "data not JSON: " + string(resp.Data)
		}
		return v, len(resp.Errors), ""
	}
	histories := [][]bool{{false}, {true, false}, {false, true, false}, {true, true, false, false}, {true, false, true, false}}
	for hi, hist := range histories {
		for qa := range serviceQueries {
			for qb := range serviceQueries {
				ex := newExec()
				other := newExec() // a second server instance in the same process
				for step, allowed := range hist {
					qi := qa
					if step%2 == 1 {
						qi = qb
					}
					target := ex
					if step == len(hist)-1 && hi%2 == 0 {
						target = other
					}
					data, nerr, why := run(target, qi, allowed)
					evals++
					cid := map[string]any{"history_allowed": hist, "step": step, "query": serviceQueries[qi].q, "second_server_instance": target == other}
					if why != "" {
						rep.Violate("service-request-failed", map[string]any{"case": cid, "why": why})
						continue
					}
					for _, k := range serviceQueries[qi].keys {
						v := data.Get(k)
						if allowed {
							if v == nil || v.Kind != sjson.Object {
								rep.Violate("service-sdl-missing-when-allowed", map[string]any{"case": cid, "why": "allowed _service request did not return the service object", "data": data.Render()})
							}
							rep.Count("service_allowed_requests", 1)
							continue
						}
						rep.Count("service_disallowed_requests", 1)
						if step > 0 {
							rep.Count("service_disallowed_after_allowed", 1)
						}
						if v != nil && v.Kind != sjson.Null {
							rep.Violate("disabled-introspection-leak:_service", map[string]any{"case": cid, "why": "introspection is disabled for this request, yet _service returned data", "data": data.Render()})
						} else if nerr == 0 {
							rep.Violate("disabled-introspection-no-error:_service", map[string]any{"case": cid, "why": "_service is null without an error", "data": data.Render()})
						}
					}
					rep.Distinct("disabled_documents", fmt.Sprintf("service|%d|%d|%d|%d", hi, step, qa, qb))
				}
			}
		}
	}
	return evals
}
