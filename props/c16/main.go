// C16: introspection mirrors the schema exactly, and reveals nothing when disabled.
//
// Enabled mode: thousands of seeded random schemas (SDL text) are loaded by gqlparser and passed as
// Config.Schema to executable schemas generated from /repo's current templates (the generated
// introspection glue reads ec.Schema()); a superset introspection query, the repo's own standard
// introspection.Query and __type(name:) lookups run through graphql/executor with the Introspection
// extension; the JSON is parsed strictly, rebuilt into a type graph and compared element by element
// with a second, independently loaded *ast.Schema.
// Disabled mode (the executor's / handler.New's default): seeded query shapes hiding __schema/__type
// behind aliases, fragments, @include/@skip, variables, several operations, @defer; every meta
// field must be null with an error, __typename and ordinary fields keep working.
package main

import (
	"bytes"
	"context"
	"crypto/sha256"
	"encoding/hex"
	"encoding/json"
	"fmt"
	"net/http"
	"net/http/httptest"
	"os"
	"path/filepath"
	"runtime"
	"sort"
	"strings"
	"sync"
	"sync/atomic"
	"time"

	"github.com/99designs/gqlgen/graphql"
	"github.com/99designs/gqlgen/graphql/executor"
	"github.com/99designs/gqlgen/graphql/handler"
	"github.com/99designs/gqlgen/graphql/handler/extension"
	"github.com/99designs/gqlgen/graphql/handler/transport"
	"github.com/99designs/gqlgen/graphql/introspection"
	"github.com/vektah/gqlparser/v2"
	"github.com/vektah/gqlparser/v2/ast"
	"github.com/vektah/gqlparser/v2/parser"
	"github.com/vektah/gqlparser/v2/validator"

	legacy "github.com/99designs/gqlgen/handler"
	"verif/internal/ev"
	"verif/internal/sjson"
	core_c0 "verif/work/farm/cur/core_c0"
	core_c1 "verif/work/farm/cur/core_c1"
	core_c2 "verif/work/farm/cur/core_c2"
	core_c3 "verif/work/farm/cur/core_c3"
	"verif/work/farm/cur/tx"
)

// variant is one generated package (one generator configuration of the introspection glue).
type variant struct {
	name    string
	note    string
	mk      func(s *ast.Schema) graphql.ExecutableSchema
	normals []normalField
}

func str(s string) *string { return &s }

func variants() []variant {
	txStub := func() *tx.Stub {
		st := &tx.Stub{}
		st.QueryResolver.Q1 = func(ctx context.Context) (string, error) { return "r1", nil }
		st.QueryResolver.Q2 = func(ctx context.Context) (string, error) { return "r2", nil }
		st.QueryResolver.Echo = func(ctx context.Context, s *string) (*string, error) { return s, nil }
		return st
	}
	return []variant{
		{"tx", "default configuration, single file", func(s *ast.Schema) graphql.ExecutableSchema {
			return tx.NewExecutableSchema(tx.Config{Schema: s, Resolvers: txStub()})
		}, []normalField{{"q1", "q1", "r1"}, {"q2", "q2", "r2"}, {`echo(s: "e")`, "echo", "e"}}},
		{"core_c0", "single file, worker_limit 0", func(s *ast.Schema) graphql.ExecutableSchema {
			return core_c0.NewExecutableSchema(core_c0.Config{Schema: s, Resolvers: &core_c0.Stub{}})
		}, nil},
		{"core_c1", "follow-schema layout, function syntax, worker_limit 2", func(s *ast.Schema) graphql.ExecutableSchema {
			return core_c1.NewExecutableSchema(core_c1.Config{Schema: s, Resolvers: &core_c1.Stub{}})
		}, nil},
		{"core_c2", "single file, function syntax, worker_limit 1", func(s *ast.Schema) graphql.ExecutableSchema {
			return core_c2.NewExecutableSchema(core_c2.Config{Schema: s, Resolvers: &core_c2.Stub{}})
		}, nil},
		{"core_c3", "follow-schema layout, worker_limit 8", func(s *ast.Schema) graphql.ExecutableSchema {
			return core_c3.NewExecutableSchema(core_c3.Config{Schema: s, Resolvers: &core_c3.Stub{}})
		}, nil},
	}
}

// ---------------------------------------------------------------------------------------------
// running operations through graphql/executor

type payload struct {
	raw    []byte
	data   *sjson.Value
	perr   error
	errors []string
}

type result struct {
	reqErrs  []string
	payloads []*payload
	timedOut bool
	recovers int64
}

type runner struct {
	ex       *executor.Executor
	recovers atomic.Int64
}

func newRunner(es graphql.ExecutableSchema, introspectionOn bool) *runner {
	r := &runner{ex: executor.New(es)}
	r.ex.SetRecoverFunc(func(ctx context.Context, p any) error {
		r.recovers.Add(1)
		return fmt.Errorf("PANIC: %v", p)
	})
	if introspectionOn {
		r.ex.Use(extension.Introspection{})
	}
	return r
}

func (r *runner) do(query, opName string, vars map[string]any) *result {
	out := &result{}
	ctx := graphql.StartOperationTrace(context.Background())
	params := &graphql.RawParams{Query: query, OperationName: opName, Variables: vars}
	opCtx, errs := r.ex.CreateOperationContext(ctx, params)
	if len(errs) > 0 {
		for _, e := range errs {
			out.reqErrs = append(out.reqErrs, e.Message)
		}
		return out
	}
	done := make(chan struct{})
	go func() {
		defer close(done)
		responses, rctx := r.ex.DispatchOperation(ctx, opCtx)
		for i := 0; i < 1000; i++ {
			resp := responses(rctx)
			if resp == nil {
				return
			}
			p := &payload{raw: append([]byte{}, resp.Data...)}
			for _, e := range resp.Errors {
				p.errors = append(p.errors, e.Path.String()+": "+e.Message)
			}
			if len(resp.Data) > 0 {
				p.data, p.perr = sjson.Parse(resp.Data)
			}
			out.payloads = append(out.payloads, p)
		}
	}()
	select {
	case <-done:
	case <-time.After(180 * time.Second):
		out.timedOut = true
	}
	out.recovers = r.recovers.Load()
	return out
}

// ---------------------------------------------------------------------------------------------

type shared struct {
	rep   *ev.Reporter
	cp    caps
	fullQ string
	typeQ string
	mu    sync.Mutex
	seen  tally
	evals int64
}

func (sh *shared) merge(t tally) {
	sh.mu.Lock()
	for k, v := range t {
		sh.seen[k] += v
	}
	sh.mu.Unlock()
}

func loadSDL(name, sdl string) (*ast.Schema, error) {
	s, err := gqlparser.LoadSchema(&ast.Source{Name: name, Input: sdl})
	if err != nil {
		return nil, err
	}
	return s, nil
}

type enabledCase struct {
	Mode    string `json:"mode"`
	Variant string `json:"variant"`
	Origin  string `json:"origin"`
	SDL     string `json:"sdl"`
}

// runEnabled executes the introspection queries against variant v serving sdl and compares.
// It returns the number of query evaluations performed and whether the schema was non-trivial.
func (sh *shared) runEnabled(v variant, origin, sdl string, served *ast.Schema, truth *ast.Schema, runStd bool) {
	rep := sh.rep
	ec := enabledCase{Mode: "enabled", Variant: v.name, Origin: origin, SDL: sdl}
	var es graphql.ExecutableSchema
	if served != nil {
		es = v.mk(served)
	} else {
		es = v.mk(nil)
	}
	run := newRunner(es, true)
	seen := tally{}
	report := func(query string, ms []mismatch) {
		for _, m := range ms {
			rep.Count("mismatch:"+m.Sig, 1)
			rep.Violate(m.Sig, map[string]any{"case": ec, "query": query, "mismatch": m})
		}
	}
	fetch := func(label, query, opName string, vars map[string]any) *sjson.Value {
		res := run.do(query, opName, vars)
		atomic.AddInt64(&sh.evals, 1)
		rep.Count("queries_"+label, 1)
		if res.timedOut {
			rep.Inconclusive("introspection query did not finish within the watchdog (" + origin + ")")
			return nil
		}
		if len(res.reqErrs) > 0 {
			rep.Count("mismatch:introspection-query-refused", 1)
			rep.Violate("introspection-query-refused", map[string]any{"case": ec, "query": label, "errors": res.reqErrs})
			return nil
		}
		if len(res.payloads) != 1 {
			rep.Violate("introspection-payload-count", map[string]any{"case": ec, "query": label, "payloads": len(res.payloads)})
			return nil
		}
		p := res.payloads[0]
		if p.perr != nil || p.data == nil {
			rep.Violate("introspection-invalid-json", map[string]any{"case": ec, "query": label, "error": fmt.Sprint(p.perr), "raw": truncate(string(p.raw), 2000)})
			return nil
		}
		if len(p.errors) > 0 || res.recovers > 0 {
			sig := "introspection-errors"
			if res.recovers > 0 {
				sig = "introspection-panic"
			}
			rep.Count("mismatch:"+sig, 1)
			rep.Violate(sig, map[string]any{"case": ec, "query": label, "errors": p.errors, "recovered_panics": res.recovers})
			return nil
		}
		return p.data
	}

	// 1. superset query
	data := fetch("superset", sh.fullQ, "Full", nil)
	var typesByName map[string]*sjson.Value
	if data != nil {
		js := data.Get("__schema")
		report("superset", compareSchema(truth, js, sh.cp, seen))
		typesByName = map[string]*sjson.Value{}
		if tv := js.Get("types"); tv != nil && tv.Kind == sjson.Array {
			for _, t := range tv.Arr {
				if n, ok := jstr(t.Get("name")); ok {
					typesByName[n] = t
				}
			}
		}
	}

	// 2. __type(name:) for three types must describe the same thing as the entry of __schema.types
	if typesByName != nil {
		names := sortedKeys(truth.Types)
		h := sha256.Sum256([]byte(sdl))
		pick := func(i int) string { return names[(int(h[i])<<8|int(h[i+1]))%len(names)] }
		vars := map[string]any{"a": pick(0), "b": pick(2), "c": pick(4)}
		if d := fetch("type_lookup", sh.typeQ, "OneType", vars); d != nil {
			for _, k := range []string{"a", "b", "c"} {
				name := vars[k].(string)
				got := d.Get(k)
				c := &cmp{s: truth, c: sh.cp, seen: tally{}}
				if got == nil || got.Kind != sjson.Object {
					report("type_lookup", []mismatch{{Sig: "type-lookup", Where: "__type(name: " + name + ")", Expected: "the type", Observed: render(got)}})
					continue
				}
				c.typeDef(truth.Types[name], got)
				for i := range c.out {
					c.out[i].Where = "__type(name:) " + c.out[i].Where
				}
				report("type_lookup", c.out)
				if want := typesByName[name]; want != nil && !sjson.Equal(want, got, false) {
					report("type_lookup", []mismatch{{Sig: "type-lookup-differs-from-schema-types", Where: "__type(name: " + name + ")",
						Expected: render(want), Observed: render(got)}})
				}
				seen["type_lookups"]++
			}
			if n := d.Get("nope"); n == nil || n.Kind != sjson.Null {
				report("type_lookup", []mismatch{{Sig: "type-lookup-unknown", Where: "__type(name: NoSuchType__)", Expected: "null", Observed: render(n)}})
			}
		}
	}

	// 2b. the same lists WITHOUT includeDeprecated (the default view): by kind they are lists or null
	// exactly as in the full view, and hold the full view's entries that are not deprecated, in order
	if typesByName != nil {
		const defQ = `query Def { __schema { types { kind name fields { name } enumValues { name } } } }`
		if d := fetch("default_view", defQ, "Def", nil); d != nil {
			var ms []mismatch
			if tv := d.Get("__schema").Get("types"); tv != nil && tv.Kind == sjson.Array {
				for _, t := range tv.Arr {
					name, _ := jstr(t.Get("name"))
					full := typesByName[name]
					if full == nil {
						continue
					}
					// (inputFields is left out: gqlgen's default view of it still lists deprecated input
					// fields, an older reading of the introspection schema - observed, DESIGN 8.7)
					for _, lst := range []string{"fields", "enumValues"} {
						fv, dv := full.Get(lst), t.Get(lst)
						if fv == nil || dv == nil {
							continue
						}
						if fv.Kind == sjson.Null || dv.Kind == sjson.Null {
							if fv.Kind != dv.Kind {
								ms = append(ms, mismatch{Sig: "default-view-list-nullness", Where: name + "." + lst, Expected: "null exactly when the full view is null (" + render(fv) + ")", Observed: render(dv)})
							}
							continue
						}
						var want []string
						for _, e := range fv.Arr {
							if dep := e.Get("isDeprecated"); dep != nil && dep.Kind == sjson.Bool && dep.B {
								continue
							}
							n, _ := jstr(e.Get("name"))
							want = append(want, n)
						}
						var got []string
						for _, e := range dv.Arr {
							n, _ := jstr(e.Get("name"))
							got = append(got, n)
						}
						if strings.Join(want, ",") != strings.Join(got, ",") {
							ms = append(ms, mismatch{Sig: "default-view-not-the-non-deprecated-entries", Where: name + "." + lst, Expected: strings.Join(want, ","), Observed: strings.Join(got, ",")})
						}
						seen["default_view_lists"]++
					}
				}
			}
			report("default_view", ms)
		}
	}

	// 3. the repo's own standard query (asks for less; compared for what it asks)
	if runStd {
		if d := fetch("standard", introspection.Query, "IntrospectionQuery", nil); d != nil {
			ms := compareSchema(truth, d.Get("__schema"), stdCaps, tally{})
			for i := range ms {
				ms[i].Where = "standard query: " + ms[i].Where
			}
			report("standard", ms)
		}
	}
	sh.merge(seen)
}

func truncate(s string, n int) string {
	if len(s) > n {
		return s[:n] + "…"
	}
	return s
}

// nontrivial says whether a schema exercises something the property names beyond bare types.
func nontrivial(s *ast.Schema) bool {
	for _, d := range s.Directives {
		if d.Position != nil && d.Position.Src != nil && !d.Position.Src.BuiltIn {
			return true
		}
	}
	for _, t := range s.Types {
		if t.BuiltIn {
			continue
		}
		if len(t.Interfaces) > 0 || t.Kind == ast.Union {
			return true
		}
		for _, f := range t.Fields {
			if f.DefaultValue != nil || f.Directives.ForName("deprecated") != nil {
				return true
			}
			for _, a := range f.Arguments {
				if a.DefaultValue != nil || a.Directives.ForName("deprecated") != nil {
					return true
				}
			}
		}
		for _, e := range t.EnumValues {
			if e.Directives.ForName("deprecated") != nil {
				return true
			}
		}
	}
	return false
}

// fixed witnesses: tiny schemas for the element positions the property names explicitly, so that
// each class has a minimal replay besides the random ones.
var fixedSchemas = []struct{ name, sdl string }{
	{"arg-own-deprecation", "type Query {\n  a(x: Int @deprecated(reason: \"argdep\"), y: Int): Int\n  b(z: Int): Int @deprecated(reason: \"fielddep\")\n  c(w: Int @deprecated): Int @deprecated(reason: \"both\")\n}\n"},
	{"interface-implements-interface", "interface I { id: ID! }\ninterface J implements I { id: ID! n: Int }\ntype O implements J & I { id: ID! n: Int }\ntype Query { j: J i: I }\n"},
	{"directive-arg-deprecation", "directive @d(old: Int @deprecated(reason: \"gone\"), new: Int = 1) repeatable on FIELD_DEFINITION | OBJECT\ntype Query @d { q: Int @d(new: 2) @d }\n"},
	{"input-field-deprecation-and-defaults", "enum E { A B @deprecated C @deprecated(reason: \"c\") }\ninput In { a: Int = 1 @deprecated, b: [E!] = [A, B], c: In = {a: 2, c: {b: []}}, d: String = \"q\\\"\\n\\u00e9\", e: String = \"\"\"\n  block\n    text\n  \"\"\", f: Float = 1e3, g: Boolean = false, h: ID = null }\ntype Query { q(in: In = {a: 5} @deprecated(reason: \"r\")): E }\n"},
	{"default-string-control-character", "type Query { q(s: String = \"bell\\u0007\", t: [String] = [\"del\\u007f\"]): Int }\n"},
	{"oneof-specifiedby-schema-description", "\"\"\"schema\ndescription é\"\"\"\nschema { query: Root }\n\"s\" scalar Date @specifiedBy(url: \"https://example.com/date\")\ninput Pick @oneOf { a: Int b: Date }\nunion U = Root | Other\ntype Other { d: Date }\ntype Root { u(p: Pick): U }\n"},
}

func main() {
	rep := ev.New("C16", "exploration")
	rep.Rule = "a case is (generated introspection glue variant, schema, query shape); enabled-mode schemas are distinct SDL texts accepted by gqlparser; a schema is non-trivial when it contains at least one of: @deprecated on a field/argument/input field/enum value, a default value, an implements edge, a union, a custom directive; disabled-mode cases are distinct operation documents that select and include at least one __schema/__type field. distinct_nontrivial = distinct non-trivial schemas + distinct such documents"
	rep.Assumptions = []string{
		"ground truth is the *ast.Schema gqlparser v2 builds from the same SDL (a second, independently loaded instance); a gqlparser parsing mistake shared by both sides is invisible",
		"list order is not compared (sets keyed by name); duplicates in a list are a mismatch",
		"default values are compared as parsed GraphQL values (gqlparser parser), not as strings; block and quoted strings with equal content are equal",
		"a description that is the empty string and an absent description are the same (the AST cannot tell them apart)",
		"a @deprecated without an explicit reason accepts deprecationReason null or the spec default \"No longer supported\"; an explicit reason must be returned exactly",
		"for kinds where fields/inputFields/interfaces/possibleTypes/enumValues do not apply, null and [] are both accepted; isOneOf null counts as false",
		"possibleTypes of an interface are the OBJECT types implementing it (GraphQL spec, __Type.possibleTypes)",
		"the property speaks about the full description: the superset query passes includeDeprecated:true wherever the served meta-schema accepts it; of the default view (no includeDeprecated) only fields and enumValues are judged (same nullness by kind as the full view, exactly its non-deprecated entries in order); the default view of inputFields / args is not judged",
		"the repo's standard introspection.Query is compared only for what it requests; deprecated arguments/input fields may be hidden from it",
		"the federation _service field is exercised on the fed2 probe with per-request introspection switching (allowed / disallowed histories, two server instances)",
		"@defer on fragments of the Query root is used as a hiding shape only (gqlgen answers root-level meta fields in the first payload); all payloads are inspected anyway",
		"disabled mode runs on the probes' own schemas (tx with ordinary resolver-backed neighbours, core_c0..c3 with __typename neighbours) through graphql/executor and, for every fifth case, through handler.New + transport.POST, both without the Introspection extension",
		"random schemas stay inside what gqlparser's schema validator accepts (rejection sampling, rejections counted)",
	}
	seed := ev.Seed()
	vs := variants()
	if only := os.Getenv("VERIF_VARIANT"); only != "" {
		var f []variant
		for _, v := range vs {
			if v.name == only {
				f = append(f, v)
			}
		}
		vs = f
	}
	if len(vs) == 0 {
		rep.Inconclusive("no generated glue variant available")
		os.Exit(rep.Finish(0, 0))
	}
	sh := &shared{rep: rep, seen: tally{}}

	// discover what the served introspection meta-schema offers
	cp, derr := discover(vs[0])
	if derr != "" {
		rep.Violate("meta-schema-discovery", map[string]any{"error": derr})
		os.Exit(rep.Finish(1, 0))
	}
	sh.cp = cp
	sh.fullQ = fullQuery(cp)
	sh.typeQ = typeQuery(cp)
	rep.Set("meta_schema_offers", map[string]bool{"__Schema.description": cp.schemaDescription, "__Type.specifiedByURL": cp.specifiedByURL,
		"__Type.isOneOf": cp.isOneOf, "__Directive.isRepeatable": cp.isRepeatable, "__InputValue.isDeprecated": cp.inputDeprecation,
		"__Field.args(includeDeprecated)": cp.argsInclDeprecated, "__Type.inputFields(includeDeprecated)": cp.inputFieldsInclDeprecated,
		"__Directive.args(includeDeprecated)": cp.directiveArgsInclDeprecated})
	if !cp.inputDeprecation {
		rep.Inconclusive("the served meta-schema has no __InputValue.isDeprecated: argument / input field deprecation cannot be observed")
	}

	if rp := os.Getenv("VERIF_REPLAY"); rp != "" {
		os.Exit(doReplay(rep, sh, vs, rp))
	}

	nSchemas := ev.Pick(400, 10000)
	nDisabled := ev.Pick(800, 6000)
	workers := runtime.GOMAXPROCS(0)
	if workers > 16 {
		workers = 16
	}

	// --- enabled mode: fixed witnesses (sequential, first: they give the minimal replays) ----------
	for i, f := range fixedSchemas {
		for k := 0; k < len(vs); k++ {
			v := vs[(i+k)%len(vs)]
			served, err1 := loadSDL("served", f.sdl)
			truth, err2 := loadSDL("truth", f.sdl)
			if err1 != nil || err2 != nil {
				rep.Inconclusive(fmt.Sprintf("fixed schema %s does not load: %v %v", f.name, err1, err2))
				break
			}
			sh.runEnabled(v, "fixed:"+f.name, f.sdl, served, truth, true)
			rep.Count("schemas_fixed_witness", 1)
			rep.Distinct("nontrivial", "fixed:"+f.name)
		}
	}

	// --- enabled mode: the probes' own schemas -------------------------------------------------
	for _, v := range vs {
		files, _ := filepath.Glob(filepath.Join(ev.Root, "work", "farm", "cur", v.name, "*.graphql"))
		sort.Strings(files)
		if yml, _ := os.ReadFile(filepath.Join(ev.Root, "work", "farm", "cur", v.name, "gqlgen.yml")); strings.Contains(string(yml), "../_shared/extra.graphql") {
			// a source outside the package directory (compiled into the generated code as text)
			files = append(files, filepath.Join(ev.Root, "work", "farm", "cur", "_shared", "extra.graphql"))
			rep.Count("probe_schemas_with_inlined_source", 1)
		}
		var srcs []*ast.Source
		var all strings.Builder
		for _, f := range files {
			b, err := os.ReadFile(f)
			if err != nil {
				continue
			}
			srcs = append(srcs, &ast.Source{Name: filepath.Base(f), Input: string(b)})
			all.Write(b)
			all.WriteString("\n")
		}
		truth, err := gqlparser.LoadSchema(srcs...)
		if err != nil || len(srcs) == 0 {
			rep.Count("probe_schema_unloadable", 1)
			continue
		}
		sh.runEnabled(v, "probe:"+v.name, all.String(), nil, truth, true)
		rep.Count("schemas_probe_own", 1)
		rep.Distinct("nontrivial", "probe:"+v.name)
	}

	// --- enabled mode: random schemas ------------------------------------------
	type job struct {
		idx int
	}
	jobs := make(chan job, 64)
	var wg sync.WaitGroup
	var rejections, accepted int64
	for w := 0; w < workers; w++ {
		wg.Add(1)
		go func() {
			defer wg.Done()
			for j := range jobs {
				v := vs[j.idx%len(vs)]
				var sdl, origin string
				var feat map[string]int
				var served *ast.Schema
				{
					base := seed*1000003 + int64(j.idx)
					ok := false
					for a := int64(0); a < 25; a++ {
						s, ft := GenSchema(base*64+a, j.idx%10 == 0)
						ld, err := loadSDL("served", s)
						if err != nil {
							atomic.AddInt64(&rejections, 1)
							rep.Distinct("rejection_reasons", firstWords(err.Error(), 6))
							continue
						}
						sdl, feat, origin, ok, served = s, ft, fmt.Sprintf("random:%d/%d", base, a), true, ld
						break
					}
					if !ok {
						rep.Count("schema_slots_without_valid_schema", 1)
						continue
					}
				}
				truth, err2 := loadSDL("truth", sdl)
				if err2 != nil {
					rep.Inconclusive(fmt.Sprintf("schema %s does not load a second time: %v", origin, err2))
					continue
				}
				atomic.AddInt64(&accepted, 1)
				sh.runEnabled(v, origin, sdl, served, truth, j.idx%4 == 0)
				rep.Count("schemas_via_"+v.name, 1)
				h := sha256.Sum256([]byte(sdl))
				hs := hex.EncodeToString(h[:10])
				rep.Distinct("schemas", hs)
				if nontrivial(truth) {
					rep.Distinct("nontrivial", hs)
				}
				for k, n := range feat {
					rep.Count("gen:"+k, int64(n))
				}
				if strings.HasPrefix(origin, "random:") {
					rep.Sample(map[string]any{"origin": origin, "variant": v.name, "sdl_bytes": len(sdl), "types": len(truth.Types), "directives": len(truth.Directives), "sdl_head": truncate(sdl, 400)})
				}
			}
		}()
	}
	for i := 0; i < nSchemas; i++ {
		jobs <- job{i}
	}
	close(jobs)
	wg.Wait()
	rep.Count("schemas_rejected_by_gqlparser", rejections)
	rep.Count("schemas_accepted", accepted)

	// --- disabled mode -----------------------------------------------------------------------------
	djobs := make(chan int, 64)
	var dwg sync.WaitGroup
	type dsrv struct {
		run *runner
		h   http.Handler
		s   *ast.Schema
	}
	for w := 0; w < workers; w++ {
		dwg.Add(1)
		go func() {
			defer dwg.Done()
			srv := map[string]*dsrv{}
			for i := range djobs {
				v := vs[i%len(vs)]
				d := srv[v.name]
				if d == nil {
					es := v.mk(nil)
					hs := handler.New(es) // no Introspection extension: the library default
					hs.AddTransport(transport.POST{})
					d = &dsrv{run: newRunner(es, false), h: hs, s: es.Schema()}
					srv[v.name] = d
				}
				viaHTTP := i%5 == 4
				var c *dcase
				for a := int64(0); a < 30; a++ {
					cand := genDisabled((seed*7919+int64(i))*64+a, v.name, v.normals, !viaHTTP)
					doc, perr := parser.ParseQuery(&ast.Source{Input: cand.Query})
					if perr != nil {
						rep.Count("disabled_docs_unparsable", 1)
						rep.Distinct("disabled_rejection_reasons", firstWords(perr.Error(), 6))
						continue
					}
					if errs := validator.Validate(d.s, doc); len(errs) > 0 {
						rep.Count("disabled_docs_rejected_by_validator", 1)
						rep.Distinct("disabled_rejection_reasons", firstWords(errs[0].Message, 6))
						continue
					}
					c = cand
					break
				}
				if c == nil {
					rep.Count("disabled_slots_without_valid_document", 1)
					continue
				}
				c.HTTP = viaHTTP
				sh.runDisabled(d.run, d.h, c)
			}
		}()
	}
	for i := 0; i < nDisabled; i++ {
		djobs <- i
	}
	close(djobs)
	dwg.Wait()

	// --- evidence --------------------------------------------------------------------------------
	sh.mu.Lock()
	for k, n := range sh.seen {
		rep.Count("seen:"+k, n)
	}
	seen := sh.seen
	sh.mu.Unlock()
	var vnotes []string
	for _, v := range vs {
		vnotes = append(vnotes, v.name+": "+v.note)
	}
	rep.Set("glue_variants", vnotes)
	// every class the property names must have been observed
	for _, k := range []string{"fields", "fieldArgs", "inputFields", "enumValues", "directives", "directiveArgs",
		"object_implements_interface_edges", "interface_implements_interface_edges", "interface_possible_type_edges", "union_member_edges",
		"deprecated_with_reason@field", "deprecated_with_reason@fieldArg", "deprecated_with_reason@inputField", "deprecated_with_reason@enumValue",
		"deprecated_without_reason@fieldArg", "default_string@fieldArg", "default_list@inputField", "default_object@fieldArg", "default_enum@fieldArg",
		"default_null@fieldArg", "description@field", "description_multiline@field"} {
		if seen[k] == 0 {
			rep.Inconclusive("coverage counter " + k + " is zero")
		}
	}
	if rep.Get("disabled_cases") == 0 {
		rep.Inconclusive("no disabled-mode case ran")
	}
	atomic.AddInt64(&sh.evals, serviceChecks(rep))
	legacyEntryPoint(rep, sh)
	os.Exit(rep.Finish(atomic.LoadInt64(&sh.evals), int64(rep.DistinctLen("nontrivial")+rep.DistinctLen("disabled_documents"))))
}

func firstWords(s string, n int) string {
	f := strings.Fields(s)
	if len(f) > n {
		f = f[:n]
	}
	return strings.Join(f, " ")
}

// runDisabled executes one hidden-introspection document with introspection disabled.
func (sh *shared) runDisabled(run *runner, h http.Handler, c *dcase) {
	rep := sh.rep
	var datas []*sjson.Value
	nErr := 0
	atomic.AddInt64(&sh.evals, 1)
	if c.HTTP {
		body, _ := json.Marshal(map[string]any{"query": c.Query, "operationName": c.OpName, "variables": c.Vars})
		req := httptest.NewRequest("POST", "/query", bytes.NewReader(body))
		req.Header.Set("Content-Type", "application/json")
		rec := httptest.NewRecorder()
		h.ServeHTTP(rec, req)
		v, err := sjson.Parse(rec.Body.Bytes())
		if err != nil || v.Kind != sjson.Object {
			rep.Violate("disabled-invalid-json", map[string]any{"case": c, "status": rec.Code, "body": truncate(rec.Body.String(), 2000)})
			return
		}
		if ev := v.Get("errors"); ev != nil && ev.Kind == sjson.Array {
			nErr = len(ev.Arr)
		}
		if rec.Code != 200 {
			// refused before execution (must not happen: the document validated)
			rep.Violate("disabled-request-refused", map[string]any{"case": c, "status": rec.Code, "body": truncate(rec.Body.String(), 2000)})
			return
		}
		datas = append(datas, v.Get("data"))
		rep.Count("disabled_cases_via_http_post", 1)
	} else {
		res := run.do(c.Query, c.OpName, c.Vars)
		if res.timedOut {
			rep.Inconclusive("disabled-mode operation did not finish within the watchdog: " + c.Query)
			return
		}
		if len(res.reqErrs) > 0 {
			rep.Violate("disabled-request-refused", map[string]any{"case": c, "errors": res.reqErrs})
			return
		}
		for _, p := range res.payloads {
			if p.perr != nil {
				rep.Violate("disabled-invalid-json", map[string]any{"case": c, "raw": truncate(string(p.raw), 2000)})
				return
			}
			datas = append(datas, p.data)
			nErr += len(p.errors)
		}
		if res.recovers > 0 {
			rep.Violate("disabled-panic", map[string]any{"case": c, "recovered_panics": res.recovers})
		}
		if len(res.payloads) > 1 {
			rep.Count("disabled_cases_with_deferred_payloads", 1)
		}
		rep.Count("disabled_cases_via_executor", 1)
	}
	why, typenames := checkDisabled(c, datas, nErr)
	if why != "" {
		var raws []string
		for _, d := range datas {
			raws = append(raws, render(d))
		}
		sig := "disabled-introspection-leak"
		if !strings.Contains(why, "not null") {
			sig = "disabled-response-shape"
		}
		rep.Violate(sig, map[string]any{"case": c, "why": why, "data": raws, "errors": nErr})
	}
	rep.Count("disabled_cases", 1)
	rep.Count("disabled_active_meta_fields", int64(c.ActiveMeta))
	rep.Count("disabled_typename_values_checked", int64(typenames))
	dataNull := len(datas) > 0 && (datas[0] == nil || datas[0].Kind == sjson.Null)
	if dataNull {
		rep.Count("disabled_responses_data_null", 1)
	} else {
		rep.Count("disabled_responses_data_object", 1)
	}
	for _, f := range c.Features {
		rep.Count("disabled_shape:"+f, 1)
	}
	rep.Distinct("disabled_documents", c.Query)
	rep.Distinct("disabled_shapes", strings.Join(c.Features, ","))
	if c.ActiveMeta > 1 && len(c.Features) > 6 {
		rep.Sample(map[string]any{"mode": "disabled", "variant": c.Variant, "query": c.Query, "variables": c.Vars, "operationName": c.OpName, "http": c.HTTP, "errors": nErr})
	}
}

// discover asks the served meta-schema which optional members and arguments exist.
func discover(v variant) (caps, string) {
	var cp caps
	run := newRunner(v.mk(nil), true)
	q := `{
 t: __type(name: "__Type") { fields(includeDeprecated: true) { name args { name } } }
 iv: __type(name: "__InputValue") { fields(includeDeprecated: true) { name args { name } } }
 f: __type(name: "__Field") { fields(includeDeprecated: true) { name args { name } } }
 d: __type(name: "__Directive") { fields(includeDeprecated: true) { name args { name } } }
 s: __type(name: "__Schema") { fields(includeDeprecated: true) { name args { name } } }
}`
	res := run.do(q, "", nil)
	if res.timedOut || len(res.reqErrs) > 0 || len(res.payloads) != 1 || res.payloads[0].data == nil || len(res.payloads[0].errors) > 0 {
		return cp, fmt.Sprintf("discovery query failed: %+v", res)
	}
	data := res.payloads[0].data
	has := func(alias, field, arg string) bool {
		fs := data.Get(alias).Get("fields")
		if fs == nil || fs.Kind != sjson.Array {
			return false
		}
		for _, f := range fs.Arr {
			if n, _ := jstr(f.Get("name")); n == field {
				if arg == "" {
					return true
				}
				if as := f.Get("args"); as != nil && as.Kind == sjson.Array {
					for _, a := range as.Arr {
						if an, _ := jstr(a.Get("name")); an == arg {
							return true
						}
					}
				}
			}
		}
		return false
	}
	for _, need := range [][2]string{{"t", "fields"}, {"t", "interfaces"}, {"t", "possibleTypes"}, {"t", "enumValues"}, {"t", "inputFields"}, {"t", "ofType"},
		{"iv", "defaultValue"}, {"f", "isDeprecated"}, {"f", "args"}, {"d", "locations"}, {"d", "args"}, {"s", "types"}, {"s", "directives"}} {
		if !has(need[0], need[1], "") {
			return cp, "the served meta-schema lacks " + need[0] + "." + need[1]
		}
	}
	cp.schemaDescription = has("s", "description", "")
	cp.specifiedByURL = has("t", "specifiedByURL", "")
	cp.isOneOf = has("t", "isOneOf", "")
	cp.isRepeatable = has("d", "isRepeatable", "")
	cp.inputDeprecation = has("iv", "isDeprecated", "") && has("iv", "deprecationReason", "")
	cp.argsInclDeprecated = has("f", "args", "includeDeprecated")
	cp.inputFieldsInclDeprecated = has("t", "inputFields", "includeDeprecated")
	cp.directiveArgsInclDeprecated = has("d", "args", "includeDeprecated")
	return cp, ""
}

func doReplay(rep *ev.Reporter, sh *shared, vs []variant, path string) int {
	b, err := os.ReadFile(path)
	if err != nil {
		fmt.Println("replay:", err)
		return 2
	}
	var f struct {
		Detail struct {
			Case json.RawMessage `json:"case"`
		} `json:"detail"`
	}
	if err := json.Unmarshal(b, &f); err != nil {
		fmt.Println("replay:", err)
		return 2
	}
	var ec enabledCase
	var dc dcase
	json.Unmarshal(f.Detail.Case, &ec)
	json.Unmarshal(f.Detail.Case, &dc)
	name := ec.Variant
	var v *variant
	for i := range vs {
		if vs[i].name == name {
			v = &vs[i]
		}
	}
	if v == nil {
		fmt.Println("replay: variant not available:", name)
		return 2
	}
	if ec.Mode == "enabled" {
		if strings.HasPrefix(ec.Origin, "probe:") {
			truth, err := loadSDL("truth", ec.SDL)
			if err != nil {
				fmt.Println("replay:", err)
				return 2
			}
			sh.runEnabled(*v, ec.Origin, ec.SDL, nil, truth, true)
		} else {
			served, err1 := loadSDL("served", ec.SDL)
			truth, err2 := loadSDL("truth", ec.SDL)
			if err1 != nil || err2 != nil {
				fmt.Println("replay:", err1, err2)
				return 2
			}
			sh.runEnabled(*v, ec.Origin, ec.SDL, served, truth, true)
		}
	} else {
		es := v.mk(nil)
		hs := handler.New(es)
		hs.AddTransport(transport.POST{})
		sh.runDisabled(newRunner(es, false), hs, &dc)
	}
	return rep.Finish(1, 2)
}

// legacyEntryPoint: the deprecated handler.GraphQL(es, options...) serves introspection unless
// IntrospectionEnabled(false) is given, whatever other options are present.
func legacyEntryPoint(rep *ev.Reporter, sh *shared) {
	es := tx.NewExecutableSchema(tx.Config{Resolvers: &tx.Stub{}})
	const q = `{"query":"{ __schema { queryType { name } } t: __type(name: \"Query\") { kind } }"}`
	for _, c := range []struct {
		name    string
		opts    []legacy.Option
		enabled bool
	}{
		{"no options", nil, true},
		{"ComplexityLimit", []legacy.Option{legacy.ComplexityLimit(1000)}, true},
		{"ComplexityLimitFunc", []legacy.Option{legacy.ComplexityLimitFunc(func(context.Context) int { return 1000 })}, true},
		{"CacheSize+ComplexityLimit", []legacy.Option{legacy.CacheSize(10), legacy.ComplexityLimit(1000)}, true},
		{"IntrospectionEnabled(false)", []legacy.Option{legacy.IntrospectionEnabled(false)}, false},
		{"IntrospectionEnabled(false)+ComplexityLimit", []legacy.Option{legacy.IntrospectionEnabled(false), legacy.ComplexityLimit(1000)}, false},
		{"IntrospectionEnabled(true)+ComplexityLimit", []legacy.Option{legacy.IntrospectionEnabled(true), legacy.ComplexityLimit(1000)}, true},
	} {
		h := legacy.GraphQL(es, c.opts...)
		r := httptest.NewRequest("POST", "/query", strings.NewReader(q))
		r.Header.Set("Content-Type", "application/json")
		w := httptest.NewRecorder()
		h.ServeHTTP(w, r)
		atomic.AddInt64(&sh.evals, 1)
		rep.Count("legacy_entry_point_cases", 1)
		body := w.Body.String()
		served := strings.Contains(body, `"queryType":{"name":"Query"}`) && strings.Contains(body, `"kind":"OBJECT"`)
		switch {
		case c.enabled && !served:
			rep.Violate("legacy-entry-point-introspection-missing", map[string]any{"why": "handler.GraphQL with options [" + c.name + "] does not serve introspection", "body": body})
		case !c.enabled && (served || !strings.Contains(body, `"errors"`)):
			rep.Violate("legacy-entry-point-introspection-leaks", map[string]any{"why": "handler.GraphQL with options [" + c.name + "] still describes the schema", "body": body})
		}
	}
}
