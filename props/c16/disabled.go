package main

// Disabled mode: seeded query shapes that hide __schema / __type behind aliases, named and inline
// fragments, @include/@skip with literals and variables, several operations + operationName, @defer,
// next to ordinary fields and __typename. The oracle knows the class of every response key it wrote.

import (
	"fmt"
	"math/rand"
	"sort"
	"strings"

	"verif/internal/sjson"
)

type keyInfo struct {
	Class  string `json:"class"` // meta | typename | normal
	Expect string `json:"expect,omitempty"`
	Must   bool   `json:"must,omitempty"` // included and not deferred: present whenever the first payload's data is an object
}

type dcase struct {
	Variant    string             `json:"variant"`
	Query      string             `json:"query"`
	OpName     string             `json:"operation_name"`
	Vars       map[string]any     `json:"variables"`
	Keys       map[string]keyInfo `json:"keys"`
	ActiveMeta int                `json:"active_meta_fields"`
	Features   []string           `json:"features"`
	HTTP       bool               `json:"http"`
}

type normalField struct {
	text   string // e.g. echo(s: "e")
	name   string
	expect string
}

type dgen struct {
	r          *rand.Rand
	normals    []normalField
	frags      []string
	n          int
	used       map[string]bool
	keys       map[string]keyInfo
	feats      map[string]bool
	activeMeta int
	allowDefer bool
	needTF     bool
}

func (g *dgen) p(n int) bool { return g.r.Intn(100) < n }

func (g *dgen) next(prefix string) string {
	g.n++
	return fmt.Sprintf("%s%d", prefix, g.n)
}

var schemaSubs = []string{
	"{ queryType { name } }",
	"{ types { name kind fields(includeDeprecated: true) { name type { name ofType { name } } } } }",
	"{ directives { name locations args { name defaultValue } } }",
	"{ __typename }",
	"{ description types { ...TF } }",
	"{ mutationType { name fields(includeDeprecated: true) { name } } subscriptionType { name } }",
}

var typeSubs = []string{
	"{ name }",
	"{ kind fields(includeDeprecated: true) { name args { name type { name } } } }",
	"{ name enumValues { name } inputFields { name } possibleTypes { name } interfaces { name } }",
	"{ __typename }",
	"{ ...TF }",
}

// directive returns a directive text and whether the node stays included.
func (g *dgen) directive() (string, bool) {
	x := g.r.Intn(100)
	switch {
	case x < 50:
		return "", true
	case x < 85:
		switch g.r.Intn(4) {
		case 0:
			g.feats["include_literal_true"] = true
			return " @include(if: true)", true
		case 1:
			g.used["t"] = true
			g.feats["include_variable_true"] = true
			return " @include(if: $t)", true
		case 2:
			g.feats["skip_literal_false"] = true
			return " @skip(if: false)", true
		default:
			g.used["f"] = true
			g.feats["skip_variable_false"] = true
			return " @skip(if: $f)", true
		}
	default:
		g.feats["excluded_by_directive"] = true
		switch g.r.Intn(4) {
		case 0:
			return " @include(if: false)", false
		case 1:
			g.used["f"] = true
			return " @include(if: $f)", false
		case 2:
			return " @skip(if: true)", false
		default:
			g.used["t"] = true
			return " @skip(if: $t)", false
		}
	}
}

func (g *dgen) setKey(key string, ki keyInfo) {
	if old, ok := g.keys[key]; ok && old.Must {
		ki.Must = true
	}
	g.keys[key] = ki
}

func (g *dgen) meta(active bool, depth int) string {
	dir, inc := g.directive()
	var sb strings.Builder
	key := ""
	if g.p(50) {
		// __schema
		key = "__schema"
		if g.p(60) {
			key = g.next("m")
			sb.WriteString(key + ": ")
			g.feats["alias_on_meta"] = true
		}
		sub := schemaSubs[g.r.Intn(len(schemaSubs))]
		if strings.Contains(sub, "...TF") {
			g.needTF = true
		}
		sb.WriteString("__schema" + dir + " " + sub)
		g.feats["__schema"] = true
	} else {
		key = "__type"
		arg := `"Query"`
		if g.p(65) {
			key = g.next("m")
			sb.WriteString(key + ": ")
			g.feats["alias_on_meta"] = true
			switch g.r.Intn(5) {
			case 0:
				g.used["n"] = true
				arg = "$n"
				g.feats["type_name_variable"] = true
			case 1:
				arg = `"__Schema"`
			case 2:
				arg = `"String"`
			case 3:
				arg = `"NoSuchType"`
			}
		}
		sub := typeSubs[g.r.Intn(len(typeSubs))]
		if strings.Contains(sub, "...TF") {
			g.needTF = true
		}
		sb.WriteString("__type(name: " + arg + ")" + dir + " " + sub)
		g.feats["__type"] = true
	}
	g.keys[key] = keyInfo{Class: "meta"}
	if active && inc {
		g.activeMeta++
		g.feats[fmt.Sprintf("meta_at_depth_%d", depth)] = true
	}
	return sb.String()
}

func (g *dgen) selection(depth int, active, deferred bool) string {
	var items []string
	n := 1 + g.r.Intn(4)
	for i := 0; i < n; i++ {
		x := g.r.Intn(100)
		switch {
		case x < 45:
			items = append(items, g.meta(active, depth))
		case x < 58:
			key := "__typename"
			txt := key
			if g.p(50) {
				key = g.next("t")
				txt = key + ": __typename"
			}
			g.setKey(key, keyInfo{Class: "typename", Expect: "Query", Must: active && !deferred})
			g.feats["typename_neighbour"] = true
			items = append(items, txt)
		case x < 72 && len(g.normals) > 0:
			nf := g.normals[g.r.Intn(len(g.normals))]
			key := nf.name
			txt := nf.text
			if g.p(50) {
				key = g.next("n")
				txt = key + ": " + nf.text
			}
			g.setKey(key, keyInfo{Class: "normal", Expect: nf.expect, Must: active && !deferred})
			g.feats["normal_field_neighbour"] = true
			items = append(items, txt)
		case x < 86 && depth < 3:
			dir, inc := g.directive()
			cond := ""
			if g.p(60) {
				cond = " on Query"
				g.feats["inline_fragment_typed"] = true
			} else {
				g.feats["inline_fragment_untyped"] = true
			}
			d := deferred
			if g.allowDefer && !deferred && g.p(25) {
				dir += fmt.Sprintf(" @defer(label: %q)", g.next("d"))
				g.feats["defer"] = true
				d = true
			}
			items = append(items, "..."+cond+dir+" { "+g.selection(depth+1, active && inc, d)+" }")
		case depth < 3:
			dir, inc := g.directive()
			name := g.next("F")
			d := deferred
			if g.allowDefer && !deferred && g.p(20) {
				dir += " @defer"
				g.feats["defer"] = true
				d = true
			}
			body := g.selection(depth+1, active && inc, d)
			g.frags = append(g.frags, "fragment "+name+" on Query { "+body+" }")
			g.feats["named_fragment"] = true
			if depth > 0 {
				g.feats["nested_fragment"] = true
			}
			items = append(items, "..."+name+dir)
			if inc && !d && g.p(15) {
				items = append(items, "..."+name)
				g.feats["fragment_spread_twice"] = true
			}
		default:
			items = append(items, g.meta(active, depth))
		}
	}
	return strings.Join(items, " ")
}

func genDisabled(seed int64, variant string, normals []normalField, allowDefer bool) *dcase {
	g := &dgen{r: rand.New(rand.NewSource(seed)), normals: normals, used: map[string]bool{}, keys: map[string]keyInfo{},
		feats: map[string]bool{}, allowDefer: allowDefer}
	body := g.selection(0, true, false)
	if g.activeMeta == 0 {
		body += " " + g.meta(true, 0)
		for g.activeMeta == 0 {
			body += " " + g.meta(true, 0)
		}
	}
	c := &dcase{Variant: variant, Keys: g.keys, Vars: map[string]any{}}
	var decl []string
	viaDefault := g.p(40)
	for _, v := range []struct {
		n, t, lit string
		val       any
	}{{"t", "Boolean!", "true", true}, {"f", "Boolean!", "false", false}, {"n", "String!", `"Query"`, "Query"}} {
		if !g.used[v.n] {
			continue
		}
		if viaDefault {
			decl = append(decl, "$"+v.n+": "+v.t+" = "+v.lit)
			g.feats["variable_default"] = true
		} else {
			decl = append(decl, "$"+v.n+": "+v.t)
			c.Vars[v.n] = v.val
			g.feats["variable_supplied"] = true
		}
	}
	var ops []string
	nDecoy := 0
	if g.p(45) {
		nDecoy = 1 + g.r.Intn(2)
	}
	head := ""
	if len(decl) > 0 || nDecoy > 0 || g.p(50) {
		c.OpName = g.next("Op")
		head = "query " + c.OpName
		if len(decl) > 0 {
			head += "(" + strings.Join(decl, ", ") + ")"
		}
		head += " "
	}
	ops = append(ops, head+"{ "+body+" }")
	for i := 0; i < nDecoy; i++ {
		ops = append(ops, "query "+g.next("Decoy")+" "+[]string{"{ __typename }", "{ x: __typename }", "{ __schema { queryType { name } } }"}[g.r.Intn(3)])
		g.feats["several_operations"] = true
	}
	g.r.Shuffle(len(ops), func(i, j int) { ops[i], ops[j] = ops[j], ops[i] })
	if nDecoy == 0 && c.OpName != "" && g.p(50) {
		c.OpName = "" // single operation: the name may be omitted from the request
	}
	parts := append(ops, g.frags...)
	if g.needTF {
		parts = append(parts, "fragment TF on __Type { name description kind }")
		g.feats["fragment_on_meta_type"] = true
	}
	c.Query = strings.Join(parts, "\n")
	c.ActiveMeta = g.activeMeta
	for f := range g.feats {
		c.Features = append(c.Features, f)
	}
	sort.Strings(c.Features)
	return c
}

// checkDisabled inspects all payloads of one disabled-mode response. It returns a description of
// the first violation ("" when none) and whether __typename was seen working.
func checkDisabled(c *dcase, datas []*sjson.Value, nErrors int) (string, int) {
	typenames := 0
	for pi, d := range datas {
		if d == nil || d.Kind == sjson.Null {
			continue
		}
		if d.Kind != sjson.Object {
			return fmt.Sprintf("payload %d: data is neither null nor an object: %s", pi, render(d)), typenames
		}
		for _, m := range d.Members {
			ki, ok := c.Keys[m.Key]
			if !ok {
				return fmt.Sprintf("payload %d: response key %q was never selected; value %s", pi, m.Key, render(m.Val)), typenames
			}
			switch ki.Class {
			case "meta":
				if m.Val.Kind != sjson.Null {
					return fmt.Sprintf("payload %d: introspection field under key %q is not null: %s", pi, m.Key, render(m.Val)), typenames
				}
			case "typename", "normal":
				if m.Val.Kind != sjson.String || m.Val.Str != ki.Expect {
					return fmt.Sprintf("payload %d: key %q (%s) expected %q, got %s", pi, m.Key, ki.Class, ki.Expect, render(m.Val)), typenames
				}
				if ki.Class == "typename" {
					typenames++
				}
			}
		}
	}
	if len(datas) > 0 && datas[0] != nil && datas[0].Kind == sjson.Object {
		for _, k := range sortedKeys(c.Keys) {
			if ki := c.Keys[k]; ki.Must && datas[0].Get(k) == nil {
				return fmt.Sprintf("key %q (%s) is selected and included but missing from a non-null data object", k, ki.Class), typenames
			}
		}
	}
	if c.ActiveMeta > 0 && nErrors == 0 {
		return fmt.Sprintf("%d introspection field(s) were selected and included, but the response carries no error", c.ActiveMeta), typenames
	}
	return "", typenames
}
