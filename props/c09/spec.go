package main

// The specification function of C09. Nothing in this file looks at gqlgen's code or behaviour: it
// is written from
//   - the property statement (GET runs only queries; exactly the named operation runs; every body
//     is a JSON GraphQL response with the negotiated Content-Type; parse/validation failure ->
//     the client-error status of the negotiated media type; executed -> 200; non-2xx -> no resolver);
//   - the GraphQL-over-HTTP draft (request parameters, GET restrictions, Accept handling, the two
//     media types application/json and application/graphql-response+json and their status codes);
//   - the GraphQL spec (document validity, GetOperation(document, operationName));
//   - RFC 9110 section 12.5.1 (Accept: media ranges, specificity, q-values, q=0 = not acceptable);
//   - the transports' doc comments (GET/POST: the GraphQL-over-HTTP transports; GRAPHQL,
//     UrlEncodedForm, MultipartForm: "If not set, only one header: Content-Type: application/json
//     will be set"; ResponseHeaders: "Map of all headers that are added to graphql response").

import (
	"fmt"
	"mime"
	"strconv"
	"strings"
)

const (
	ctJSON    = "application/json"
	ctGQLResp = "application/graphql-response+json"
)

// ---------------------------------------------------------------- documents

type opDecl struct {
	Name  string `json:"name"`
	Kind  string `json:"kind"`
	Field string `json:"field"`
}

type document struct {
	ID      string   `json:"id"`
	Text    string   `json:"text"`
	Ops     []opDecl `json:"ops"`
	Invalid string   `json:"invalid,omitempty"` // "", "parse", "validation", "no-operation"
}

var kinds = []string{"query", "mutation", "subscription"}

// the i-th operation of a document selects the i-th root field of its kind: distinct per operation
var selections = map[string][3][2]string{
	"query":        {{"q1", "q1"}, {"q2", "q2"}, {"q3", "q3"}},
	"mutation":     {{"m1", "m1"}, {"m2", "m2"}, {"m3", "m3"}},
	"subscription": {{"s1", "s1"}, {"count", "count(n: 1)"}, {"ctl", `ctl(id: "c") { seq }`}},
}

var opNames = []string{"A", "B", "C"}

func allDocuments() []*document {
	var docs []*document
	var rec func(prefix []string)
	rec = func(prefix []string) {
		if len(prefix) > 0 {
			d := &document{}
			var parts []string
			for i, k := range prefix {
				sel := selections[k][i]
				d.ID += strings.ToUpper(k[:1])
				d.Ops = append(d.Ops, opDecl{Name: opNames[i], Kind: k, Field: sel[0]})
				parts = append(parts, fmt.Sprintf("%s %s { %s }", k, opNames[i], sel[1]))
			}
			d.Text = strings.Join(parts, "\n")
			docs = append(docs, d)
		}
		if len(prefix) == 3 {
			return
		}
		for _, k := range kinds {
			rec(append(append([]string{}, prefix...), k))
		}
	}
	rec(nil)
	// anonymous single operations
	docs = append(docs,
		&document{ID: "anon-Q", Text: "{ q1 }", Ops: []opDecl{{Name: "", Kind: "query", Field: "q1"}}},
		&document{ID: "anon-M", Text: "mutation { m1 }", Ops: []opDecl{{Name: "", Kind: "mutation", Field: "m1"}}},
		&document{ID: "anon-S", Text: "subscription { s1 }", Ops: []opDecl{{Name: "", Kind: "subscription", Field: "s1"}}},
	)
	// a valid subscription whose event stream ends before the first event
	docs = append(docs, &document{ID: "S-no-events", Text: "subscription A { count(n: 0) }", Ops: []opDecl{{Name: "A", Kind: "subscription", Field: "count"}}})
	// documents that are not executable, by the GraphQL spec
	docs = append(docs,
		&document{ID: "bad-parse", Text: "query A { q1 ", Invalid: "parse", Ops: []opDecl{{Name: "A", Kind: "query", Field: "q1"}}},
		&document{ID: "bad-parse-mutation", Text: "mutation A { m1 } }", Invalid: "parse", Ops: []opDecl{{Name: "A", Kind: "mutation", Field: "m1"}}},
		&document{ID: "bad-unknown-field", Text: "query A { nope }", Invalid: "validation", Ops: []opDecl{{Name: "A", Kind: "query", Field: "nope"}}},
		// 5.1: the whole document must be valid, not only the selected operation
		&document{ID: "bad-other-operation-invalid", Text: "query A { q1 }\nmutation B { nope }", Invalid: "validation",
			Ops: []opDecl{{Name: "A", Kind: "query", Field: "q1"}, {Name: "B", Kind: "mutation", Field: "nope"}}},
		// 5.2.2.1 lone anonymous operation
		&document{ID: "bad-two-anonymous", Text: "{ q1 }\n{ q2 }", Invalid: "validation",
			Ops: []opDecl{{Name: "", Kind: "query", Field: "q1"}, {Name: "", Kind: "query", Field: "q2"}}},
		&document{ID: "bad-anonymous-plus-named", Text: "{ q1 }\nmutation B { m2 }", Invalid: "validation",
			Ops: []opDecl{{Name: "", Kind: "query", Field: "q1"}, {Name: "B", Kind: "mutation", Field: "m2"}}},
		// 5.2.1.1 operation name uniqueness
		&document{ID: "bad-duplicate-names", Text: "query A { q1 }\nmutation A { m2 }", Invalid: "validation",
			Ops: []opDecl{{Name: "A", Kind: "query", Field: "q1"}, {Name: "A", Kind: "mutation", Field: "m2"}}},
		// 5.2.3.1 single root field of subscriptions
		&document{ID: "bad-subscription-two-roots", Text: "subscription A { s1 count(n: 1) }", Invalid: "validation",
			Ops: []opDecl{{Name: "A", Kind: "subscription", Field: "s1"}}},
		// refused by a validation rule the application added (validator.AddRule), whose errors carry
		// the application's own extension code
		&document{ID: "bad-custom-rule", Text: "query A { zzforbidden: q1 }", Invalid: "validation", Ops: []opDecl{{Name: "A", Kind: "query", Field: "q1"}}},
		// no operation at all
		&document{ID: "bad-empty", Text: "", Invalid: "no-operation"},
		&document{ID: "bad-fragment-only", Text: "fragment F on Query { q1 }", Invalid: "no-operation"},
	)
	return docs
}

// nameChoices: operationName absent, each declared name, and a name no operation has.
func (d *document) nameChoices() []string {
	out := []string{""}
	seen := map[string]bool{"": true}
	for _, o := range d.Ops {
		if !seen[o.Name] {
			seen[o.Name] = true
			out = append(out, o.Name)
		}
	}
	return append(out, "Zzz")
}

// selectOperation is GetOperation(document, operationName) of the GraphQL spec (section 6.1).
func (d *document) selectOperation(name string) (*opDecl, string) {
	if d.Invalid != "" {
		return nil, "document fails " + d.Invalid
	}
	if name == "" {
		if len(d.Ops) == 1 {
			return &d.Ops[0], ""
		}
		return nil, "operationName absent and the document has several operations"
	}
	for i := range d.Ops {
		if d.Ops[i].Name == name {
			return &d.Ops[i], ""
		}
	}
	return nil, "no operation named " + name
}

// ---------------------------------------------------------------- Accept

type acceptValue struct {
	Name    string `json:"name"`
	Present bool   `json:"present"`
	Value   string `json:"value"`
}

var acceptValues = []acceptValue{
	{Name: "absent"},
	{Name: "any", Present: true, Value: "*/*"},
	{Name: "application-any", Present: true, Value: "application/*"},
	{Name: "json", Present: true, Value: "application/json"},
	{Name: "gqlresp", Present: true, Value: "application/graphql-response+json"},
	// the header the draft recommends clients to send
	{Name: "list-draft-recommended", Present: true, Value: "application/graphql-response+json, application/json;q=0.9"},
	{Name: "list-q-prefers-gqlresp", Present: true, Value: "application/json;q=0.5, application/graphql-response+json;q=0.9"},
	{Name: "list-json-q0", Present: true, Value: "application/json;q=0, application/graphql-response+json"},
	{Name: "garbage", Present: true, Value: ";;; not/a media=type ,, text/html;q=x"},
}

type mediaRange struct {
	typ, sub string
	q        float64
}

func parseAccept(v string) []mediaRange {
	var out []mediaRange
	for _, part := range strings.Split(v, ",") {
		mt, params, err := mime.ParseMediaType(strings.TrimSpace(part))
		if err != nil {
			continue // an unparsable element accepts nothing
		}
		ts := strings.SplitN(mt, "/", 2)
		if len(ts) != 2 {
			continue
		}
		q := 1.0
		if qs, ok := params["q"]; ok {
			f, err := strconv.ParseFloat(qs, 64)
			if err != nil || f < 0 || f > 1 {
				continue
			}
			q = f
		}
		out = append(out, mediaRange{ts[0], ts[1], q})
	}
	return out
}

// quality of a concrete media type under an Accept header: the most specific matching range wins.
func quality(rs []mediaRange, mt string) (float64, bool) {
	ts := strings.SplitN(mt, "/", 2)
	best, bestSpec, found := 0.0, -1, false
	for _, r := range rs {
		spec := -1
		switch {
		case r.typ == ts[0] && r.sub == ts[1]:
			spec = 2
		case r.typ == ts[0] && r.sub == "*":
			spec = 1
		case r.typ == "*" && r.sub == "*":
			spec = 0
		}
		if spec < 0 {
			continue
		}
		if spec > bestSpec || (spec == bestSpec && r.q > best) {
			best, bestSpec, found = r.q, spec, true
		}
	}
	return best, found
}

// negotiate returns the media types a server supporting `supported` may answer with.
func negotiate(a acceptValue, supported []string) (allowed []string, notAcceptableOK bool, why string) {
	if !a.Present {
		// draft: treat as application/json before the 2025-01-01 watershed, as
		// application/graphql-response+json after it; both are SHOULDs
		return supported, false, "no Accept header: either supported media type"
	}
	rs := parseAccept(a.Value)
	bestQ := 0.0
	for _, s := range supported {
		if q, ok := quality(rs, s); ok && q > bestQ {
			bestQ = q
		}
	}
	if bestQ == 0 {
		// draft: respond 406, or disregard Accept and use the default media type
		return supported, true, "Accept admits no supported media type: 406 or any supported type"
	}
	for _, s := range supported {
		if q, ok := quality(rs, s); ok && q == bestQ {
			allowed = append(allowed, s)
		}
	}
	return allowed, false, fmt.Sprintf("Accept %q: supported types with the highest quality %.3g", a.Value, bestQ)
}

// ---------------------------------------------------------------- ResponseHeaders

type rhSetting struct {
	Name    string              `json:"name"`
	Headers map[string][]string `json:"headers"`
}

func (r rhSetting) ct() (string, bool) {
	for k, v := range r.Headers {
		if strings.EqualFold(k, "Content-Type") && len(v) > 0 {
			return v[0], true
		}
	}
	return "", false
}

func (r rhSetting) hasCT() bool { _, ok := r.ct(); return ok }

var rhSettings = []rhSetting{
	{Name: "none"},
	{Name: "extra", Headers: map[string][]string{"X-Verif-Extra": {"1"}, "Cache-Control": {"no-store"}}},
	{Name: "ct-gqlresp", Headers: map[string][]string{"Content-Type": {ctGQLResp}}},
	{Name: "ct-json-charset", Headers: map[string][]string{"Content-Type": {"application/json; charset=utf-8"}, "X-Verif-Extra": {"2"}}},
	{Name: "ct-gqlresp-charset", Headers: map[string][]string{"Content-Type": {"application/graphql-response+json; charset=utf-8"}}},
	// header names are case-insensitive: a map literal may spell the key any way
	{Name: "ct-gqlresp-lower-case-key", Headers: map[string][]string{"content-type": {ctGQLResp}, "x-verif-extra": {"3"}}},
}

// ---------------------------------------------------------------- the specification function

type expectation struct {
	Transport  string   `json:"transport"`
	Negotiates bool     `json:"negotiates"`
	CTAllowed  []string `json:"content_types_allowed"`
	CTExact    bool     `json:"content_type_exact"` // configured value: compared as a string
	CTWhy      string   `json:"content_type_rule"`
	NotAccOK   bool     `json:"status_406_allowed"`
	Outcome    string   `json:"outcome"` // execute | refuse-client-error | refuse-get-non-query | refuse-no-transport
	OpName     string   `json:"operation"`
	Field      string   `json:"root_field,omitempty"`
	Why        string   `json:"why,omitempty"`
}

func mediaTypeOf(ct string) string {
	mt, _, err := mime.ParseMediaType(ct)
	if err != nil {
		return ""
	}
	return mt
}

func (e *expectation) ctAllowed(actual string) bool {
	for _, a := range e.CTAllowed {
		if e.CTExact {
			if a == actual {
				return true
			}
			continue
		}
		mt, params, err := mime.ParseMediaType(actual)
		if err != nil || mt != a {
			continue
		}
		ok := true
		for k, v := range params {
			if !(k == "charset" && strings.EqualFold(v, "utf-8")) {
				ok = false
			}
		}
		if ok {
			return true
		}
	}
	return false
}

// clientErrorStatus: the status "defined for the negotiated media type" for a document that fails
// parsing or validation (property statement): 422 for application/json, 400 for
// application/graphql-response+json. 0 = any 4xx (no media type, or one the property does not name).
func clientErrorStatus(mediaType string) int {
	switch mediaType {
	case ctJSON:
		return 422
	case ctGQLResp:
		return 400
	}
	return 0
}

var encTransport = map[string]string{
	"get": "get", "post-json": "post", "graphql-raw": "graphql", "form-json": "form", "form-raw": "form",
	"form-kv": "form", "multipart": "multipart",
}

func spec(c *kase) *expectation {
	e := &expectation{OpName: c.OpName}
	rh := rhSettings[c.RH]
	acc := acceptValues[c.Accept]
	both := []string{ctGQLResp, ctJSON}

	if strings.HasPrefix(c.Enc, "none-") {
		// No transport is registered for the method / request media type. The property still
		// demands a JSON GraphQL error with a negotiated Content-Type; transport-level
		// ResponseHeaders do not apply to handler.Server's own answer.
		e.Transport = "none"
		e.Negotiates = true
		e.CTAllowed, e.NotAccOK, e.CTWhy = negotiate(acc, both)
		if !e.NotAccOK && len(e.CTAllowed) == 1 {
			// the server has no per-transport configuration here; either JSON media type that the
			// client accepts at all is a faithful label for the error body
			e.CTAllowed, e.CTWhy = acceptable(acc, both), "no transport: any supported type acceptable to the client"
		}
		// handler.Server itself has no negotiation (that belongs to the transports, none of which
		// was selected): its generic JSON error labelled application/json is accepted too. The
		// property's negotiation clause is about responses produced by a transport.
		hasJSON := false
		for _, ct := range e.CTAllowed {
			if ct == ctJSON {
				hasJSON = true
			}
		}
		if !hasJSON {
			e.CTAllowed = append(e.CTAllowed, ctJSON)
			e.CTWhy += "; or application/json (the server's own transport-independent error)"
		}
		e.Outcome, e.Why = "refuse-no-transport", "no registered transport supports "+c.Enc
		return e
	}

	if strings.HasPrefix(c.Enc, "get-body") {
		e.Transport, e.Outcome, e.Why = "get", "get-with-body", "GET carrying a body: only queries may ever run"
		return e
	}
	e.Transport = encTransport[c.Enc]
	if strings.HasPrefix(c.Enc, "get-badparam-") {
		e.Transport = "get"
	}
	e.Negotiates = e.Transport == "get" || e.Transport == "post"

	// --- Content-Type
	switch v, ok := rh.ct(); {
	case ok:
		e.CTAllowed, e.CTExact, e.CTWhy = []string{v}, true, "configured ResponseHeaders Content-Type"
	case e.Negotiates:
		e.CTAllowed, e.NotAccOK, e.CTWhy = negotiate(acc, both)
	default:
		e.CTAllowed, e.CTWhy = []string{ctJSON}, "transport documented as application/json only"
	}

	// --- outcome
	op, why := c.Doc.selectOperation(c.OpName)
	switch {
	case strings.HasPrefix(c.Enc, "get-badparam-"):
		e.Outcome, e.Why = "refuse-bad-parameter", "the "+strings.TrimPrefix(c.Enc, "get-badparam-")+" parameter of the GET is not decodable JSON"
	case op == nil:
		e.Outcome, e.Why = "refuse-client-error", why
	case e.Transport == "get" && op.Kind != "query":
		e.Outcome, e.Why = "refuse-get-non-query", fmt.Sprintf("GET selects the %s %q", op.Kind, op.Name)
	default:
		e.Outcome, e.Field = "execute", op.Field
	}
	return e
}

// acceptable: supported types with q>0 under the header (all of them when none is).
func acceptable(a acceptValue, supported []string) []string {
	if !a.Present {
		return supported
	}
	rs := parseAccept(a.Value)
	var out []string
	for _, s := range supported {
		if q, ok := quality(rs, s); ok && q > 0 {
			out = append(out, s)
		}
	}
	if len(out) == 0 {
		return supported
	}
	return out
}
