// C09: HTTP: GET never mutates; status and content type follow the request outcome.
//
// A table-driven SPECIFICATION FUNCTION (spec.go), written from the property text, the
// GraphQL-over-HTTP draft and the transports' doc comments, maps
//
//	(request encoding, Accept, configured ResponseHeaders, document, operationName, APQ mode)
//	    -> (allowed Content-Types, outcome class, operation that executes | none, allowed statuses)
//
// The full product of those dimensions is enumerated (exhaustively on the thorough tier, a seeded
// tenth on the quick tier) against gqlgen's real handler.Server built over the `tx` server that the
// farm generated from the repository's current templates. Every operation of a document selects a
// distinct root field and every resolver logs into a per-request log carried in the request
// context, so the log says exactly which operation ran.
package main

import (
	"bytes"
	"context"
	"crypto/sha256"
	"encoding/hex"
	"encoding/json"
	"fmt"
	"hash/fnv"
	"mime/multipart"
	"net/http"
	"net/http/httptest"
	"net/url"
	"os"
	"runtime"
	"sort"
	"strings"
	"sync"
	"sync/atomic"
	"time"

	"github.com/99designs/gqlgen/graphql"
	"github.com/99designs/gqlgen/graphql/handler"
	"github.com/99designs/gqlgen/graphql/handler/extension"
	"github.com/99designs/gqlgen/graphql/handler/lru"
	"github.com/99designs/gqlgen/graphql/handler/transport"
	"github.com/vektah/gqlparser/v2/ast"
	"github.com/vektah/gqlparser/v2/gqlerror"
	"github.com/vektah/gqlparser/v2/validator"

	"verif/internal/ev"
	"verif/internal/sjson"
	"verif/internal/txharness"
	"verif/work/farm/cur/tx"
)

// ---------------------------------------------------------------- servers

var transportOrders = [][]string{
	// the order of the deprecated NewDefaultServer, then the remaining transports
	{"websocket", "options", "get", "post", "multipart", "graphql", "form", "sse", "mixed"},
	// exactly reversed
	{"mixed", "sse", "form", "graphql", "multipart", "post", "get", "options", "websocket"},
	// streaming transports first (the only order in which SSE / multipart-mixed are reachable)
	{"sse", "mixed", "post", "get", "form", "multipart", "graphql", "websocket", "options"},
}

// cloneHeaders gives every transport its own copy of the configured map: the specification function
// reads rhSettings, so nothing the server does to its configuration may leak into the oracle.
func cloneHeaders(h map[string][]string) map[string][]string {
	if h == nil {
		return nil
	}
	out := make(map[string][]string, len(h))
	for k, v := range h {
		out[k] = append([]string(nil), v...)
	}
	return out
}

func buildServer(rh0 rhSetting, order []string, pres int) *handler.Server {
	es := tx.NewExecutableSchema(tx.Config{Resolvers: txharness.Stub()})
	srv := handler.New(es)
	for _, n := range order {
		rh := rhSetting{Name: rh0.Name, Headers: cloneHeaders(rh0.Headers)}
		var t graphql.Transport
		switch n {
		case "websocket":
			t = transport.Websocket{KeepAlivePingInterval: 10 * time.Second}
		case "options":
			t = transport.Options{}
		case "get":
			t = transport.GET{ResponseHeaders: rh.Headers}
		case "post":
			t = transport.POST{ResponseHeaders: rh.Headers}
		case "graphql":
			t = transport.GRAPHQL{ResponseHeaders: rh.Headers}
		case "form":
			t = transport.UrlEncodedForm{ResponseHeaders: rh.Headers}
		case "multipart":
			t = transport.MultipartForm{ResponseHeaders: rh.Headers}
		case "sse":
			t = transport.SSE{}
		case "mixed":
			t = transport.MultipartMixed{}
		}
		srv.AddTransport(t)
	}
	srv.SetQueryCache(lru.New[*ast.QueryDocument](1000))
	srv.Use(extension.Introspection{})
	srv.Use(extension.AutomaticPersistedQuery{Cache: lru.New[string](4096)})
	srv.SetRecoverFunc(txharness.RecoverFunc)
	if pres == 1 {
		srv.SetErrorPresenter(func(ctx context.Context, err error) *gqlerror.Error {
			e := graphql.DefaultErrorPresenter(ctx, err)
			return &gqlerror.Error{Message: "masked: " + e.Message, Path: e.Path}
		})
	}
	return srv
}

// ---------------------------------------------------------------- request construction

func apqExt(text string) map[string]any {
	h := sha256.Sum256([]byte(text))
	return map[string]any{"persistedQuery": map[string]any{"version": 1, "sha256Hash": hex.EncodeToString(h[:])}}
}

func jsonParams(c *kase, alwaysQuery bool) []byte {
	m := map[string]any{}
	if c.APQ != "hash-only" {
		m["query"] = c.Doc.Text
	} else if alwaysQuery {
		m["query"] = ""
	}
	if c.OpName != "" {
		m["operationName"] = c.OpName
	}
	if c.APQ != "none" {
		m["extensions"] = apqExt(c.Doc.Text)
	}
	b, _ := json.Marshal(m)
	return b
}

// encodable: can the encoding express the case at all? (operationName cannot travel in a
// raw-document body, APQ needs an `extensions` parameter)
func encodable(c *kase) bool {
	switch c.Enc {
	case "graphql-raw", "form-raw":
		return c.OpName == "" && c.APQ == "none"
	case "form-kv":
		return c.APQ == "none"
	}
	return true
}

// buildRequest encodes the case as an HTTP request. ok=false when the encoding has no way to
// express the case (operationName on a raw-document body, APQ on encodings without extensions).
func buildRequest(c *kase) (*http.Request, bool) {
	var r *http.Request
	switch c.Enc {
	case "get":
		q := url.Values{}
		if c.APQ != "hash-only" {
			q.Set("query", c.Doc.Text)
		}
		if c.OpName != "" {
			q.Set("operationName", c.OpName)
		}
		if c.APQ != "none" {
			b, _ := json.Marshal(apqExt(c.Doc.Text))
			q.Set("extensions", string(b))
		}
		r = httptest.NewRequest("GET", "/graphql?"+q.Encode(), nil)
	case "get-badparam-variables", "get-badparam-extensions":
		q := url.Values{}
		q.Set("query", c.Doc.Text)
		if c.OpName != "" {
			q.Set("operationName", c.OpName)
		}
		q.Set(strings.TrimPrefix(c.Enc, "get-badparam-"), `{"persistedQuery":{"version":1,"sha256Hash":"abc`) // truncated JSON
		r = httptest.NewRequest("GET", "/graphql?"+q.Encode(), nil)
	case "post-json":
		r = httptest.NewRequest("POST", "/graphql", bytes.NewReader(jsonParams(c, false)))
		r.Header.Set("Content-Type", "application/json")
	case "form-json":
		// UrlEncodedForm's documented first body form: a JSON object (recognised by `"query":`)
		r = httptest.NewRequest("POST", "/graphql", bytes.NewReader(jsonParams(c, true)))
		r.Header.Set("Content-Type", "application/x-www-form-urlencoded")
	case "multipart":
		var buf bytes.Buffer
		mw := multipart.NewWriter(&buf)
		mw.WriteField("operations", string(jsonParams(c, false)))
		mw.WriteField("map", "{}")
		mw.Close()
		r = httptest.NewRequest("POST", "/graphql", &buf)
		r.Header.Set("Content-Type", mw.FormDataContentType())
	case "graphql-raw":
		if c.OpName != "" || c.APQ != "none" {
			return nil, false
		}
		r = httptest.NewRequest("POST", "/graphql", strings.NewReader(c.Doc.Text))
		r.Header.Set("Content-Type", "application/graphql")
	case "form-raw":
		// UrlEncodedForm's third documented body form: `query=` followed by the plain document
		if c.OpName != "" || c.APQ != "none" {
			return nil, false
		}
		r = httptest.NewRequest("POST", "/graphql", strings.NewReader("query="+c.Doc.Text))
		r.Header.Set("Content-Type", "application/x-www-form-urlencoded")
	case "form-kv":
		// what the media type application/x-www-form-urlencoded itself defines: percent-encoded pairs
		if c.APQ != "none" {
			return nil, false
		}
		q := url.Values{}
		q.Set("query", c.Doc.Text)
		if c.OpName != "" {
			q.Set("operationName", c.OpName)
		}
		r = httptest.NewRequest("POST", "/graphql", strings.NewReader(q.Encode()))
		r.Header.Set("Content-Type", "application/x-www-form-urlencoded")
	case "get-body-json", "get-body-gqljson", "get-body-graphql", "get-body-form", "get-body-json+url":
		// an HTTP GET that carries a body (legal, unusual): whatever transport claims it, a GET
		// must never execute anything but a query
		ct := map[string]string{"get-body-json": "application/json", "get-body-gqljson": "application/graphql+json",
			"get-body-graphql": "application/graphql", "get-body-form": "application/x-www-form-urlencoded", "get-body-json+url": "application/json"}[c.Enc]
		target := "/graphql"
		if c.Enc == "get-body-json+url" {
			target += "?query=" + url.QueryEscape("{ q1 }")
		}
		var body []byte
		switch c.Enc {
		case "get-body-graphql":
			body = []byte(c.Doc.Text)
		case "get-body-form":
			body = jsonParams(c, true)
		default:
			body = jsonParams(c, false)
		}
		r = httptest.NewRequest("GET", target, bytes.NewReader(body))
		r.Header.Set("Content-Type", ct)
	case "none-put-json", "none-delete", "none-patch-json":
		m := map[string]string{"none-put-json": "PUT", "none-delete": "DELETE", "none-patch-json": "PATCH"}[c.Enc]
		r = httptest.NewRequest(m, "/graphql", bytes.NewReader(jsonParams(c, false)))
		r.Header.Set("Content-Type", "application/json")
	case "none-post-text":
		r = httptest.NewRequest("POST", "/graphql", bytes.NewReader(jsonParams(c, false)))
		r.Header.Set("Content-Type", "text/plain")
	case "none-post-noct":
		r = httptest.NewRequest("POST", "/graphql", bytes.NewReader(jsonParams(c, false)))
	default:
		return nil, false
	}
	if a := acceptValues[c.Accept]; a.Present {
		r.Header.Set("Accept", a.Value)
	}
	return r, true
}

// ---------------------------------------------------------------- cases

type kase struct {
	Doc    *document `json:"doc"`
	OpName string    `json:"operation_name"`
	Enc    string    `json:"encoding"`
	Accept int       `json:"accept_index"`
	RH     int       `json:"response_headers_index"`
	Order  int       `json:"transport_order_index"`
	APQ    string    `json:"apq"`
	// Pres: 0 = default error presenter, 1 = a presenter that replaces every error by a fresh,
	// sanitised one (no extensions), as services that hide internals do
	Pres int `json:"presenter_index"`
}

func (c *kase) key() string {
	k := fmt.Sprintf("%s|%s|%s|a%d|h%d|o%d|%s", c.Doc.ID, c.OpName, c.Enc, c.Accept, c.RH, c.Order, c.APQ)
	if c.Pres != 0 {
		k += fmt.Sprintf("|p%d", c.Pres)
	}
	return k
}

var productEncodings = []string{"get", "post-json", "graphql-raw", "form-json", "form-raw", "form-kv", "multipart"}
var getBodyEncodings = []string{"get-body-json", "get-body-gqljson", "get-body-graphql", "get-body-form", "get-body-json+url"}
var noTransportEncodings = []string{"none-put-json", "none-delete", "none-patch-json", "none-post-text", "none-post-noct"}
var apqModes = []string{"none", "register", "hash-only"}

func allCases() []*kase {
	var out []*kase
	docs := allDocuments()
	for _, d := range docs {
		for _, name := range d.nameChoices() {
			for _, enc := range productEncodings {
				for _, apq := range apqModes {
					if apq != "none" && d.Text == "" {
						continue
					}
					for a := range acceptValues {
						for h := range rhSettings {
							for o := range transportOrders {
								c := &kase{Doc: d, OpName: name, Enc: enc, Accept: a, RH: h, Order: o, APQ: apq}
								if encodable(c) {
									out = append(out, c)
									cp := *c
									cp.Pres = 1
									out = append(out, &cp)
								}
							}
						}
					}
				}
			}
		}
	}
	// GET requests with a body
	for _, d := range docs {
		if d.Text == "" {
			continue
		}
		for _, name := range d.nameChoices() {
			for _, enc := range getBodyEncodings {
				if (enc == "get-body-graphql") && name != "" {
					continue
				}
				for h := range rhSettings {
					for o := range transportOrders {
						out = append(out, &kase{Doc: d, OpName: name, Enc: enc, Accept: 0, RH: h, Order: o, APQ: "none"})
					}
				}
			}
		}
	}
	// GET requests whose `variables` / `extensions` parameter cannot be decoded: refused, whatever
	// the (otherwise fine) document is
	for _, d := range docs {
		if d.Text == "" {
			continue
		}
		for _, name := range d.nameChoices() {
			for _, enc := range []string{"get-badparam-variables", "get-badparam-extensions"} {
				for _, a := range []int{0, 1} {
					for h := range rhSettings {
						out = append(out, &kase{Doc: d, OpName: name, Enc: enc, Accept: a % len(acceptValues), RH: h, Order: 0, APQ: "none"})
					}
				}
			}
		}
	}
	// requests that no registered transport supports (answered by handler.Server itself)
	for _, d := range docs[:3] {
		for _, enc := range noTransportEncodings {
			for a := range acceptValues {
				for h := range rhSettings {
					for o := range transportOrders {
						out = append(out, &kase{Doc: d, Enc: enc, Accept: a, RH: h, Order: o, APQ: "none"})
					}
				}
			}
		}
	}
	return out
}

// ---------------------------------------------------------------- running and judging

type observation struct {
	Status  int         `json:"status"`
	Header  http.Header `json:"header"`
	Body    string      `json:"body"`
	Fields  []string    `json:"resolver_log"`
	Recover int         `json:"recover_calls"`
}

func run(srv *handler.Server, c *kase) *observation {
	r, _ := buildRequest(c)
	log := &txharness.ReqLog{ID: c.key(), Oneshot: true}
	r = r.WithContext(txharness.With(context.Background(), log))
	rec := httptest.NewRecorder()
	srv.ServeHTTP(rec, r)
	res := rec.Result()
	return &observation{Status: res.StatusCode, Header: res.Header, Body: rec.Body.String(), Fields: log.Fields(), Recover: len(log.Recovers())}
}

type problem struct{ Sig, Why string }

var queryFields = map[string]bool{"q1": true, "q2": true, "q3": true}

func judge(c *kase, e *expectation, o *observation) []problem {
	var ps []problem
	add := func(sig, f string, a ...any) { ps = append(ps, problem{sig, fmt.Sprintf(f, a...)}) }
	tr := e.Transport

	// (1) GET never runs a non-query resolver — stated first and independently of everything else
	if strings.HasPrefix(c.Enc, "get") {
		for _, f := range o.Fields {
			if !queryFields[f] {
				add("get-ran-non-query:"+c.APQ, "GET request ran resolver %q", f)
			}
		}
	}
	// (2) no resolver for a non-2xx answer; an executed request is answered 200
	if (o.Status < 200 || o.Status > 299) && len(o.Fields) > 0 {
		add("non-2xx-but-resolver-ran:"+tr, "status %d but resolver log %v", o.Status, o.Fields)
	}
	if len(o.Fields) > 0 && o.Status != 200 {
		add("executed-but-not-200:"+tr, "resolver log %v but status %d", o.Fields, o.Status)
	}
	if o.Recover > 0 {
		add("recover-hook-fired:"+tr, "RecoverFunc invoked %d times although no resolver panics", o.Recover)
	}
	if e.Outcome == "get-with-body" {
		return ps // only the rules above are stated for this unusual request shape
	}
	// (3) the body is a JSON GraphQL response
	body, hasData, hasErrors, berr := txharness.GraphQLBody([]byte(o.Body))
	if berr != nil && c.Doc.ID == "S-no-events" {
		// an event stream without events has no result to report: any response object will do
		if v, perr := sjson.Parse([]byte(o.Body)); perr == nil && v.Kind == sjson.Object && (v.Get("data") != nil || v.Get("errors") != nil) {
			berr = nil
		}
	}
	if berr != nil {
		sig := "body-not-graphql-response:" + tr
		if c.Doc.ID == "S-no-events" && o.Body == "null" && len(o.Fields) == 1 {
			sig = "subscription-without-events-null-body"
		}
		add(sig, "%v", berr)
	}
	// (4) Content-Type is the negotiated one
	cts := o.Header.Values("Content-Type")
	actualCT := ""
	if len(cts) > 1 {
		add("content-type-repeated:"+tr, "%d Content-Type header values: %v", len(cts), cts)
	} else if len(cts) == 1 {
		actualCT = cts[0]
	}
	if len(cts) <= 1 && !e.ctAllowed(actualCT) {
		add(ctSignature(c, e, actualCT), "Content-Type %q, the specification allows %v (%s)", actualCT, e.CTAllowed, e.CTWhy)
	}
	for k, vs := range rhSettings[c.RH].Headers {
		if strings.EqualFold(k, "Content-Type") || strings.HasPrefix(c.Enc, "none-") {
			continue
		}
		if got := o.Header.Values(k); strings.Join(got, "|") != strings.Join(vs, "|") {
			add("configured-header-missing:"+tr, "configured response header %s=%v, got %v", k, vs, got)
		}
	}
	// (5) outcome
	mt := mediaTypeOf(actualCT)
	if e.NotAccOK && o.Status == http.StatusNotAcceptable && len(o.Fields) == 0 {
		return ps // nothing the client accepts is supported: 406 is a permitted answer
	}
	switch e.Outcome {
	case "execute":
		if o.Status != 200 {
			add(executeSignature(c, e, o), "valid request naming operation %q (root field %s) answered %d: %s", e.OpName, e.Field, o.Status, clip(o.Body))
		}
		if len(o.Fields) != 1 || o.Fields[0] != e.Field {
			if !(o.Status != 200 && len(o.Fields) == 0) { // already reported above
				add("wrong-operation-executed:"+tr, "expected exactly resolver %s to run, log %v", e.Field, o.Fields)
			}
		} else if berr == nil && (!hasData || body.Get("data").Get(e.Field) == nil) && c.Doc.ID != "S-no-events" {
			add("executed-but-no-data:"+tr, "resolver %s ran but data.%s is missing: %s", e.Field, e.Field, clip(o.Body))
		}
	case "refuse-client-error":
		want := clientErrorStatus(mt)
		if len(o.Fields) > 0 {
			add("refused-document-executed:"+tr, "%s: resolver log %v", e.Why, o.Fields)
		}
		if berr == nil && !hasErrors {
			add("refusal-without-errors:"+tr, "%s: no errors in %s", e.Why, clip(o.Body))
		}
		switch {
		case want == 0:
			if o.Status < 400 || o.Status > 499 {
				add("client-error-status:"+tr, "%s: status %d is not a client error", e.Why, o.Status)
			}
		case o.Status != want:
			add(statusSignature(c, e, o, mt, want), "%s: status %d, the client-error status for %s is %d", e.Why, o.Status, mt, want)
		}
	case "refuse-get-non-query", "refuse-no-transport", "refuse-bad-parameter":
		if len(o.Fields) > 0 {
			add("refused-request-executed:"+tr, "%s: resolver log %v", e.Why, o.Fields)
		}
		if o.Status < 400 || o.Status > 499 {
			add("refusal-status:"+tr, "%s: status %d is not a 4xx refusal", e.Why, o.Status)
		}
		if berr == nil && !hasErrors {
			add("refusal-without-errors:"+tr, "%s: no errors in %s", e.Why, clip(o.Body))
		}
	}
	return ps
}

func clip(s string) string {
	if len(s) > 300 {
		return s[:300] + "..."
	}
	return s
}

// Signatures of the disagreement classes between the specification function and the code that
// were found while building this check (reported; see known_findings.txt). Anything that does not
// match one of these narrow predicates gets a generic signature and can never be hidden by them.
func ctSignature(c *kase, e *expectation, actual string) string {
	rh := rhSettings[c.RH]
	// no Content-Type was set by gqlgen: absent (explicit WriteHeader) or sniffed by net/http
	missing := actual == "" || actual == "text/plain; charset=utf-8"
	if strings.HasPrefix(c.Enc, "none-") && missing {
		return "content-type-missing-no-transport"
	}
	if !e.Negotiates && rh.Name == "extra" && missing {
		return "content-type-missing-with-extra-headers"
	}
	if e.Negotiates && !rh.hasCT() && actual == ctJSON {
		switch acceptValues[c.Accept].Name {
		case "list-q-prefers-gqlresp", "list-json-q0":
			return "accept-q-values-ignored"
		}
	}
	return "content-type-not-negotiated:" + e.Transport
}

func statusSignature(c *kase, e *expectation, o *observation, mt string, want int) string {
	rh := rhSettings[c.RH]
	if mt == ctGQLResp && want == 400 && o.Status == 422 && rh.hasCT() {
		if !e.Negotiates {
			return "gqlresp-configured-status-422-non-negotiating-transport"
		}
		if rh.Name == "ct-gqlresp-charset" {
			return "gqlresp-with-parameter-status-422"
		}
	}
	return "client-error-status:" + e.Transport
}

// formKVUndecoded: UrlEncodedForm only percent-decodes bodies that start with `query=%7B` and then
// decodes the whole body as one string, so a standard form body works only for an anonymous
// `{`-document without operationName.
func formKVUndecoded(c *kase) bool {
	return !strings.HasPrefix(c.Doc.Text, "{") || c.OpName != ""
}

func executeSignature(c *kase, e *expectation, o *observation) string {
	if c.Enc == "form-kv" && formKVUndecoded(c) && (o.Status == 422 || o.Status == 400) && len(o.Fields) == 0 {
		return "urlencoded-form-body-not-decoded"
	}
	return "valid-request-not-200:" + e.Transport
}

// ---------------------------------------------------------------- main

func pick(seed int64, key string) uint64 {
	h := fnv.New64a()
	fmt.Fprintf(h, "%d|%s", seed, key)
	return h.Sum64()
}

func init() {
	// an application-defined validation rule: selections aliased zzforbidden are not allowed
	validator.AddRule("VerifNoForbiddenAlias", func(observers *validator.Events, addError validator.AddErrFunc) {
		observers.OnField(func(walker *validator.Walker, field *ast.Field) {
			if field.Alias == "zzforbidden" {
				addError(validator.Message("alias zzforbidden is not allowed"), validator.At(field.Position),
					func(err *gqlerror.Error) { err.Extensions = map[string]any{"code": "VERIF_FORBIDDEN_ALIAS"} })
			}
		})
	})
}

func main() {
	rep := ev.New("C09", "exploration")
	rep.Rule = "cases = product of (document of 1-3 operations over query/mutation/subscription with distinct root fields, plus anonymous and invalid documents) x operationName (absent, each name, unknown) x 7 request encodings x 9 Accept values x 6 ResponseHeaders settings x 3 transport registration orders x 2 error presenters (default, sanitising) x APQ mode (inline, register, hash-only); every case is judged against the specification function. A case is non-trivial when it is not the plain single-query/no-Accept/no-ResponseHeaders request, i.e. it exercises operation selection, GET refusal, an invalid document, negotiation or configured headers; distinct = distinct case keys among those"
	rep.Assumptions = []string{
		"specification function written from the property text, the GraphQL-over-HTTP draft and the transports' doc comments; media types compared without parameters; where the draft leaves a choice (no Accept header, */*, nothing acceptable) every permitted answer is accepted",
		"client-error status: 422 for application/json, 400 for application/graphql-response+json (property statement); the refusal of a non-query over GET may use any 4xx (the draft says 405, gqlgen answers 406; the property only says 'refused')",
		"GRAPHQL, UrlEncodedForm and MultipartForm are specified by their doc comments as application/json-only transports (no Accept negotiation)",
		"requests are delivered through net/http/httptest.ResponseRecorder into handler.Server.ServeHTTP; header values are read from the recorder's snapshot taken at the first write",
	}
	seed := ev.Seed()
	cases := allCases()
	total := len(cases)
	if r := os.Getenv("VERIF_REPLAY"); r != "" {
		os.Exit(doReplay(rep, r, cases))
	}
	exhaustive := ev.Tier() == "thorough"
	if !exhaustive {
		sel := cases[:0:0]
		for _, c := range cases {
			if pick(seed, c.key())%10 == 0 || strings.HasPrefix(c.Enc, "get-body") {
				sel = append(sel, c)
			}
		}
		cases = sel
	}
	rep.Exhaustive(exhaustive)
	rep.Set("product_size", total)
	rep.Set("accept_values", acceptValues)
	rep.Set("response_header_settings", rhNames())
	rep.Set("transport_orders", transportOrders)

	servers := map[[3]int]*handler.Server{}
	for h := range rhSettings {
		for o := range transportOrders {
			for pr := 0; pr < 2; pr++ {
				servers[[3]int{h, o, pr}] = buildServer(rhSettings[h], transportOrders[o], pr)
			}
		}
	}
	// prime every server's APQ cache so that hash-only cases are independent of case order
	for _, srv := range servers {
		for _, d := range allDocuments() {
			if d.Text == "" {
				continue
			}
			run(srv, &kase{Doc: d, Enc: "post-json", APQ: "register"})
		}
	}

	var evals, idx atomic.Int64
	var wg sync.WaitGroup
	workers := runtime.NumCPU()
	for w := 0; w < workers; w++ {
		wg.Add(1)
		go func() {
			defer wg.Done()
			for {
				i := int(idx.Add(1)) - 1
				if i >= len(cases) {
					return
				}
				c := cases[i]
				e := spec(c)
				o := run(servers[[3]int{c.RH, c.Order, c.Pres}], c)
				evals.Add(1)
				account(rep, c, e, o)
				for _, p := range judge(c, e, o) {
					rep.Count("disagreement:"+p.Sig, 1)
					rep.Violate(p.Sig, map[string]any{"case": c, "why": p.Why, "expected": e, "observed": o,
						"accept": acceptValues[c.Accept], "response_headers": rhSettings[c.RH], "transport_order": transportOrders[c.Order]})
				}
			}
		}()
	}
	wg.Wait()
	evals.Add(int64(fidelity(rep)))
	if n := len(txharness.Orphan.Fields()); n > 0 {
		rep.Inconclusive(fmt.Sprintf("%d resolver invocations carried no request log in their context (harness assumption broken)", n))
	}
	rep.Set("recover_calls_total", txharness.TotalRecovers.Load())
	os.Exit(rep.Finish(evals.Load(), int64(rep.DistinctLen("nontrivial_cases"))))
}

func account(rep *ev.Reporter, c *kase, e *expectation, o *observation) {
	rep.Count("requests_"+e.Transport, 1)
	rep.Count("encoding_"+c.Enc, 1)
	rep.Count(fmt.Sprintf("status_%d", o.Status), 1)
	rep.Count("outcome_expected_"+e.Outcome, 1)
	rep.Count("apq_"+c.APQ, 1)
	rep.Count("content_type_"+o.Header.Get("Content-Type"), 1)
	rep.Count("resolver_events", int64(len(o.Fields)))
	if c.Enc == "get" && e.Outcome == "refuse-get-non-query" {
		rep.Count("get_non_query_selected", 1)
		rep.Count(fmt.Sprintf("get_non_query_refusal_status_%d", o.Status), 1)
		rep.Distinct("get_non_query_cases", c.Doc.ID+"|"+c.OpName+"|"+c.APQ)
	}
	if len(c.Doc.Ops) > 1 {
		rep.Count("multi_operation_documents", 1)
	}
	if c.Doc.Invalid != "" {
		rep.Count("invalid_document_"+c.Doc.Invalid, 1)
	}
	rep.Distinct("documents", c.Doc.ID)
	rep.Distinct("doc_x_operation_name", c.Doc.ID+"|"+c.OpName)
	trivial := len(c.Doc.Ops) == 1 && c.Doc.Ops[0].Kind == "query" && c.OpName == "" && c.Doc.Invalid == "" &&
		!acceptValues[c.Accept].Present && rhSettings[c.RH].Name == "none" && c.APQ == "none"
	if !trivial {
		rep.Distinct("nontrivial_cases", c.key())
	}
	if c.Doc.Invalid == "" && len(c.Doc.Ops) == 3 && c.Enc == "get" {
		rep.Sample(map[string]any{"case": c, "expected": e, "status": o.Status, "content_type": o.Header.Get("Content-Type"), "resolver_log": o.Fields, "body": clip(o.Body)})
	}
}

func rhNames() []string {
	var n []string
	for _, r := range rhSettings {
		n = append(n, r.Name)
	}
	sort.Strings(n)
	return n
}

// fidelity: whatever encoding carries the request, the string a client sends as a variable or as a
// literal is the string the resolver gets (query { echo(s:) } answers its argument). The strings
// hold characters that are special in the encodings themselves ('+', '%XX', '&', ';', '=').
func fidelity(rep *ev.Reporter) int {
	srv := buildServer(rhSettings[0], transportOrders[0], 0)
	values := []string{"1+1=2", "100%41", "a%2Bb", "path/%7Bid%7D C++", "x&y=z;w", "%", "+", "é%C3%A9", "a b"}
	n := 0
	for _, v := range values {
		lit, _ := json.Marshal(v)
		for _, enc := range []string{"get", "post-json", "form-json", "multipart", "graphql-raw", "get-literal", "post-literal"} {
			var r *http.Request
			varBody, _ := json.Marshal(map[string]any{"query": "query($s: String) { echo(s: $s) }", "variables": map[string]any{"s": v}})
			litQuery := "{ echo(s: " + string(lit) + ") }"
			switch enc {
			case "get":
				q := url.Values{}
				q.Set("query", "query($s: String) { echo(s: $s) }")
				vb, _ := json.Marshal(map[string]any{"s": v})
				q.Set("variables", string(vb))
				r = httptest.NewRequest("GET", "/graphql?"+q.Encode(), nil)
			case "get-literal":
				q := url.Values{}
				q.Set("query", litQuery)
				r = httptest.NewRequest("GET", "/graphql?"+q.Encode(), nil)
			case "post-json":
				r = httptest.NewRequest("POST", "/graphql", bytes.NewReader(varBody))
				r.Header.Set("Content-Type", "application/json")
			case "post-literal":
				b, _ := json.Marshal(map[string]any{"query": litQuery})
				r = httptest.NewRequest("POST", "/graphql", bytes.NewReader(b))
				r.Header.Set("Content-Type", "application/json")
			case "form-json":
				r = httptest.NewRequest("POST", "/graphql", bytes.NewReader(varBody))
				r.Header.Set("Content-Type", "application/x-www-form-urlencoded")
			case "multipart":
				var buf bytes.Buffer
				mw := multipart.NewWriter(&buf)
				mw.WriteField("operations", string(varBody))
				mw.WriteField("map", "{}")
				mw.Close()
				r = httptest.NewRequest("POST", "/graphql", &buf)
				r.Header.Set("Content-Type", mw.FormDataContentType())
			case "graphql-raw":
				r = httptest.NewRequest("POST", "/graphql", strings.NewReader(litQuery))
				r.Header.Set("Content-Type", "application/graphql")
			}
			log := &txharness.ReqLog{ID: "fidelity|" + enc + "|" + v, Oneshot: true}
			r = r.WithContext(txharness.With(context.Background(), log))
			rec := httptest.NewRecorder()
			srv.ServeHTTP(rec, r)
			n++
			rep.Count("fidelity_requests", 1)
			rep.Count("fidelity_encoding_"+enc, 1)
			body, _ := sjson.Parse(rec.Body.Bytes())
			var got *sjson.Value
			if body != nil && body.Kind == sjson.Object && body.Get("data") != nil && body.Get("data").Kind == sjson.Object {
				got = body.Get("data").Get("echo")
			}
			if rec.Code != 200 || got == nil || got.Kind != sjson.String || got.Str != v {
				sig := "string-changed-in-transit:" + enc
				if enc == "form-json" && formJSONUndecodable(v) {
					sig = "urlencoded-form-body-not-decoded"
				}
				rep.Violate(sig, map[string]any{"why": fmt.Sprintf("the client sent the string %q (%s), the resolver's echo is %s (status %d)", v, enc, clip(rec.Body.String()), rec.Code),
					"encoding": enc, "value": v})
			}
		}
	}
	// numbers: an Int / ID variable given as a JSON number arrives as that number with every encoding
	// that carries variables (the answer is the one the JSON POST gives)
	for _, nv := range []int{7, 0, 12} {
		query := "query($n: Int!, $id: ID!) { big(n: $n) item(id: $id) { id } }"
		vars := map[string]any{"n": nv, "id": nv + 1}
		varBody, _ := json.Marshal(map[string]any{"query": query, "variables": vars})
		ref := ""
		for _, enc := range []string{"post-json", "get", "multipart"} {
			var r *http.Request
			switch enc {
			case "get":
				q := url.Values{}
				q.Set("query", query)
				vb, _ := json.Marshal(vars)
				q.Set("variables", string(vb))
				r = httptest.NewRequest("GET", "/graphql?"+q.Encode(), nil)
			case "post-json":
				r = httptest.NewRequest("POST", "/graphql", bytes.NewReader(varBody))
				r.Header.Set("Content-Type", "application/json")
			case "multipart":
				var buf bytes.Buffer
				mw := multipart.NewWriter(&buf)
				mw.WriteField("operations", string(varBody))
				mw.WriteField("map", "{}")
				mw.Close()
				r = httptest.NewRequest("POST", "/graphql", &buf)
				r.Header.Set("Content-Type", mw.FormDataContentType())
			}
			log := &txharness.ReqLog{ID: fmt.Sprintf("fidelity-number|%s|%d", enc, nv), Oneshot: true}
			r = r.WithContext(txharness.With(context.Background(), log))
			rec := httptest.NewRecorder()
			srv.ServeHTTP(rec, r)
			n++
			rep.Count("fidelity_requests", 1)
			rep.Count("fidelity_number_encoding_"+enc, 1)
			body := rec.Body.String()
			if enc == "post-json" {
				ref = body
				if rec.Code != 200 || strings.Contains(body, `"errors"`) || !strings.Contains(body, `"big"`) {
					rep.Violate("number-variable-refused:"+enc, map[string]any{"why": "numeric variables over a JSON POST are not answered with data: " + clip(body), "variables": vars})
				}
				continue
			}
			if rec.Code != 200 || body != ref {
				rep.Violate("number-changed-in-transit:"+enc, map[string]any{"why": fmt.Sprintf("the same operation with numeric variables %v is answered differently over %s (status %d): %s; JSON POST: %s", vars, enc, rec.Code, clip(body), clip(ref)),
					"encoding": enc, "variables": vars})
			}
		}
	}
	return n
}

// formJSONUndecodable: the recorded finding about UrlEncodedForm (it url-decodes a JSON body as a
// whole, or not at all) also changes strings inside such a body that contain '+' or '%XX'.
func formJSONUndecodable(v string) bool { return strings.ContainsAny(v, "+%") }

func doReplay(rep *ev.Reporter, path string, cases []*kase) int {
	b, err := os.ReadFile(path)
	if err != nil {
		fmt.Println("replay:", err)
		return 2
	}
	var f struct {
		Detail struct {
			Case struct {
				Doc struct {
					ID string `json:"id"`
				} `json:"doc"`
				OpName string `json:"operation_name"`
				Enc    string `json:"encoding"`
				Accept int    `json:"accept_index"`
				RH     int    `json:"response_headers_index"`
				Order  int    `json:"transport_order_index"`
				APQ    string `json:"apq"`
				Pres   int    `json:"presenter_index"`
			} `json:"case"`
		} `json:"detail"`
	}
	if err := json.Unmarshal(b, &f); err != nil {
		fmt.Println("replay:", err)
		return 2
	}
	k := f.Detail.Case
	for _, c := range cases {
		if c.Doc.ID == k.Doc.ID && c.OpName == k.OpName && c.Enc == k.Enc && c.Accept == k.Accept && c.RH == k.RH && c.Order == k.Order && c.APQ == k.APQ && c.Pres == k.Pres {
			srv := buildServer(rhSettings[c.RH], transportOrders[c.Order], c.Pres)
			if c.APQ == "hash-only" {
				run(srv, &kase{Doc: c.Doc, Enc: "post-json", APQ: "register"})
			}
			e := spec(c)
			o := run(srv, c)
			ob, _ := json.MarshalIndent(map[string]any{"expected": e, "observed": o}, "", " ")
			fmt.Println(string(ob))
			for _, p := range judge(c, e, o) {
				rep.Violate(p.Sig, map[string]any{"case": c, "why": p.Why, "expected": e, "observed": o})
			}
			return rep.Finish(1, 2)
		}
	}
	fmt.Println("replay: case not found in the product")
	return 2
}
