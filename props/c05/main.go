// C05: operations terminate and leave nothing running, even when cancelled mid-flight.
// Part 1 (direct executor, child process per probe): cancellation-point enumeration. For every
// operation the fault-free reference lists the resolver invocation points; one run per point
// cancels the request context inside that resolver call (a logical point, not a timed one), plus
// "never cancelled" and "cancelled before dispatch"; worker_limit 0/1/2/8 via the farm configs,
// list fan-out, with and without @defer. Oracles: invocation accounting + goroutine dumps:
//   - termination: if the response function has not returned while no resolver is inside user
//     code, two identical dumps of parked gqlgen/generated goroutines = stable blocked state;
//   - no leak: after the request ended and its context is cancelled, no goroutine with a
//     generated-package or gqlgen/graphql frame exists at quiescence.
//
// Part 2: the same over real HTTP transports (POST, GET, SSE, multipart/mixed) and websocket
// with client disconnects.
package main

import (
	"bufio"
	"bytes"
	"context"
	"encoding/json"
	"fmt"
	"io"
	"net"
	"net/http"
	"net/http/httptest"
	"net/url"
	"os"
	"os/exec"
	"sort"
	"strconv"
	"strings"
	"sync"
	"time"

	"github.com/99designs/gqlgen/graphql/handler"
	"github.com/99designs/gqlgen/graphql/handler/transport"
	"github.com/gorilla/websocket"
	"github.com/vektah/gqlparser/v2/ast"
	"github.com/vektah/gqlparser/v2/parser"
	"github.com/vektah/gqlparser/v2/validator"

	"verif/internal/diffrun"
	"verif/internal/drive"
	"verif/internal/ev"
	"verif/internal/gdump"
	"verif/internal/opgen"
	"verif/internal/ref"
	"verif/internal/univ"
	"verif/work/farm/cur/registry"
)

var patterns = []string{"verif/work/farm/cur/", "github.com/99designs/gqlgen/graphql"}
var exclude = []string{"verif/props/c05.runDirect", "verif/props/c05.child"}

type childResult struct {
	Counts     map[string]int64 `json:"counts"`
	Distinct   []string         `json:"distinct"`
	Violations []violation      `json:"violations"`
	Inconcl    []string         `json:"inconclusive"`
	Samples    []map[string]any `json:"samples"`
	Evals      int64            `json:"evals"`
}

type violation struct {
	Sig    string         `json:"sig"`
	Detail map[string]any `json:"detail"`
}

var listTemplates = []string{
	`{ as(n: 3) { vid rs bo { vid rs } } }`,
	`{ an { rblnn { vid rs d { nn } } rbl { vid rs } } }`,
	`{ nodes { vid ... on A { rs rbln { rs } } ... on B { rs al { vid ri } } } }`,
	`{ an { vid ... @defer { rs bo { vid ... @defer(label: "in") { rs } } ri } } }`,
	`{ as(n: 2) { vid ... @defer(label: "g") { rs rbl { vid ... @defer { rs } } } } }`,
	`{ an { rbll { vid rs } us { __typename ... on A { rs } ... on B { rs } } } }`,
	`mutation { m1 { vid rbl { rs } } m2 { rs rblnn { vid rs } } }`,
}

func main() {
	if len(os.Args) > 1 && os.Args[1] == "child" {
		child(os.Args[2], os.Args[3])
		return
	}
	rep := ev.New("C05", "fault_enumeration")
	rep.Rule = "per (probe/config, operation): the fault-free reference enumerates the resolver invocation points; one run per point cancels the request context inside that call (complete enumeration per operation) plus never-cancelled and cancelled-before-dispatch; then transport runs with client disconnects. distinct_nontrivial = distinct (probe, operation, cancellation point) triples whose cancellation point was actually reached, plus distinct transport scenarios"
	rep.Assumptions = []string{
		"resolvers return promptly on cancellation (the universal resolver never blocks); 'bounded time' is decided as 'no stable blocked state': two identical goroutine dumps of parked gqlgen/generated goroutines while no resolver is inside user code",
		"wall-clock only bounds how long the monitor waits before taking dumps; a watchdog without stable-blocked evidence is reported as inconclusive",
		"leak check: goroutines with a frame in the generated farm packages or github.com/99designs/gqlgen/graphql, after the request ended and its context was cancelled",
	}
	var names []string
	for n := range registry.Probes {
		if strings.HasPrefix(n, "core_") || strings.HasPrefix(n, "rnd_") || strings.HasPrefix(n, "bound") {
			names = append(names, n)
		}
	}
	sort.Strings(names)
	if len(names) == 0 {
		rep.Inconclusive("no core probe generated and compiled on this tree")
		os.Exit(rep.Finish(0, 0))
	}
	self, _ := os.Executable()
	os.MkdirAll(ev.Root+"/work/tmp", 0o755)
	var wg sync.WaitGroup
	sem := make(chan struct{}, 10)
	var mu sync.Mutex
	var evals int64
	jobs := append([]string{}, names...)
	jobs = append(jobs, "transport:core_c0", "transport:core_c1", "transport:core_c3")
	for _, job := range jobs {
		wg.Add(1)
		go func(job string) {
			defer wg.Done()
			sem <- struct{}{}
			defer func() { <-sem }()
			base := fmt.Sprintf("%s/work/tmp/c05-%s-%d", ev.Root, strings.ReplaceAll(job, ":", "_"), os.Getpid())
			defer os.Remove(base + ".json")
			defer os.Remove(base + ".log")
			cmd := exec.Command(self, "child", job, base+".json")
			lf, _ := os.Create(base + ".log")
			cmd.Stdout, cmd.Stderr = lf, lf
			err := cmd.Start()
			if err == nil {
				waited := make(chan error, 1)
				go func() { waited <- cmd.Wait() }()
				select {
				case err = <-waited:
				case <-time.After(20 * time.Minute): // generous: a quick child takes seconds
					cmd.Process.Kill()
					<-waited
					lf.Close()
					rep.Inconclusive("worker for " + job + " did not finish within its watchdog")
					return
				}
			}
			lf.Close()
			b, rerr := os.ReadFile(base + ".json")
			if err != nil || rerr != nil {
				tail, _ := os.ReadFile(base + ".log")
				if len(tail) > 6000 {
					tail = tail[len(tail)-6000:]
				}
				rep.Violate("", map[string]any{"why": "worker process died", "job": job, "error": fmt.Sprint(err), "output_tail": string(tail)})
				return
			}
			var cr childResult
			json.Unmarshal(b, &cr)
			for k, v := range cr.Counts {
				rep.Count(k, v)
			}
			for _, d := range cr.Distinct {
				rep.Distinct("reached_points", d)
			}
			for _, v := range cr.Violations {
				rep.Violate(v.Sig, v.Detail)
			}
			for _, s := range cr.Inconcl {
				rep.Inconclusive(s)
			}
			for _, s := range cr.Samples {
				rep.Sample(s)
			}
			mu.Lock()
			evals += cr.Evals
			mu.Unlock()
		}(job)
	}
	wg.Wait()
	rep.Set("jobs", jobs)
	os.Exit(rep.Finish(evals, int64(rep.DistinctLen("reached_points"))))
}

type worker struct {
	cr     *childResult
	name   string
	env    *univ.Env
	srv    *drive.Server
	ignore map[int64]bool // goroutines already reported as hung / leaked
	wl     string
	// planWrap, when set, wraps the plan of the next direct run
	planWrap func(*univ.SeedPlan) univ.Plan
	// hung: goroutines of the last HTTP case that kept its response open although every resolver
	// had returned and the client was still connected
	hung []gdump.G
}

func (w *worker) count(k string, n int64) { w.cr.Counts[k] += n }

// running decides survivors that are not in a stable blocked state: goroutines that exist at every
// poll of a 10 s window after the request ended (all resolvers returned, context cancelled) are
// reported as running leaks; if they all went away in the meantime the check was only early.
// Returns true when the case has been decided (violation recorded or clean).
func (w *worker) running(gs []gdump.G, exclude []string, where string, detail map[string]any) bool {
	left := gdump.Persisting(gs, patterns, exclude, 10*time.Second, 500*time.Millisecond)
	if len(left) == 0 {
		w.count("late_but_clean_leak_checks", 1)
		return true
	}
	for _, g := range left {
		w.ignore[g.ID] = true
	}
	detail["why"] = "goroutines started for the request keep running 10 s after it ended (" + where + "): not blocked, present in every dump"
	detail["goroutines"] = dumpText(left)
	detail["probe"] = w.name
	w.cr.Violations = append(w.cr.Violations, violation{"running-" + leakSig(left) + "-after-" + where, detail})
	w.count("running_leaks_observed", 1)
	return true
}

func child(job, outPath string) {
	cr := &childResult{Counts: map[string]int64{}}
	defer func() {
		b, _ := json.Marshal(cr)
		os.WriteFile(outPath, b, 0o644)
	}()
	if strings.HasPrefix(job, "transport:") {
		name := strings.TrimPrefix(job, "transport:")
		pf, ok := registry.Probes[name]
		if !ok {
			cr.Inconcl = append(cr.Inconcl, "probe unavailable: "+name)
			return
		}
		env := univ.Bind(pf(), func(e *univ.Env) {
			// ticks(n: N) emits N events
			e.StreamCount = func(k univ.Key) int {
				var a map[string]any
				if json.Unmarshal([]byte(k.Args), &a) == nil {
					if f, ok := a["n"].(float64); ok && f > 0 {
						return int(f)
					}
				}
				return 3
			}
		})
		w := &worker{cr: cr, name: name, env: env, ignore: map[int64]bool{}, wl: fmt.Sprint(env.Probe.Options["worker_limit"])}
		w.transports()
		return
	}
	env := univ.Bind(registry.Probes[job]())
	w := &worker{cr: cr, name: job, env: env, srv: drive.NewServer(env), ignore: map[int64]bool{}, wl: fmt.Sprint(env.Probe.Options["worker_limit"])}
	seed := ev.Seed()
	nRandom := ev.Pick(4, 80)
	type opT struct {
		op  *opgen.Op
		doc *ast.QueryDocument
	}
	var ops []opT
	for _, t := range listTemplates {
		doc, perr := parser.ParseQuery(&ast.Source{Input: t})
		if perr != nil || len(validator.Validate(env.Schema, doc)) > 0 {
			w.count("template_rejected", 1)
			continue
		}
		ops = append(ops, opT{&opgen.Op{Query: t, Kind: "template"}, doc})
	}
	for i := 0; i < nRandom; i++ {
		kind := ast.Query
		if i%4 == 3 {
			kind = ast.Mutation
		}
		op, doc, _ := diffrun.GenValid(env.Schema, seed*1100003+int64(i), kind, opgen.Config{MaxDepth: 3, MaxSel: 4, Defer: i%2 == 0, DeferProb: 0.5})
		if doc != nil {
			ops = append(ops, opT{op, doc})
		}
	}
	omit, _ := env.Probe.Options["nullable_input_omittable"].(bool)
	for oi, o := range ops {
		vars := diffrun.DecodeVars(o.op.Vars)
		base := univ.SeedPlan{Seed: uint64(seed)*31 + uint64(oi), MaxList: 3, NullPermille: 20}
		if ev.Seed()%2 == 0 {
			base.SchedMode = 1
		}
		clean := ref.Execute(env, &base, o.doc, o.op.OpName, diffrun.CopyJSON(vars), ref.Options{Omittable: omit})
		if clean.RequestError != "" {
			continue
		}
		points := append([]string{"<never>", "<before-dispatch>"}, uniq(clean.Invocations)...)
		w.count("operations", 1)
		w.count("cancellation_points_enumerated", int64(len(points)))
		for _, pt := range points {
			w.runDirect(o.op, vars, base, pt)
		}
	}
	w.rogueLists()
}

// roguePlan makes the union list A.us long and fills it with values of a Go type the generated
// type switch does not know: marshalling such an element panics at the level of the list element
// (not inside a field), which is where the list fan-out keeps its own bookkeeping (WaitGroup,
// worker_limit semaphore).
type roguePlan struct {
	*univ.SeedPlan
	n, rogues int
}

func (r roguePlan) ListLen(k univ.Key, pos string) int {
	if k.Field == "us" && pos == "" {
		return r.n
	}
	return r.SeedPlan.ListLen(k, pos)
}

func (r roguePlan) Null(k univ.Key, pos string) bool {
	if k.Field == "us" {
		return false
	}
	return r.SeedPlan.Null(k, pos)
}

func (r roguePlan) Rogue(k univ.Key, pos string) bool {
	if k.Field != "us" || pos == "" {
		return false
	}
	i, err := strconv.Atoi(strings.TrimPrefix(pos, "/"))
	return err == nil && i < r.rogues
}

// rogueLists: lists with more panicking elements than worker slots, then healthy ones.
func (w *worker) rogueLists() {
	const q = `{ an { vid us { __typename ... on A { vid } ... on B { vid } } } }`
	doc, perr := parser.ParseQuery(&ast.Source{Input: q})
	if perr != nil || len(validator.Validate(w.env.Schema, doc)) > 0 {
		w.count("rogue_template_rejected", 1)
		return
	}
	for _, shape := range [][2]int{{2, 1}, {4, 3}, {12, 10}, {40, 36}} {
		for _, pt := range []string{"<never>", "<before-dispatch>"} {
			w.planWrap = func(p *univ.SeedPlan) univ.Plan { return roguePlan{p, shape[0], shape[1]} }
			before := w.cr.Counts["terminated"]
			w.runDirect(&opgen.Op{Query: q}, nil, univ.SeedPlan{Seed: uint64(ev.Seed()) + uint64(shape[0]), MaxList: 2}, pt)
			w.planWrap = nil
			if w.cr.Counts["terminated"] > before {
				w.count("rogue_list_runs_terminated", 1)
			}
			w.count(fmt.Sprintf("rogue_list_runs_len_%d_rogues_%d", shape[0], shape[1]), 1)
		}
	}
}

func uniq(in []string) []string {
	seen := map[string]bool{}
	var out []string
	for _, s := range in {
		if !seen[s] {
			seen[s] = true
			out = append(out, s)
		}
	}
	return out
}

func dumpText(gs []gdump.G) string {
	var sb strings.Builder
	for _, g := range gs {
		sb.WriteString(g.Text)
		sb.WriteString("\n\n")
	}
	s := sb.String()
	if len(s) > 12000 {
		s = s[:12000] + "\n...(truncated)"
	}
	return s
}

func hangSig(gs []gdump.G) string {
	for _, g := range gs {
		for _, f := range g.Frames {
			if strings.Contains(f, "sync.(*WaitGroup).Wait") {
				return "hang-waitgroup-in-list-marshal-after-cancel"
			}
		}
	}
	for _, g := range gs {
		if strings.HasPrefix(g.State, "chan send") {
			return "hang-chan-send"
		}
	}
	return "hang"
}

func leakSig(gs []gdump.G) string {
	for _, g := range gs {
		for _, f := range g.Frames {
			if strings.Contains(f, "processDeferredGroup") {
				return "leak-deferred-group-goroutine"
			}
		}
	}
	return "leak"
}

func (w *worker) runDirect(op *opgen.Op, vars map[string]any, base univ.SeedPlan, pt string) {
	if w.cr.Counts["hangs_observed"] >= 4 {
		// enough positive evidence of a hang in this configuration; every further hanging case would
		// only cost another watchdog period
		w.count("cases_skipped_after_repeated_hangs", 1)
		return
	}
	p := base
	ctx, cancel := context.WithCancel(context.Background())
	defer cancel()
	run := &univ.Run{Plan: &p, Cancel: cancel}
	if w.planWrap != nil {
		run.Plan = w.planWrap(&p)
	}
	switch pt {
	case "<never>":
	case "<before-dispatch>":
		cancel()
	default:
		p.CancelAt = map[string]bool{pt: true}
	}
	cid := map[string]any{"probe": w.name, "query": op.Query, "variables": op.Vars, "plan": p, "cancel_point": pt, "worker_limit": w.wl}
	got := w.srv.Run(ctx, run, op.Query, op.OpName, diffrun.CopyJSON(vars), 4*time.Second)
	w.cr.Evals++
	reached := pt == "<never>" || pt == "<before-dispatch>"
	for _, e := range run.Events() {
		k := univ.Key{Object: e.Object, Vid: e.Vid, Field: e.Field, Args: e.Args}
		if e.Kind == "resolver" && k.String() == pt {
			reached = true
		}
	}
	if reached {
		w.cr.Distinct = append(w.cr.Distinct, fmt.Sprintf("%s|%s|%s", w.name, op.Query, pt))
		w.count("points_reached_worker_limit_"+w.wl, 1)
	}
	if strings.Contains(op.Query, "@defer") {
		w.count("runs_with_defer", 1)
	}
	if got.TimedOut {
		// termination oracle: every resolver returned, yet the response function has not
		for i := 0; i < 200 && run.Open() > 0; i++ {
			time.Sleep(10 * time.Millisecond)
		}
		if run.Open() > 0 {
			w.cr.Inconcl = append(w.cr.Inconcl, "watchdog fired while a resolver was still inside user code")
			return
		}
		gs, stable := gdump.WaitGone(patterns, nil, w.ignore, 0, time.Second)
		if len(gs) > 0 && stable {
			for _, g := range gs {
				w.ignore[g.ID] = true
			}
			w.cr.Violations = append(w.cr.Violations, violation{hangSig(gs), map[string]any{"case": cid,
				"why":             "every resolver returned but the response function never did: stable blocked state in gqlgen/generated frames",
				"resolver_events": len(run.Events()), "goroutines": dumpText(gs)}})
			w.count("hangs_observed", 1)
		} else if len(gs) > 0 {
			w.cr.Inconcl = append(w.cr.Inconcl, "watchdog fired without a stable blocked state: "+op.Query)
		}
		return
	}
	w.count("terminated", 1)
	cancel()
	gs, stable := gdump.WaitGone(patterns, exclude, w.ignore, 1500*time.Millisecond, 500*time.Millisecond)
	if len(gs) > 0 {
		if !stable {
			w.running(gs, exclude, "direct-run", map[string]any{"case": cid})
			return
		}
		for _, g := range gs {
			w.ignore[g.ID] = true
		}
		w.cr.Violations = append(w.cr.Violations, violation{leakSig(gs), map[string]any{"case": cid,
			"why": "goroutines started on behalf of the request are still alive after it ended and its context was cancelled", "goroutines": dumpText(gs)}})
		w.count("leaks_observed", 1)
		return
	}
	w.count("leak_checks_clean", 1)
	if len(w.cr.Samples) < 1 && pt != "<never>" && pt != "<before-dispatch>" {
		w.cr.Samples = append(w.cr.Samples, map[string]any{"probe": w.name, "query": op.Query, "cancel_point": pt, "worker_limit": w.wl,
			"resolver_events": len(run.Events()), "payloads": len(got.Payloads)})
	}
}

// ---------------------------------------------------------------------------------------------
// transports

var runs sync.Map // X-Run header -> *univ.Run
var wsN int

func (w *worker) transports() {
	h := handler.New(w.env.ES)
	h.AddTransport(transport.Websocket{KeepAlivePingInterval: 5 * time.Millisecond, InitTimeout: 60 * time.Millisecond, Upgrader: websocket.Upgrader{CheckOrigin: func(*http.Request) bool { return true }}})
	// optional tickers of the streaming transports: a keep-alive ping for SSE, and (every second
	// worker) a multipart flush interval far longer than any request, so that a goroutine that only
	// looks at its stop signal when the ticker fires outlives the request visibly
	h.AddTransport(transport.SSE{KeepAlivePingInterval: 3 * time.Millisecond})
	mm := transport.MultipartMixed{}
	if w.name != "core_c0" {
		mm.DeliveryTimeout = time.Hour
	}
	h.AddTransport(mm)
	h.AddTransport(transport.GET{})
	h.AddTransport(transport.POST{})
	wrapped := http.HandlerFunc(func(rw http.ResponseWriter, r *http.Request) {
		if id := r.Header.Get("X-Run"); id != "" {
			if v, ok := runs.Load(id); ok {
				ctx, cancel := context.WithCancel(r.Context())
				defer cancel()
				run := v.(*univ.Run)
				run.Cancel = cancel
				r = r.WithContext(univ.WithRun(ctx, run))
			}
		}
		h.ServeHTTP(rw, r)
	})
	ts := httptest.NewServer(wrapped)
	// Close waits for outstanding handlers; one that hangs (a finding) must not hang the worker
	defer func() {
		done := make(chan struct{})
		go func() { ts.CloseClientConnections(); ts.Close(); close(done) }()
		select {
		case <-done:
		case <-time.After(5 * time.Second):
		}
	}()
	queries := []string{
		`{ an { vid rs bo { vid rs } } }`,
		`{ as(n: 3) { vid rs rbl { vid rs } } }`,
		`{ an { vid ... @defer { rs bo { vid ... @defer(label: "in") { rs } } ri } } }`,
		`{ as(n: 2) { vid ... @defer(label: "g") { rs rbl { vid ... @defer { rs } } } } }`,
		// objects that carry deferred groups AND non-null fields that may fail (every other round
		// injects resolver errors and panics): an object nulled by its own field must not leave the
		// response waiting for groups that were counted but never started
		`{ an { vid rsn ... @defer { rs ri } bn { vid ... @defer(label: "b") { rs } } } }`,
		`{ as(n: 3) { rsn ... @defer { rs } rblnn { vid ... @defer { rs a { rsn ... @defer { ri } } } } } }`,
		// a list of a type nested (two levels down) inside a list of the same type: with a worker limit
		// the inner lists need workers while the outer elements hold theirs
		`{ as(n: 3) { vid rbl { vid al { vid rs rbl { vid } } } } }`,
		// requests the transport refuses before any execution: whatever it set up for the response
		// (tickers, aggregators) must be torn down on these paths too
		`{ nosuchfield }`,
		`!{"query": "{ an { vid }", "variables": 5`,
		`!`,
		// a panic while a payload is serialized (custom scalar marshaler) unwinds the transport on the
		// handler's goroutine: what the transport started for the response must still be torn down
		`{ scalar xboom(b: "mpanic:1") }`,
		`{ scalar ... @defer { xboom(b: "mpanic:7") } }`,
	}
	n := 0
	rounds := ev.Pick(3, 40)
	for round := 0; round < rounds; round++ {
		for qi, q := range queries {
			for _, tr := range []string{"post", "get", "sse", "mixed"} {
				for _, mode := range []string{"complete", "disconnect", "server-cancel"} {
					n++
					p := &univ.SeedPlan{Seed: uint64(ev.Seed())*977 + uint64(n), MaxList: 3, SchedMode: 2}
					if round%2 == 1 {
						p.ErrPermille, p.PanPermille = 250, 60
					}
					run := &univ.Run{Plan: p}
					id := fmt.Sprint("r", n)
					runs.Store(id, run)
					if mode == "server-cancel" && strings.Contains(q, "mpanic") {
						runs.Delete(id)
						continue
					}
					if mode == "server-cancel" {
						// cancel inside the first resolver that is not a root field
						clean := ref.Execute(w.env, p, mustParse(q), "", nil, ref.Options{})
						if len(clean.Invocations) > 1 {
							p.CancelAt = map[string]bool{clean.Invocations[len(clean.Invocations)/2]: true}
						}
					}
					if w.cr.Counts["transport_hangs_observed"] >= 3 {
						w.count("cases_skipped_after_repeated_hangs", 1)
						runs.Delete(id)
						continue
					}
					w.hung = nil
					timedOut := w.httpCase(ts.URL, id, q, tr, mode)
					if timedOut && len(w.hung) > 0 {
						for _, g := range w.hung {
							w.ignore[g.ID] = true
						}
						w.cr.Violations = append(w.cr.Violations, violation{hangSig(w.hung) + "-over-" + tr, map[string]any{
							"why": "every resolver returned and the client stayed connected, but the " + tr + " response never finished (" + mode + "): the goroutines serving it persist", "probe": w.name, "query": q, "goroutines": dumpText(w.hung)}})
						w.count("transport_hangs_observed", 1)
						runs.Delete(id)
						w.cr.Evals++
						continue
					}
					if timedOut {
						// the response did not finish: if no resolver is inside user code and the handler is
						// parked in gqlgen/generated frames twice in a row, it never will
						for i := 0; i < 200 && run.Open() > 0; i++ {
							time.Sleep(10 * time.Millisecond)
						}
						gs, stable := gdump.WaitGone(patterns, nil, w.ignore, 0, time.Second)
						if run.Open() == 0 && len(gs) > 0 && stable {
							for _, g := range gs {
								w.ignore[g.ID] = true
							}
							w.cr.Violations = append(w.cr.Violations, violation{hangSig(gs) + "-over-" + tr, map[string]any{
								"why": "every resolver returned but the " + tr + " response never finished (" + mode + "): stable blocked state in gqlgen/generated frames", "probe": w.name, "query": q, "goroutines": dumpText(gs)}})
							w.count("transport_hangs_observed", 1)
						} else {
							w.cr.Inconcl = append(w.cr.Inconcl, "transport watchdog fired without a stable blocked state ("+tr+", "+mode+")")
						}
						runs.Delete(id)
						w.cr.Evals++
						continue
					}
					runs.Delete(id)
					w.cr.Evals++
					w.cr.Distinct = append(w.cr.Distinct, fmt.Sprintf("transport|%s|%d|%s|%s", w.name, qi, tr, mode))
					w.count("transport_"+tr+"_"+mode, 1)
					// the request is over (client got everything or hung up): nothing may stay
					gs, stable := gdump.WaitGone(patterns, []string{"net/http.(*conn).serve", "httptest"}, w.ignore, 2*time.Second, 500*time.Millisecond)
					if len(gs) > 0 && stable {
						for _, g := range gs {
							w.ignore[g.ID] = true
						}
						w.cr.Violations = append(w.cr.Violations, violation{leakSig(gs) + "-after-" + trClass(tr), map[string]any{
							"why": "goroutines started for the request are still alive after the " + tr + " request ended (" + mode + ")", "probe": w.name, "query": q, "goroutines": dumpText(gs)}})
						w.count("transport_leaks_observed", 1)
					} else if len(gs) > 0 {
						w.running(gs, []string{"net/http.(*conn).serve", "httptest"}, trClass(tr), map[string]any{"query": q, "mode": mode})
					} else {
						w.count("transport_leak_checks_clean", 1)
					}
				}
			}
		}
		w.wsCase(ts.URL, round)
	}
}

func trClass(tr string) string {
	if tr == "post" || tr == "get" {
		return "single-payload-transport"
	}
	return "streaming-transport"
}

func mustParse(q string) *ast.QueryDocument {
	d, _ := parser.ParseQuery(&ast.Source{Input: q})
	return d
}

// httpCase sends one request over a raw TCP connection so that "disconnect" really closes it.
// httpCase returns true when the server did not finish the response within the watchdog.
func (w *worker) httpCase(base, id, q, tr, mode string) bool {
	u, _ := url.Parse(base)
	conn, err := net.DialTimeout("tcp", u.Host, 5*time.Second)
	if err != nil {
		w.cr.Inconcl = append(w.cr.Inconcl, "dial: "+err.Error())
		return false
	}
	defer conn.Close()
	body, _ := json.Marshal(map[string]any{"query": q})
	if strings.HasPrefix(q, "!") {
		body = []byte(q[1:]) // raw (malformed) body
	}
	var req bytes.Buffer
	switch tr {
	case "get":
		fmt.Fprintf(&req, "GET /?query=%s HTTP/1.1\r\nHost: x\r\nX-Run: %s\r\nConnection: close\r\n\r\n", url.QueryEscape(q), id)
	default:
		accept := "application/json"
		if tr == "sse" {
			accept = "text/event-stream"
		}
		if tr == "mixed" {
			accept = "multipart/mixed"
		}
		fmt.Fprintf(&req, "POST / HTTP/1.1\r\nHost: x\r\nX-Run: %s\r\nContent-Type: application/json\r\nAccept: %s\r\nConnection: close\r\nContent-Length: %d\r\n\r\n%s", id, accept, len(body), body)
	}
	conn.Write(req.Bytes())
	conn.SetReadDeadline(time.Now().Add(8 * time.Second))
	if mode == "disconnect" {
		// read the status line only, then hang up
		br := bufio.NewReader(conn)
		br.ReadString('\n')
		conn.Close()
		return false
	}
	n, rerr := io.Copy(io.Discard, conn)
	w.count("transport_bytes_read", n)
	if ne, ok := rerr.(net.Error); ok && ne.Timeout() {
		// The client is still connected and nothing cancelled the request. If no resolver is inside
		// user code and the goroutines serving this response exist at every look for 3 more seconds,
		// gqlgen alone keeps the response open (a blocked handler next to a keep-alive / flush
		// ticker never gives one stable picture: WaitGone cannot decide that).
		if v, ok := runs.Load(id); ok {
			run := v.(*univ.Run)
			for i := 0; i < 200 && run.Open() > 0; i++ {
				time.Sleep(10 * time.Millisecond)
			}
			if run.Open() == 0 {
				var cur []gdump.G
				for _, g := range gdump.Match(gdump.All(), patterns, nil) {
					if !w.ignore[g.ID] {
						cur = append(cur, g)
					}
				}
				w.hung = gdump.Persisting(cur, patterns, nil, 3*time.Second, 100*time.Millisecond)
			}
		}
		return true
	}
	return false
}

func (w *worker) wsCase(base string, round int) {
	for _, proto := range []string{"graphql-ws", "graphql-transport-ws"} {
		for _, mode := range []string{"client-complete", "abrupt-close", "let-it-end", "silent-until-init-timeout", "server-close-in-flight", "server-close-in-flight", "server-close-in-flight", "subscription-directive-null", "subscription-directive-error"} {
			d := websocket.Dialer{Subprotocols: []string{proto}}
			var hdr http.Header
			if mode == "subscription-directive-error" {
				// the operation directive of the subscription refuses with an error
				wsN++
				id := fmt.Sprint("ws", wsN)
				runs.Store(id, &univ.Run{Plan: &univ.SeedPlan{Seed: uint64(wsN), MaxList: 2, ForceDir: map[string]int{`|opd,"x"`: 1}}})
				defer runs.Delete(id)
				hdr = http.Header{"X-Run": []string{id}}
			}
			if mode == "subscription-directive-null" {
				// the operation directive of the subscription answers (nil, nil) instead of calling next:
				// there is no event stream to serve, the operation must end at once
				wsN++
				id := fmt.Sprint("ws", wsN)
				runs.Store(id, &univ.Run{Plan: &univ.SeedPlan{Seed: uint64(wsN), MaxList: 2, ForceDir: map[string]int{`|opd,"x"`: 2}}})
				defer runs.Delete(id)
				hdr = http.Header{"X-Run": []string{id}}
			}
			if mode == "server-close-in-flight" {
				// resolvers of the payload in flight take a few ms to wind down after the cancellation
				wsN++
				id := fmt.Sprint("ws", wsN)
				runs.Store(id, &univ.Run{Plan: &univ.SeedPlan{Seed: uint64(ev.Seed())*31 + uint64(wsN), MaxList: 3, SchedMode: 5}})
				defer runs.Delete(id)
				hdr = http.Header{"X-Run": []string{id}}
			}
			c, _, err := d.Dial("ws"+strings.TrimPrefix(base, "http"), hdr)
			if err != nil {
				w.cr.Inconcl = append(w.cr.Inconcl, "ws dial: "+err.Error())
				return
			}
			if mode == "silent-until-init-timeout" {
				// the client never sends connection_init: the server must give up, close, and leave
				// no goroutine of this connection behind
				c.SetReadDeadline(time.Now().Add(10 * time.Second))
				for {
					if _, _, err := c.ReadMessage(); err != nil {
						break
					}
				}
				c.Close()
				w.cr.Evals++
				w.count("ws_"+proto+"_"+mode, 1)
				w.cr.Distinct = append(w.cr.Distinct, fmt.Sprintf("ws|%s|%s|%s", w.name, proto, mode))
				gs, stable := gdump.WaitGone(patterns, []string{"net/http.(*conn).serve"}, w.ignore, 3*time.Second, 500*time.Millisecond)
				if len(gs) > 0 && stable {
					for _, g := range gs {
						w.ignore[g.ID] = true
					}
					w.cr.Violations = append(w.cr.Violations, violation{"leak-after-websocket-" + mode, map[string]any{
						"why": "goroutines of a websocket connection are still alive after the init timeout closed it (" + proto + ")", "probe": w.name, "goroutines": dumpText(gs)}})
				} else if len(gs) > 0 {
					w.running(gs, []string{"net/http.(*conn).serve"}, "websocket-"+mode, map[string]any{"protocol": proto})
				} else {
					w.count("ws_leak_checks_clean", 1)
				}
				continue
			}
			c.WriteJSON(map[string]any{"type": "connection_init"})
			start := "start"
			if proto == "graphql-transport-ws" {
				start = "subscribe"
			}
			sub := `subscription { ticks(n: 2) { vid rs } }`
			if mode == "server-close-in-flight" {
				sub = `subscription { ticks(n: 500) { vid rs bo { vid rs } } }`
			}
			if mode == "subscription-directive-null" || mode == "subscription-directive-error" {
				sub = `subscription @opd(tag: "x") { ticks(n: 2) { vid } }`
			}
			c.WriteJSON(map[string]any{"type": start, "id": "1", "payload": map[string]any{"query": sub}})
			c.SetReadDeadline(time.Now().Add(10 * time.Second))
			got := 0
			for i := 0; i < 20; i++ {
				var m map[string]any
				if err := c.ReadJSON(&m); err != nil {
					break
				}
				t, _ := m["type"].(string)
				if t == "data" || t == "next" {
					got++
					if mode == "client-complete" {
						stop := "stop"
						if proto == "graphql-transport-ws" {
							stop = "complete"
						}
						c.WriteJSON(map[string]any{"type": stop, "id": "1"})
						break
					}
					if mode == "abrupt-close" {
						break
					}
					if mode == "server-close-in-flight" && got == 1 {
						// make the server close the connection from its read loop while the operation is
						// still running: legacy protocol's connection_terminate / a message the protocol
						// does not know
						if proto == "graphql-ws" {
							c.WriteJSON(map[string]any{"type": "connection_terminate"})
						} else {
							c.WriteJSON(map[string]any{"type": "bogus"})
						}
					}
				}
				if t == "complete" {
					break
				}
			}
			if mode == "abrupt-close" {
				c.UnderlyingConn().Close()
			} else {
				c.WriteMessage(websocket.CloseMessage, websocket.FormatCloseMessage(websocket.CloseNormalClosure, ""))
				c.Close()
			}
			w.cr.Evals++
			w.count("ws_"+proto+"_"+mode, 1)
			w.count("ws_payloads_received", int64(got))
			w.cr.Distinct = append(w.cr.Distinct, fmt.Sprintf("ws|%s|%s|%s", w.name, proto, mode))
			gs, stable := gdump.WaitGone(patterns, []string{"net/http.(*conn).serve"}, w.ignore, 3*time.Second, 500*time.Millisecond)
			if len(gs) > 0 && stable {
				for _, g := range gs {
					w.ignore[g.ID] = true
				}
				w.cr.Violations = append(w.cr.Violations, violation{"leak-after-websocket-" + mode, map[string]any{
					"why": "goroutines of a websocket connection are still alive after it was closed (" + mode + ", " + proto + ")", "probe": w.name, "goroutines": dumpText(gs)}})
			} else if len(gs) > 0 {
				w.running(gs, []string{"net/http.(*conn).serve"}, "websocket-"+mode, map[string]any{"protocol": proto})
			} else {
				w.count("ws_leak_checks_clean", 1)
			}
		}
	}
}
