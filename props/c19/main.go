// C19: regeneration never loses user-written resolver code.
//
// For each seeded case: a seeded schema S0 (2-3 schema files) + gqlgen.yml (resolver layout
// single-file | follow-schema, resolvers in a sub package | in the exec package) is generated with
// /repo's current generator (work/bin/gendrv); a seeded "user edit" pass rewrites the fresh
// resolver files (bodies with nested braces, string / raw-string / rune literals holding braces,
// quotes and "*/", comments, closures, labels, multi-line composite literals; doc comments; named
// results; helper declarations; aliased / dot / blank imports) and is verified to compile; the
// schema is evolved 1-3 times (add / remove / rename field, add / remove type, move a field into an
// `extend type` block of another schema file, reorder) with a regeneration after each step and one
// more regeneration without a change. After every regeneration the files before and after are
// compared with go/parser:
//
//   - every resolver method whose field still exists keeps body, doc text and result names;
//   - every user import that the regenerated file still needs is still imported;
//   - the source text of every other declaration of the input files is present in the output
//     (live, or inside the trailing "!!! WARNING !!!" block);
//   - every output file parses;
//   - files with only resolver methods + a change that only added fields: `go build` still passes.
package main

import (
	"bytes"
	"context"
	"crypto/sha256"
	"encoding/hex"
	"encoding/json"
	"fmt"
	"go/format"
	"math/rand"
	"os"
	"os/exec"
	"os/signal"
	"path/filepath"
	"regexp"
	"sort"
	"strings"
	"sync"
	"syscall"
	"time"

	"verif/internal/ev"
)

const (
	sigTerminator   = "leftover-block-contains-comment-terminator"
	sigRepeatedImp  = "repeated-blank-or-dot-import-dropped"
	sigReservedImp  = "import-clashing-with-template-reserved-import-dropped"
	sigSuffixImp    = "import-alias-that-is-suffix-of-its-path-dropped"
	sigMovedImp     = "moved-resolver-import-not-carried"
	sigBackslashDoc = "doc-comment-leading-backslash-trimmed"
	sigScaffold     = "modified-scaffold-declaration-overwritten"
)

const (
	quickCases    = 30
	thoroughCases = 470
)

type caseSpec struct {
	Idx    int    `json:"case_index"`
	Layout string `json:"layout"` // single | follow
	SubPkg bool   `json:"sub_package"`
	// OmitTemplateComment sets resolver.omit_template_comment (documented option): hand-written doc
	// comments must survive regeneration under it as well
	OmitTemplateComment bool       `json:"omit_template_comment"`
	Opts                editOpts   `json:"edit_options"`
	Steps               [][]string `json:"steps"` // evolution kinds per step
}

type runner struct {
	rep     *ev.Reporter
	base    string // work/gen/c19/r<pid>
	gocache string
	seed    int64
	mu      sync.Mutex
	evals   int64
}

func buildCases(seed int64, n int) []caseSpec {
	var out []caseSpec
	for i := 0; i < n; i++ {
		r := rand.New(rand.NewSource(seed*7_000_003 + int64(i)*101 + 17))
		c := caseSpec{Idx: i}
		if i%2 == 0 {
			c.Layout = "follow"
		} else {
			c.Layout = "single"
		}
		c.SubPkg = (i/2)%2 == 0
		c.OmitTemplateComment = i%5 == 2
		c.Opts.Pure = i%3 == 0
		if !c.Opts.Pure {
			c.Opts.TermHelpers = r.Intn(100) < 18
		}
		// classes that run into already reported import / doc defects: kept rare so that the
		// majority of cases exercises every oracle to the end
		c.Opts.RepeatedBlank = r.Intn(100) < 7
		c.Opts.RepeatedDot = r.Intn(100) < 5
		c.Opts.ReservedClash = r.Intn(100) < 7
		c.Opts.SuffixAlias = r.Intn(100) < 6
		c.Opts.BackslashDoc = r.Intn(100) < 8
		c.Opts.StructFields = c.Layout == "single" && !c.Opts.Pure && r.Intn(100) < 40
		c.Opts.ScaffoldEdit = !c.Opts.Pure && r.Intn(100) < 8
		c.Opts.GroupScaffold = !c.Opts.Pure && !c.Opts.ScaffoldEdit && r.Intn(100) < 20
		nSteps := 1 + r.Intn(3)
		for s := 0; s < nSteps; s++ {
			var kinds []string
			if c.Opts.Pure && s == 0 {
				kinds = []string{"add_field"}
				if r.Intn(2) == 0 {
					kinds = append(kinds, "add_field")
				}
			} else {
				kinds = []string{evoKinds[(i+s*3)%len(evoKinds)]}
				if r.Intn(100) < 35 {
					kinds = append(kinds, evoKinds[r.Intn(len(evoKinds))])
				}
			}
			c.Steps = append(c.Steps, kinds)
		}
		out = append(out, c)
	}
	return out
}

func main() {
	rep := ev.New("C19", "exploration")
	rep.Rule = "evaluation = one regeneration (api.Generate of the current tree in a child process) over user-edited resolver files, checked with go/parser against the files before it; non-trivial = the regeneration followed a schema change (or is the repeated no-change regeneration) AND at least one user-edited resolver method was compared or one user declaration was searched in the output; distinct = distinct (input resolver files, new schema) pairs among those"
	rep.Assumptions = []string{
		"method bodies, docs and result names are compared after gofmt on both sides (the generator formats its output); doc comments are compared as strings.TrimSpace(CommentGroup.Text()); differences only in the raw comment lines (directive lines such as //go:noinline or //nolint:x dropped, /* */ docs turned into // docs) are counted, not judged",
		"a method without doc text (no doc comment, or only directive lines) receiving the template's default comment is counted, not judged",
		"'other declaration still present' = its source text (decl.Pos()..decl.End(), doc comment excluded) is a substring of the concatenated output files, exactly or after trimming each line's surrounding white space",
		"'import still needed' = blank import, or the regenerated file refers to the import's local name through an unresolved selector base (dot imports: calls one of the identifiers the edit pass used)",
		"resolver method names are derived from the schema model as lcFirst(Type)+\"Resolver\" / UcFirst(field); schema names are chosen so that gqlgen's name mangling is the identity",
		"`go build` in a child process (private GOCACHE) is the judge of 'compiles'",
	}
	seed := ev.Seed()
	nCases := ev.Pick(quickCases, thoroughCases)
	if v := os.Getenv("VERIF_C19_CASES"); v != "" { // debugging aid only
		fmt.Sscan(v, &nCases)
	}
	root := ev.Root
	base := filepath.Join(root, "work", "gen", "c19", fmt.Sprintf("r%d", os.Getpid()))
	gocache := filepath.Join(root, "work", "tmp", fmt.Sprintf("c19-gocache-%d", os.Getpid()))
	removeStale(filepath.Join(root, "work", "gen", "c19"), "r")
	removeStale(filepath.Join(root, "work", "tmp"), "c19-gocache-")
	os.RemoveAll(base)
	os.MkdirAll(base, 0o755)
	os.MkdirAll(gocache, 0o755)
	cleanup := func() {
		os.RemoveAll(base)
		exec.Command("chmod", "-R", "u+w", gocache).Run()
		os.RemoveAll(gocache)
		os.Remove(filepath.Join(root, "work", "gen", "c19")) // only when empty
	}
	sigc := make(chan os.Signal, 1)
	signal.Notify(sigc, syscall.SIGINT, syscall.SIGTERM)
	go func() {
		<-sigc
		cleanup()
		fmt.Println("INCONCLUSIVE property=C19 interrupted")
		os.Exit(2)
	}()
	rn := &runner{rep: rep, base: base, gocache: gocache, seed: seed}
	if _, err := os.Stat(filepath.Join(root, "work", "bin", "gendrv")); err != nil {
		rep.Inconclusive("work/bin/gendrv missing (farm not built)")
		cleanup()
		os.Exit(rep.Finish(0, 0))
	}

	cases := buildCases(seed, nCases)
	if rp := os.Getenv("VERIF_REPLAY"); rp != "" {
		b, err := os.ReadFile(rp)
		var doc struct {
			Seed   int64  `json:"seed"`
			Tier   string `json:"tier"`
			Detail struct {
				Case caseSpec `json:"case"`
			} `json:"detail"`
		}
		if err != nil || json.Unmarshal(b, &doc) != nil {
			rep.Inconclusive("cannot read replay file " + rp)
			cleanup()
			os.Exit(rep.Finish(0, 0))
		}
		// the case list is a pure function of (seed, tier): rebuild the one the replay came from
		rn.seed = doc.Seed
		n := quickCases
		if doc.Tier == "thorough" {
			n = thoroughCases
		}
		if doc.Detail.Case.Idx >= n {
			n = doc.Detail.Case.Idx + 1
		}
		cases = []caseSpec{buildCases(doc.Seed, n)[doc.Detail.Case.Idx]}
	}
	if v := os.Getenv("VERIF_C19_FROM"); v != "" { // debugging aid only: run cases[from:]
		var k int
		fmt.Sscan(v, &k)
		if k > 0 && k < len(cases) {
			cases = cases[k:]
		}
	}
	if v := os.Getenv("VERIF_CASE"); v != "" {
		var k int
		fmt.Sscan(v, &k)
		if k < len(cases) {
			cases = []caseSpec{cases[k]}
		}
	}

	// case 0 runs alone up to its first `go build`: that warms the private build cache
	var wg sync.WaitGroup
	sem := make(chan struct{}, 12)
	warm := make(chan struct{})
	for i, c := range cases {
		wg.Add(1)
		go func(i int, c caseSpec) {
			defer wg.Done()
			if i == 0 {
				var once sync.Once
				done := func() { once.Do(func() { close(warm) }) }
				defer done()
				sem <- struct{}{}
				defer func() { <-sem }()
				rn.runCase(c, done)
				return
			}
			<-warm
			sem <- struct{}{}
			defer func() { <-sem }()
			rn.runCase(c, nil)
		}(i, c)
	}
	wg.Wait()
	cleanup()

	if rep.Get("edit_broke_compilation")*5 > int64(len(cases)) {
		rep.Inconclusive(fmt.Sprintf("the harness' own edit pass broke compilation in %d of %d cases", rep.Get("edit_broke_compilation"), len(cases)))
	}
	rep.Set("cases", len(cases))
	os.Exit(rep.Finish(rn.evals, int64(rep.DistinctLen("nontrivial"))))
}

// removeStale deletes directories <prefix><pid> left behind by a killed earlier run.
func removeStale(dir, prefix string) {
	ents, _ := os.ReadDir(dir)
	for _, e := range ents {
		if !strings.HasPrefix(e.Name(), prefix) {
			continue
		}
		var pid int
		if _, err := fmt.Sscanf(strings.TrimPrefix(e.Name(), prefix), "%d", &pid); err != nil || pid <= 0 {
			continue
		}
		if _, err := os.Stat(fmt.Sprintf("/proc/%d", pid)); err == nil {
			continue
		}
		p := filepath.Join(dir, e.Name())
		exec.Command("chmod", "-R", "u+w", p).Run()
		os.RemoveAll(p)
	}
}

// ---- child processes -----------------------------------------------------------------------------

func (rn *runner) env() []string {
	env := []string{}
	for _, e := range os.Environ() {
		if strings.HasPrefix(e, "GOFLAGS=") || strings.HasPrefix(e, "GOPROXY=") || strings.HasPrefix(e, "GOCACHE=") ||
			strings.HasPrefix(e, "GORACE=") || strings.HasPrefix(e, "GOTOOLCHAIN=") || strings.HasPrefix(e, "GOSUMDB=") {
			continue
		}
		env = append(env, e)
	}
	return append(env, "GOFLAGS=-mod=mod", "GOPROXY=off", "GOCACHE="+rn.gocache)
}

// run executes a child; timedOut is reported separately (never a verdict).
func (rn *runner) run(dir string, timeout time.Duration, name string, args ...string) (code int, out string, timedOut bool) {
	ctx, cancel := context.WithTimeout(context.Background(), timeout)
	defer cancel()
	cmd := exec.CommandContext(ctx, name, args...)
	cmd.Dir = dir
	cmd.Env = rn.env()
	var buf bytes.Buffer
	cmd.Stdout = &buf
	cmd.Stderr = &buf
	err := cmd.Run()
	if ctx.Err() != nil {
		return -1, buf.String(), true
	}
	if err != nil {
		if ee, ok := err.(*exec.ExitError); ok {
			return ee.ExitCode(), buf.String(), false
		}
		return 127, buf.String() + err.Error(), false
	}
	return 0, buf.String(), false
}

func (rn *runner) generate(dir string) (int, string, bool) {
	rn.rep.Count("generator_runs", 1)
	return rn.run(dir, 5*time.Minute, filepath.Join(ev.Root, "work", "bin", "gendrv"), "-dir", dir, "-stub=false")
}

func (rn *runner) goBuild(dir string) (bool, string, bool) {
	rn.rep.Count("go_build_runs", 1)
	rel, _ := filepath.Rel(ev.Root, dir)
	code, out, to := rn.run(ev.Root, 10*time.Minute, "go", "build", "./"+rel+"/...")
	return code == 0, out, to
}

// ---- one case ---------------------------------------------------------------------------------

type caseState struct {
	spec      caseSpec
	dir       string
	resDir    string
	pkg       string
	tainted   bool // a (known) import drop already broke the package: build oracle not applicable
	buildOK   int  // 0 unknown, 1 ok, 2 failing
	buildOK0  int
	dropped   map[string]bool // local names / dot identifiers of imports whose loss was already reported
	stopped   bool
	userDecls map[string]bool // texts of declarations the edit pass wrote (for counters)
	history   []any
	// rootEdited: the user's version of the follow-schema root resolver file ("" = not edited)
	rootEdited string
}

func (rn *runner) config(c caseSpec, pkg string) string {
	var b strings.Builder
	b.WriteString("schema:\n  - \"*.graphql\"\n")
	fmt.Fprintf(&b, "exec:\n  filename: generated.go\n  package: %s\n", pkg)
	fmt.Fprintf(&b, "model:\n  filename: models_gen.go\n  package: %s\n", pkg)
	dir, rpkg := ".", pkg
	if c.SubPkg {
		dir, rpkg = "resolvers", "resolvers"
	}
	if c.Layout == "follow" {
		fmt.Fprintf(&b, "resolver:\n  layout: follow-schema\n  dir: %s\n  package: %s\n  filename_template: \"{name}.resolvers.go\"\n", dir, rpkg)
		if rf := rootFileName(c); rf != "resolver.go" {
			// a custom name for the root resolver file (written once, then the user's)
			fmt.Fprintf(&b, "  filename: %s\n", filepath.Join(dir, rf))
		}
	} else {
		fmt.Fprintf(&b, "resolver:\n  layout: single-file\n  filename: %s\n  package: %s\n  type: Resolver\n", filepath.Join(dir, "resolver.go"), rpkg)
	}
	if c.OmitTemplateComment {
		b.WriteString("  omit_template_comment: true\n")
	}
	b.WriteString("skip_mod_tidy: true\nskip_validation: true\n")
	return b.String()
}

// rootFileName: the file holding `type Resolver struct{}` in the follow-schema layout.
// accessorRE: the generated accessor of a resolver group (`func (r *Resolver) Todo() TodoResolver`);
// any other method on the root resolver type is user code.
var accessorRE = regexp.MustCompile(`^func \(\w+ \*?\w+\) \w+\(\) [\w.]*Resolver\b`)

func rootFileName(c caseSpec) string {
	if c.Layout == "follow" && c.Idx%3 == 1 {
		return "root.go"
	}
	return "resolver.go"
}

func readResolverFiles(dir string) map[string]string {
	out := map[string]string{}
	ents, _ := os.ReadDir(dir)
	for _, e := range ents {
		n := e.Name()
		if e.IsDir() || !strings.HasSuffix(n, ".go") || n == "generated.go" || n == "models_gen.go" {
			continue
		}
		b, err := os.ReadFile(filepath.Join(dir, n))
		if err == nil {
			out[n] = string(b)
		}
	}
	return out
}

func writeSchema(dir string, s *schema) {
	for n, txt := range s.render() {
		os.WriteFile(filepath.Join(dir, n), []byte(txt), 0o644)
	}
}

func (rn *runner) runCase(c caseSpec, warmed func()) {
	rep := rn.rep
	r := rand.New(rand.NewSource(rn.seed*9_000_011 + int64(c.Idx)*7919 + 3))
	pkg := fmt.Sprintf("p%d", c.Idx)
	st := &caseState{spec: c, dir: filepath.Join(rn.base, pkg), pkg: pkg}
	st.resDir = st.dir
	if c.SubPkg {
		st.resDir = filepath.Join(st.dir, "resolvers")
	}
	os.MkdirAll(st.dir, 0o755)
	defer os.RemoveAll(st.dir)
	layoutKey := "layout_" + c.Layout + map[bool]string{true: "_subpkg", false: "_samepkg"}[c.SubPkg]

	s0 := genSchema(r)
	os.WriteFile(filepath.Join(st.dir, "gqlgen.yml"), []byte(rn.config(c, pkg)), 0o644)
	writeSchema(st.dir, s0)
	code, out, to := rn.generate(st.dir)
	if to {
		rep.Inconclusive(fmt.Sprintf("case %d: fresh generation timed out", c.Idx))
		return
	}
	if code != 0 {
		rep.Count("fresh_generation_failed", 1)
		rep.Sample(map[string]any{"fresh_generation_failed": c, "output": tail(out, 2000), "schema": s0.render()})
		return
	}
	fresh := readResolverFiles(st.resDir)
	parsed := map[string]*fileInfo{}
	for n, src := range fresh {
		fi, err := parseResolverFile(n, src)
		if err != nil {
			rep.Violate("fresh-resolver-file-unparsable", map[string]any{"case": c, "file": n, "error": err.Error(), "source": src})
			return
		}
		parsed[n] = fi
	}
	// every resolver the schema model expects must have been generated (self-check of the model)
	exp := s0.expected()
	got := map[string]bool{}
	for _, fi := range parsed {
		for k := range fi.Methods {
			got[k] = true
		}
	}
	for k := range exp {
		if !got[k] {
			rep.Count("model_mismatch_fresh", 1)
			rep.Sample(map[string]any{"model_mismatch": k, "case": c, "schema": s0.render()})
			return
		}
	}
	ed, err := editFiles(r, parsed, c.Opts)
	if err != nil {
		rep.Count("edit_unformattable", 1)
		rep.Sample(map[string]any{"edit_unformattable": err.Error()})
		return
	}
	crlf := c.Idx%6 == 5
	for n, src := range ed.Files {
		if crlf {
			// an editor that saves with CRLF line endings (legal Go source: the scanner drops \r)
			src = strings.ReplaceAll(src, "\n", "\r\n")
		}
		os.WriteFile(filepath.Join(st.resDir, n), []byte(src), 0o644)
	}
	if crlf {
		rep.Count("cases_with_crlf_resolver_files", 1)
	}
	// the user gives the root resolver struct its dependencies (what the generated comment in that
	// file asks for); follow-schema writes this file once and must leave it alone afterwards
	rootEdited := ""
	if c.Layout == "follow" {
		rp := filepath.Join(st.resDir, rootFileName(c))
		if b, err := os.ReadFile(rp); err == nil && strings.Contains(string(b), "type Resolver struct{}") {
			rootEdited = strings.Replace(string(b), "type Resolver struct{}", "type Resolver struct {\n\tStore map[string]int\n}\n\n// NewResolver wires the dependencies.\nfunc NewResolver() *Resolver { return &Resolver{Store: map[string]int{}} }", 1)
			os.WriteFile(rp, []byte(rootEdited), 0o644)
			rep.Count("cases_with_user_edited_root_resolver_file", 1)
			if rootFileName(c) != "resolver.go" {
				rep.Count("cases_with_custom_root_resolver_filename", 1)
			}
		}
	}
	st.rootEdited = rootEdited
	ok, bout, to := rn.goBuild(st.dir)
	if warmed != nil {
		warmed() // the private build cache now holds std + the gqlgen runtime packages
	}
	if to {
		rep.Inconclusive(fmt.Sprintf("case %d: go build of the edited package timed out", c.Idx))
		return
	}
	if !ok {
		rep.Count("edit_broke_compilation", 1)
		if rep.Get("edit_broke_compilation") <= 3 {
			fmt.Fprintf(os.Stderr, "c19: harness edit broke compilation (case %d, discarded):\n%s\n", c.Idx, tail(bout, 1500))
		}
		return
	}
	st.buildOK = 1
	rep.Count("cases_run", 1)
	rep.Count(layoutKey, 1)
	if c.Opts.Pure {
		rep.Count("cases_pure_only_resolver_methods", 1)
	}
	for k, v := range ed.Features {
		rep.Count("feat_"+k, int64(v))
	}
	rep.Count("edited_methods", int64(ed.Methods))
	rep.Count("helper_groups_added", int64(ed.Helpers))

	cur := s0
	for si, kinds := range c.Steps {
		next := cur.clone()
		var ops []evoOp
		for _, k := range kinds {
			if op, ok := next.apply(r, k); ok {
				ops = append(ops, op)
			} else {
				rep.Count("evolution_not_applicable_"+k, 1)
			}
		}
		if len(ops) == 0 {
			continue
		}
		rn.step(st, si, cur, next, ops)
		cur = next
		if st.stopped {
			return
		}
	}
	// repeated regeneration without any schema change
	rn.step(st, len(c.Steps), cur, cur, nil)
}

func tail(s string, n int) string {
	if len(s) > n {
		return "..." + s[len(s)-n:]
	}
	return s
}

var directiveRe = regexp.MustCompile(`^//(line |extern |export |[a-z0-9]+:[a-z0-9])`)

func hasDirectiveLine(raw string) bool {
	for _, l := range strings.Split(raw, "\n") {
		if directiveRe.MatchString(strings.TrimSpace(l)) {
			return true
		}
	}
	return false
}

func normWS(s string) string {
	var out []string
	for _, l := range strings.Split(s, "\n") {
		l = strings.TrimSpace(l)
		if l != "" {
			out = append(out, l)
		}
	}
	return strings.Join(out, "\n")
}

func standaloneFmt(body string) string {
	src := "package p\n\nfunc _() {\n" + body + "\n}\n"
	b, err := format.Source([]byte(src))
	if err != nil {
		return body
	}
	return string(b)
}

func gofmtAll(files map[string]string) (map[string]*fileInfo, map[string]string) {
	out := map[string]*fileInfo{}
	errs := map[string]string{}
	for n, src := range files {
		if b, err := format.Source([]byte(src)); err == nil {
			src = string(b)
		}
		fi, err := parseResolverFile(n, src)
		if err != nil {
			errs[n] = err.Error()
			continue
		}
		out[n] = fi
	}
	return out, errs
}

func dotIdentsOf(path string) []string {
	for _, d := range dotImports {
		if d.Path == path {
			return d.Dot
		}
	}
	return nil
}

func lastElem(p string) string {
	if k := strings.LastIndex(p, "/"); k >= 0 {
		return p[k+1:]
	}
	return p
}

// step performs one regeneration (ops == nil: no schema change) and applies every oracle.
func (rn *runner) step(st *caseState, si int, prev, next *schema, ops []evoOp) {
	rep := rn.rep
	c := st.spec
	in := readResolverFiles(st.resDir)
	inP, inErr := gofmtAll(in)
	if len(inErr) > 0 { // cannot happen: previous step would have stopped the case
		st.stopped = true
		return
	}
	// declaration texts are taken from the files exactly as they were on disk (not re-formatted):
	// that is the text the generator is expected to carry
	rawP := map[string]*fileInfo{}
	for n, src := range in {
		fi, err := parseResolverFile(n, src)
		if err != nil {
			st.stopped = true
			return
		}
		rawP[n] = fi
	}
	expPrev, expNext := prev.expected(), next.expected()
	kept := func(k string) bool { _, a := expPrev[k]; _, b := expNext[k]; return a && b }

	// --- applicability of the build oracle, decided on the inputs
	onlyResolverMethods := true
	for _, fi := range inP {
		for _, d := range fi.Decls {
			switch {
			case d.Kind == "method":
				if _, ok := expPrev[d.Key]; !ok {
					onlyResolverMethods = false
				}
			case d.Kind == "othermethod" && strings.HasPrefix(d.Name, "Resolver.") && !strings.Contains(d.Text, "memo:"):
			case d.Kind == "type" && (isResolverStruct(d.Name) || d.Name == "Resolver") && !strings.Contains(d.Text, "store map") && !strings.Contains(d.Text, "memo map"):
			default:
				onlyResolverMethods = false
			}
		}
	}
	addOnly := len(ops) > 0
	for _, op := range ops {
		if op.Kind != "add_field" {
			addOnly = false
		}
	}
	buildJudged := onlyResolverMethods && addOnly
	if buildJudged && st.buildOK == 0 {
		ok, _, to := rn.goBuild(st.dir)
		if to {
			rep.Inconclusive(fmt.Sprintf("case %d: go build timed out", c.Idx))
			st.stopped = true
			return
		}
		st.buildOK = map[bool]int{true: 1, false: 2}[ok]
	}

	if ops != nil {
		writeSchema(st.dir, next)
	}
	code, gout, to := rn.generate(st.dir)
	if to {
		rep.Inconclusive(fmt.Sprintf("case %d step %d: regeneration timed out", c.Idx, si))
		st.stopped = true
		return
	}
	out := readResolverFiles(st.resDir)
	rn.mu.Lock()
	rn.evals++
	rn.mu.Unlock()
	rep.Count("regenerations", 1)
	if ops == nil {
		rep.Count("regenerations_without_schema_change", 1)
	} else {
		rep.Count("evolutions", 1)
		for _, op := range ops {
			rep.Count("evo_"+op.Kind, 1)
		}
		rep.Count("evolutions_"+"layout_"+c.Layout+map[bool]string{true: "_subpkg", false: "_samepkg"}[c.SubPkg], 1)
	}

	detail := func(msg string, extra map[string]any) map[string]any {
		d := map[string]any{"case": c, "step": si, "ops": ops, "why": msg, "schema_before": prev.render(), "schema_after": next.render(),
			"files_before": in, "files_after": out, "generator_exit": code, "generator_output": tail(gout, 3000), "seed": rn.seed}
		for k, v := range extra {
			d[k] = v
		}
		return d
	}

	// --- which input files hold code containing "*/" that must move to the leftover block
	termFiles := map[string][]string{}
	for n, fi := range rawP {
		for _, d := range fi.Decls {
			if d.Kind == "method" && kept(d.Key) {
				continue
			}
			if strings.Contains(d.Text, "*/") {
				termFiles[n] = append(termFiles[n], d.Kind+" "+d.Name+d.Key)
			}
		}
	}

	// --- the user's root resolver file (follow-schema) is never regenerated
	if st.rootEdited != "" {
		now, _ := os.ReadFile(filepath.Join(st.resDir, rootFileName(c)))
		if string(now) != st.rootEdited {
			rep.Violate("user-edited-root-resolver-file-changed", detail("the follow-schema root resolver file ("+rootFileName(c)+") that the user had edited was rewritten by regeneration", map[string]any{"before": st.rootEdited, "after": string(now)}))
			st.rootEdited = string(now)
		} else {
			rep.Count("root_resolver_file_unchanged_after_regeneration", 1)
		}
	}

	// --- E: every output file parses
	outP, outErr := gofmtAll(out)
	if len(outErr) > 0 {
		var names []string
		for n := range outErr {
			names = append(names, n)
		}
		sort.Strings(names)
		allKnown := true
		for _, n := range names {
			if len(termFiles[n]) == 0 || in[n] == out[n] {
				allKnown = false
			}
		}
		if allKnown {
			rep.Count("unparsable_output_with_terminator_in_leftover", 1)
			rep.Violate(sigTerminator, detail("regenerated file does not parse; code moved to the trailing /* */ block contains \"*/\"",
				map[string]any{"unparsable": outErr, "declarations_with_terminator": termFiles}))
		} else {
			rep.Violate("regenerated-file-unparsable", detail("regenerated resolver file does not parse", map[string]any{"unparsable": outErr, "declarations_with_terminator": termFiles}))
		}
		st.stopped = true
		return
	}
	if code != 0 {
		rep.Violate("generator-failed-on-regeneration", detail("api.Generate failed over user-edited resolver files", nil))
		st.stopped = true
		return
	}
	if strings.Contains(gout, "gofmt failed") {
		// resolver files all parse (checked above); some other generated file did not format
		rep.Count("gofmt_failed_message_other_file", 1)
	}

	// --- locate methods in the output
	type loc struct {
		file string
		m    *methodInfo
	}
	outMethods := map[string][]loc{}
	var outNames []string
	for n := range outP {
		outNames = append(outNames, n)
	}
	sort.Strings(outNames)
	for _, n := range outNames {
		for k, m := range outP[n].Methods {
			outMethods[k] = append(outMethods[k], loc{n, m})
		}
	}
	expectFile := func(k string) string {
		if c.Layout == "single" {
			return "resolver.go"
		}
		return strings.TrimSuffix(expNext[k], ".graphql") + ".resolvers.go"
	}

	nontrivial := false
	var inNames []string
	for n := range inP {
		inNames = append(inNames, n)
	}
	sort.Strings(inNames)

	// --- E: kept resolver methods keep body / doc / named results
	for _, n := range inNames {
		fi := inP[n]
		var keys []string
		for k := range fi.Methods {
			keys = append(keys, k)
		}
		sort.Strings(keys)
		for _, k := range keys {
			if !kept(k) {
				continue
			}
			before := fi.Methods[k]
			locs := outMethods[k]
			if len(locs) == 0 {
				rep.Violate("kept-resolver-method-missing", detail("resolver method of a field that still exists is absent from the output", map[string]any{"method": k}))
				continue
			}
			after := locs[0]
			for _, l := range locs {
				if l.file == expectFile(k) {
					after = l
				}
			}
			if len(locs) > 1 {
				// the same method declared twice in one package: the user's package no longer builds
				rep.Count("method_present_in_two_files", 1)
				var where []string
				for _, l := range locs {
					where = append(where, l.file)
				}
				rep.Violate("resolver-method-declared-in-two-files", detail("a kept resolver method is declared in more than one file of the resolver package after regeneration", map[string]any{"method": k, "files": where}))
			}
			rep.Count("methods_compared", 1)
			nontrivial = true
			if strings.Contains(before.Body, "*/") {
				rep.Count("methods_compared_body_with_terminator", 1)
			}
			if after.file != n {
				rep.Count("methods_compared_moved_to_other_file", 1)
			}
			if before.Body != after.m.Body {
				if standaloneFmt(before.Body) == standaloneFmt(after.m.Body) {
					rep.Count("bodies_equal_only_after_standalone_gofmt", 1)
				} else {
					rep.Violate("resolver-body-changed", detail("body of a kept resolver method differs", map[string]any{"method": k, "body_before": before.Body, "body_after": after.m.Body}))
				}
			}
			if fmt.Sprint(before.ResNames) != fmt.Sprint(after.m.ResNames) {
				rep.Violate("named-results-changed", detail("result names of a kept resolver method differ", map[string]any{"method": k, "before": before.ResNames, "after": after.m.ResNames}))
			} else if len(before.ResNames) > 0 && before.ResNames[0] != "" {
				rep.Count("named_results_compared", 1)
			}
			tb, ta := strings.TrimSpace(before.DocText), strings.TrimSpace(after.m.DocText)
			switch {
			case tb == ta:
				if tb != "" {
					rep.Count("doc_texts_compared", 1)
				}
				if before.DocRaw != after.m.DocRaw {
					rep.Count("doc_raw_differs_text_equal", 1)
					if hasDirectiveLine(before.DocRaw) && !hasDirectiveLine(after.m.DocRaw) {
						rep.Count("doc_directive_lines_dropped", 1)
					}
					if strings.HasPrefix(before.DocRaw, "/*") {
						rep.Count("doc_block_comment_rewritten_as_line_comments", 1)
					}
				}
			case tb == "":
				if before.DocRaw == "" {
					rep.Count("doc_absent_default_comment_added", 1)
				} else {
					rep.Count("doc_directive_only_replaced_by_default_comment", 1)
				}
			case strings.HasPrefix(tb, `\`) && ta == strings.TrimSpace(strings.TrimLeft(tb, `\`)):
				rep.Violate(sigBackslashDoc, detail("leading backslash of the doc comment text removed", map[string]any{"method": k, "doc_before": before.DocRaw, "doc_after": after.m.DocRaw}))
			default:
				rep.Violate("resolver-doc-comment-changed", detail("doc comment text of a kept resolver method differs", map[string]any{"method": k, "doc_before": before.DocRaw, "doc_after": after.m.DocRaw, "text_before": tb, "text_after": ta}))
			}

			// imports the moved method needs from its old file
			if after.file != n {
				dst := outP[after.file]
				for _, imp := range fi.Imports {
					uses := false
					switch imp.Alias {
					case "_":
					case ".":
						for _, id := range dotIdentsOf(imp.Path) {
							if before.UsesLocals["."+id] {
								uses = true
							}
						}
					default:
						uses = before.UsesLocals[imp.local()]
					}
					if uses && !dst.hasImport(imp) {
						st.taint(imp)
						rep.Violate(sigMovedImp, detail("method moved to another resolver file; an import its body uses was not carried over",
							map[string]any{"method": k, "from": n, "to": after.file, "import": imp}))
					}
				}
			}
		}
	}

	// --- E: user imports still needed are kept
	for _, n := range inNames {
		fo, ok := outP[n]
		if !ok {
			continue
		}
		fi := inP[n]
		for idx, imp := range fi.Imports {
			if fo.hasImport(imp) {
				rep.Count("imports_kept", 1)
				continue
			}
			needed := false
			switch imp.Alias {
			case "_":
				needed = true
			case ".":
				needed = fo.usesIdent(dotIdentsOf(imp.Path))
			default:
				needed = fo.usesLocal(imp.local())
			}
			if !needed {
				rep.Count("imports_pruned_not_needed", 1)
				continue
			}
			st.taint(imp)
			repeated := false
			if imp.Alias == "_" || imp.Alias == "." {
				for _, e := range fi.Imports[:idx] {
					if e.Alias == imp.Alias {
						repeated = true
					}
				}
			}
			clash := false
			if name, ok := templateReserved[imp.Path]; ok {
				clash = imp.local() != name
			} else {
				for _, name := range templateReserved {
					if name == imp.local() {
						clash = true
					}
				}
			}
			d := detail("an import the regenerated file still needs is gone", map[string]any{"file": n, "import": imp})
			switch {
			case repeated:
				rep.Violate(sigRepeatedImp, d)
			case clash:
				rep.Violate(sigReservedImp, d)
			case imp.Alias != "" && imp.Alias != "_" && imp.Alias != "." && strings.HasSuffix(imp.Path, imp.Alias) && imp.Alias != lastElem(imp.Path):
				rep.Violate(sigSuffixImp, d)
			default:
				rep.Violate("needed-user-import-dropped", d)
			}
		}
	}

	// --- E: every other declaration of the input is still present in the output
	var all strings.Builder
	for _, n := range outNames {
		all.WriteString(out[n])
		all.WriteString("\n")
	}
	allOut := all.String()
	allNorm := ""
	for _, n := range inNames {
		for _, d := range rawP[n].Decls {
			if d.Kind == "method" && kept(d.Key) {
				continue
			}
			kind := d.Kind
			switch {
			case d.Kind == "method":
				kind = "removed_or_renamed_resolver"
			case d.Kind == "othermethod" && strings.HasPrefix(d.Name, "Resolver.") && accessorRE.MatchString(d.Text), d.Kind == "type" && isResolverStruct(d.Name):
				kind = "scaffold"
			}
			if kind != "scaffold" {
				nontrivial = true
			}
			rep.Count("declarations_searched_"+kind, 1)
			if strings.Contains(d.Text, "*/") {
				rep.Count("declarations_searched_containing_terminator", 1)
			}
			if strings.Contains(allOut, d.Text) {
				continue
			}
			if allNorm == "" {
				allNorm = normWS(allOut)
			}
			if strings.Contains(allNorm, normWS(d.Text)) {
				rep.Count("declarations_found_modulo_indentation", 1)
				continue
			}
			if kind == "scaffold" {
				// a generated `type xResolver struct{ *Resolver }` / accessor the user had modified:
				// regenerated from the template, the user's version is neither kept nor in the block
				rep.Violate(sigScaffold, detail("a user-modified generated declaration (resolver struct / accessor) was overwritten without a copy in the warning block", map[string]any{"file": n, "declaration": d.Text}))
				continue
			}
			rep.Violate("user-declaration-lost", detail("source text of a declaration of the input files is absent from the output", map[string]any{"file": n, "declaration_kind": kind, "declaration": d.Text}))
		}
	}

	// --- terminator inside the leftover block without a parse failure: stale code may be live
	for n, ds := range termFiles {
		if in[n] != out[n] && len(ds) > 0 {
			rep.Count("terminator_in_leftover_but_output_parses", 1)
		}
	}

	// --- E: only resolver methods + only added fields: still compiles
	st.buildOKAfterRegen()
	if buildJudged && st.buildOK0 == 1 {
		ok, bout, to := rn.goBuild(st.dir)
		if to {
			rep.Inconclusive(fmt.Sprintf("case %d: go build timed out", c.Idx))
			st.stopped = true
			return
		}
		rep.Count("build_oracle_judged", 1)
		if ok {
			st.buildOK = 1
		} else if st.tainted && st.explainedByDroppedImports(bout) {
			st.buildOK = 2
			rep.Count("build_failures_fully_explained_by_reported_import_drops", 1)
		} else {
			st.buildOK = 2
			rep.Violate("build-broken-after-adding-fields", detail("resolver files held only resolver methods, the change only added fields, the package compiled before and does not compile after", map[string]any{"go_build": tail(bout, 2500)}))
		}
	} else if buildJudged {
		rep.Count("build_oracle_not_applicable_package_did_not_compile_before", 1)
	}

	if nontrivial {
		h := sha256.New()
		for _, n := range inNames {
			h.Write([]byte(n + "\x00" + in[n] + "\x00"))
		}
		rs := next.render()
		var sn []string
		for n := range rs {
			sn = append(sn, n)
		}
		sort.Strings(sn)
		for _, n := range sn {
			h.Write([]byte(n + "\x00" + rs[n] + "\x00"))
		}
		rep.Distinct("nontrivial", hex.EncodeToString(h.Sum(nil)[:16]))
	}
	if si == 0 && c.Idx%7 == 1 {
		var one string
		for _, n := range inNames {
			if len(inP[n].Methods) > 0 {
				one = n
				break
			}
		}
		rep.Sample(map[string]any{"case": c, "ops": ops, "file": one, "before": in[one], "after": out[one]})
	}
}

func (st *caseState) taint(imp impInfo) {
	st.tainted = true
	if st.dropped == nil {
		st.dropped = map[string]bool{}
	}
	switch imp.Alias {
	case "_":
	case ".":
		for _, id := range dotIdentsOf(imp.Path) {
			st.dropped[id] = true
		}
	default:
		st.dropped[imp.local()] = true
	}
}

var buildErrRe = regexp.MustCompile(`^[^\s:]+\.go:\d+:\d+: (.*)$`)

// explainedByDroppedImports: every compiler error is "undefined: X" for a name that came from an
// import whose loss was already reported in this case.
func (st *caseState) explainedByDroppedImports(out string) bool {
	n := 0
	for _, l := range strings.Split(out, "\n") {
		l = strings.TrimSpace(l)
		if l == "" || strings.HasPrefix(l, "#") {
			continue
		}
		m := buildErrRe.FindStringSubmatch(l)
		if m == nil {
			return false
		}
		msg := m[1]
		if strings.HasPrefix(msg, "too many errors") {
			continue
		}
		if !strings.HasPrefix(msg, "undefined: ") {
			return false
		}
		name := strings.TrimPrefix(msg, "undefined: ")
		if k := strings.Index(name, "."); k >= 0 {
			name = name[:k]
		}
		if !st.dropped[name] {
			return false
		}
		n++
	}
	return n > 0
}

// buildOK0 is the build state before the regeneration; the regeneration invalidates buildOK.
func (st *caseState) buildOKAfterRegen() {
	st.buildOK0 = st.buildOK
	st.buildOK = 0
}
