package main

// Seeded GraphQL schema model + the schema evolutions named by the property
// (add / remove / rename field, add / remove type, move a field into an `extend type` block of
// another schema file, reorder). The model knows which fields are resolver-backed, so the set of
// resolver methods the generator must emit for a schema is computed here, independently of gqlgen.

import (
	"fmt"
	"math/rand"
	"sort"
	"strings"
	"unicode"
)

type fieldDef struct {
	Name  string
	Args  string // "" or "(x: Int)"
	Type  string // GraphQL type reference text
	Ref   string // object type referenced ("" for scalars)
	Force bool   // @goField(forceResolver: true) (object types only)
}

type typeBlock struct {
	Name   string
	Extend bool
	Fields []*fieldDef
}

type schemaFile struct {
	Name   string // a.graphql ...
	Blocks []*typeBlock
}

type schema struct {
	Files []*schemaFile
	next  int // fresh-name counter
}

const schemaPrelude = `directive @goField(forceResolver: Boolean, name: String, omittable: Boolean, type: String) on INPUT_FIELD_DEFINITION | FIELD_DEFINITION

input InA {
  q: String
  n: Int = 3
}

type Plain {
  p: String
}
`

var rootNames = map[string]bool{"Query": true, "Mutation": true, "Subscription": true}

var fieldWords = []string{"alpha", "bravo", "charlie", "delta", "echo", "foxtrot", "golf", "hotel", "kilo", "lima"}
var typeWords = []string{"Todo", "User", "Item", "Order", "Widget", "Gizmo", "APIKey", "ImageUrl", "User_Profile", "Type"}
var scalarTypes = []string{"String!", "String", "Int", "Int!", "Boolean!", "[String!]!", "ID!", "Float", "[Int]"}
var argPool = []string{"", "", "(x: Int)", "(id: ID!, n: Int = 3)", "(in: InA!)", "(names: [String!])"}

func (s *schema) clone() *schema {
	c := &schema{next: s.next}
	for _, f := range s.Files {
		nf := &schemaFile{Name: f.Name}
		for _, b := range f.Blocks {
			nb := &typeBlock{Name: b.Name, Extend: b.Extend}
			for _, fd := range b.Fields {
				cp := *fd
				nb.Fields = append(nb.Fields, &cp)
			}
			nf.Blocks = append(nf.Blocks, nb)
		}
		c.Files = append(c.Files, nf)
	}
	return c
}

func (s *schema) render() map[string]string {
	out := map[string]string{}
	for i, f := range s.Files {
		var b strings.Builder
		if i == 0 {
			b.WriteString(schemaPrelude)
			b.WriteString("\n")
		}
		for _, blk := range f.Blocks {
			if blk.Extend {
				b.WriteString("extend ")
			}
			fmt.Fprintf(&b, "type %s {\n", blk.Name)
			for _, fd := range blk.Fields {
				fmt.Fprintf(&b, "  %s%s: %s", fd.Name, fd.Args, fd.Type)
				if fd.Force {
					b.WriteString(" @goField(forceResolver: true)")
				}
				b.WriteString("\n")
			}
			b.WriteString("}\n\n")
		}
		if b.Len() == 0 {
			b.WriteString("# (no definitions)\n")
		}
		out[f.Name] = b.String()
	}
	return out
}

func ucFirst(s string) string {
	r := []rune(s)
	r[0] = unicode.ToUpper(r[0])
	return string(r)
}
func lcFirst(s string) string {
	r := []rune(s)
	r[0] = unicode.ToLower(r[0])
	return string(r)
}

// resolverKey identifies a resolver method: "<lcFirst(Type)>Resolver.<UcFirst(field)>".
func resolverKey(typ, field string) string { return lcFirst(typ) + "Resolver." + ucFirst(field) }

// expected returns resolver key -> schema file holding the field.
func (s *schema) expected() map[string]string {
	out := map[string]string{}
	for _, f := range s.Files {
		for _, b := range f.Blocks {
			for _, fd := range b.Fields {
				if rootNames[b.Name] || fd.Force {
					out[resolverKey(b.Name, fd.Name)] = f.Name
				}
			}
		}
	}
	return out
}

func (s *schema) objectTypes() []string {
	var out []string
	for _, f := range s.Files {
		for _, b := range f.Blocks {
			if !b.Extend && !rootNames[b.Name] {
				out = append(out, b.Name)
			}
		}
	}
	sort.Strings(out)
	return out
}

func (s *schema) hasType(n string) bool {
	for _, f := range s.Files {
		for _, b := range f.Blocks {
			if !b.Extend && b.Name == n {
				return true
			}
		}
	}
	return false
}

func (s *schema) fieldNames(typ string) map[string]bool {
	m := map[string]bool{}
	for _, f := range s.Files {
		for _, b := range f.Blocks {
			if b.Name == typ {
				for _, fd := range b.Fields {
					m[fd.Name] = true
				}
			}
		}
	}
	return m
}

// freshField picks a field name unused on typ. Names are deliberately shared across types.
func (s *schema) freshField(r *rand.Rand, typ string) string {
	used := s.fieldNames(typ)
	for i := 0; i < 6; i++ {
		w := fieldWords[r.Intn(len(fieldWords))]
		if !used[w] {
			return w
		}
	}
	for {
		s.next++
		w := fmt.Sprintf("%s%s%d", fieldWords[r.Intn(len(fieldWords))], ucFirst(fieldWords[r.Intn(len(fieldWords))]), s.next)
		if !used[w] {
			return w
		}
	}
}

func (s *schema) randomFieldType(r *rand.Rand, subscription bool) (string, string) {
	objs := s.objectTypes()
	if len(objs) > 0 && r.Intn(100) < 45 {
		o := objs[r.Intn(len(objs))]
		shapes := []string{"%s", "%s!", "[%s!]!", "[%s]"}
		return fmt.Sprintf(shapes[r.Intn(len(shapes))], o), o
	}
	return scalarTypes[r.Intn(len(scalarTypes))], ""
}

func (s *schema) newField(r *rand.Rand, typ string) *fieldDef {
	t, ref := s.randomFieldType(r, typ == "Subscription")
	fd := &fieldDef{Name: s.freshField(r, typ), Type: t, Ref: ref}
	if typ != "Subscription" || r.Intn(2) == 0 {
		fd.Args = argPool[r.Intn(len(argPool))]
	}
	if !rootNames[typ] {
		fd.Force = true
	}
	return fd
}

func newObjectBlock(s *schema, r *rand.Rand, name string) *typeBlock {
	b := &typeBlock{Name: name}
	b.Fields = append(b.Fields, &fieldDef{Name: "id", Type: "ID!"})
	b.Fields = append(b.Fields, &fieldDef{Name: "title", Type: "String"})
	if r.Intn(2) == 0 {
		b.Fields = append(b.Fields, &fieldDef{Name: "count", Type: "Int!"})
	}
	return b
}

// genSchema builds S0: 2-3 schema files; Query (+ an extension in another file sometimes),
// optional Mutation / Subscription, 1-3 object types with 0-2 forced-resolver fields each.
func genSchema(r *rand.Rand) *schema {
	s := &schema{}
	nFiles := 2 + r.Intn(2)
	for i := 0; i < nFiles; i++ {
		name := string(rune('a' + i))
		if nFiles == 3 {
			// mixed-case file names: the resolver file of a schema file keeps the schema file's case
			name = []string{"a", "Bee", "cX"}[i]
		}
		s.Files = append(s.Files, &schemaFile{Name: name + ".graphql"})
	}
	// object types first (so fields may reference them)
	nObj := 1 + r.Intn(3)
	perm := r.Perm(len(typeWords))
	var objBlocks []*typeBlock
	for i := 0; i < nObj; i++ {
		b := newObjectBlock(s, r, typeWords[perm[i]])
		f := s.Files[r.Intn(nFiles)]
		f.Blocks = append(f.Blocks, b)
		objBlocks = append(objBlocks, b)
	}
	for _, b := range objBlocks {
		n := r.Intn(3)
		for j := 0; j < n; j++ {
			b.Fields = append(b.Fields, s.newField(r, b.Name))
		}
	}
	q := &typeBlock{Name: "Query"}
	s.Files[0].Blocks = append([]*typeBlock{q}, s.Files[0].Blocks...)
	for j, n := 0, 2+r.Intn(3); j < n; j++ {
		q.Fields = append(q.Fields, s.newField(r, "Query"))
	}
	if r.Intn(100) < 40 {
		e := &typeBlock{Name: "Query", Extend: true}
		f := s.Files[1+r.Intn(nFiles-1)]
		f.Blocks = append(f.Blocks, e)
		for j, n := 0, 1+r.Intn(2); j < n; j++ {
			e.Fields = append(e.Fields, s.newField(r, "Query"))
		}
	}
	if r.Intn(100) < 60 {
		m := &typeBlock{Name: "Mutation"}
		f := s.Files[r.Intn(nFiles)]
		f.Blocks = append(f.Blocks, m)
		for j, n := 0, 1+r.Intn(3); j < n; j++ {
			m.Fields = append(m.Fields, s.newField(r, "Mutation"))
		}
	}
	if r.Intn(100) < 30 {
		m := &typeBlock{Name: "Subscription"}
		f := s.Files[r.Intn(nFiles)]
		f.Blocks = append(f.Blocks, m)
		for j, n := 0, 1+r.Intn(2); j < n; j++ {
			m.Fields = append(m.Fields, s.newField(r, "Subscription"))
		}
	}
	return s
}

type blockRef struct {
	file *schemaFile
	blk  *typeBlock
}

func (s *schema) blocks() []blockRef {
	var out []blockRef
	for _, f := range s.Files {
		for _, b := range f.Blocks {
			out = append(out, blockRef{f, b})
		}
	}
	return out
}

func isResolverField(b *typeBlock, fd *fieldDef) bool { return rootNames[b.Name] || fd.Force }

func (s *schema) dropBlock(br blockRef) {
	for i, b := range br.file.Blocks {
		if b == br.blk {
			br.file.Blocks = append(br.file.Blocks[:i:i], br.file.Blocks[i+1:]...)
			return
		}
	}
}

// totalFields counts all fields of a type over its base block and extensions.
func (s *schema) totalFields(typ string) int {
	n := 0
	for _, br := range s.blocks() {
		if br.blk.Name == typ {
			n += len(br.blk.Fields)
		}
	}
	return n
}

// removeFieldAt removes field i of the block; an emptied extension block is dropped, an emptied
// base block of a root type other than Query is dropped together with its extensions' fields
// being hoisted (kept simple: refuse instead).
func (s *schema) canRemove(br blockRef) bool {
	if len(br.blk.Fields) > 1 {
		return true
	}
	return br.blk.Extend // an extension block may disappear entirely
}

func (s *schema) removeField(br blockRef, i int) {
	br.blk.Fields = append(br.blk.Fields[:i:i], br.blk.Fields[i+1:]...)
	if len(br.blk.Fields) == 0 && br.blk.Extend {
		s.dropBlock(br)
	}
}

type evoOp struct {
	Kind   string `json:"kind"`
	Detail string `json:"detail"`
}

var evoKinds = []string{"add_field", "remove_field", "rename_field", "add_type", "remove_type", "move_field", "reorder"}

// resolverSites lists (block, index) of resolver-backed fields.
func (s *schema) resolverSites() (out []struct {
	br blockRef
	i  int
}) {
	for _, br := range s.blocks() {
		for i, fd := range br.blk.Fields {
			if isResolverField(br.blk, fd) {
				out = append(out, struct {
					br blockRef
					i  int
				}{br, i})
			}
		}
	}
	return
}

// apply mutates s with one evolution of the given kind; ok=false when not applicable.
func (s *schema) apply(r *rand.Rand, kind string) (evoOp, bool) {
	switch kind {
	case "add_field":
		var cands []blockRef
		for _, br := range s.blocks() {
			cands = append(cands, br) // object blocks get a forced-resolver field
		}
		br := cands[r.Intn(len(cands))]
		fd := s.newField(r, br.blk.Name)
		pos := r.Intn(len(br.blk.Fields) + 1)
		br.blk.Fields = append(br.blk.Fields[:pos:pos], append([]*fieldDef{fd}, br.blk.Fields[pos:]...)...)
		return evoOp{kind, br.file.Name + ":" + br.blk.Name + "." + fd.Name}, true
	case "remove_field":
		sites := s.resolverSites()
		r.Shuffle(len(sites), func(i, j int) { sites[i], sites[j] = sites[j], sites[i] })
		for _, st := range sites {
			if s.canRemove(st.br) {
				n := st.br.blk.Fields[st.i].Name
				s.removeField(st.br, st.i)
				return evoOp{kind, st.br.file.Name + ":" + st.br.blk.Name + "." + n}, true
			}
		}
		return evoOp{}, false
	case "rename_field":
		sites := s.resolverSites()
		if len(sites) == 0 {
			return evoOp{}, false
		}
		st := sites[r.Intn(len(sites))]
		fd := st.br.blk.Fields[st.i]
		old := fd.Name
		fd.Name = s.freshField(r, st.br.blk.Name)
		return evoOp{kind, st.br.blk.Name + "." + old + "->" + fd.Name}, true
	case "add_type":
		s.next++
		name := fmt.Sprintf("%s%d", typeWords[r.Intn(len(typeWords))], s.next)
		if s.hasType(name) {
			return evoOp{}, false
		}
		f := s.Files[r.Intn(len(s.Files))]
		b := newObjectBlock(s, r, name)
		f.Blocks = append(f.Blocks, b)
		for j, n := 0, 1+r.Intn(2); j < n; j++ {
			b.Fields = append(b.Fields, s.newField(r, name))
		}
		// a root field returning it
		var roots []blockRef
		for _, br := range s.blocks() {
			if rootNames[br.blk.Name] && br.blk.Name != "Subscription" {
				roots = append(roots, br)
			}
		}
		br := roots[r.Intn(len(roots))]
		br.blk.Fields = append(br.blk.Fields, &fieldDef{Name: s.freshField(r, br.blk.Name), Type: name, Ref: name, Args: argPool[r.Intn(len(argPool))]})
		return evoOp{kind, f.Name + ":" + name}, true
	case "remove_type":
		// candidates: object types, or a non-Query root type
		var cands []string
		cands = append(cands, s.objectTypes()...)
		for _, rn := range []string{"Mutation", "Subscription"} {
			if s.hasType(rn) {
				cands = append(cands, rn)
			}
		}
		r.Shuffle(len(cands), func(i, j int) { cands[i], cands[j] = cands[j], cands[i] })
	next:
		for _, t := range cands {
			// every block referencing t must survive the removal of those fields
			trial := s.clone()
			for _, br := range trial.blocks() {
				if br.blk.Name == t {
					continue
				}
				var keep []*fieldDef
				for _, fd := range br.blk.Fields {
					if fd.Ref != t {
						keep = append(keep, fd)
					}
				}
				if len(keep) == 0 && !br.blk.Extend {
					continue next
				}
				br.blk.Fields = keep
			}
			for _, br := range trial.blocks() {
				if br.blk.Name == t || (len(br.blk.Fields) == 0 && br.blk.Extend) {
					trial.dropBlock(br)
				}
			}
			s.Files = trial.Files
			return evoOp{kind, t}, true
		}
		return evoOp{}, false
	case "move_field":
		sites := s.resolverSites()
		r.Shuffle(len(sites), func(i, j int) { sites[i], sites[j] = sites[j], sites[i] })
		for _, st := range sites {
			if !s.canRemove(st.br) || len(s.Files) < 2 {
				continue
			}
			// destination: another file
			var others []*schemaFile
			for _, f := range s.Files {
				if f != st.br.file {
					others = append(others, f)
				}
			}
			dst := others[r.Intn(len(others))]
			fd := st.br.blk.Fields[st.i]
			typ := st.br.blk.Name
			s.removeField(st.br, st.i)
			var target *typeBlock
			for _, b := range dst.Blocks {
				if b.Name == typ {
					target = b
					break
				}
			}
			if target == nil {
				target = &typeBlock{Name: typ, Extend: true}
				dst.Blocks = append(dst.Blocks, target)
			}
			target.Fields = append(target.Fields, fd)
			return evoOp{kind, typ + "." + fd.Name + ":" + st.br.file.Name + "->" + dst.Name}, true
		}
		return evoOp{}, false
	case "reorder":
		brs := s.blocks()
		r.Shuffle(len(brs), func(i, j int) { brs[i], brs[j] = brs[j], brs[i] })
		for _, br := range brs {
			if len(br.blk.Fields) >= 2 {
				before := fmt.Sprint(names(br.blk.Fields))
				for try := 0; try < 4; try++ {
					r.Shuffle(len(br.blk.Fields), func(i, j int) {
						br.blk.Fields[i], br.blk.Fields[j] = br.blk.Fields[j], br.blk.Fields[i]
					})
					if fmt.Sprint(names(br.blk.Fields)) != before {
						break
					}
				}
				if len(br.file.Blocks) >= 2 && r.Intn(2) == 0 {
					r.Shuffle(len(br.file.Blocks), func(i, j int) {
						br.file.Blocks[i], br.file.Blocks[j] = br.file.Blocks[j], br.file.Blocks[i]
					})
				}
				return evoOp{kind, br.file.Name + ":" + br.blk.Name}, true
			}
		}
		return evoOp{}, false
	}
	return evoOp{}, false
}

func names(fs []*fieldDef) []string {
	var o []string
	for _, f := range fs {
		o = append(o, f.Name)
	}
	return o
}
