package main

// go/parser based view of a resolver file: resolver methods (body / doc / result names), other
// declarations with their exact source text, imports.

import (
	"go/ast"
	"go/parser"
	"go/token"
	"strconv"
	"strings"
)

type impInfo struct {
	Alias string
	Path  string
}

func (i impInfo) local() string {
	if i.Alias != "" {
		return i.Alias
	}
	switch i.Path {
	case "github.com/vektah/gqlparser/v2":
		return "gqlparser"
	}
	p := i.Path
	if k := strings.LastIndex(p, "/"); k >= 0 {
		p = p[k+1:]
	}
	return p
}

type methodInfo struct {
	File        string
	Key         string // recv.Name
	Recv, Name  string
	Body        string // source between the braces, space-trimmed
	DocText     string // CommentGroup.Text()
	DocRaw      string // comment source as written
	DocSrc      string
	ResNames    []string
	ResType     string
	ResultsText string
	SigPrefix   string // "func (r *x) Name(params) "
	HasObj      bool
	Decl        *ast.FuncDecl
	UsesLocals  map[string]bool // unresolved X of selector expressions + unresolved identifiers in the body
}

type declInfo struct {
	Kind string // method | func | type | var | const
	Name string
	Key  string // for methods
	Text string // source from decl.Pos() to decl.End()  (what RemainingSource would carry)
	Full string // including the doc comment
}

type fileInfo struct {
	Name    string
	Src     string
	Head    string
	Imports []impInfo
	Decls   []declInfo
	Methods map[string]*methodInfo
	File    *ast.File
	Fset    *token.FileSet
}

func recvName(d *ast.FuncDecl) string {
	if d.Recv == nil || len(d.Recv.List) == 0 {
		return ""
	}
	t := d.Recv.List[0].Type
	if s, ok := t.(*ast.StarExpr); ok {
		t = s.X
	}
	switch x := t.(type) {
	case *ast.Ident:
		return x.Name
	case *ast.IndexExpr:
		if id, ok := x.X.(*ast.Ident); ok {
			return id.Name + "[]"
		}
	case *ast.IndexListExpr:
		if id, ok := x.X.(*ast.Ident); ok {
			return id.Name + "[]"
		}
	}
	return "?"
}

func isResolverStruct(n string) bool {
	return strings.HasSuffix(n, "Resolver") && n != "Resolver" && n != "" && n[0] >= 'a' && n[0] <= 'z'
}

func parseResolverFile(name, src string) (*fileInfo, error) {
	fset := token.NewFileSet()
	f, err := parser.ParseFile(fset, name, src, parser.ParseComments|parser.AllErrors)
	if err != nil {
		return nil, err
	}
	off := func(p token.Pos) int { return fset.Position(p).Offset }
	fi := &fileInfo{Name: name, Src: src, Methods: map[string]*methodInfo{}, File: f, Fset: fset}
	for _, is := range f.Imports {
		p, _ := strconv.Unquote(is.Path.Value)
		a := ""
		if is.Name != nil {
			a = is.Name.Name
		}
		fi.Imports = append(fi.Imports, impInfo{a, p})
	}
	first := len(src)
	for _, d := range f.Decls {
		start := d.Pos()
		var doc *ast.CommentGroup
		switch x := d.(type) {
		case *ast.GenDecl:
			doc = x.Doc
		case *ast.FuncDecl:
			doc = x.Doc
		}
		if doc != nil && doc.Pos() < start {
			start = doc.Pos()
		}
		if off(start) < first {
			first = off(start)
		}
		if g, ok := d.(*ast.GenDecl); ok && g.Tok == token.IMPORT {
			continue
		}
		di := declInfo{Text: src[off(d.Pos()):off(d.End())], Full: src[off(start):off(d.End())]}
		switch x := d.(type) {
		case *ast.GenDecl:
			di.Kind = strings.ToLower(x.Tok.String())
			if len(x.Specs) > 0 {
				switch s := x.Specs[0].(type) {
				case *ast.TypeSpec:
					di.Name = s.Name.Name
				case *ast.ValueSpec:
					di.Name = s.Names[0].Name
				}
			}
		case *ast.FuncDecl:
			di.Kind = "func"
			di.Name = x.Name.Name
			rn := recvName(x)
			if rn != "" {
				di.Kind = "othermethod"
				di.Name = rn + "." + x.Name.Name
			}
			if isResolverStruct(rn) && x.Body != nil {
				di.Kind = "method"
				di.Key = rn + "." + x.Name.Name
				m := &methodInfo{File: name, Key: di.Key, Recv: rn, Name: x.Name.Name, Decl: x}
				m.Body = strings.TrimSpace(src[off(x.Body.Lbrace)+1 : off(x.Body.Rbrace)])
				if x.Doc != nil {
					m.DocText = x.Doc.Text()
					m.DocRaw = src[off(x.Doc.Pos()):off(x.Doc.End())]
					m.DocSrc = m.DocRaw
				}
				if x.Type.Results != nil {
					m.ResultsText = src[off(x.Type.Results.Pos()):off(x.Type.Results.End())]
					for i, r := range x.Type.Results.List {
						if i == 0 {
							m.ResType = src[off(r.Type.Pos()):off(r.Type.End())]
						}
						if len(r.Names) == 0 {
							m.ResNames = append(m.ResNames, "")
						}
						for _, nm := range r.Names {
							m.ResNames = append(m.ResNames, nm.Name)
						}
					}
					m.SigPrefix = src[off(x.Pos()):off(x.Type.Results.Pos())]
				}
				for _, p := range x.Type.Params.List {
					for _, nm := range p.Names {
						if nm.Name == "obj" {
							m.HasObj = true
						}
					}
				}
				m.UsesLocals = map[string]bool{}
				ast.Inspect(x.Body, func(n ast.Node) bool {
					switch v := n.(type) {
					case *ast.SelectorExpr:
						if id, ok := v.X.(*ast.Ident); ok && id.Obj == nil {
							m.UsesLocals[id.Name] = true
						}
					case *ast.Ident:
						if v.Obj == nil {
							m.UsesLocals["."+v.Name] = true
						}
					}
					return true
				})
				fi.Methods[di.Key] = m
			}
		}
		fi.Decls = append(fi.Decls, di)
	}
	fi.Head = src[:first]
	return fi, nil
}

// usesLocal reports whether the file's code refers to package-local name `local` through an
// unresolved selector base (the way a package reference looks to the parser).
func (fi *fileInfo) usesLocal(local string) bool {
	used := false
	ast.Inspect(fi.File, func(n ast.Node) bool {
		if s, ok := n.(*ast.SelectorExpr); ok {
			if id, ok := s.X.(*ast.Ident); ok && id.Obj == nil && id.Name == local {
				used = true
			}
		}
		return !used
	})
	return used
}

// usesIdent reports whether an unresolved bare identifier with one of the names occurs in a
// function body (dot-import use).
func (fi *fileInfo) usesIdent(names []string) bool {
	want := map[string]bool{}
	for _, n := range names {
		want[n] = true
	}
	used := false
	for _, d := range fi.File.Decls {
		fd, ok := d.(*ast.FuncDecl)
		if !ok || fd.Body == nil {
			continue
		}
		ast.Inspect(fd.Body, func(n ast.Node) bool {
			if c, ok := n.(*ast.CallExpr); ok {
				if id, ok := c.Fun.(*ast.Ident); ok && id.Obj == nil && want[id.Name] {
					used = true
				}
			}
			return !used
		})
	}
	return used
}

func (fi *fileInfo) hasImport(i impInfo) bool {
	for _, x := range fi.Imports {
		if x.Path == i.Path && x.local() == i.local() {
			return true
		}
	}
	return false
}
