package main

// Seeded "user edit" pass over freshly generated resolver files: random method bodies, doc
// comments, named results, helper declarations and user imports. Everything written here must
// still compile (verified with `go build` by the caller before any regeneration).

import (
	"fmt"
	"go/ast"
	"go/format"
	"math/rand"
	"sort"
	"strings"
)

// ---- user import pool ------------------------------------------------------------------------

type userImport struct {
	Alias string   // "", "_", "." or a name
	Path  string   //
	Local string   // local package name when Alias is "" or a name
	Exprs []string // expressions (any type) using the import
	Dot   []string // identifiers an expression of a dot import uses
	Class string   // plain | aliased | dot | blank | reserved_alias | reserved_name | suffix_alias
}

var plainImports = []userImport{
	{Alias: "", Path: "strings", Local: "strings", Exprs: []string{`strings.ToUpper("a}")`, `strings.Repeat("{", 2)`}, Class: "plain"},
	{Alias: "", Path: "unicode/utf8", Local: "utf8", Exprs: []string{`utf8.RuneLen('}')`, `utf8.ValidString("*/")`}, Class: "plain"},
	{Alias: "", Path: "path/filepath", Local: "filepath", Exprs: []string{`filepath.Base("a/b")`}, Class: "plain"},
	{Alias: "", Path: "encoding/json", Local: "json", Exprs: []string{`json.Valid([]byte("{}"))`}, Class: "plain"},
	// the package name is not the last element of the import path
	{Alias: "", Path: "math/rand/v2", Local: "rand", Exprs: []string{`rand.IntN(3)`}, Class: "plain"},
	{Alias: "str", Path: "strings", Local: "str", Exprs: []string{`str.ToLower("A{")`, `str.Fields("a b")`}, Class: "aliased"},
	{Alias: "xurl", Path: "net/url", Local: "xurl", Exprs: []string{`xurl.QueryEscape("a b")`}, Class: "aliased"},
	{Alias: "b64", Path: "encoding/base64", Local: "b64", Exprs: []string{`b64.StdEncoding.EncodeToString([]byte("x"))`}, Class: "aliased"},
	{Alias: "mrand", Path: "math/rand", Local: "mrand", Exprs: []string{`mrand.Intn(3)`}, Class: "aliased"},
	{Alias: "stdsort", Path: "sort", Local: "stdsort", Exprs: []string{`stdsort.SearchInts(nil, 1)`}, Class: "aliased"},
	{Alias: "hx", Path: "encoding/hex", Local: "hx", Exprs: []string{`hx.EncodeToString([]byte("}"))`}, Class: "aliased"},
}
var dotImports = []userImport{
	{Alias: ".", Path: "math", Exprs: []string{`Sqrt(2)`, `Floor(1.5)`}, Dot: []string{"Sqrt", "Floor"}, Class: "dot"},
	{Alias: ".", Path: "sort", Exprs: []string{`SearchInts(nil, 1)`, `StringsAreSorted(nil)`}, Dot: []string{"SearchInts", "StringsAreSorted"}, Class: "dot"},
}
var blankImports = []userImport{
	{Alias: "_", Path: "embed", Class: "blank"},
	{Alias: "_", Path: "image/png", Class: "blank"},
	{Alias: "_", Path: "image/gif", Class: "blank"},
}

// Imports that hit the generator's ambient (template-reserved) import table.
var reservedAliasImports = []userImport{
	{Alias: "stderrors", Path: "errors", Local: "stderrors", Exprs: []string{`stderrors.New("x}")`}, Class: "reserved_alias"},
	{Alias: "gotime", Path: "time", Local: "gotime", Exprs: []string{`gotime.Duration(3)`}, Class: "reserved_alias"},
	{Alias: "", Path: "go/ast", Local: "ast", Exprs: []string{`ast.NewIdent("x")`}, Class: "reserved_name"},
}
var suffixAliasImports = []userImport{
	{Alias: "s", Path: "strings", Local: "s", Exprs: []string{`s.Title("a")`, `s.TrimSpace(" }")`}, Class: "suffix_alias"},
	{Alias: "h", Path: "math", Local: "h", Exprs: []string{`h.Abs(-1)`}, Class: "suffix_alias"},
	{Alias: "l", Path: "net/url", Local: "l", Exprs: []string{`l.PathEscape("a b")`}, Class: "suffix_alias"},
}

// Paths the resolver template reserves before the user's imports are re-reserved.
var templateReserved = map[string]string{
	"context": "context", "fmt": "fmt", "io": "io", "strconv": "strconv", "time": "time", "sync": "sync",
	"errors": "errors", "bytes": "bytes", "github.com/vektah/gqlparser/v2": "gqlparser",
	"github.com/vektah/gqlparser/v2/ast": "ast", "github.com/99designs/gqlgen/graphql": "graphql",
	"github.com/99designs/gqlgen/graphql/introspection": "introspection",
}

// ---- random text fragments ---------------------------------------------------------------------

type gen struct {
	r    *rand.Rand
	n    int            // unique-name counter (package wide)
	feat map[string]int // feature usage counters (merged into the evidence)
	// rootNamed: helper methods on the root resolver type already placed (one per name and package)
	rootNamed map[string]bool
}

func (g *gen) id() int { g.n++; return g.n }
func (g *gen) use(f string) {
	g.feat[f]++
}
func (g *gen) pick(xs []string) string { return xs[g.r.Intn(len(xs))] }
func (g *gen) chance(p int) bool       { return g.r.Intn(100) < p }

var words = []string{"lorem", "ipsum", "dolor", "sit", "amet", "user", "code", "resolver", "héllo", "→", "done"}

// interpreted string content (already escaped); term allows the comment terminator.
func (g *gen) strContent(term bool) string {
	frags := []string{"}", "{", "{{", "}}", `\"`, "'", `\\`, `\n`, `\t`, " ", "//", "/*", "`", "%d", `\u007b`, `\x7d`, "func() {", "{{ .X }}"}
	var b strings.Builder
	for i, n := 0, 1+g.r.Intn(6); i < n; i++ {
		if g.chance(40) {
			b.WriteString(g.pick(words))
		} else {
			b.WriteString(g.pick(frags))
		}
		if g.chance(30) {
			b.WriteString(" ")
		}
	}
	if term {
		b.WriteString(g.pick([]string{"*/", " */ ", "/* x */", "*/ }"}))
		g.use("terminator_in_string")
	}
	return b.String()
}

func (g *gen) rawContent(term bool) string {
	frags := []string{"}", "{", `"`, "'", `\`, "\n", "\n\t", " ", "//", "/*", "$", "func() {", "\"}\"", "{{ end }}"}
	var b strings.Builder
	for i, n := 0, 1+g.r.Intn(7); i < n; i++ {
		if g.chance(40) {
			b.WriteString(g.pick(words))
		} else {
			b.WriteString(g.pick(frags))
		}
	}
	if term {
		b.WriteString(g.pick([]string{"*/", "\n*/\n", " */ }"}))
		g.use("terminator_in_raw_string")
	}
	return b.String()
}

func (g *gen) commentText(term bool) string {
	frags := []string{"}", "{", `"`, "'", "`", "/*", "//", "func x() {", "TODO(user):", "}}"}
	var b strings.Builder
	for i, n := 0, 2+g.r.Intn(5); i < n; i++ {
		if g.chance(55) {
			b.WriteString(g.pick(words))
		} else {
			b.WriteString(g.pick(frags))
		}
		b.WriteString(" ")
	}
	if term {
		b.WriteString("*/ ")
		g.use("terminator_in_line_comment")
	}
	return strings.TrimSpace(b.String())
}

// ---- bodies ----------------------------------------------------------------------------------

type bodyCtx struct {
	ResType   string // Go result type text
	ResName   string // "" when results are unnamed
	ErrName   string
	HasObj    bool
	Term      bool     // may contain the two characters "*/"
	MustExprs []string // import expressions this body has to contain
	OptExprs  []string // further expressions (imports of the file, helpers)
}

func (g *gen) stmt(c *bodyCtx) string {
	n := g.id()
	term := c.Term && g.chance(50)
	switch g.r.Intn(26) {
	case 25:
		// a partially implemented resolver: one branch still holds the generator's own
		// "not implemented" idiom, the rest of the body is the user's
		g.use("body_with_not_implemented_branch")
		return fmt.Sprintf("if n%[1]d := len(\"x\"); n%[1]d > 7 {\n\tpanic(fmt.Errorf(\"not implemented: Later%[1]d - later%[1]d\"))\n}", n)
	case 23:
		// a local variable named like a package the resolver template reserves as an import, used
		// with a selector: the regenerated file must not keep that import because of it
		g.use("body_local_named_like_reserved_import")
		name := g.pick([]string{"io", "bytes", "strconv", "sync", "errors", "time"})
		return fmt.Sprintf("{\n\t%[1]s := struct{ In int }{%[2]d}\n\t_ = %[1]s.In\n}", name, n)
	case 0:
		g.use("body_string_literal")
		return fmt.Sprintf("s%d := \"%s\"\n_ = s%d", n, g.strContent(term), n)
	case 1:
		g.use("body_raw_string")
		return fmt.Sprintf("r%d := `%s`\n_ = r%d", n, g.rawContent(term), n)
	case 2:
		g.use("body_rune_literal")
		return fmt.Sprintf("c%d := '%s'\n_ = c%d", n, g.pick([]string{"}", "{", `\'`, `"`, "*", "/", `\\`, "`", `\x7d`}), n)
	case 3:
		g.use("body_nested_blocks")
		return fmt.Sprintf(`if n%[1]d := len("abc}"); n%[1]d > 0 {
	for i := 0; i < n%[1]d; i++ {
		switch {
		case i%%2 == 0:
			{
				_ = i
			}
		default:
			if i > 3 {
				break
			}
		}
	}
} else if n%[1]d < 0 {
	_ = "{"
}`, n)
	case 4:
		g.use("body_closure")
		return fmt.Sprintf(`f%[1]d := func(a int) func() int {
	return func() int { return a + %[2]d }
}
_ = f%[1]d(1)()`, n, g.r.Intn(9))
	case 5:
		g.use("body_labelled_loop")
		return fmt.Sprintf(`outer%[1]d:
	for i := 0; i < 3; i++ {
		for j := 0; j < 3; j++ {
			if j == 1 {
				continue outer%[1]d
			}
			if i == 2 {
				break outer%[1]d
			}
		}
	}`, n)
	case 6:
		g.use("body_goto_label")
		return fmt.Sprintf(`k%[1]d := 0
retry%[1]d:
	if k%[1]d < 2 {
		k%[1]d++
		goto retry%[1]d
	}`, n)
	case 7:
		g.use("body_multiline_composite")
		return fmt.Sprintf("m%[1]d := map[string][]struct {\n\tA int\n\tB string\n}{\n\t\"k}\": {{1, \"{\"}, {2, \"%[2]s\"}},\n\t\"{{\": {\n\t\t{3, `}`},\n\t},\n}\n_ = m%[1]d", n, g.strContent(term))
	case 8:
		g.use("body_line_comment")
		return "// " + g.commentText(term)
	case 9:
		if c.Term {
			g.use("body_block_comment")
			if g.chance(50) {
				return "/* " + g.commentText(false) + " */"
			}
			return "/*\n   " + g.commentText(false) + "\n   } {\n*/"
		}
		g.use("body_line_comment")
		return "// " + g.commentText(false) + "\n// " + g.commentText(false)
	case 10:
		if len(c.OptExprs) > 0 {
			g.use("body_uses_import_or_helper")
			return "_ = " + g.pick(c.OptExprs)
		}
		return "_ = ctx"
	case 11:
		g.use("body_defer_recover")
		if c.ErrName != "" && c.ErrName != "_" {
			return fmt.Sprintf(`defer func() {
	if rec := recover(); rec != nil {
		%s = fmt.Errorf("recovered } %%v", rec)
	}
}()`, c.ErrName)
		}
		return `defer func() {
	if rec := recover(); rec != nil {
		_ = rec
	}
}()`
	case 12:
		g.use("body_select_goroutine")
		return fmt.Sprintf(`ch%[1]d := make(chan struct{}, 1)
go func() { ch%[1]d <- struct{}{} }()
select {
case <-ch%[1]d:
case <-ctx.Done():
}`, n)
	case 13:
		g.use("body_local_type")
		return fmt.Sprintf("type loc%[1]d struct {\n\tA, B int\n\tC string `json:\"c}\"`\n}\nv%[1]d := loc%[1]d{A: 1, C: \"%[2]s\"}\n_ = v%[1]d", n, g.strContent(term))
	case 14:
		g.use("body_iife")
		return fmt.Sprintf("func() { _ = \"%s\" }()", g.strContent(term))
	case 15:
		g.use("body_multiline_call")
		return fmt.Sprintf("_ = append([]string{},\n\t\"a{\",\n\t\"}b\", // trailing } comment\n\t`%s`,\n)", g.rawContent(term))
	case 16:
		g.use("body_type_switch")
		return `switch v := any(ctx).(type) {
case nil:
default:
	_ = v
}`
	case 17:
		g.use("body_paren_composite")
		return `if (struct{ A int }{1}) == (struct{ A int }{1}) {
	_ = r
}`
	case 18:
		g.use("body_string_concat_multiline")
		return fmt.Sprintf("q%[1]d := \"%[2]s\" +\n\t\"%[3]s\" +\n\t`%[4]s`\n_ = q%[1]d", n, g.strContent(false), g.strContent(term), g.rawContent(false))
	case 19:
		g.use("body_const_iota")
		return fmt.Sprintf("const (\n\tca%[1]d = iota\n\tcb%[1]d\n)\n_ = ca%[1]d + cb%[1]d", n)
	case 20:
		g.use("body_block_stmt")
		return "{\n\t_ = r\n\t{\n\t}\n}"
	case 21:
		if c.HasObj {
			return "_ = obj"
		}
		return "_, _ = ctx, r"
	case 22:
		g.use("body_func_literal_slice")
		return fmt.Sprintf("fs%[1]d := []func(string) bool{\n\tfunc(s string) bool { return s == \"}\" },\n\tfunc(s string) bool {\n\t\treturn len(s) > 0 // {\n\t},\n}\n_ = fs%[1]d", n)
	default:
		g.use("body_fmt_use")
		return fmt.Sprintf("_ = fmt.Sprintf(\"%%v %s\", ctx)", g.strContent(term))
	}
}

func (g *gen) ret(c *bodyCtx) string {
	zero := "*new(" + c.ResType + ")"
	if c.ResName != "" {
		switch g.r.Intn(4) {
		case 0:
			g.use("return_naked")
			return "return"
		case 1:
			if c.ResName != "_" && c.ErrName != "_" {
				return fmt.Sprintf("return %s, %s", c.ResName, c.ErrName)
			}
			return "return"
		case 2:
			if c.ResName != "_" {
				return fmt.Sprintf("%s = %s\nreturn", c.ResName, zero)
			}
			return "return " + zero + ", nil"
		default:
			return "return " + zero + ", nil"
		}
	}
	switch g.r.Intn(5) {
	case 0:
		n := g.id()
		return fmt.Sprintf("var zero%d %s\nreturn zero%d, nil", n, c.ResType, n)
	case 1:
		g.use("return_if_else_terminating")
		return fmt.Sprintf("if ctx.Err() != nil {\n\treturn %s, ctx.Err()\n} else {\n\treturn %s, nil\n}", zero, zero)
	case 2:
		g.use("return_then_trailing_comment")
		return "return " + zero + ", nil\n// " + g.commentText(c.Term && g.chance(50))
	case 3:
		g.use("return_switch_terminating")
		return fmt.Sprintf("switch {\ncase ctx.Err() != nil:\n\treturn %s, fmt.Errorf(\"ctx } %%w\", ctx.Err())\ndefault:\n\treturn %s, nil\n}", zero, zero)
	default:
		return "return " + zero + ", nil"
	}
}

func (g *gen) body(c *bodyCtx) string {
	var parts []string
	if g.chance(20) {
		g.use("body_leading_comment")
		parts = append(parts, "// "+g.commentText(c.Term && g.chance(40)))
	}
	for _, e := range c.MustExprs {
		parts = append(parts, "_ = "+e)
	}
	for i, n := 0, 1+g.r.Intn(6); i < n; i++ {
		parts = append(parts, g.stmt(c))
	}
	g.r.Shuffle(len(parts), func(i, j int) { parts[i], parts[j] = parts[j], parts[i] })
	parts = append(parts, g.ret(c))
	return strings.Join(parts, "\n")
}

// ---- doc comments ---------------------------------------------------------------------------------

type docSpec struct {
	Text  string // comment source placed above the method ("" = none)
	Class string
}

func (g *gen) doc(name string, allowBackslash bool) docSpec {
	line := func() string { return g.commentText(g.chance(15)) }
	k := g.r.Intn(100)
	switch {
	case k < 14:
		g.use("doc_removed")
		return docSpec{"", "none"}
	case k < 26:
		g.use("doc_default_kept")
		return docSpec{"KEEP", "default"}
	case k < 50:
		g.use("doc_plain")
		return docSpec{fmt.Sprintf("// %s %s.\n// %s", name, line(), line()), "plain"}
	case k < 62:
		g.use("doc_paragraphs")
		return docSpec{fmt.Sprintf("// %s does %s.\n//\n// %s\n//\n//\tindented := code{}\n//\n// %s", name, line(), line(), line()), "paragraphs"}
	case k < 78:
		g.use("doc_with_directive_lines")
		d := g.pick([]string{"//nolint:foo", "//go:noinline", "//lint:ignore U1000 kept", "//nolint:gocyclo // reason }"})
		if g.chance(50) {
			return docSpec{fmt.Sprintf("// %s %s.\n//\n%s", name, line(), d), "directive"}
		}
		return docSpec{fmt.Sprintf("%s\n// %s %s.", d, name, line()), "directive"}
	case k < 84:
		g.use("doc_directive_only")
		return docSpec{g.pick([]string{"//go:noinline", "//nolint:foo"}), "directive_only"}
	case k < 93:
		g.use("doc_block_style")
		if g.chance(50) {
			return docSpec{fmt.Sprintf("/*\n%s %s.\n%s\n*/", name, g.commentText(false), g.commentText(false)), "block"}
		}
		return docSpec{fmt.Sprintf("/* %s %s. */", name, g.commentText(false)), "block"}
	default:
		if allowBackslash {
			g.use("doc_leading_backslash")
			return docSpec{fmt.Sprintf("// \\o/ %s %s.", name, g.commentText(false)), "backslash"}
		}
		g.use("doc_plain")
		return docSpec{fmt.Sprintf("// %s: %s", name, line()), "plain"}
	}
}

// ---- helper declarations -----------------------------------------------------------------------

type helper struct {
	Text  string
	Kind  string
	Exprs []string // expressions usable from bodies
	Term  bool
}

func (g *gen) helper(resolverStruct string, term bool) helper {
	n := g.id()
	t := term
	str := func() string { v := g.strContent(t); t = false; return v }
	switch g.r.Intn(14) {
	case 12, 13:
		// a helper method on the root resolver type that is named like a schema type without resolver
		// fields (an input object, a plain object): user code like any other
		for _, name := range []string{"InA", "Plain"} {
			if g.rootNamed == nil {
				g.rootNamed = map[string]bool{}
			}
			if !g.rootNamed[name] {
				g.rootNamed[name] = true
				g.use("helper_method_on_root_resolver_named_like_a_type")
				return helper{Text: fmt.Sprintf("// %[1]s builds a value (user helper %[2]d).\nfunc (r *Resolver) %[1]s(q string) string {\n\treturn q + \"%[3]s\"\n}", name, n, str()),
					Kind: "root_resolver_method", Term: term}
			}
		}
		fallthrough
	case 0:
		g.use("helper_func")
		c := ""
		if term && g.chance(50) {
			c = "\t/* block " + g.commentText(false) + " */\n"
			t = false
		}
		return helper{Text: fmt.Sprintf("// hf%[1]d is a user helper.\nfunc hf%[1]d(a int) string {\n%[3]s\ts := \"%[2]s\"\n\t// %[4]s\n\tif a > 0 {\n\t\treturn s + \"}\"\n\t}\n\treturn s\n}", n, str(), c, g.commentText(false)),
			Kind: "func", Exprs: []string{fmt.Sprintf("hf%d(%d)", n, g.r.Intn(5))}, Term: term}
	case 1:
		g.use("helper_struct_with_methods")
		return helper{Text: fmt.Sprintf("type ht%[1]d struct {\n\tA int `json:\"a}\"`\n\tB map[string][]int\n}\n\nfunc (h *ht%[1]d) Inc() int {\n\th.A++\n\treturn h.A\n}\n\n// String implements the Stringer interface.\nfunc (h ht%[1]d) String() string { return \"%[2]s\" }", n, str()),
			Kind: "type+methods", Exprs: []string{fmt.Sprintf("(&ht%d{}).Inc()", n), fmt.Sprintf("ht%d{}.String()", n)}, Term: term}
	case 2:
		g.use("helper_generic_type")
		return helper{Text: fmt.Sprintf("type hs%[1]d[T comparable] map[T]struct{}\n\nfunc (s hs%[1]d[T]) Add(v T) hs%[1]d[T] {\n\ts[v] = struct{}{} // %[2]s\n\treturn s\n}", n, g.commentText(t)),
			Kind: "generic_type", Exprs: []string{fmt.Sprintf("hs%d[string]{}.Add(\"}\")", n)}, Term: term}
	case 3:
		g.use("helper_generic_func")
		return helper{Text: fmt.Sprintf("func hm%[1]d[T, U any](in []T, f func(T) U) []U {\n\tout := make([]U, 0, len(in))\n\tfor _, v := range in {\n\t\tout = append(out, f(v))\n\t}\n\t_ = `%[2]s`\n\treturn out\n}", n, g.rawContent(t)),
			Kind: "generic_func", Exprs: []string{fmt.Sprintf("hm%d([]int{1}, func(i int) string { return \"{\" })", n)}, Term: term}
	case 4:
		g.use("helper_var_group")
		return helper{Text: fmt.Sprintf("var (\n\thv%[1]da = %[3]d\n\thv%[1]db = \"%[2]s\"\n\thv%[1]dc = []string{\n\t\t\"{\",\n\t\t\"}\",\n\t}\n)", n, str(), g.r.Intn(100)),
			Kind: "var", Exprs: []string{fmt.Sprintf("hv%da", n), fmt.Sprintf("len(hv%dc)", n)}, Term: term}
	case 5:
		g.use("helper_const")
		if g.chance(50) {
			return helper{Text: fmt.Sprintf("const hc%d = \"%s\"", n, str()), Kind: "const", Exprs: []string{fmt.Sprintf("hc%d", n)}, Term: term}
		}
		return helper{Text: fmt.Sprintf("const (\n\thc%[1]da = iota // %[2]s\n\thc%[1]db\n)", n, g.commentText(t)), Kind: "const", Exprs: []string{fmt.Sprintf("hc%db", n)}, Term: term}
	case 6:
		g.use("helper_interface_and_alias")
		return helper{Text: fmt.Sprintf("type hi%[1]d interface {\n\tDo(ctx context.Context) error // %[2]s\n}\n\ntype ha%[1]d = map[string]any", n, g.commentText(t)),
			Kind: "interface", Exprs: []string{fmt.Sprintf("ha%d{\"}\": hi%d(nil)}", n, n)}, Term: term}
	case 7:
		g.use("helper_method_on_resolver_struct")
		return helper{Text: fmt.Sprintf("func (r *%[3]s) helper%[1]d() string {\n\treturn \"%[2]s\"\n}", n, str(), resolverStruct),
			Kind: "resolver_struct_method", Term: term}
	case 8:
		g.use("helper_init_func")
		return helper{Text: fmt.Sprintf("func init() {\n\t_ = \"%s\"\n}", str()), Kind: "init", Term: term}
	case 9:
		g.use("helper_var_func_value")
		return helper{Text: fmt.Sprintf("var hfn%[1]d = func(x int) (int, error) {\n\tif x < 0 {\n\t\treturn 0, fmt.Errorf(\"%[2]s %%d\", x)\n\t}\n\treturn x, nil\n}", n, str()),
			Kind: "var", Exprs: []string{fmt.Sprintf("hfn%d", n)}, Term: term}
	case 10:
		g.use("helper_var_blank_assert")
		return helper{Text: fmt.Sprintf("var _ = fmt.Sprintf // %s", g.commentText(t)), Kind: "var", Term: term}
	default:
		g.use("helper_struct_embedding")
		return helper{Text: fmt.Sprintf("type he%[1]d struct {\n\t*Resolver\n\tcache map[string]struct {\n\t\tv string\n\t}\n\tnote string // %[2]s\n}", n, g.commentText(t)),
			Kind: "type", Exprs: []string{fmt.Sprintf("he%d{}", n)}, Term: term}
	}
}

// ---- the edit pass --------------------------------------------------------------------------------

type editOpts struct {
	Pure          bool // only bodies / docs / named results / imports (no helpers)
	TermHelpers   bool // helpers may contain "*/"
	RepeatedBlank bool
	RepeatedDot   bool
	ReservedClash bool
	SuffixAlias   bool
	BackslashDoc  bool
	StructFields  bool // single-file: give `type Resolver struct{}` fields
	GroupScaffold bool // put one generated `type xResolver struct{ *Resolver }` into a `type ( ... )` group behind a user type
	ScaffoldEdit  bool // give one generated `type xResolver struct{ *Resolver }` a field (and adapt its accessor)
}

type editResult struct {
	Files    map[string]string // filename -> edited, gofmt'ed source
	Features map[string]int
	Helpers  int
	Methods  int
}

// editFiles rewrites the given fresh resolver files. resolverFiles: name -> parsed.
func editFiles(r *rand.Rand, files map[string]*fileInfo, opts editOpts) (*editResult, error) {
	g := &gen{r: r, feat: map[string]int{}}
	res := &editResult{Files: map[string]string{}, Features: g.feat}
	names := make([]string, 0, len(files))
	for n := range files {
		names = append(names, n)
	}
	sort.Strings(names)

	// package-wide helper pool is decided first so that bodies in any file can use them.
	type placed struct {
		h    helper
		file string
	}
	var helpers []placed
	anyStruct := ""
	for _, n := range names {
		for _, d := range files[n].Decls {
			if d.Kind == "type" && strings.HasSuffix(d.Name, "Resolver") && d.Name != "Resolver" {
				anyStruct = d.Name
			}
		}
	}
	var helperExprs []string
	if !opts.Pure {
		for _, n := range names {
			if len(files[n].Methods) == 0 {
				continue
			}
			for i, k := 0, g.r.Intn(4); i < k; i++ {
				h := g.helper(anyStruct, opts.TermHelpers && g.chance(40))
				if h.Kind == "resolver_struct_method" && anyStruct == "" {
					continue
				}
				helpers = append(helpers, placed{h, n})
				helperExprs = append(helperExprs, h.Exprs...)
				res.Helpers++
			}
		}
	}

	if !opts.Pure {
		// every edited project: one helper method on the root resolver type named like the plain
		// object type of the schema (a type without resolver fields)
		for _, n := range names {
			if len(files[n].Methods) == 0 {
				continue
			}
			if g.rootNamed == nil {
				g.rootNamed = map[string]bool{}
			}
			if !g.rootNamed["Plain"] {
				g.rootNamed["Plain"] = true
				g.use("helper_method_on_root_resolver_named_like_a_type")
				helpers = append(helpers, placed{helper{Text: "// Plain builds a value (user helper).\nfunc (r *Resolver) Plain(q string) string {\n\treturn q + \"plain\"\n}", Kind: "root_resolver_method"}, n})
				res.Helpers++
			}
			break
		}
	}

	special := 0
	scaffoldDone := false
	for _, n := range names {
		fi := files[n]
		if len(fi.Methods) == 0 {
			// resolver.go of the follow-schema layout: leave alone
			res.Files[n] = fi.Src
			continue
		}
		// ---- imports of this file
		var imps []userImport
		perm := g.r.Perm(len(plainImports))
		seenPath := map[string]bool{}
		for i, k := 0, g.r.Intn(4); i < k; i++ {
			u := plainImports[perm[i]]
			if seenPath[u.Path] {
				continue
			}
			seenPath[u.Path] = true
			imps = append(imps, u)
			g.use("import_" + u.Class)
		}
		if g.chance(35) || (opts.RepeatedDot && special == 0) {
			imps = append(imps, dotImports[0])
			g.use("import_dot")
			if opts.RepeatedDot && special == 0 && !hasPath(imps, "sort") {
				imps = append(imps, dotImports[1])
				g.use("import_second_dot")
			}
		}
		if g.chance(35) || (opts.RepeatedBlank && special == 0) {
			imps = append(imps, blankImports[0])
			g.use("import_blank")
			if opts.RepeatedBlank && special == 0 {
				imps = append(imps, blankImports[1+g.r.Intn(2)])
				g.use("import_second_blank")
			}
		}
		if opts.ReservedClash && special == 0 {
			imps = append(imps, reservedAliasImports[g.r.Intn(len(reservedAliasImports))])
			g.use("import_clashing_with_template_reserved")
		}
		if opts.SuffixAlias && special == 0 {
			for _, u := range suffixAliasImports {
				if !seenPath[u.Path] && !(u.Path == "math" && hasPath(imps, "math")) {
					imps = append(imps, u)
					g.use("import_alias_suffix_of_path")
					break
				}
			}
		}
		special++

		// ---- methods: distribute the mandatory import uses
		var keys []string
		for k := range fi.Methods {
			keys = append(keys, k)
		}
		sort.Strings(keys)
		must := map[string][]string{}
		var fileExprs []string
		for _, u := range imps {
			if len(u.Exprs) == 0 {
				continue
			}
			k := keys[g.r.Intn(len(keys))]
			must[k] = append(must[k], g.pick(u.Exprs))
			fileExprs = append(fileExprs, u.Exprs...)
		}
		newDecl := map[string]string{}
		var compact []string
		for _, k := range keys {
			m := fi.Methods[k]
			c := &bodyCtx{ResType: m.ResType, HasObj: m.HasObj, Term: g.chance(25), MustExprs: must[k]}
			c.OptExprs = append(append([]string{}, fileExprs...), helperExprs...)
			results := m.ResultsText
			if g.chance(35) {
				c.ResName = g.pick([]string{"res", "result", "out", "_"})
				c.ErrName = g.pick([]string{"err", "err", "e", "_"})
				if c.ResName == "_" && c.ErrName != "_" && g.chance(50) {
					c.ResName = "res"
				}
				results = fmt.Sprintf("(%s %s, %s error)", c.ResName, m.ResType, c.ErrName)
				g.use("named_results")
			}
			if c.Term {
				g.use("body_may_contain_terminator")
			}
			d := g.doc(m.Name, opts.BackslashDoc)
			doc := d.Text
			if doc == "KEEP" {
				doc = strings.TrimRight(m.DocSrc, "\n")
			}
			var b strings.Builder
			if doc != "" {
				b.WriteString(doc + "\n")
			}
			// a user may declare the method on the value receiver (legal: the resolver structs only
			// embed a pointer); chosen without consuming randomness
			if (len(m.Name)+len(keys)+len(n))%5 == 0 && strings.Contains(m.SigPrefix, "(r *") {
				cp := *m
				cp.SigPrefix = strings.Replace(m.SigPrefix, "(r *", "(r ", 1)
				m = &cp
				g.use("value_receiver")
			}
			if len(must[k]) == 0 && g.chance(10) {
				g.use("body_one_liner")
				if g.chance(65) {
					// not gofmt'ed: no blanks inside the braces (restored after format.Source below)
					g.use("body_one_liner_unformatted")
					compact = append(compact, "{ return *new("+m.ResType+"), nil }")
				}
				b.WriteString(m.SigPrefix + results + " { return *new(" + m.ResType + "), nil }")
			} else {
				b.WriteString(m.SigPrefix + results + " {\n" + g.body(c) + "\n}")
			}
			newDecl[k] = b.String()
			res.Methods++
		}

		// ---- assemble
		var b strings.Builder
		b.WriteString(fi.Head)
		b.WriteString("import (\n")
		usesFmt := false
		for _, s := range newDecl {
			if strings.Contains(s, "fmt.") {
				usesFmt = true
			}
		}
		for _, p := range helpers {
			if p.file == n && strings.Contains(p.h.Text, "fmt.") {
				usesFmt = true
			}
		}
		for _, im := range fi.Imports {
			if im.Path == "fmt" {
				continue
			}
			if im.Path == "context" {
				continue
			}
			if im.Alias != "" {
				fmt.Fprintf(&b, "\t%s %q\n", im.Alias, im.Path)
			} else {
				fmt.Fprintf(&b, "\t%q\n", im.Path)
			}
		}
		b.WriteString("\t\"context\"\n")
		if usesFmt {
			b.WriteString("\t\"fmt\"\n")
		}
		// user imports in a seeded order (order matters for the repeated blank/dot class)
		for _, u := range imps {
			if u.Alias != "" {
				fmt.Fprintf(&b, "\t%s %q\n", u.Alias, u.Path)
			} else {
				fmt.Fprintf(&b, "\t%q\n", u.Path)
			}
		}
		b.WriteString(")\n\n")
		var mine []helper
		for _, p := range helpers {
			if p.file == n {
				mine = append(mine, p.h)
			}
		}
		slots := len(fi.Decls) + 1
		at := map[int][]helper{}
		for _, h := range mine {
			s := g.r.Intn(slots)
			at[s] = append(at[s], h)
		}
		scaffold := ""
		if opts.ScaffoldEdit && !scaffoldDone {
			for _, d := range fi.Decls {
				if d.Kind == "type" && isResolverStruct(d.Name) {
					scaffold = d.Name
				}
			}
			if scaffold != "" {
				scaffoldDone = true
				g.use("scaffold_struct_and_accessor_modified")
			}
		}
		grouped := ""
		if opts.GroupScaffold && !scaffoldDone && scaffold == "" {
			for _, d := range fi.Decls {
				if d.Kind == "type" && isResolverStruct(d.Name) {
					grouped = d.Name
				}
			}
			if grouped != "" {
				scaffoldDone = true
				g.use("scaffold_struct_grouped_behind_a_user_type")
			}
		}
		for i, d := range fi.Decls {
			for _, h := range at[i] {
				b.WriteString(h.Text + "\n\n")
			}
			switch {
			case grouped != "" && d.Kind == "type" && d.Name == grouped:
				// what "group declarations" of an IDE leaves: the user's type first, the generated one after it
				fmt.Fprintf(&b, "type (\n\thg%[1]d struct {\n\t\tseen map[string]int // user type\n\t}\n\t%[2]s struct{ *Resolver }\n)", g.id(), grouped)
			case scaffold != "" && d.Kind == "type" && d.Name == scaffold:
				fmt.Fprintf(&b, "type %s struct {\n\t*Resolver\n\tmemo map[string]int // user field }\n}", scaffold)
			case scaffold != "" && d.Kind == "othermethod" && strings.Contains(d.Full, "&"+scaffold+"{r}"):
				b.WriteString(strings.Replace(d.Full, "&"+scaffold+"{r}", "&"+scaffold+"{Resolver: r, memo: map[string]int{\"}\": 1}}", 1))
			case d.Kind == "method" && newDecl[d.Key] != "":
				b.WriteString(newDecl[d.Key])
			case d.Kind == "type" && d.Name == "Resolver" && opts.StructFields:
				g.use("resolver_root_struct_given_fields")
				b.WriteString("type Resolver struct {\n\tstore map[string]string // user state }\n\tn     int\n}")
			default:
				b.WriteString(d.Full)
			}
			b.WriteString("\n\n")
		}
		for _, h := range at[len(fi.Decls)] {
			b.WriteString(h.Text + "\n\n")
		}
		out, err := format.Source([]byte(b.String()))
		if err != nil {
			return nil, fmt.Errorf("edited %s does not gofmt: %v\n%s", n, err, b.String())
		}
		txt := string(out)
		for _, c := range compact {
			txt = strings.Replace(txt, c, "{"+strings.TrimSuffix(strings.TrimPrefix(c, "{ "), " }")+"}", 1)
		}
		res.Files[n] = txt
	}
	return res, nil
}

func hasPath(imps []userImport, p string) bool {
	for _, u := range imps {
		if u.Path == p {
			return true
		}
	}
	return false
}

var _ = ast.IsExported
