// C02: resolvers receive arguments exactly as GraphQL input coercion defines.
//
//	A. argument-heavy valid operations on every generated configuration: the canonicalised Go
//	   arguments each resolver received (recorded by the universal resolver) must equal the
//	   reference coercion (they are part of the invocation identity compared by diffrun).
//	B. injected uncoercible values (literal and variable) at every argument position of the probe:
//	   the request must be refused in one of the two legitimate shapes (request-level, or
//	   field-level error under fieldPath+[arg...] with the field's resolver not called).
//	C. numeric and custom-scalar arguments at width boundaries through the generated server: the
//	   resolver sees the same mathematical number or the field is refused - never another number.
package main

import (
	"context"
	"encoding/json"
	"fmt"
	"math/big"
	"os"
	"sort"
	"strconv"
	"strings"
	"sync"
	"time"

	"github.com/vektah/gqlparser/v2/ast"
	"github.com/vektah/gqlparser/v2/parser"

	"verif/internal/diffrun"
	"verif/internal/drive"
	"verif/internal/ev"
	"verif/internal/opgen"
	"verif/internal/ref"
	"verif/internal/univ"
	"verif/work/farm/cur/registry"
)

var argFields = map[string]bool{
	"Query.inp": true, "Query.hello": true, "Query.a": true, "Query.as": true, "Query.node": true, "Query.u": true, "Query.an": true,
	"A.arg": true, "A.bo": true, "A.bn": true, "B.a": true, "A.vid": true, "B.vid": true, "A.id": true,
	"Mutation.m1": true, "Mutation.m2": true, "Mutation.m4": true,
}

type srvT struct {
	name string
	env  *univ.Env
	srv  *drive.Server
}

func main() {
	rep := ev.New("C02", "exploration")
	rep.Rule = "A: seeded argument-heavy valid operations (literals, variables incl. input objects and lists, defaults, omitted vs explicit null, single-to-list, enums) on all 16 generated configurations (Omittable / pointer options vary), recorded Go arguments compared with the reference coercion; B: every (argument position x invalid-value kind x literal|variable) refused in a legitimate shape; C: boundary grid of numbers per numeric scalar argument. distinct_nontrivial = distinct (probe, operation) pairs whose reference run coerced at least one argument, plus distinct invalid-injection cases, plus distinct boundary cases"
	rep.Assumptions = []string{
		"reference coercion (internal/ref) written from the spec; Int is 64-bit in gqlgen's default binding (documented), so 32-bit overflow of Int is not flagged",
		"an uncoercible input may be refused at request level (validation / variable coercion) or at field level; messages are not compared",
		"Float inputs are compared after rounding to IEEE double (GraphQL Float is a double)",
	}
	var servers []*srvT
	var names []string
	for n := range registry.Probes {
		if strings.HasPrefix(n, "core_") || strings.HasPrefix(n, "rnd_") || strings.HasPrefix(n, "bound") {
			names = append(names, n)
		}
	}
	sort.Strings(names)
	if len(names) == 0 {
		rep.Inconclusive("no core probe generated and compiled on this tree")
		os.Exit(rep.Finish(0, 0))
	}
	for _, n := range names {
		env := univ.Bind(registry.Probes[n]())
		servers = append(servers, &srvT{n, env, drive.NewServer(env)})
	}
	var evals int64
	var mu sync.Mutex
	add := func(n int64) { mu.Lock(); evals += n; mu.Unlock() }

	var wg sync.WaitGroup
	sem := make(chan struct{}, 12)
	for _, s := range servers {
		wg.Add(1)
		go func(s *srvT) {
			defer wg.Done()
			sem <- struct{}{}
			defer func() { <-sem }()
			add(partA(rep, s))
			if strings.HasPrefix(s.name, "core_") { // B and C address the core probe's argument positions
				add(partB(rep, s))
				add(partC(rep, s))
				add(partD(rep, s))
			}
		}(s)
	}
	wg.Wait()
	rep.Set("probes", names)
	d := rep.DistinctLen("argument_cases") + rep.DistinctLen("invalid_cases") + rep.DistinctLen("boundary_cases")
	os.Exit(rep.Finish(evals, int64(d)))
}

// ---------------------------------------------------------------------------------------------

func partA(rep *ev.Reporter, s *srvT) int64 {
	n := ev.Pick(60, 2000)
	seed := ev.Seed()
	var evals int64
	for i := 0; i < n; i++ {
		opSeed := seed*5000011 + int64(i)
		kind := ast.Query
		if i%5 == 4 {
			kind = ast.Mutation
		}
		cfg := opgen.Config{MaxDepth: 3, MaxSel: 4}
		if strings.HasPrefix(s.name, "core_") {
			cfg.FieldFilter = func(t, f string) bool { return argFields[t+"."+f] }
		}
		op, doc, _ := diffrun.GenValid(s.env.Schema, opSeed, kind, cfg)
		if doc == nil {
			rep.Count("A_opgen_rejected", 1)
			continue
		}
		vars := diffrun.DecodeVars(op.Vars)
		p := univ.SeedPlan{Seed: uint64(opSeed), MaxList: 2}
		o := diffrun.Compare(context.Background(), s.env, s.srv, doc, op.Query, op.OpName, vars, &p, nil, 30*time.Second)
		evals++
		cid := diffrun.Case{Probe: s.name, OpSeed: opSeed, Kind: string(kind), Plan: p, Query: op.Query, OpName: op.OpName, Vars: op.Vars}
		if o.Mismatch == "timeout" {
			rep.Inconclusive("watchdog: " + op.Query)
			continue
		}
		if o.Mismatch != "" {
			rep.Violate("", map[string]any{"part": "A", "case": cid, "why": "valid arguments: " + o.Mismatch + " differ from the reference coercion: " + o.Detail, "detail": o.Describe()})
			continue
		}
		withArgs := 0
		for _, inv := range o.Want.Invocations {
			if !strings.HasSuffix(inv, "()") {
				withArgs++
			}
		}
		rep.Count("A_invocations_with_arguments_compared", int64(withArgs))
		for k, v := range op.Features {
			switch k {
			case "args", "arg_var", "input_object", "single_to_list", "explicit_null", "var_explicit_null", "var_omitted":
				rep.Count("A_feature_"+k, int64(v))
			}
		}
		if withArgs > 0 {
			rep.Distinct("argument_cases", s.name+"|"+op.Query)
		}
		if i == 3 {
			rep.Sample(map[string]any{"part": "A", "probe": s.name, "query": op.Query, "variables": op.Vars, "invocations": o.Got.Invocations})
		}
	}
	return evals
}

// ---------------------------------------------------------------------------------------------

type position struct {
	prefix, suffix string // query text around the field
	fieldPath      string // response path of the field carrying the argument
	field          string // field name
	arg            string
	typ            string // GraphQL type of the argument
	op             string
	others         string // other required args text
	resolverKey    string // Object.field for the invocation log
}

var positions = []position{
	{"{ ", " }", "inp", "inp", "in", "In", "query", "", "Query.inp"},
	{"{ ", " }", "inp", "inp", "ins", "[In!]", "query", "", "Query.inp"},
	{"{ ", " }", "inp", "inp", "id", "ID", "query", "", "Query.inp"},
	{"{ ", " }", "inp", "inp", "f", "Float", "query", "", "Query.inp"},
	{"{ ", " }", "inp", "inp", "s", "String", "query", "", "Query.inp"},
	{"{ ", " }", "hello", "hello", "name", "String!", "query", "", "Query.hello"},
	{"{ ", " { vid } }", "a", "a", "k", "Int", "query", "", "Query.a"},
	{"{ an { ", " } }", "an.arg", "arg", "x", "Int", "query", "", "A.arg"},
	{"{ an { ", " } }", "an.arg", "arg", "z", "Boolean!", "query", "", "A.arg"},
	{"{ an { ", " } }", "an.arg", "arg", "c", "Color", "query", "", "A.arg"},
	{"{ ", " { vid } }", "m4", "m4", "in", "In!", "mutation", "", "Mutation.m4"},
}

type invalid struct {
	lit  string // literal text ("" = not expressible as literal)
	json string // JSON text for the variable form ("" = not expressible)
	desc string
}

func invalidsFor(typ string) []invalid {
	base := strings.TrimSuffix(typ, "!")
	var out []invalid
	if strings.HasSuffix(typ, "!") {
		out = append(out, invalid{"null", "null", "null-for-non-null"})
	}
	switch base {
	case "Int":
		out = append(out, invalid{`"str"`, `"str"`, "string-for-int"}, invalid{`1.5`, `1.5`, "fraction-for-int"}, invalid{`true`, `true`, "bool-for-int"},
			invalid{`99999999999999999999`, `99999999999999999999`, "int-beyond-64-bit"}, invalid{`{a: 1}`, `{"a":1}`, "object-for-int"}, invalid{`[1, 2]`, `[1,2]`, "list-for-int"})
	case "Float":
		out = append(out, invalid{`"1.5"`, `"1.5"`, "string-for-float"}, invalid{`true`, `true`, "bool-for-float"}, invalid{`{}`, `{}`, "object-for-float"})
	case "String":
		out = append(out, invalid{`1`, `1`, "int-for-string"}, invalid{`true`, `true`, "bool-for-string"}, invalid{`RED`, "", "enum-for-string"}, invalid{`{a: 1}`, `{"a":1}`, "object-for-string"})
	case "Boolean":
		out = append(out, invalid{`1`, `1`, "int-for-bool"}, invalid{`"true"`, `"true"`, "string-for-bool"})
	case "ID":
		out = append(out, invalid{`1.5`, `1.5`, "float-for-id"}, invalid{`true`, `true`, "bool-for-id"}, invalid{`{a: 1}`, `{"a":1}`, "object-for-id"})
	case "Color":
		out = append(out, invalid{`"RED"`, "", "string-literal-for-enum"}, invalid{`PURPLE`, `"PURPLE"`, "unknown-enum-value"}, invalid{`1`, `1`, "int-for-enum"},
			invalid{`red`, `"red"`, "wrong-case-enum-value"}, invalid{"", `"Blue"`, "mixed-case-enum-variable"})
	case "In":
		out = append(out, invalid{`{zzz: 1}`, `{"zzz":1}`, "unknown-input-field"}, invalid{`{a: "x"}`, `{"a":"x"}`, "nested-string-for-int"},
			invalid{`{c: ["x"]}`, `{"c":["x"]}`, "nested-list-element-type"}, invalid{`{c: [null]}`, `{"c":[null]}`, "null-in-non-null-list"},
			invalid{`{e: {x: null}}`, `{"e":{"x":null}}`, "explicit-null-for-non-null-with-default"}, invalid{`{d: PURPLE}`, `{"d":"PURPLE"}`, "nested-unknown-enum"}, invalid{`{d: green}`, `{"d":"green"}`, "nested-wrong-case-enum"},
			invalid{`{b: null}`, `{"b":null}`, "null-for-non-null-field"}, invalid{`"str"`, `"str"`, "string-for-input-object"}, invalid{`{e: {z: {y: 1}}}`, `{"e":{"z":{"y":1}}}`, "deep-nested-int-for-string-list"},
			invalid{`{e: {z: {x: "q"}}}`, `{"e":{"z":{"x":"q"}}}`, "deep-nested-string-for-int"})
	case "[In!]":
		out = append(out, invalid{`[null]`, `[null]`, "null-element"}, invalid{`[{a: "x"}]`, `[{"a":"x"}]`, "element-field-type"}, invalid{`[{}, {zzz: 1}]`, `[{},{"zzz":1}]`, "second-element-unknown-field"},
			invalid{`{a: true}`, `{"a":true}`, "single-value-coerced-to-list-with-bad-field"})
	}
	return out
}

func partB(rep *ev.Reporter, s *srvT) int64 {
	var evals int64
	omit, _ := s.env.Probe.Options["nullable_input_omittable"].(bool)
	for _, pos := range positions {
		for _, inv := range invalidsFor(pos.typ) {
			for form := 0; form < 2; form++ {
				var query string
				var vars map[string]any
				if form == 0 {
					if inv.lit == "" {
						continue
					}
					query = fmt.Sprintf("%s %s%s(%s: %s)%s", pos.op, pos.prefix, pos.field, pos.arg, inv.lit, pos.suffix)
				} else {
					if inv.json == "" {
						continue
					}
					query = fmt.Sprintf("%s($v: %s) %s%s(%s: $v)%s", pos.op, pos.typ, pos.prefix, pos.field, pos.arg, pos.suffix)
					var jv any
					d := json.NewDecoder(strings.NewReader(inv.json))
					d.UseNumber()
					if err := d.Decode(&jv); err != nil {
						continue
					}
					vars = map[string]any{"v": jv}
				}
				doc, perr := parser.ParseQuery(&ast.Source{Input: query})
				if perr != nil {
					rep.Count("B_unparsable_case", 1)
					continue
				}
				p := univ.SeedPlan{Seed: 7, MaxList: 2}
				want := ref.Execute(s.env, &p, doc, "", diffrun.CopyJSON(vars), ref.Options{Omittable: omit})
				refInvalid := want.RequestError != ""
				for _, e := range want.Errors {
					if e.Class == "coercion" {
						refInvalid = true
					}
				}
				if !refInvalid {
					// the spec-derived coercion accepts it: not an invalid input after all
					rep.Count("B_case_valid_per_reference_skipped", 1)
					continue
				}
				run := &univ.Run{Plan: &p}
				got := s.srv.Run(context.Background(), run, query, "", diffrun.CopyJSON(vars), 30*time.Second)
				evals++
				formName := []string{"literal", "variable"}[form]
				cid := map[string]any{"probe": s.name, "query": query, "variables": vars, "position": pos.resolverKey + "." + pos.arg, "invalid": inv.desc, "form": formName}
				rep.Distinct("invalid_cases", fmt.Sprintf("%s|%s|%s|%s|%s", s.name, pos.resolverKey, pos.arg, inv.desc, formName))
				if got.TimedOut {
					rep.Inconclusive("watchdog: " + query)
					continue
				}
				invoked := false
				for _, e := range got.Events {
					if e.Kind == "resolver" && e.Object+"."+e.Field == pos.resolverKey {
						invoked = true
					}
				}
				if len(got.RequestErrors) > 0 {
					rep.Count("B_refused_at_request_level_"+formName, 1)
					if len(got.Events) > 0 {
						rep.Violate("", map[string]any{"part": "B", "case": cid, "why": "request refused but user code ran", "events": got.Events})
					}
					continue
				}
				// field-level shape
				if invoked {
					rep.Count("B_accepted_"+inv.desc+"_"+formName+"_at_"+pos.resolverKey+"."+pos.arg, 1)
					rep.Violate(lenientSig(inv.desc, formName), map[string]any{"part": "B", "case": cid, "why": "uncoercible argument value reached the resolver", "events": got.Events, "payload": payloadText(got)})
					continue
				}
				okErr := false
				var errs []ref.ErrExp
				if len(got.Payloads) > 0 {
					errs = got.Payloads[0].Errors
				}
				wantPrefix := pos.fieldPath + "." + pos.arg
				for _, e := range errs {
					if e.Path == wantPrefix || strings.HasPrefix(e.Path, wantPrefix+".") || strings.HasPrefix(e.Path, wantPrefix+"[") {
						okErr = true
					}
				}
				if !okErr {
					rep.Violate("", map[string]any{"part": "B", "case": cid, "why": "uncoercible argument not reported under " + wantPrefix, "errors": errs, "payload": payloadText(got)})
					continue
				}
				rep.Count("B_refused_at_field_level_"+formName, 1)
			}
		}
	}
	return evals
}

func payloadText(r *drive.Real) string {
	if len(r.Payloads) == 0 {
		return ""
	}
	return string(r.Payloads[0].Raw)
}

// ---------------------------------------------------------------------------------------------

type numArg struct {
	arg   string
	float bool
}

var numArgs = []numArg{{"i32", false}, {"i64", false}, {"u", false}, {"u32", false}, {"u64", false}, {"uid", false}, {"iid", false}, {"i", false}, {"fl", true}}

func grid() []string {
	set := map[string]bool{}
	addAround := func(b *big.Int) {
		for d := int64(-1); d <= 1; d++ {
			x := new(big.Int).Add(b, big.NewInt(d))
			set[x.String()] = true
			set[new(big.Int).Neg(x).String()] = true
		}
	}
	for _, e := range []uint{0, 7, 8, 15, 16, 31, 32, 53, 63, 64} {
		addAround(new(big.Int).Lsh(big.NewInt(1), e))
	}
	addAround(big.NewInt(0))
	var out []string
	for k := range set {
		out = append(out, k)
	}
	sort.Strings(out)
	return out
}

func partC(rep *ev.Reporter, s *srvT) int64 {
	var evals int64
	g := grid()
	floats := []string{"0.1", "1.5", "-2.25", "1e308", "1.7976931348623157e308", "1e309", "-1e309", "5e-324", "1e-400", "0.30000000000000004", "123456789012345678901234567890"}
	p := univ.SeedPlan{Seed: 9}
	for _, na := range numArgs {
		inputs := g
		if na.float {
			inputs = append(append([]string{}, g...), floats...)
		}
		for _, in := range inputs {
			for form := 0; form < 3; form++ {
				var query string
				var vars map[string]any
				target := na.arg
				switch form {
				case 0:
					query = fmt.Sprintf("{ xsc(%s: %s) }", na.arg, in)
				case 1:
					query = fmt.Sprintf("query($v: %s) { xsc(%s: $v) }", typeOf(na.arg), na.arg)
					vars = map[string]any{"v": json.Number(in)}
				case 2:
					// nested in an input object (only the scalars Nums carries)
					f := map[string]string{"i32": "i32", "u": "u", "uid": "uid"}[na.arg]
					if f == "" {
						continue
					}
					query = fmt.Sprintf("{ xsc(nums: {%s: %s, l: [%s]}) }", f, in, "1")
					target = "nums." + f
				}
				run := &univ.Run{Plan: &p}
				got := s.srv.Run(context.Background(), run, query, "", diffrun.CopyJSON(vars), 30*time.Second)
				evals++
				cid := map[string]any{"probe": s.name, "query": query, "variables": vars, "argument": target, "input": in}
				rep.Distinct("boundary_cases", fmt.Sprintf("%s|%s|%s|%d", s.name, na.arg, in, form))
				if got.TimedOut {
					rep.Inconclusive("watchdog: " + query)
					continue
				}
				var recorded *string
				for _, e := range got.Events {
					if e.Kind == "resolver" && e.Field == "xsc" {
						v := extract(e.Args, target)
						recorded = &v
					}
				}
				if recorded == nil {
					hasErr := len(got.RequestErrors) > 0 || (len(got.Payloads) > 0 && len(got.Payloads[0].Errors) > 0)
					if !hasErr {
						rep.Violate("", map[string]any{"part": "C", "case": cid, "why": "resolver not called and no error reported", "payload": payloadText(got)})
					}
					rep.Count("C_refused_"+na.arg, 1)
					continue
				}
				if !sameNumber(in, *recorded, na.float) {
					sig := ""
					rep.Violate(sig, map[string]any{"part": "C", "case": cid, "why": fmt.Sprintf("numeric input %s reached the resolver as %s", in, *recorded)})
					continue
				}
				rep.Count("C_accepted_same_number_"+na.arg, 1)
			}
		}
	}
	// a custom scalar without a configured model is backed by a Go string: a number sent for it
	// arrives as text, and that text must still denote the number that was sent
	for _, in := range []string{"1e20", "25000000000000000000", "9007199254740993", "1e30", "-1e19", "9223372036854775808", "18446744073709551616", "1.5", "0.1", "123", "-7", "1e-7", "-9223372036854775809"} {
		for form := 0; form < 3; form++ {
			var query, target string
			var vars map[string]any
			switch form {
			case 0:
				query, target = fmt.Sprintf("{ xsc(op: %s) }", in), "op"
			case 1:
				query, target = "query($v: Opaque) { xsc(op: $v) }", "op"
				vars = map[string]any{"v": json.Number(in)}
			case 2:
				// the defaults of the schema (opd, opf), the argument itself left out
				if in != "9007199254740993" && in != "1e30" {
					continue
				}
				query, target = "{ xsc(i: 1) }", map[string]string{"9007199254740993": "opd", "1e30": "opf"}[in]
			}
			got := s.srv.Run(context.Background(), &univ.Run{Plan: &p}, query, "", diffrun.CopyJSON(vars), 30*time.Second)
			evals++
			rep.Distinct("boundary_cases", fmt.Sprintf("%s|opaque|%s|%d", s.name, in, form))
			recorded := ""
			for _, e := range got.Events {
				if e.Kind == "resolver" && e.Field == "xsc" {
					recorded = extract(e.Args, target)
				}
			}
			if recorded == "" && (len(got.RequestErrors) > 0 || (len(got.Payloads) > 0 && len(got.Payloads[0].Errors) > 0)) {
				// refused with an error (an integer literal beyond 64 bits): nothing was changed silently
				rep.Count("C_string_backed_scalar_refused", 1)
				continue
			}
			txt := strings.Trim(recorded, `"`)
			if recorded == "" || !strings.HasPrefix(recorded, `"`) || !sameNumber(in, txt, false) {
				rep.Violate("", map[string]any{"part": "C", "why": fmt.Sprintf("number %s sent for a string-backed custom scalar (form %d) reached the resolver as %s", in, form, recorded), "probe": s.name, "query": query, "variables": vars, "payload": payloadText(got)})
				continue
			}
			rep.Count("C_string_backed_scalar_same_number", 1)
		}
	}
	// an ID given as a JSON number (variable) or an integer literal arrives as that number's text
	for _, in := range []string{"9007199254740993", "9007199254740992", "18014398509481985", "123", "-7", "9223372036854775807"} {
		for form := 0; form < 2; form++ {
			query, vars := fmt.Sprintf("{ xsc(id: %s) }", in), map[string]any(nil)
			if form == 1 {
				query, vars = "query($v: ID) { xsc(id: $v) }", map[string]any{"v": json.Number(in)}
			}
			got := s.srv.Run(context.Background(), &univ.Run{Plan: &p}, query, "", diffrun.CopyJSON(vars), 30*time.Second)
			evals++
			rep.Distinct("boundary_cases", fmt.Sprintf("%s|id-number|%s|%d", s.name, in, form))
			recorded := ""
			for _, e := range got.Events {
				if e.Kind == "resolver" && e.Field == "xsc" {
					recorded = extract(e.Args, "id")
				}
			}
			if recorded != `"`+in+`"` {
				rep.Violate("", map[string]any{"part": "C", "why": fmt.Sprintf("ID %s given as a number (form %d) reached the resolver as %s", in, form, recorded), "probe": s.name, "query": query, "variables": vars, "payload": payloadText(got)})
				continue
			}
			rep.Count("C_id_number_same_text", 1)
		}
	}
	// time / duration / uuid / map / any round trips through the server
	for _, c := range []struct{ arg, lit, want string }{
		{"t", `"2020-01-02T03:04:05.123456789Z"`, `"2020-01-02T03:04:05.123456789Z"`},
		{"t", `"2020-01-02T03:04:05+05:30"`, `"2020-01-01T21:34:05Z"`},
		{"uu", `"6ba7b810-9dad-11d1-80b4-00c04fd430c8"`, ""},
		{"m", `{a: 1, b: {c: [1, "x", null, true]}}`, `{"a":1,"b":{"c":[1,"x",null,true]}}`},
		{"any", `[1, "x", {k: null}]`, `[1,"x",{"k":null}]`},
		{"id", `12345678901234567890123`, `"12345678901234567890123"`},
	} {
		query := fmt.Sprintf("{ xsc(%s: %s) }", c.arg, c.lit)
		run := &univ.Run{Plan: &p}
		got := s.srv.Run(context.Background(), run, query, "", nil, 30*time.Second)
		evals++
		for _, e := range got.Events {
			if e.Kind == "resolver" && e.Field == "xsc" && c.want != "" {
				if v := extract(e.Args, c.arg); v != c.want {
					rep.Violate("", map[string]any{"part": "C", "why": fmt.Sprintf("argument %s: sent %s, resolver received %s, expected %s", c.arg, c.lit, v, c.want), "probe": s.name, "query": query})
				} else {
					rep.Count("C_structured_scalar_roundtrip_"+c.arg, 1)
				}
			}
		}
	}
	return evals
}

func typeOf(arg string) string {
	return map[string]string{"i32": "Int32", "i64": "Int64", "u": "Uint", "u32": "Uint32", "u64": "Uint64", "uid": "UID", "iid": "IID", "i": "Int", "fl": "Float"}[arg]
}

// extract returns the JSON text of a (dotted) member of the canonical argument object.
func extract(argsJSON, path string) string {
	var v any
	d := json.NewDecoder(strings.NewReader(argsJSON))
	d.UseNumber()
	if err := d.Decode(&v); err != nil {
		return "?"
	}
	for _, seg := range strings.Split(path, ".") {
		m, ok := v.(map[string]any)
		if !ok {
			return "?"
		}
		v = m[seg]
		if w, ok := v.(map[string]any); ok {
			if set, has := w["$set"]; has { // Omittable wrapper
				if set == true {
					v = w["value"]
				} else {
					v = nil
				}
			}
		}
	}
	b, _ := json.Marshal(v)
	return string(b)
}

func sameNumber(in, recorded string, isFloat bool) bool {
	if recorded == "null" {
		return false
	}
	if isFloat {
		a, err1 := strconv.ParseFloat(in, 64)
		b, err2 := strconv.ParseFloat(recorded, 64)
		if err1 != nil || err2 != nil { // out of range input must not have been accepted
			return false
		}
		return a == b
	}
	a, ok1 := new(big.Float).SetPrec(256).SetString(in)
	b, ok2 := new(big.Float).SetPrec(256).SetString(recorded)
	if !ok1 || !ok2 {
		return false
	}
	return a.Cmp(b) == 0
}

// lenientSig names the class "a value the spec calls uncoercible was accepted": the signature is
// specific to the invalid-value kind and the form, so any other acceptance is still reported.
func lenientSig(desc, form string) string { return "accepted-" + desc + "-" + form }

// partD: argument directives and null. A directive on an argument definition is part of coercing
// that argument: it runs for an argument the operation provides - also when what it provides is
// null (literal or variable) - and, with call_argument_directives_with_null, for an absent one too.
// Its refusal is reported at the argument's path and the resolver is not called.
func partD(rep *ev.Reporter, s *srvT) int64 {
	var evals int64
	withNull, _ := s.env.Probe.Options["call_argument_directives_with_null"].(bool)
	for _, c := range []struct {
		form, query string
		vars        map[string]any
		called      bool
	}{
		{"null-literal", `{ inp(s: null) }`, nil, true},
		{"null-variable", `query($v: String) { inp(s: $v) }`, map[string]any{"v": nil}, true},
		{"value", `{ inp(s: "x") }`, nil, true},
		{"absent", `{ inp(id: "i") }`, nil, withNull},
	} {
		p := univ.SeedPlan{Seed: 11, ArgDirs: true, ForceDir: map[string]int{`inp.s|chk,"s"`: 1}}
		got := s.srv.Run(context.Background(), &univ.Run{Plan: &p}, c.query, "", diffrun.CopyJSON(c.vars), 30*time.Second)
		evals++
		rep.Distinct("argument_cases", fmt.Sprintf("%s|argdir-null|%s", s.name, c.form))
		invoked := false
		for _, e := range got.Events {
			if e.Kind == "resolver" && e.Field == "inp" {
				invoked = true
			}
		}
		atArg := false
		if len(got.Payloads) > 0 {
			for _, e := range got.Payloads[0].Errors {
				if e.Path == "inp.s" {
					atArg = true
				}
			}
		}
		switch {
		case c.called && (!atArg || invoked):
			rep.Violate("", map[string]any{"part": "D", "probe": s.name, "form": c.form, "query": c.query, "variables": c.vars, "call_argument_directives_with_null": withNull,
				"why": fmt.Sprintf("the argument's directive refuses, but: error at the argument's path reported=%v, resolver called=%v", atArg, invoked), "payload": payloadText(got)})
		case !c.called && (atArg || !invoked):
			rep.Violate("", map[string]any{"part": "D", "probe": s.name, "form": c.form, "query": c.query, "call_argument_directives_with_null": withNull,
				"why": fmt.Sprintf("the argument is absent and directives are not to be called for absent arguments, but: error reported=%v, resolver called=%v", atArg, invoked), "payload": payloadText(got)})
		default:
			rep.Count("D_argument_directive_"+c.form, 1)
		}
	}
	return evals
}
