package main

import (
	"math"
	"math/bits"
	"sort"
	"strconv"

	"verif/internal/univ"
)

// FSet is a seeded family of custom complexity functions: one pure function per (object, field).
// It plays the role of the user's ComplexityRoot functions; the real server and the reference
// evaluator both call Cost, so only gqlgen's use of the returned values is compared.
type FSet struct {
	Seed    uint64 `json:"seed"`
	Profile int    `json:"profile"`
}

const nProfiles = 4

const (
	kConst = iota
	kAffineWrap
	kAffineSat
	kArgDep
	kZero
	kNegative
	kMaxInt
	kMaxIntMinusK
	kBelowChild
	kEqualChild
	kChildPlus
)

var profiles = [nProfiles][]int{
	// 0: ordinary, monotone in the children's cost
	{kConst, kConst, kAffineSat, kAffineSat, kArgDep, kArgDep, kZero, kBelowChild, kEqualChild, kChildPlus, kNegative},
	// 1: hostile small values, wrapping user arithmetic
	{kConst, kAffineWrap, kAffineWrap, kArgDep, kZero, kZero, kNegative, kNegative, kBelowChild, kEqualChild},
	// 2: ordinary with huge values sprinkled in, monotone
	{kConst, kAffineSat, kArgDep, kZero, kNegative, kEqualChild, kChildPlus, kMaxIntMinusK, kMaxInt, kConst, kAffineSat, kArgDep},
	// 3: huge heavy, wrapping arithmetic
	{kMaxInt, kMaxIntMinusK, kMaxIntMinusK, kAffineWrap, kNegative, kConst, kArgDep, kZero},
}

func (f *FSet) monotone() bool { return f.Profile == 0 || f.Profile == 2 }

func satAdd(a, b int) int {
	if a > maxInt-b {
		return maxInt
	}
	return a + b
}

func satMul(a, b int) int {
	hi, lo := bits.Mul64(uint64(a), uint64(b))
	if hi != 0 || lo > uint64(maxInt) {
		return maxInt
	}
	return int(lo)
}

func (f *FSet) kind(object, field string) (int, uint64) {
	h := univ.H("fset", strconv.FormatUint(f.Seed, 10), object, field)
	p := profiles[((f.Profile%nProfiles)+nProfiles)%nProfiles]
	return p[h%uint64(len(p))], h >> 16
}

// Cost is the custom complexity function of object.field. child is never negative when called by
// a correct implementation; the functions are nevertheless total.
func (f *FSet) Cost(object, field string, child int, args map[string]any) int {
	k, p := f.kind(object, field)
	switch k {
	case kConst:
		return []int{0, 1, 2, 3, 7, 50, 1000}[p%7]
	case kAffineWrap:
		a := []int{1, 2, 3, 10, 1 << 20}[p%5]
		b := []int{0, 1, 5}[(p>>8)%3]
		return a*child + b // wraps like careless user code
	case kAffineSat:
		if child < 0 {
			return 0
		}
		a := []int{1, 2, 3, 10, 1 << 20}[p%5]
		b := []int{0, 1, 5}[(p>>8)%3]
		return satAdd(satMul(a, child), b)
	case kArgDep:
		if child < 0 {
			return 0
		}
		return satMul(1+digest(args), satAdd(child, 1))
	case kZero:
		return 0
	case kNegative:
		switch p % 5 {
		case 0:
			return -1
		case 1:
			return -7
		case 2:
			return minInt
		case 3:
			if child >= 0 {
				return -child - 1
			}
			return -1
		}
		return minInt + 1
	case kMaxInt:
		return maxInt
	case kMaxIntMinusK:
		return maxInt - []int{1, 2, 3, 10, 1000}[p%5]
	case kBelowChild:
		return child - 1
	case kEqualChild:
		return child
	case kChildPlus:
		if child < 0 {
			return 0
		}
		return satAdd(child, []int{1, 2, 5}[p%3])
	}
	return 0
}

// digest maps canonical argument values (nil, bool, int64, float64, string, list, object) to a
// small non-negative number that depends on every scalar argument, on list lengths and on the
// presence of input objects, and on which name carries which value.
func digest(args map[string]any) int {
	names := make([]string, 0, len(args))
	for n := range args {
		names = append(names, n)
	}
	sort.Strings(names)
	d := 0
	for _, n := range names {
		w := weight(args[n])
		if w == 0 {
			continue
		}
		d += w * (1 + int(univ.H("argname", n)%5))
	}
	return d
}

func weight(v any) int {
	switch x := v.(type) {
	case nil:
		return 0
	case bool:
		if x {
			return 3
		}
		return 1
	case int64:
		a := x % 23
		if a < 0 {
			a = -a
		}
		return int(a) + 1
	case uint64:
		return int(x%23) + 1
	case float64:
		return int(math.Mod(math.Abs(x)*8, 11)) + 1
	case string:
		return len(x)%7 + 1
	case []any:
		return 2*len(x) + 1
	case map[string]any:
		return 1
	}
	return 1
}
