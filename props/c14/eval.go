package main

// Independent evaluator of the documented complexity definition.
//
// It reads only what gqlparser's *parser* produces (names, aliases, arguments, selection sets,
// fragment definitions, variable definitions) plus the schema's type definitions; it never looks
// at validator-populated pointers (Field.Definition, Field.ObjectDefinition,
// FragmentSpread.Definition), Field.ArgumentMap, Schema.GetPossibleTypes or gqlgen code.
//
//	C(selection set under parent type P) = saturating sum over its selections of
//	  field f           : 0 if f's type is __Schema (convention); otherwise, with
//	                      child = C(f's selection set under f's named type) (0 for leaves):
//	                      P interface -> max over the object types T implementing P of cost(T,f,child)
//	                      otherwise   -> cost(P,f,child)
//	  ...F / ... on T {} : C(the fragment's selection set under its type condition)
//	cost(T,f,child)     = v := custom[T.f](child,args) when bound and v >= child, else 1+child (saturating)

import (
	"encoding/json"
	"math"
	"sort"
	"strconv"

	"github.com/vektah/gqlparser/v2/ast"
)

type evalStats struct {
	Fields, CustomSlots, CustomUsed, CustomEqual, CustomBelow, CustomNegative, CustomHuge, Default int
	InterfaceFields, InterfaceDiffer, Spreads, Inlines, ArgVars, ArgDefaults, ArgLits, Saturated   int
	UnionFields                                                                                    int
}

func (s *evalStats) nontrivial() bool {
	return s.CustomUsed+s.CustomBelow+s.CustomNegative+s.InterfaceDiffer+s.Spreads+s.Inlines > 0
}

type evaluator struct {
	schema *ast.Schema
	doc    *ast.QueryDocument
	vars   map[string]any // raw JSON variables as sent by the client
	custom func(object, field string) bool
	cost   func(object, field string, child int, args map[string]any) int
	op     *ast.OperationDefinition
	st     evalStats
	depth  int
	// subIfaceAsImplementor selects the alternative reading under which an interface that
	// implements the parent interface counts as an implementor costing the default 1+child
	// (used only to classify a disagreement, never as the oracle).
	subIfaceAsImplementor bool
}

func (e *evaluator) add(a, b int) int {
	// a, b >= 0
	if a > maxInt-b {
		e.st.Saturated++
		return maxInt
	}
	return a + b
}

func (e *evaluator) Operation(name string) int {
	for _, o := range e.doc.Operations {
		if o.Name == name || (name == "" && len(e.doc.Operations) == 1) {
			e.op = o
		}
	}
	if e.op == nil {
		return -1
	}
	var root *ast.Definition
	switch e.op.Operation {
	case ast.Mutation:
		root = e.schema.Mutation
	case ast.Subscription:
		root = e.schema.Subscription
	default:
		root = e.schema.Query
	}
	return e.set(root, e.op.SelectionSet)
}

func composite(d *ast.Definition) bool {
	return d != nil && (d.Kind == ast.Object || d.Kind == ast.Interface || d.Kind == ast.Union)
}

func (e *evaluator) fieldDef(parent *ast.Definition, name string) *ast.FieldDefinition {
	switch name {
	case "__typename":
		return &ast.FieldDefinition{Name: name, Type: ast.NonNullNamedType("String", nil)}
	case "__schema":
		if parent == e.schema.Query {
			return &ast.FieldDefinition{Name: name, Type: ast.NonNullNamedType("__Schema", nil)}
		}
	case "__type":
		if parent == e.schema.Query {
			return &ast.FieldDefinition{Name: name, Type: ast.NamedType("__Type", nil),
				Arguments: ast.ArgumentDefinitionList{{Name: "name", Type: ast.NonNullNamedType("String", nil)}}}
		}
	}
	for _, f := range parent.Fields {
		if f.Name == name {
			return f
		}
	}
	return nil
}

func (e *evaluator) implementors(iface *ast.Definition) []string {
	var out []string
	for _, t := range e.schema.Types {
		if t.Kind != ast.Object {
			continue
		}
		for _, i := range t.Interfaces {
			if i == iface.Name {
				out = append(out, t.Name)
			}
		}
	}
	sort.Strings(out)
	return out
}

func (e *evaluator) hasSubInterface(iface *ast.Definition) bool {
	for _, t := range e.schema.Types {
		if t.Kind == ast.Interface {
			for _, i := range t.Interfaces {
				if i == iface.Name {
					return true
				}
			}
		}
	}
	return false
}

func (e *evaluator) set(parent *ast.Definition, ss ast.SelectionSet) int {
	total := 0
	for _, sel := range ss {
		switch s := sel.(type) {
		case *ast.Field:
			fd := e.fieldDef(parent, s.Name)
			if fd == nil {
				continue // invalid operation; never compared
			}
			named := e.schema.Types[fd.Type.Name()]
			if named != nil && named.Name == "__Schema" {
				continue
			}
			e.st.Fields++
			child := 0
			if composite(named) {
				child = e.set(named, s.SelectionSet)
			}
			args := e.args(fd, s)
			var c int
			switch parent.Kind {
			case ast.Interface:
				e.st.InterfaceFields++
				first, differ := true, false
				for _, t := range e.implementors(parent) {
					v := e.fieldCost(t, s.Name, child, args)
					if !first && v != c {
						differ = true
					}
					if first || v > c {
						c = v
					}
					first = false
				}
				if e.subIfaceAsImplementor && e.hasSubInterface(parent) {
					if v := e.add(1, child); first || v > c {
						c = v
					}
				}
				if differ {
					e.st.InterfaceDiffer++
				}
			default:
				if parent.Kind == ast.Union {
					e.st.UnionFields++
				}
				c = e.fieldCost(parent.Name, s.Name, child, args)
			}
			total = e.add(total, c)
		case *ast.FragmentSpread:
			var def *ast.FragmentDefinition
			for _, f := range e.doc.Fragments {
				if f.Name == s.Name {
					def = f
				}
			}
			if def == nil || e.depth > 64 {
				continue
			}
			e.st.Spreads++
			e.depth++
			total = e.add(total, e.set(e.schema.Types[def.TypeCondition], def.SelectionSet))
			e.depth--
		case *ast.InlineFragment:
			e.st.Inlines++
			t := parent
			if s.TypeCondition != "" {
				t = e.schema.Types[s.TypeCondition]
			}
			total = e.add(total, e.set(t, s.SelectionSet))
		}
	}
	return total
}

func (e *evaluator) fieldCost(object, field string, child int, args map[string]any) int {
	if e.custom != nil && e.custom(object, field) {
		e.st.CustomSlots++
		v := e.cost(object, field, child, args)
		if v >= child {
			e.st.CustomUsed++
			if v == child {
				e.st.CustomEqual++
			}
			if v > 1<<40 {
				e.st.CustomHuge++
			}
			return v
		}
		if v < 0 {
			e.st.CustomNegative++
		} else {
			e.st.CustomBelow++
		}
	}
	e.st.Default++
	return e.add(1, child)
}

// ---------------------------------------------------------------------------------------------
// argument values (GraphQL spec 6.4.1 CoerceArgumentValues, reduced to what the digest observes:
// scalars exactly, lists by length, input objects by presence)

func (e *evaluator) varDef(name string) *ast.VariableDefinition {
	for _, v := range e.op.VariableDefinitions {
		if v.Variable == name {
			return v
		}
	}
	return nil
}

func (e *evaluator) args(fd *ast.FieldDefinition, node *ast.Field) map[string]any {
	out := map[string]any{}
	for _, ad := range fd.Arguments {
		var given *ast.Argument
		for _, a := range node.Arguments {
			if a.Name == ad.Name {
				given = a
			}
		}
		var lit *ast.Value
		if given != nil && given.Value.Kind == ast.Variable {
			name := given.Value.Raw
			if rv, ok := e.vars[name]; ok {
				e.st.ArgVars++
				out[ad.Name] = e.fromJSON(rv, ad.Type)
				continue
			}
			if vd := e.varDef(name); vd != nil && vd.DefaultValue != nil {
				e.st.ArgVars++
				lit = vd.DefaultValue
			}
		} else if given != nil {
			e.st.ArgLits++
			lit = given.Value
		}
		if lit == nil && ad.DefaultValue != nil {
			e.st.ArgDefaults++
			lit = ad.DefaultValue
		}
		if lit == nil {
			out[ad.Name] = nil
			continue
		}
		out[ad.Name] = e.fromLit(lit, ad.Type)
	}
	return out
}

func (e *evaluator) fromLit(v *ast.Value, t *ast.Type) any {
	if v.Kind == ast.NullValue {
		return nil
	}
	if v.Kind == ast.Variable { // only nested inside lists / objects, where the digest does not look
		return nil
	}
	if t.Elem != nil {
		if v.Kind == ast.ListValue {
			return make([]any, len(v.Children))
		}
		return make([]any, 1)
	}
	def := e.schema.Types[t.NamedType]
	if def != nil && def.Kind == ast.InputObject {
		return map[string]any{}
	}
	if def != nil && def.Kind == ast.Enum {
		return v.Raw
	}
	switch t.NamedType {
	case "Int":
		n, _ := strconv.ParseInt(v.Raw, 10, 64)
		return n
	case "Float":
		f, _ := strconv.ParseFloat(v.Raw, 64)
		return f
	case "Boolean":
		return v.Raw == "true"
	}
	return v.Raw // String, ID (an integer literal for ID is its decimal text)
}

func (e *evaluator) fromJSON(v any, t *ast.Type) any {
	if v == nil {
		return nil
	}
	if t.Elem != nil {
		if l, ok := v.([]any); ok {
			return make([]any, len(l))
		}
		return make([]any, 1)
	}
	def := e.schema.Types[t.NamedType]
	if def != nil && def.Kind == ast.InputObject {
		return map[string]any{}
	}
	num := func() (float64, bool) {
		switch n := v.(type) {
		case json.Number:
			f, err := n.Float64()
			return f, err == nil
		case float64:
			return n, true
		case int:
			return float64(n), true
		case int64:
			return float64(n), true
		}
		return 0, false
	}
	switch t.NamedType {
	case "Int":
		if n, ok := v.(json.Number); ok {
			if i, err := n.Int64(); err == nil {
				return i
			}
		}
		if f, ok := num(); ok && f == math.Trunc(f) {
			return int64(f)
		}
	case "Float":
		if f, ok := num(); ok {
			return f
		}
	case "Boolean":
		if b, ok := v.(bool); ok {
			return b
		}
	case "ID":
		if n, ok := v.(json.Number); ok {
			return n.String()
		}
	}
	if s, ok := v.(string); ok {
		return s
	}
	return nil
}
