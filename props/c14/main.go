// C14: the complexity limit is a sound gate.
//
// Four monitors over servers generated at check time from the repository's current templates:
//
//  1. differential: complexity.Calculate vs an independent evaluator (eval.go) of the documented
//     definition, on seeded opgen operations x seeded families of custom complexity functions
//     bound by reflection into every ComplexityRoot slot (constant, affine, argument-dependent, 0,
//     negative, maxInt, maxInt-k, just-below / equal-to the children's cost);
//  2. metamorphic: adding a selection never lowers the result (monotone function families only);
//  3. safeAdd on a boundary grid through the verif-tagged export complexity.VerifSafeAdd;
//  4. gate: the same operations through graphql/executor (and a subset through handler.Server +
//     transport.POST) with extension.FixedComplexityLimit(L), L in {C-1, C, C+1, 0, -1, maxInt}
//     relative to the independently computed C: C > L => COMPLEXITY_LIMIT_EXCEEDED, no data, no
//     resolver event; C <= L => not rejected for complexity.
package main

import (
	"bytes"
	"context"
	"encoding/json"
	"fmt"
	"math/big"
	"math/rand"
	"net/http"
	"net/http/httptest"
	"os"
	"sort"
	"strings"
	"sync"
	"sync/atomic"

	"github.com/99designs/gqlgen/complexity"
	"github.com/99designs/gqlgen/graphql"
	"github.com/99designs/gqlgen/graphql/executor"
	"github.com/99designs/gqlgen/graphql/handler"
	"github.com/99designs/gqlgen/graphql/handler/extension"
	"github.com/99designs/gqlgen/graphql/handler/lru"
	"github.com/99designs/gqlgen/graphql/handler/transport"
	"github.com/vektah/gqlparser/v2"
	"github.com/vektah/gqlparser/v2/ast"
	"github.com/vektah/gqlparser/v2/formatter"
	"github.com/vektah/gqlparser/v2/gqlerror"
	"github.com/vektah/gqlparser/v2/parser"
	"github.com/vektah/gqlparser/v2/validator"

	"verif/internal/ev"
	"verif/internal/opgen"
	"verif/internal/univ"
	"verif/work/farm/cur/registry"
)

const (
	maxInt = int(^uint(0) >> 1)
	minInt = -maxInt - 1
	code   = "COMPLEXITY_LIMIT_EXCEEDED"
)

type caseID struct {
	Probe   string         `json:"probe"`
	WantPct int            `json:"want_pct"`
	WantSd  uint64         `json:"want_seed"`
	FSet    FSet           `json:"fset"`
	Query   string         `json:"query"`
	OpName  string         `json:"operationName,omitempty"`
	Vars    map[string]any `json:"variables,omitempty"`
	Part    string         `json:"part"`
	Limit   *int           `json:"limit,omitempty"`
	MetaSd  int64          `json:"meta_seed"`
}

func decodeVars(v map[string]any) map[string]any {
	if v == nil {
		return nil
	}
	b, _ := json.Marshal(v)
	var out map[string]any
	d := json.NewDecoder(strings.NewReader(string(b)))
	d.UseNumber()
	d.Decode(&out)
	return out
}

// cenv is one bound probe with a fixed set of fields that carry a custom complexity function
// (fixed at Bind time) and a swappable function family (FSet) behind those functions.
type cenv struct {
	name    string
	wantPct int
	wantSd  uint64
	env     *univ.Env
	cur     atomic.Pointer[FSet]
	calls   atomic.Int64 // invocations of bound custom functions by gqlgen
	plain   *executor.Executor
}

func (c *cenv) want(object, field string) bool {
	return int(univ.H("want", fmt.Sprint(c.wantSd), object, field)%100) < c.wantPct
}

func bindEnv(name string, wantPct int, wantSd uint64) *cenv {
	c := &cenv{name: name, wantPct: wantPct, wantSd: wantSd}
	c.env = univ.Bind(registry.Probes[name](), func(e *univ.Env) {
		e.ComplexityWant = c.want
		e.ComplexityFn = func(object, field string, child int, args map[string]any) int {
			c.calls.Add(1)
			v := c.cur.Load().Cost(object, field, child, args)
			if debug {
				fmt.Printf("  real  %s.%s child=%d args=%v -> %d\n", object, field, child, args, v)
			}
			return v
		}
	})
	c.plain = executor.New(c.env.ES)
	return c
}

// custom tells the independent evaluator which (object, field) slots carry a custom function: the
// slots of ComplexityRoot are exactly the fields of the probe's object types.
func (c *cenv) custom(object, field string) bool {
	if _, ok := c.env.Probe.Fields[object+"."+field]; !ok {
		return false
	}
	return c.want(object, field)
}

func main() {
	rep := ev.New("C14", "exploration")
	rep.Rule = "evaluations = complexity.Calculate vs reference comparisons + metamorphic pairs + safeAdd grid points + gated executions; a case is non-trivial when the reference evaluation of its (operation, custom-function family) pair applied or discarded at least one custom function value, took an interface maximum over >=2 implementors, or expanded a fragment; distinct = distinct (operation text, variables, function family, bound-slot set) among those"
	rep.Assumptions = []string{
		"reference evaluator (props/c14/eval.go) works on gqlparser's parser output only (no validator-populated Definition pointers, no Field.ArgumentMap); a shared misreading of the raw AST would be invisible",
		"definition encoded: field = custom(child,args) when custom >= child else 1+child (saturating); negative custom values are therefore never used; interface parent = max over object types listing the interface; fragments (inline, spread) add their selections regardless of type condition or @skip/@include; duplicate selections are not merged; __schema is free (gqlgen convention), __type and __typename cost as ordinary fields",
		"custom complexity functions are pure functions shared by both sides; argument values reach them through gqlgen's generated argument unmarshalling on the real side and through the evaluator's own coercion of literals/variables/defaults on the reference side (compared through a digest of scalar arguments, list lengths and object presence)",
		"metamorphic pairs use only function families that are monotone in the children's cost (a user function that decreases in its child cost can legitimately lower the total)",
		"safeAdd oracle: min(maxInt, max(a,0)+max(b,0)) - negatives contribute nothing - as the property words it",
	}
	seed := ev.Seed()
	if p := os.Getenv("VERIF_REPLAY"); p != "" {
		os.Exit(doReplay(rep, p))
	}

	var names []string
	only := os.Getenv("VERIF_PROBE")
	for n := range registry.Probes {
		if (strings.HasPrefix(n, "core_") || n == "c14x") && (only == "" || only == n) {
			names = append(names, n)
		}
	}
	sort.Strings(names)
	if len(names) == 0 {
		rep.Inconclusive("no core probe generated and compiled on this tree")
		os.Exit(rep.Finish(0, 0))
	}

	var evals atomic.Int64

	// (3) safeAdd grid
	evals.Add(int64(safeAddGrid(rep)))

	// (1)(2)(4) per bound probe
	wantPcts := []int{100, 55, 25}[:ev.Pick(2, 3)]
	nOps := ev.Pick(40, 600)
	nFsets := ev.Pick(2, 2)
	var wg sync.WaitGroup
	sem := make(chan struct{}, 16)
	for pi, name := range names {
		shards := 1
		if name == "c14x" {
			shards = 4 // one configuration only: give the interface-with-arguments probe more operations
		}
		for wi, pct := range wantPcts {
			for sh := 0; sh < shards; sh++ {
				wg.Add(1)
				go func(name string, pi, wi, pct, sh int) {
					defer wg.Done()
					sem <- struct{}{}
					defer func() { <-sem }()
					c := bindEnv(name, pct, uint64(seed)*31+uint64(wi))
					for i := 0; i < nOps; i++ {
						opSeed := seed*1000003 + int64(pi)*50021 + int64(wi)*977 + int64(sh)*7001 + int64(i)
						kind := ast.Query
						if i%9 == 8 && c.env.Schema.Mutation != nil {
							kind = ast.Mutation
						}
						op := opgen.Generate(c.env.Schema, opSeed, kind, opgen.Config{MaxDepth: 2 + i%4, MaxSel: 3 + i%3, Defer: i%3 == 0, DeferProb: 0.4})
						for k := 0; k < nFsets; k++ {
							fs := FSet{Seed: uint64(opSeed)*16 + uint64(k), Profile: (i + k) % nProfiles}
							cid := caseID{Probe: name, WantPct: pct, WantSd: c.wantSd, FSet: fs, Query: op.Query, OpName: op.OpName, Vars: op.Vars,
								MetaSd: opSeed*31 + int64(k)}
							n := runCase(rep, c, cid, true)
							evals.Add(int64(n))
							rep.Count("cases_"+name, 1)
						}
					}
					rep.Count("custom_fn_invocations_by_gqlgen", c.calls.Load())
				}(name, pi, wi, pct, sh)
			}
		}
	}
	wg.Wait()

	// handcrafted operations: introspection meta fields, deep fragment nesting
	for _, n := range names {
		if strings.HasPrefix(n, "core_") {
			evals.Add(int64(handcrafted(rep, n, seed)))
			break
		}
	}

	rep.Set("probes", names)
	rep.Set("limits_relative_to_C", []string{"C-1", "C", "C+1", "0", "-1", "maxInt"})
	evals.Add(dupGoNameChecks(rep))
	os.Exit(rep.Finish(evals.Load(), int64(rep.DistinctLen("nontrivial_cases"))))
}

// ---------------------------------------------------------------------------------------------

func sat(x *big.Int) int {
	if x.Cmp(big.NewInt(int64(maxInt))) > 0 {
		return maxInt
	}
	return int(x.Int64())
}

func gridValues() []int {
	vs := []int{0, 1, -1, 2, -2, maxInt, maxInt - 1, maxInt - 2, minInt, minInt + 1, minInt + 2,
		1 << 31, -(1 << 31), 1 << 62, -(1 << 62),
		// a few more boundary neighbours
		1<<31 - 1, 1<<31 + 1, -(1 << 31) - 1, 1<<32 - 1, 1 << 32, 1<<62 - 1, 1<<62 + 1, -(1 << 62) - 1,
		maxInt / 2, maxInt/2 + 1, maxInt/2 + 2, 3, 1000, -1000, 1 << 53}
	return vs
}

func safeAddGrid(rep *ev.Reporter) int {
	vs := gridValues()
	n := 0
	for _, a := range vs {
		for _, b := range vs {
			n++
			got := complexity.VerifSafeAdd(a, b)
			x, y := big.NewInt(0), big.NewInt(0)
			if a > 0 {
				x.SetInt64(int64(a))
			}
			if b > 0 {
				y.SetInt64(int64(b))
			}
			want := sat(new(big.Int).Add(x, y))
			switch {
			case a < 0 && b < 0:
				rep.Count("safeadd_both_negative", 1)
			case a < 0 || b < 0:
				rep.Count("safeadd_one_negative", 1)
			case want == maxInt:
				rep.Count("safeadd_saturating_or_max", 1)
			default:
				rep.Count("safeadd_plain", 1)
			}
			if got != want {
				sig := "safeadd-grid-mismatch"
				if a < 0 && b < 0 {
					sig = "safeadd-both-operands-negative"
				}
				rep.Violate(sig, map[string]any{"part": "safeadd", "a": a, "b": b, "got": got, "want": want,
					"why": "safeAdd(a,b) differs from the saturating sum of the non-negative operands"})
			}
		}
	}
	rep.Count("safeadd_grid_points", int64(n))
	rep.Set("safeadd_grid_values", len(vs))
	return n
}

// ---------------------------------------------------------------------------------------------

type prepared struct {
	doc   *ast.QueryDocument // parser output only (reference side)
	opCtx *graphql.OperationContext
	vars  map[string]any
}

func prepare(c *cenv, query, opName string, vars map[string]any) (*prepared, gqlerror.List) {
	ctx := graphql.StartOperationTrace(context.Background())
	opCtx, errs := c.plain.CreateOperationContext(ctx, &graphql.RawParams{Query: query, OperationName: opName, Variables: vars})
	if len(errs) > 0 {
		return nil, errs
	}
	doc, perr := parser.ParseQuery(&ast.Source{Input: query})
	if perr != nil {
		return nil, gqlerror.List{gqlerror.Errorf("reference parse: %v", perr)}
	}
	return &prepared{doc: doc, opCtx: opCtx, vars: vars}, nil
}

var debug = os.Getenv("VERIF_DEBUG") != ""

func refEval(c *cenv, fs *FSet, p *prepared, opName string) (int, *evalStats) {
	cost := fs.Cost
	if debug {
		cost = func(object, field string, child int, args map[string]any) int {
			v := fs.Cost(object, field, child, args)
			fmt.Printf("  ref   %s.%s child=%d args=%v -> %d\n", object, field, child, args, v)
			return v
		}
	}
	e := &evaluator{schema: c.env.Schema, doc: p.doc, vars: p.vars, custom: c.custom, cost: cost}
	return e.Operation(opName), &e.st
}

const sigSubIface = "interface-subinterface-costed-as-implementor"

// classify explains a disagreement: when gqlgen's value equals the evaluation under the reading
// "an interface implementing the parent interface is an implementor with the default cost", the
// violation carries a stable signature.
func classify(c *cenv, fs *FSet, p *prepared, opName string, got int) (string, int) {
	e := &evaluator{schema: c.env.Schema, doc: p.doc, vars: p.vars, custom: c.custom, cost: fs.Cost, subIfaceAsImplementor: true}
	if alt := e.Operation(opName); alt == got {
		return sigSubIface, alt
	}
	return "", 0
}

// runCase: differential + gate (+ metamorphic when meta). Returns the number of evaluations.
func runCase(rep *ev.Reporter, c *cenv, cid caseID, meta bool) int {
	r := rand.New(rand.NewSource(cid.MetaSd))
	fs := cid.FSet
	c.cur.Store(&fs)
	vars := decodeVars(cid.Vars)
	p, errs := prepare(c, cid.Query, cid.OpName, vars)
	if errs != nil {
		rep.Count("operations_rejected_before_complexity", 1)
		return 0
	}
	fail := func(sig, part, why string, extra any) {
		cc := cid
		cc.Part = part
		rep.Violate(sig, map[string]any{"case": cc, "why": why, "detail": extra})
	}
	n := 0
	want, st := refEval(c, &fs, p, cid.OpName)
	before := c.calls.Load()
	got := complexity.Calculate(context.Background(), c.env.ES, p.opCtx.Operation, p.opCtx.Variables)
	n++
	rep.Count("differential_comparisons", 1)
	if got != want {
		sig, alt := classify(c, &fs, p, cid.OpName, got)
		fail(sig, "differential", fmt.Sprintf("complexity.Calculate=%d, documented definition gives %d", got, want), st)
		if sig == "" {
			return n
		}
		want = alt // continue under gqlgen's reading so that one finding does not cascade
		rep.Count("cases_continued_under_signed_reading", 1)
	}
	if st.CustomSlots > 0 && c.calls.Load() == before {
		rep.Inconclusive("bound custom complexity functions were not invoked by gqlgen for " + cid.Query)
	}
	countStats(rep, st, want)
	if st.nontrivial() {
		rep.Distinct("nontrivial_cases", fmt.Sprintf("%s|%v|%d/%d|%d/%d", cid.Query, cid.Vars, fs.Seed, fs.Profile, cid.WantPct, cid.WantSd))
	}
	rep.Distinct("operations", cid.Query)
	rep.Sample(map[string]any{"probe": cid.Probe, "query": cid.Query, "variables": cid.Vars, "fset": fs, "complexity": want,
		"custom_used": st.CustomUsed, "custom_below_children": st.CustomBelow, "custom_negative": st.CustomNegative})

	// (2) metamorphic
	if meta && fs.monotone() {
		n += metamorphic(rep, c, cid, &fs, p, got, r, fail)
	}

	// (4) gate
	n += gate(rep, c, cid, p, want, fail, r.Intn(8) == 0)
	// (5) one text, two variable assignments, one executor with a query cache: the gate decides
	// every request on its own variables
	n += sameTextOtherVariables(rep, c, cid, &fs, p, want, fail)
	return n
}

// otherVars changes every integer / string / boolean leaf of the variables.
func otherVars(v any) any {
	switch x := v.(type) {
	case map[string]any:
		o := map[string]any{}
		for k, e := range x {
			o[k] = otherVars(e)
		}
		return o
	case []any:
		o := make([]any, len(x))
		for i, e := range x {
			o[i] = otherVars(e)
		}
		return o
	case json.Number:
		if i, err := x.Int64(); err == nil && i < 1<<30 && i > -(1<<30) {
			return json.Number(fmt.Sprint(i + 1))
		}
		return x
	case float64:
		if x == float64(int64(x)) && x < 1<<30 && x > -(1<<30) {
			return x + 1
		}
		return x
	case bool:
		return !x
	}
	return v
}

func sameTextOtherVariables(rep *ev.Reporter, c *cenv, cid caseID, fs *FSet, p *prepared, cx1 int,
	fail func(sig, part, why string, extra any)) int {
	if len(cid.Vars) == 0 {
		return 0
	}
	vars2, _ := otherVars(decodeVars(cid.Vars)).(map[string]any)
	p2, errs := prepare(c, cid.Query, cid.OpName, vars2)
	if errs != nil {
		return 0
	}
	cx2, _ := refEval(c, fs, p2, cid.OpName)
	if cx2 == cx1 {
		return 0
	}
	if got := complexity.Calculate(context.Background(), c.env.ES, p2.opCtx.Operation, p2.opCtx.Variables); got != cx2 {
		return 0 // a differential disagreement, reported by the case that owns these variables
	}
	lo, hi, vlo, vhi := cx1, cx2, decodeVars(cid.Vars), vars2
	if lo > hi {
		lo, hi, vlo, vhi = hi, lo, vhi, vlo
	}
	n := 0
	for _, order := range []string{"cheap-first", "costly-first"} {
		ex := executor.New(c.env.ES)
		ex.SetQueryCache(lru.New[*ast.QueryDocument](100))
		ex.SetRecoverFunc(func(ctx context.Context, r any) error { return fmt.Errorf("PANIC:%v", r) })
		ex.Use(extension.FixedComplexityLimit(lo))
		seq := []map[string]any{vlo, vhi, vlo}
		if order == "costly-first" {
			seq = []map[string]any{vhi, vlo, vhi}
		}
		for si, vv := range seq {
			costly := len(vv) > 0 && fmt.Sprint(vv) == fmt.Sprint(vhi)
			run := &univ.Run{Plan: &univ.SeedPlan{Seed: cid.FSet.Seed, MaxList: 2}}
			ctx := graphql.StartOperationTrace(univ.WithRun(context.Background(), run))
			_, errs := ex.CreateOperationContext(ctx, &graphql.RawParams{Query: cid.Query, OperationName: cid.OpName, Variables: decodeVars(encodeVars(vv))})
			rejected := false
			for _, e := range errs {
				if errCode(e) == code {
					rejected = true
				}
			}
			n++
			rep.Count("gate_same_text_other_variables_requests", 1)
			if costly != rejected {
				fail("", "gate-same-text-other-variables", fmt.Sprintf("limit %d, query cache on, request %d of the %s sequence: complexity with these variables is %d, rejected=%v (the other assignment of the same text costs %d)", lo, si+1, order, map[bool]int{true: hi, false: lo}[costly], rejected, map[bool]int{true: lo, false: hi}[costly]), map[string]any{"variables": vv})
				break
			}
		}
	}
	return n
}

func encodeVars(v map[string]any) map[string]any { return v }

func countStats(rep *ev.Reporter, st *evalStats, total int) {
	rep.Count("ref_fields", int64(st.Fields))
	rep.Count("ref_custom_used", int64(st.CustomUsed))
	rep.Count("ref_custom_equal_to_children", int64(st.CustomEqual))
	rep.Count("ref_custom_below_children_discarded", int64(st.CustomBelow))
	rep.Count("ref_custom_negative_discarded", int64(st.CustomNegative))
	rep.Count("ref_custom_huge", int64(st.CustomHuge))
	rep.Count("ref_default_cost_fields", int64(st.Default))
	rep.Count("ref_interface_fields", int64(st.InterfaceFields))
	rep.Count("ref_interface_max_over_differing_implementors", int64(st.InterfaceDiffer))
	rep.Count("ref_fragment_spreads", int64(st.Spreads))
	rep.Count("ref_inline_fragments", int64(st.Inlines))
	rep.Count("ref_args_from_variables", int64(st.ArgVars))
	rep.Count("ref_args_from_defaults", int64(st.ArgDefaults))
	rep.Count("ref_args_literal", int64(st.ArgLits))
	rep.Count("ref_saturated_additions", int64(st.Saturated))
	rep.Count("ref_union_parent_fields", int64(st.UnionFields))
	switch {
	case total == maxInt:
		rep.Count("result_is_maxInt", 1)
	case total > 1<<40:
		rep.Count("result_huge_not_saturated", 1)
	case total == 0:
		rep.Count("result_is_zero", 1)
	default:
		rep.Count("result_ordinary", 1)
	}
}

// ---------------------------------------------------------------------------------------------
// (2) metamorphic: add selections one at a time

func collectSets(doc *ast.QueryDocument, opName string) []*ast.SelectionSet {
	var out []*ast.SelectionSet
	var walk func(ss *ast.SelectionSet)
	walk = func(ss *ast.SelectionSet) {
		out = append(out, ss)
		for _, s := range *ss {
			switch x := s.(type) {
			case *ast.Field:
				if len(x.SelectionSet) > 0 {
					walk(&x.SelectionSet)
				}
			case *ast.InlineFragment:
				walk(&x.SelectionSet)
			}
		}
	}
	for _, o := range doc.Operations {
		if o.Name == opName || opName == "" {
			walk(&o.SelectionSet)
		}
	}
	for _, f := range doc.Fragments {
		walk(&f.SelectionSet)
	}
	return out
}

func format(doc *ast.QueryDocument) string {
	var b bytes.Buffer
	formatter.NewFormatter(&b).FormatQueryDocument(doc)
	return b.String()
}

func metamorphic(rep *ev.Reporter, c *cenv, cid caseID, fs *FSet, p *prepared, base int, r *rand.Rand,
	fail func(sig, part, why string, extra any)) int {
	doc, err := parser.ParseQuery(&ast.Source{Input: cid.Query})
	if err != nil {
		return 0
	}
	n := 0
	prev, prevText := base, cid.Query
	steps := 1 + r.Intn(3)
	for s := 0; s < steps; s++ {
		sets := collectSets(doc, cid.OpName)
		ss := sets[r.Intn(len(sets))]
		alias := fmt.Sprintf("mm%d", s)
		var add ast.Selection
		how := ""
		pick := (*ss)[r.Intn(len(*ss))]
		switch r.Intn(4) {
		case 0:
			add, how = &ast.Field{Alias: alias, Name: "__typename"}, "typename"
		case 1:
			if f, ok := pick.(*ast.Field); ok {
				cp := *f
				cp.Alias = alias
				add, how = &cp, "duplicate-field"
			} else {
				add, how = pick, "duplicate-fragment"
			}
		case 2:
			inner := pick
			if f, ok := pick.(*ast.Field); ok {
				cp := *f
				cp.Alias = alias
				inner = &cp
			}
			add, how = &ast.InlineFragment{SelectionSet: ast.SelectionSet{inner}}, "wrapped-in-inline-fragment"
		default:
			add, how = &ast.Field{Alias: alias, Name: "__typename", Directives: ast.DirectiveList{{Name: "skip",
				Arguments: ast.ArgumentList{{Name: "if", Value: &ast.Value{Kind: ast.BooleanValue, Raw: "true"}}}}}}, "skipped-typename"
		}
		at := r.Intn(len(*ss) + 1)
		ns := append(ast.SelectionSet{}, (*ss)[:at]...)
		ns = append(ns, add)
		ns = append(ns, (*ss)[at:]...)
		*ss = ns
		text := format(doc)
		p2, errs := prepare(c, text, cid.OpName, p.vars)
		if errs != nil {
			rep.Count("metamorphic_variant_invalid", 1)
			return n
		}
		// re-parse so that the working AST has no aliasing between copies
		doc = p2.doc
		got := complexity.Calculate(context.Background(), c.env.ES, p2.opCtx.Operation, p2.opCtx.Variables)
		want, _ := refEval(c, fs, p2, cid.OpName)
		n++
		rep.Count("metamorphic_pairs", 1)
		rep.Count("metamorphic_"+how, 1)
		if got > prev {
			rep.Count("metamorphic_strictly_increased", 1)
		} else if got == prev {
			rep.Count("metamorphic_unchanged", 1)
		}
		if got < prev {
			fail("", "metamorphic", fmt.Sprintf("adding a selection (%s) lowered the complexity from %d to %d", how, prev, got),
				map[string]any{"before": prevText, "after": text})
			return n
		}
		if got != want {
			sig, _ := classify(c, fs, p2, cid.OpName, got)
			fail(sig, "metamorphic-differential", fmt.Sprintf("complexity.Calculate=%d, documented definition gives %d", got, want),
				map[string]any{"query": text})
			if sig == "" {
				return n
			}
		}
		prev, prevText = got, text
	}
	return n
}

// ---------------------------------------------------------------------------------------------
// (4) gate

func limitsFor(cx int) (ls []int, names []string) {
	add := func(l int, n string) { ls = append(ls, l); names = append(names, n) }
	if cx > minInt {
		add(cx-1, "C-1")
	}
	add(cx, "C")
	if cx < maxInt {
		add(cx+1, "C+1")
	}
	add(0, "0")
	add(-1, "-1")
	add(maxInt, "maxInt")
	return
}

func resolverEvents(run *univ.Run) int {
	n := 0
	for _, e := range run.Events() {
		if e.Kind == "resolver" {
			n++
		}
	}
	return n
}

func errCode(e *gqlerror.Error) string {
	if e == nil || e.Extensions == nil {
		return ""
	}
	s, _ := e.Extensions["code"].(string)
	return s
}

func gate(rep *ev.Reporter, c *cenv, cid caseID, p *prepared, cx int,
	fail func(sig, part, why string, extra any), alsoHTTP bool) int {
	ls, names := limitsFor(cx)
	n := 0
	for i, L := range ls {
		L := L
		cid.Limit = &L
		over := cx > L
		n++
		// --- through graphql/executor
		ex := executor.New(c.env.ES)
		ex.SetRecoverFunc(func(ctx context.Context, r any) error { return fmt.Errorf("PANIC:%v", r) })
		ex.Use(extension.FixedComplexityLimit(L))
		run := &univ.Run{Plan: &univ.SeedPlan{Seed: cid.FSet.Seed, MaxList: 2}}
		ctx := graphql.StartOperationTrace(univ.WithRun(context.Background(), run))
		opCtx, errs := ex.CreateOperationContext(ctx, &graphql.RawParams{Query: cid.Query, OperationName: cid.OpName, Variables: decodeVars(cid.Vars)})
		rejected := false
		for _, e := range errs {
			if errCode(e) == code {
				rejected = true
			}
		}
		rep.Count("gate_cases", 1)
		rep.Count("gate_limit_"+names[i], 1)
		if st, ok := opCtx.Stats.GetExtension("ComplexityLimit").(*extension.ComplexityStats); ok && st != nil {
			rep.Count("gate_stats_seen", 1)
			if st.Complexity != cx || st.ComplexityLimit != L {
				fail("", "gate-stats", fmt.Sprintf("ComplexityStats{%d,%d} but the definition gives complexity %d under limit %d", st.Complexity, st.ComplexityLimit, cx, L), nil)
			}
		} else {
			fail("", "gate-stats", "no ComplexityStats on the operation context", nil)
		}
		if over {
			rep.Count("gate_over_limit", 1)
			if !rejected {
				fail("", "gate-executor", fmt.Sprintf("complexity %d exceeds limit %d but the operation was not rejected with %s", cx, L, code), errs)
			}
			if len(errs) > 0 {
				resp := ex.DispatchError(ctx, errs)
				if resp == nil || (len(resp.Data) > 0 && string(resp.Data) != "null") {
					fail("", "gate-executor", "over-limit rejection carries data", nil)
				}
				if resp != nil {
					found := false
					for _, e := range resp.Errors {
						if errCode(e) == code {
							found = true
						}
					}
					if !found && rejected {
						fail("", "gate-executor", "error response lost the "+code+" extension code", resp.Errors)
					}
				}
			} else {
				// not rejected at all: dispatch to see what would run (evidence for the violation)
				drain(ex, ctx, opCtx)
			}
			if k := resolverEvents(run); k > 0 {
				fail("", "gate-executor", fmt.Sprintf("complexity %d exceeds limit %d but %d resolver invocation(s) happened", cx, L, k), run.Events())
			} else {
				rep.Count("gate_over_limit_no_resolver_ran", 1)
			}
		} else {
			rep.Count("gate_within_limit", 1)
			if cx == L {
				rep.Count("gate_exactly_at_limit", 1)
			}
			if rejected {
				fail("", "gate-executor", fmt.Sprintf("complexity %d is within limit %d but the operation was rejected for complexity", cx, L), errs)
			} else if len(errs) > 0 {
				fail("", "gate-executor", "operation accepted without the limit was refused with it for another reason", errs)
			} else {
				resps := drain(ex, ctx, opCtx)
				for _, r := range resps {
					for _, e := range r.Errors {
						if errCode(e) == code {
							fail("", "gate-executor", "within-limit operation produced a complexity error during execution", r.Errors)
						}
					}
				}
				rep.Count("gate_within_limit_resolver_events", int64(resolverEvents(run)))
			}
		}
		if over {
			// --- the gate does not depend on the state of the request context: a client that has hung
			// up (or an expired deadline) must not turn an over-limit operation into an executed one
			n++
			exC := executor.New(c.env.ES)
			exC.SetRecoverFunc(func(ctx context.Context, r any) error { return fmt.Errorf("PANIC:%v", r) })
			exC.Use(extension.FixedComplexityLimit(L))
			runC := &univ.Run{Plan: &univ.SeedPlan{Seed: cid.FSet.Seed, MaxList: 2}}
			cctx, cancel := context.WithCancel(graphql.StartOperationTrace(univ.WithRun(context.Background(), runC)))
			cancel()
			opC, errsC := exC.CreateOperationContext(cctx, &graphql.RawParams{Query: cid.Query, OperationName: cid.OpName, Variables: decodeVars(cid.Vars)})
			if len(errsC) == 0 {
				drain(exC, cctx, opC)
			}
			rep.Count("gate_cancelled_context_cases", 1)
			if k := resolverEvents(runC); k > 0 || len(errsC) == 0 {
				fail("", "gate-cancelled-context", fmt.Sprintf("complexity %d exceeds limit %d; with an already cancelled request context the operation was accepted=%v and %d resolver invocation(s) happened", cx, L, len(errsC) == 0, k), runC.Events())
			}
			// --- the gate measures the operation that will run: an extension pins operationName to
			// the expensive operation of a two-operation document while the client names the cheap one
			if cid.OpName != "" {
				n++
				exP := executor.New(c.env.ES)
				exP.SetRecoverFunc(func(ctx context.Context, r any) error { return fmt.Errorf("PANIC:%v", r) })
				exP.Use(pinOperation{cid.OpName})
				exP.Use(extension.FixedComplexityLimit(L))
				runP := &univ.Run{Plan: &univ.SeedPlan{Seed: cid.FSet.Seed, MaxList: 2}}
				pctx := graphql.StartOperationTrace(univ.WithRun(context.Background(), runP))
				opP, errsP := exP.CreateOperationContext(pctx, &graphql.RawParams{Query: "query VerifCheap { __typename }\n" + cid.Query, OperationName: "VerifCheap", Variables: decodeVars(cid.Vars)})
				if len(errsP) == 0 {
					drain(exP, pctx, opP)
				}
				rep.Count("gate_pinned_operation_cases", 1)
				if k := resolverEvents(runP); k > 0 || len(errsP) == 0 {
					fail("", "gate-pinned-operation", fmt.Sprintf("two-operation document, an operation-parameter extension pins operationName to %q (complexity %d, limit %d) while the client named the cheap one: accepted=%v, %d resolver invocation(s)", cid.OpName, cx, L, len(errsP) == 0, k), runP.Events())
				}
			}
		}
		// --- through handler.Server + POST
		if alsoHTTP {
			n++
			gateHTTP(rep, c, cid, cx, L, over, fail)
		}
	}
	return n
}

// pinOperation is what trusted-document / persisted-operation extensions do: it decides which
// operation of the document runs, whatever the client named.
type pinOperation struct{ name string }

func (pinOperation) ExtensionName() string                   { return "VerifPinOperation" }
func (pinOperation) Validate(graphql.ExecutableSchema) error { return nil }
func (p pinOperation) MutateOperationParameters(ctx context.Context, rp *graphql.RawParams) *gqlerror.Error {
	rp.OperationName = p.name
	return nil
}

func drain(ex *executor.Executor, ctx context.Context, opCtx *graphql.OperationContext) []*graphql.Response {
	var out []*graphql.Response
	responses, rctx := ex.DispatchOperation(ctx, opCtx)
	for i := 0; i < 1000; i++ {
		r := responses(rctx)
		if r == nil {
			break
		}
		out = append(out, r)
	}
	return out
}

func gateHTTP(rep *ev.Reporter, c *cenv, cid caseID, cx, L int, over bool, fail func(sig, part, why string, extra any)) {
	srv := handler.New(c.env.ES)
	srv.AddTransport(transport.POST{})
	srv.Use(extension.FixedComplexityLimit(L))
	body, _ := json.Marshal(map[string]any{"query": cid.Query, "operationName": cid.OpName, "variables": cid.Vars})
	run := &univ.Run{Plan: &univ.SeedPlan{Seed: cid.FSet.Seed, MaxList: 2}}
	req := httptest.NewRequest(http.MethodPost, "/query", bytes.NewReader(body)).WithContext(univ.WithRun(context.Background(), run))
	req.Header.Set("Content-Type", "application/json")
	rec := httptest.NewRecorder()
	srv.ServeHTTP(rec, req)
	rep.Count("gate_http_cases", 1)
	var resp struct {
		Data   json.RawMessage `json:"data"`
		Errors []struct {
			Message    string         `json:"message"`
			Extensions map[string]any `json:"extensions"`
		} `json:"errors"`
	}
	if err := json.Unmarshal(rec.Body.Bytes(), &resp); err != nil {
		fail("", "gate-http", "response body is not JSON: "+err.Error(), rec.Body.String())
		return
	}
	rejected := false
	for _, e := range resp.Errors {
		if s, _ := e.Extensions["code"].(string); s == code {
			rejected = true
		}
	}
	if over {
		if !rejected {
			fail("", "gate-http", fmt.Sprintf("complexity %d exceeds limit %d but POST was not rejected with %s", cx, L, code), rec.Body.String())
		}
		if len(resp.Data) > 0 && string(resp.Data) != "null" {
			fail("", "gate-http", "over-limit rejection carries data", rec.Body.String())
		}
		if k := resolverEvents(run); k > 0 {
			fail("", "gate-http", fmt.Sprintf("complexity %d exceeds limit %d but %d resolver invocation(s) happened (POST)", cx, L, k), run.Events())
		}
		if rejected {
			rep.Count(fmt.Sprintf("gate_http_rejected_status_%d", rec.Code), 1)
		}
	} else {
		if rejected {
			fail("", "gate-http", fmt.Sprintf("complexity %d is within limit %d but POST was rejected for complexity", cx, L), rec.Body.String())
		}
		rep.Count("gate_http_within_limit", 1)
	}
}

// ---------------------------------------------------------------------------------------------

func handcrafted(rep *ev.Reporter, probe string, seed int64) int {
	c := bindEnv(probe, 60, uint64(seed)+99)
	// introspection must be allowed for the validator-independent parts; Calculate is called directly
	qs := []string{
		`{ __typename }`,
		`{ __schema { types { name fields { name } } } scalar }`,
		`{ __type(name: "A") { name fields { name type { name } } } }`,
		`{ __schema { queryType { name } } __type(name: "Query") { kind } an { id } }`,
		`query Q { an { ...F1 } } fragment F1 on A { id ...F2 bn { ...F3 } } fragment F2 on A { name node { ...F4 } } fragment F3 on B { title a { ...F2 } } fragment F4 on Node { id name ... on Named { title } ... on A { ...F5 } } fragment F5 on A { u { __typename ... on E { nn } ... on Node { id } } }`,
		`{ nodes { id name vid ... on A { id name } ... on Named { title id ... on B { id title } } } }`,
		`{ node(k: 1) { id ... on Node { id ... on Node { id ... on Node { id } } } } u(k: 2) { __typename ... on A { id } ... on B { id } ... on E { s } } }`,
		`query V($k: Int = 5, $n: Int, $s: String = "abc") { a(k: $k) { arg(x: $n, y: $s) } as(n: $n) { id } hello(name: $s) }`,
	}
	n := 0
	for qi, q := range qs {
		for k := 0; k < nProfiles*2; k++ {
			fs := FSet{Seed: uint64(seed)*977 + uint64(qi)*31 + uint64(k), Profile: k % nProfiles}
			c.cur.Store(&fs)
			doc, perr := parser.ParseQuery(&ast.Source{Input: q})
			if perr != nil {
				rep.Inconclusive("handcrafted operation does not parse: " + q)
				return n
			}
			// the validator-populated document for the real side
			vdoc, errs := loadQuery(c.env.Schema, q)
			if errs != nil {
				rep.Inconclusive("handcrafted operation rejected by the validator: " + q + ": " + errs.Error())
				return n
			}
			e := &evaluator{schema: c.env.Schema, doc: doc, vars: nil, custom: c.custom, cost: fs.Cost}
			want := e.Operation(vdoc.Operations[0].Name)
			cvars, verr := validator.VariableValues(c.env.Schema, vdoc.Operations[0], nil)
			if verr != nil {
				rep.Inconclusive("handcrafted operation: variable coercion failed: " + verr.Error())
				return n
			}
			got := complexity.Calculate(context.Background(), c.env.ES, vdoc.Operations[0], cvars)
			n++
			rep.Count("handcrafted_comparisons", 1)
			if strings.Contains(q, "__schema") {
				rep.Count("handcrafted_with___schema", 1)
			}
			if strings.Contains(q, "__type(") {
				rep.Count("handcrafted_with___type", 1)
			}
			if got != want {
				sig, _ := classify(c, &fs, &prepared{doc: doc}, vdoc.Operations[0].Name, got)
				rep.Violate(sig, map[string]any{"case": caseID{Probe: probe, WantPct: 60, WantSd: c.wantSd, FSet: fs, Query: q, Part: "handcrafted"},
					"why": fmt.Sprintf("complexity.Calculate=%d, documented definition gives %d", got, want), "detail": e.st})
			}
			countStats(rep, &e.st, want)
		}
	}
	return n
}

func loadQuery(s *ast.Schema, q string) (*ast.QueryDocument, gqlerror.List) {
	d, errs := gqlparser.LoadQuery(s, q)
	if len(errs) > 0 {
		return nil, errs
	}
	return d, nil
}

func doReplay(rep *ev.Reporter, path string) int {
	b, err := os.ReadFile(path)
	if err != nil {
		fmt.Println("replay:", err)
		return 2
	}
	var f struct {
		Detail struct {
			Part string `json:"part"`
			Case caseID `json:"case"`
		} `json:"detail"`
	}
	if err := json.Unmarshal(b, &f); err != nil {
		fmt.Println("replay:", err)
		return 2
	}
	if f.Detail.Part == "safeadd" {
		return rep.Finish(int64(safeAddGrid(rep)), 2)
	}
	cid := f.Detail.Case
	if _, ok := registry.Probes[cid.Probe]; !ok {
		fmt.Println("replay: probe not available:", cid.Probe)
		return 2
	}
	c := bindEnv(cid.Probe, cid.WantPct, cid.WantSd)
	cid.Part, cid.Limit = "", nil
	n := runCase(rep, c, cid, true)
	return rep.Finish(int64(n), 2)
}
