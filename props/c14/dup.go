package main

// Two schema fields bound to one Go field (all_items / allItems) share one ComplexityRoot entry:
// the custom cost must be applied whichever spelling the operation uses, and the gate must act on
// it (probe c14y, generated at check time).

import (
	"context"
	"fmt"
	"sync/atomic"

	"github.com/99designs/gqlgen/complexity"
	"github.com/99designs/gqlgen/graphql"
	"github.com/99designs/gqlgen/graphql/executor"
	"github.com/99designs/gqlgen/graphql/handler/extension"

	"verif/internal/ev"
	c14y "verif/work/farm/cur/c14y"
)

func dupGoNameChecks(rep *ev.Reporter) int64 {
	var evals int64
	var resolverCalls atomic.Int64
	stub := &c14y.Stub{}
	stub.QueryResolver.Shop = func(ctx context.Context) (*c14y.Shop, error) {
		resolverCalls.Add(1)
		return &c14y.Shop{AllItems: []*c14y.Item{{Name: "a"}}, ItemCount: 1}, nil
	}
	for _, mult := range []int{1000, 7} {
		cfg := c14y.Config{Resolvers: stub}
		cfg.Complexity.Shop.AllItems = func(child int) int { return mult * child }
		cfg.Complexity.Shop.ItemCount = func(child int) int { return mult }
		es := c14y.NewExecutableSchema(cfg)
		for _, c := range []struct {
			q    string
			want int
		}{
			{`{ shop { allItems { name } } }`, 1 + mult*1},
			{`{ shop { all_items { name } } }`, 1 + mult*1},
			{`{ shop { a: all_items { name } b: allItems { name } } }`, 1 + 2*mult},
			{`{ shop { itemCount } }`, 1 + mult},
			{`{ shop { item_count } }`, 1 + mult},
			{`{ shop { item_count itemCount all_items { name } } }`, 1 + 3*mult},
		} {
			for _, limit := range []int{c.want - 1, c.want, c.want + 1} {
				ex := executor.New(es)
				ex.Use(extension.FixedComplexityLimit(limit))
				ctx := graphql.StartOperationTrace(context.Background())
				before := resolverCalls.Load()
				oc, errs := ex.CreateOperationContext(ctx, &graphql.RawParams{Query: c.q})
				evals++
				cid := map[string]any{"probe": "c14y", "query": c.q, "custom_multiplier": mult, "expected_complexity": c.want, "limit": limit}
				rejected := len(errs) > 0
				if !rejected {
					got := complexity.Calculate(ctx, es, oc.Operation, oc.Variables)
					if got != c.want {
						rep.Violate("same-go-name-fields-complexity", map[string]any{"case": cid, "why": fmt.Sprintf("complexity %d, documented definition gives %d", got, c.want)})
					}
					h, rctx := ex.DispatchOperation(ctx, oc)
					h(rctx)
				}
				if c.want > limit && (!rejected || resolverCalls.Load() != before) {
					rep.Violate("same-go-name-fields-gate", map[string]any{"case": cid, "why": "operation over the limit was not rejected (or a resolver ran)", "errors": fmt.Sprint(errs)})
				}
				if c.want <= limit && rejected {
					rep.Violate("same-go-name-fields-gate", map[string]any{"case": cid, "why": "operation within the limit was rejected", "errors": fmt.Sprint(errs)})
				}
				rep.Count("same_go_name_field_cases", 1)
			}
		}
	}
	return evals
}
