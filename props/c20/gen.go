package main

// Seeded workload: representation lists. A list is a pure function of (seed, probe, index).

import (
	"encoding/json"
	"math/rand"
	"sort"
	"strconv"
	"strings"
)

type listMeta struct {
	Style   string `json:"style"`
	Profile string `json:"profile"`
	MixKeys bool   `json:"mix_keys"`
}

type gen struct {
	rng  *rand.Rand
	m    *schemaModel
	pool int
	// per-list choice of key for multi-key types when keys are not mixed
	keyChoice map[string]int
	mix       bool
	badP      float64
}

func (g *gen) id() any {
	switch g.rng.Intn(12) {
	case 0:
		return json.Number(strconv.Itoa(1 + g.rng.Intn(g.pool))) // IDs may arrive as JSON numbers
	case 1:
		if g.rng.Intn(6) == 0 {
			return "null" // the text gqlgen fabricates for a nil ID; as a real key it is legal
		}
	}
	return "i" + strconv.Itoa(g.rng.Intn(g.pool))
}

func (g *gen) str(prefix string) any {
	if g.rng.Intn(40) == 0 {
		return "" // the empty string is a legal non-null key
	}
	return prefix + strconv.Itoa(g.rng.Intn(g.pool))
}

func (g *gen) num() any { return json.Number(strconv.Itoa(g.rng.Intn(g.pool+1) - 1)) }

func (g *gen) leaf(f keyField) any {
	switch f.Kind {
	case "ID":
		return g.id()
	case "Int":
		return g.num()
	}
	return g.str(f.Path[len(f.Path)-1])
}

func setPath(rep map[string]any, path []string, v any) {
	cur := rep
	for i, seg := range path {
		if i == len(path)-1 {
			cur[seg] = v
			return
		}
		nx, ok := cur[seg].(map[string]any)
		if !ok {
			nx = map[string]any{}
			cur[seg] = nx
		}
		cur = nx
	}
}

func (g *gen) fillKey(rep map[string]any, k keyModel) {
	for _, f := range k.Fields {
		setPath(rep, f.Path, g.leaf(f))
	}
}

func (g *gen) nullKey(rep map[string]any, k keyModel) {
	for _, f := range k.Fields {
		setPath(rep, f.Path, nil)
	}
}

func (g *gen) addRequires(rep map[string]any, tm *typeModel) {
	if !tm.Requires {
		return
	}
	rep["ext"] = "x" + strconv.Itoa(g.rng.Intn(1000))
	rep["num"] = json.Number(strconv.Itoa(g.rng.Intn(2000) - 1000))
	rep["own"] = map[string]any{"id": "o" + strconv.Itoa(g.rng.Intn(1000)), "tier": "t" + strconv.Itoa(g.rng.Intn(1000)),
		"home": map[string]any{"id": "h" + strconv.Itoa(g.rng.Intn(1000))}}
}

// good builds a representation some @key of the type accepts.
func (g *gen) good(tm *typeModel) map[string]any {
	rep := map[string]any{"__typename": tm.Name}
	ki := 0
	if len(tm.Keys) > 1 {
		if g.mix {
			ki = g.rng.Intn(len(tm.Keys))
		} else {
			ki = g.keyChoice[tm.Name]
		}
	}
	g.fillKey(rep, tm.Keys[ki])
	if len(tm.Keys) > 1 && g.mix {
		switch g.rng.Intn(5) {
		case 0: // another key present as well: the first in declaration order wins
			g.fillKey(rep, tm.Keys[g.rng.Intn(len(tm.Keys))])
		case 1: // an earlier key explicitly null: the later key must be used
			if ki > 0 {
				g.nullKey(rep, tm.Keys[g.rng.Intn(ki)])
				g.fillKey(rep, tm.Keys[ki])
			}
		case 2: // the parent object of an earlier nested key is there, its leaf is not (or it is null)
			if ki > 0 {
				for _, ek := range tm.Keys[:ki] {
					for _, f := range ek.Fields {
						if len(f.Path) > 1 {
							if g.rng.Intn(2) == 0 {
								rep[f.Path[0]] = map[string]any{}
							} else {
								rep[f.Path[0]] = nil
							}
						}
					}
				}
				g.fillKey(rep, tm.Keys[ki])
			}
		}
	}
	g.addRequires(rep, tm)
	if g.rng.Intn(10) == 0 {
		rep["extra"] = "ignored"
	}
	return rep
}

// bad builds a representation gqlgen must refuse (or, for "partial", one the property does not
// constrain: a compound key with some but not all values null).
func (g *gen) bad(tm *typeModel) (map[string]any, string) {
	rep := map[string]any{"__typename": tm.Name}
	k := tm.Keys[g.rng.Intn(len(tm.Keys))]
	nested := -1
	for fi, f := range k.Fields {
		if len(f.Path) > 1 {
			nested = fi
		}
	}
	shape := ""
	opts := []string{"nokey", "nullkey"}
	if len(k.Fields) > 1 {
		opts = append(opts, "onemissing", "partialnull", "leafobject", "leafobject")
	}
	if nested >= 0 {
		opts = append(opts, "parentmissing", "parentnull", "parentscalar", "parentempty")
	}
	shape = opts[g.rng.Intn(len(opts))]
	switch shape {
	case "nokey":
	case "nullkey":
		g.nullKey(rep, k)
	case "onemissing":
		g.fillKey(rep, k)
		drop := k.Fields[g.rng.Intn(len(k.Fields))]
		if len(drop.Path) == 1 {
			delete(rep, drop.Path[0])
		} else {
			delete(rep[drop.Path[0]].(map[string]any), drop.Path[1])
		}
	case "partialnull":
		g.fillKey(rep, k)
		setPath(rep, k.Fields[g.rng.Intn(len(k.Fields))].Path, nil)
	case "leafobject":
		// one component of a compound key (any position, also not the last) carries a value its
		// scalar cannot be read from: the representation is unusable and must fail as a whole, the
		// resolver must not be called with a zero value in that component's place
		g.fillKey(rep, k)
		bad := []any{map[string]any{"x": json.Number("1")}, []any{json.Number("1"), json.Number("2")}}[g.rng.Intn(2)]
		setPath(rep, k.Fields[g.rng.Intn(len(k.Fields))].Path, bad)
	case "parentmissing":
		g.fillKey(rep, k)
		delete(rep, k.Fields[nested].Path[0])
	case "parentnull":
		g.fillKey(rep, k)
		rep[k.Fields[nested].Path[0]] = nil
	case "parentscalar":
		g.fillKey(rep, k)
		rep[k.Fields[nested].Path[0]] = "scalar"
	case "parentempty":
		g.fillKey(rep, k)
		rep[k.Fields[nested].Path[0]] = map[string]any{}
	}
	g.addRequires(rep, tm)
	return rep, shape
}

func (g *gen) badTypename() map[string]any {
	rep := map[string]any{"id": g.id(), "name": g.str("name")}
	opts := []any{"Nope", "sid", "_Entity", "Entity"}
	for _, n := range g.m.NonEnt {
		opts = append(opts, n)
	}
	switch g.rng.Intn(5) {
	case 0: // missing
	case 1:
		rep["__typename"] = nil
	case 2:
		rep["__typename"] = json.Number("7")
	default:
		rep["__typename"] = opts[g.rng.Intn(len(opts))]
	}
	return rep
}

func deepCopy(v any) any {
	switch x := v.(type) {
	case map[string]any:
		o := make(map[string]any, len(x))
		for k, e := range x {
			o[k] = deepCopy(e)
		}
		return o
	case []any:
		o := make([]any, len(x))
		for i, e := range x {
			o[i] = deepCopy(e)
		}
		return o
	}
	return v
}

var styles = []string{"interleaved", "grouped", "one-type", "two-types", "multi-only", "dups", "single-only", "interleaved"}
var profiles = []string{"clean", "clean", "mild", "hostile", "mild", "clean", "hostile", "mild", "clean"}

// genList returns the JSON text of the representation list of case idx.
func genList(m *schemaModel, seed int64, probe string, idx int) (string, listMeta) {
	rng := rand.New(rand.NewSource(int64(h64(uint64(seed), probe+"#"+strconv.Itoa(idx)))))
	g := &gen{rng: rng, m: m, keyChoice: map[string]int{}}
	// length: every length 0..40 is hit by the first 41 indices, then skewed random
	n := idx % 41
	if idx >= 41 {
		switch rng.Intn(4) {
		case 0:
			n = rng.Intn(6)
		case 1:
			n = 2 + rng.Intn(12)
		default:
			n = rng.Intn(41)
		}
	}
	meta := listMeta{Style: styles[(idx/3)%len(styles)], Profile: profiles[idx%len(profiles)]}
	g.pool = 2 + rng.Intn(7)
	if meta.Style == "dups" {
		g.pool = 2
	}
	g.mix = rng.Intn(5) < 2
	meta.MixKeys = g.mix
	for _, tn := range m.Order {
		g.keyChoice[tn] = rng.Intn(len(m.Types[tn].Keys))
	}
	badTN := 0.0
	switch meta.Profile {
	case "mild":
		g.badP, badTN = 0.06, 0.04
	case "hostile":
		g.badP, badTN = 0.25, 0.12
	}
	var singles, multis []string
	for _, tn := range m.Order {
		if m.Types[tn].Multi {
			multis = append(multis, tn)
		} else {
			singles = append(singles, tn)
		}
	}
	pick := func(l []string) string { return l[rng.Intn(len(l))] }
	var cand []string
	switch meta.Style {
	case "one-type":
		cand = []string{pick(m.Order)}
	case "two-types":
		cand = []string{pick(singles), pick(multis)}
	case "multi-only":
		cand = multis
	case "single-only":
		cand = singles
	default:
		// a random subset of 2..all types
		perm := rng.Perm(len(m.Order))
		k := 2 + rng.Intn(len(m.Order)-1)
		for _, i := range perm[:k] {
			cand = append(cand, m.Order[i])
		}
	}
	dupP := 0.1
	if meta.Style == "dups" {
		dupP = 0.35
	}
	reps := make([]any, 0, n)
	for i := 0; i < n; i++ {
		r := rng.Float64()
		switch {
		case len(reps) > 0 && r < dupP:
			c := deepCopy(reps[rng.Intn(len(reps))]).(map[string]any)
			if _, ok := c["ext"]; ok && rng.Intn(2) == 0 {
				// same key, different required values: a mix-up between duplicates is visible
				c["ext"] = "y" + strconv.Itoa(rng.Intn(1000))
			}
			reps = append(reps, c)
		case r < dupP+badTN:
			reps = append(reps, g.badTypename())
		case r < dupP+badTN+g.badP:
			b, _ := g.bad(m.Types[pick(cand)])
			reps = append(reps, b)
		default:
			reps = append(reps, g.good(m.Types[pick(cand)]))
		}
	}
	if meta.Style == "grouped" {
		sort.SliceStable(reps, func(a, b int) bool {
			ta, _ := reps[a].(map[string]any)["__typename"].(string)
			tb, _ := reps[b].(map[string]any)["__typename"].(string)
			return ta < tb
		})
	}
	b, _ := json.Marshal(reps)
	return string(b), meta
}

func decodeReps(text string) ([]map[string]any, error) {
	d := json.NewDecoder(strings.NewReader(text))
	d.UseNumber()
	var raw []map[string]any
	if err := d.Decode(&raw); err != nil {
		return nil, err
	}
	if raw == nil {
		raw = []map[string]any{}
	}
	return raw, nil
}
