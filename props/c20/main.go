// C20: federation `_entities` answers each representation at its own index.
//
// Federation probe servers (probes/fed1, fed1fn, fed2, fed2fn, fed2er, fed2erfn, fed2cr, fed2crfn:
// federation v1/v2 x default / explicit_requires / computed_requires x function syntax) are
// generated from /repo's current templates by the farm. Entity resolvers are bound reflectively
// (bind.go): they echo the key they were called with plus a hash of it, after a seeded delay and
// an optional seeded fault. Seeded representation lists (gen.go) go through graphql/executor as
// `_entities(representations: $r)`; element i of the answer is compared with what the echo resolver
// yields for representation i under the routing rule the property states (model.go).
//
// The parent process only orchestrates: the cases run in child processes (a crash of the
// generated code is an observation, not the end of the check).
package main

import (
	"bytes"
	"context"
	"crypto/sha256"
	"encoding/hex"
	"encoding/json"
	"fmt"
	"math/rand"
	"os"
	"os/exec"
	"path/filepath"
	"runtime"
	"sort"
	"strconv"
	"strings"
	"sync"
	"sync/atomic"
	"time"

	"github.com/99designs/gqlgen/graphql"
	"github.com/99designs/gqlgen/graphql/executor"

	"verif/internal/ev"
	"verif/internal/gdump"
	"verif/internal/sjson"
	"verif/internal/univ"
	"verif/work/farm/cur/fed1"
	"verif/work/farm/cur/fed1fn"
	"verif/work/farm/cur/fed2"
	"verif/work/farm/cur/fed2cr"
	"verif/work/farm/cur/fed2crfn"
	"verif/work/farm/cur/fed2er"
	"verif/work/farm/cur/fed2erfn"
	"verif/work/farm/cur/fed2fn"
)

var probeCtors = map[string]func() *univ.Probe{
	"fed1": fed1.VerifProbe, "fed1fn": fed1fn.VerifProbe,
	"fed2": fed2.VerifProbe, "fed2fn": fed2fn.VerifProbe,
	"fed2er": fed2er.VerifProbe, "fed2erfn": fed2erfn.VerifProbe,
	"fed2cr": fed2cr.VerifProbe, "fed2crfn": fed2crfn.VerifProbe,
}

var probeNames = []string{"fed1", "fed1fn", "fed2", "fed2cr", "fed2crfn", "fed2er", "fed2erfn", "fed2fn"}

// Signatures of the violation classes (stable strings; known_findings.txt refers to them).
const (
	sigMissingKey = "multi-batch-missing-key-not-refused" // multi group, first representation usable, a LATER one lacks/nulls every key
	sigMixedKeys  = "multi-batch-mixed-keys"              // multi group, a LATER representation uses another @key than the first one
	sigFirstBad   = "multi-batch-first-rep-refused"       // multi group whose FIRST representation must be refused while others are usable
	sigMismatch   = "element-mismatch"
	sigNoError    = "null-without-error"
	sigFaultErr   = "fault-error-missing"
	sigShape      = "entities-shape"
	sigCrash      = "crash"
)

// ---------------------------------------------------------------------------------------------

type execCase struct {
	Probe      string `json:"probe"`
	Index      int    `json:"index"`
	Reps       string `json:"representations,omitempty"` // JSON text; regenerated from (seed, probe, index) when empty
	FaultIndex int    `json:"fault_index"`               // -1: no fault
	FaultKind  string `json:"fault_kind,omitempty"`
	DelaySeed  uint64 `json:"delay_seed"`
}

type violation struct {
	Sig    string `json:"sig"`
	Detail any    `json:"detail"`
}

type result struct {
	Counts       map[string]int64           `json:"counts"`
	Distinct     map[string]map[string]bool `json:"distinct"`
	Samples      []any                      `json:"samples"`
	Violations   []violation                `json:"violations"`
	Inconclusive []string                   `json:"inconclusive"`
	Evals        int64                      `json:"evals"`
	mu           sync.Mutex
}

func newResult() *result {
	return &result{Counts: map[string]int64{}, Distinct: map[string]map[string]bool{}}
}

func (r *result) count(k string, n int64) {
	r.mu.Lock()
	r.Counts[k] += n
	r.mu.Unlock()
}

func (r *result) distinct(set, member string) {
	if len(member) > 40 {
		h := sha256.Sum256([]byte(member))
		member = hex.EncodeToString(h[:10])
	}
	r.mu.Lock()
	m := r.Distinct[set]
	if m == nil {
		m = map[string]bool{}
		r.Distinct[set] = m
	}
	m[member] = true
	r.mu.Unlock()
}

func (r *result) inconclusive(s string) {
	r.mu.Lock()
	r.Inconclusive = append(r.Inconclusive, s)
	r.mu.Unlock()
}

func (r *result) violate(sig string, detail any) {
	r.mu.Lock()
	n := 0
	for _, v := range r.Violations {
		if v.Sig == sig {
			n++
		}
	}
	r.Counts["violations_"+sig]++
	if n < 4 {
		r.Violations = append(r.Violations, violation{sig, detail})
	}
	r.mu.Unlock()
}

// ---------------------------------------------------------------------------------------------

type probeEnv struct {
	name     string
	m        *schemaModel
	exec     *executor.Executor
	query    string
	recovers int64
}

func newProbeEnv(name string) (*probeEnv, error) {
	ctor := probeCtors[name]
	if ctor == nil {
		return nil, fmt.Errorf("no such probe %s", name)
	}
	p := ctor()
	var b *binder
	var stubAny any
	es := p.New(func(stub, directives, complexity any) { stubAny = stub })
	m, err := buildModel(es.Schema(), stubIsComputed(stubAny))
	if err != nil {
		return nil, err
	}
	b = newBinder(m)
	b.bind(stubAny) // the Stub is held by pointer inside the executable schema
	if len(b.problems) > 0 {
		return nil, fmt.Errorf("cannot bind %s: %s", name, strings.Join(b.problems, "; "))
	}
	pe := &probeEnv{name: name, m: m, exec: executor.New(es), query: m.query()}
	pe.exec.SetRecoverFunc(func(ctx context.Context, r any) error {
		return fmt.Errorf("PANIC:%v", r)
	})
	return pe, nil
}

type response struct {
	data     []byte
	errs     []string
	reqErrs  []string
	timedOut bool
	hung     string // goroutine dump when the request is provably never answered
}

func (pe *probeEnv) run(rec *recorder, reps []map[string]any) *response {
	out := &response{}
	list := make([]any, len(reps))
	for i, r := range reps {
		list[i] = r
	}
	ctx := withRecorder(context.Background(), rec)
	ctx = graphql.StartOperationTrace(ctx)
	params := &graphql.RawParams{Query: pe.query, Variables: map[string]any{"r": list}}
	opCtx, errs := pe.exec.CreateOperationContext(ctx, params)
	if len(errs) > 0 {
		for _, e := range errs {
			out.reqErrs = append(out.reqErrs, e.Message)
		}
		return out
	}
	done := make(chan struct{})
	go func() {
		defer close(done)
		responses, rctx := pe.exec.DispatchOperation(ctx, opCtx)
		resp := responses(rctx)
		if resp != nil {
			out.data = append([]byte{}, resp.Data...)
			for _, e := range resp.Errors {
				out.errs = append(out.errs, e.Message)
			}
		}
	}()
	select {
	case <-done:
	case <-time.After(90 * time.Second):
		// every stub resolver returns promptly: when the operation's goroutines sit in a stable
		// blocked state inside the generated federation code, the request will never be answered
		gs, stable := gdump.WaitGone([]string{"verif/work/farm/cur/"}, nil, nil, 0, time.Second)
		if len(gs) > 0 && stable {
			var sb strings.Builder
			for i, g := range gs {
				if i < 6 {
					sb.WriteString(g.Text + "\n")
				}
			}
			return &response{timedOut: true, hung: sb.String()}
		}
		return &response{timedOut: true}
	}
	return out
}

// ---------------------------------------------------------------------------------------------
// oracle

const (
	xEntity = iota
	xNull   // failed: null, with an error somewhere
	xEither // multi type under a fault, representation served by ANOTHER resolver of that type
	xAny    // compound key with some (not all) values null: not constrained by the property
)

type expectation struct {
	kind int
	val  *sjson.Value
}

func short(s string, n int) string {
	if len(s) > n {
		return s[:n] + "…"
	}
	return s
}

// timeouts counts requests of this child process that were never answered; termination is C05's
// subject, so after a few of them the remaining cases are not worth another watchdog period each.
var timeouts atomic.Int64

func (pe *probeEnv) runCase(c execCase, res *result, seed int64) {
	if timeouts.Load() >= 3 {
		res.count("cases_skipped_after_repeated_timeouts", 1)
		return
	}
	m := pe.m
	text := c.Reps
	var meta listMeta
	if text == "" {
		text, meta = genList(m, seed, c.Probe, c.Index)
	}
	reps, err := decodeReps(text)
	if err != nil {
		res.inconclusive("bad representation text: " + err.Error())
		return
	}
	forServer, _ := decodeReps(text) // the server gets its own copy
	n := len(reps)
	routes := make([]route, n)
	for i, r := range reps {
		routes[i] = m.route(r)
	}
	pl := plan{DelaySeed: c.DelaySeed}
	if c.FaultIndex >= 0 && c.FaultIndex < n && routes[c.FaultIndex].Kind == rOK {
		pl.FaultID, pl.FaultKind = routes[c.FaultIndex].Identity, c.FaultKind
	}
	rec := &recorder{plan: &pl}
	// logged before running: if the process dies, the parent knows which cases were in flight
	lb, _ := json.Marshal(map[string]any{"case": execCase{Probe: c.Probe, Index: c.Index, FaultIndex: c.FaultIndex, FaultKind: c.FaultKind, DelaySeed: c.DelaySeed, Reps: c.Reps}, "id": pl.FaultID})
	logLine("CASE-BEGIN " + string(lb))
	resp := pe.run(rec, forServer)
	logLine("CASE-END " + string(lb))
	res.mu.Lock()
	res.Evals++
	res.mu.Unlock()

	caseDetail := func() map[string]any {
		cc := c
		cc.Reps = text
		return map[string]any{"case": cc, "list": meta, "fault_identity": pl.FaultID}
	}
	if resp.timedOut {
		timeouts.Add(1)
		if resp.hung != "" {
			d := caseDetail()
			d["why"] = "the _entities request is never answered: every entity resolver returned, the operation's goroutines are in a stable blocked state inside the generated code"
			d["goroutines"] = resp.hung
			res.violate("entities-request-never-answered", d)
			return
		}
		res.inconclusive(fmt.Sprintf("watchdog: %s case %d did not answer within 90s", c.Probe, c.Index))
		return
	}
	if len(resp.reqErrs) > 0 {
		d := caseDetail()
		d["why"] = "request refused before execution"
		d["errors"] = resp.reqErrs
		res.violate(sigShape, d)
		return
	}
	data, perr := sjson.Parse(resp.data)
	var arr []*sjson.Value
	shapeWhy := ""
	switch {
	case perr != nil:
		shapeWhy = "data is not valid JSON: " + perr.Error()
	case data.Kind == sjson.Null:
		shapeWhy = "data is null"
	case data.Get("_entities") == nil || data.Get("_entities").Kind != sjson.Array:
		shapeWhy = "_entities is not a list: " + short(data.Render(), 200)
	case len(data.Get("_entities").Arr) != n:
		shapeWhy = fmt.Sprintf("_entities has %d elements for %d representations", len(data.Get("_entities").Arr), n)
	default:
		arr = data.Get("_entities").Arr
	}
	if shapeWhy != "" {
		d := caseDetail()
		d["why"] = shapeWhy
		d["errors"] = resp.errs
		res.violate(sigShape, d)
		return
	}

	// ---- expectations
	exp := make([]expectation, n)
	faultT, faultKey := (*typeModel)(nil), -1
	if pl.FaultID != "" {
		faultT, faultKey = routes[c.FaultIndex].T, routes[c.FaultIndex].Key
	}
	for i, rt := range routes {
		switch {
		case rt.Kind != rOK:
			exp[i] = expectation{kind: xNull}
		case rt.PartialNull:
			exp[i] = expectation{kind: xAny}
		default:
			exp[i] = expectation{kind: xEntity, val: m.expectedEntity(rt, reps[i])}
			if faultT != nil && rt.T == faultT {
				if faultT.Multi {
					if rt.Key == faultKey {
						exp[i].kind = xNull
					} else if pl.FaultKind == "panic" {
						// the batches of one type share one recover: a panic in one key's batch may
						// take the type's other batches with it
						exp[i].kind = xEither
					}
					// an ERROR of one key's batch call must leave the batches of the type's other
					// keys intact (each is a separate user call): xEntity stays
				} else if rt.Identity == pl.FaultID {
					exp[i].kind = xNull
				}
			}
		}
	}

	// ---- element-wise comparison
	type bad struct {
		i   int
		why string
	}
	var bads []bad
	for i := range exp {
		got := arr[i]
		switch exp[i].kind {
		case xNull:
			if got.Kind != sjson.Null {
				bads = append(bads, bad{i, "representation failed / must be refused, element is " + short(got.Render(), 200)})
			}
		case xEntity:
			if d := sjson.Diff(exp[i].val, got, false, ""); d != "" {
				bads = append(bads, bad{i, "expected " + exp[i].val.Render() + " got " + short(got.Render(), 300) + " (" + d + ")"})
			}
		case xEither:
			if got.Kind != sjson.Null {
				if d := sjson.Diff(exp[i].val, got, false, ""); d != "" {
					bads = append(bads, bad{i, "expected null or " + exp[i].val.Render() + " got " + short(got.Render(), 300)})
				}
			}
		}
	}

	// per-type groups in request order (every representation whose __typename is that string)
	groups := map[string][]int{}
	var groupOrder []string
	for i, r := range reps {
		if tn, ok := r["__typename"].(string); ok {
			if _, seen := groups[tn]; !seen {
				groupOrder = append(groupOrder, tn)
			}
			groups[tn] = append(groups[tn], i)
		}
	}

	if len(bads) > 0 {
		// attribute every violating element to a signature: a predicate over the CASE
		bySig := map[string][]bad{}
		for _, b := range bads {
			sig := sigMismatch
			rt := routes[b.i]
			if rt.T != nil && rt.T.Multi {
				g := groups[rt.T.Name]
				first := routes[g[0]]
				if first.Kind == rRefused {
					// whole-group collapse is explained only for usable representations found null
					if rt.Kind == rOK && arr[b.i].Kind == sjson.Null && len(g) > 1 {
						sig = sigFirstBad
					}
				} else if first.Kind == rOK {
					var laterRefused, laterOtherKey bool
					for _, j := range g[1:] {
						if routes[j].Kind == rRefused {
							laterRefused = true
						}
						if routes[j].Kind == rOK && routes[j].Key != first.Key {
							laterOtherKey = true
						}
					}
					switch {
					case b.i != g[0] && rt.Kind == rRefused:
						sig = sigMissingKey
					case b.i != g[0] && rt.Kind == rOK && rt.Key != first.Key:
						sig = sigMixedKeys
					case laterRefused:
						sig = sigMissingKey // a later key-less representation broke the whole batch
					case laterOtherKey:
						sig = sigMixedKeys
					}
				}
			}
			bySig[sig] = append(bySig[sig], b)
		}
		for sig, l := range bySig {
			d := caseDetail()
			var lines []string
			for _, b := range l {
				lines = append(lines, fmt.Sprintf("element %d: %s", b.i, b.why))
				if len(lines) >= 6 {
					break
				}
			}
			d["why"] = lines
			d["errors"] = resp.errs
			d["response"] = short(string(resp.data), 1500)
			res.violate(sig, d)
		}
	} else {
		// ---- "null WITH an error"
		anyNull := false
		for i := range exp {
			if arr[i].Kind == sjson.Null {
				anyNull = true
			}
		}
		if anyNull && len(resp.errs) == 0 {
			d := caseDetail()
			d["why"] = "an element is null but the response carries no error"
			d["response"] = short(string(resp.data), 1500)
			res.violate(sigNoError, d)
		}
		if pl.FaultID != "" {
			tok := "E!" + pl.FaultID
			if pl.FaultKind == "panic" {
				tok = "P!" + pl.FaultID
			}
			found := false
			for _, e := range resp.errs {
				if strings.Contains(e, tok) {
					found = true
				}
			}
			if pl.FaultKind == "emptylist" && faultT != nil && !faultT.Multi {
				// the resolver failed with an error value that carries no message of its own (an
				// empty gqlerror.List): some error must still be reported for it
				found = len(resp.errs) > 0
			}
			// under a multi batch that the generated code could not even start (known findings
			// above would have fired) the stub is never called; otherwise its failure must surface
			if !found && rec.faultFired > 0 {
				d := caseDetail()
				d["why"] = "the failing resolver's error/panic is not reported in errors"
				d["errors"] = resp.errs
				res.violate(sigFaultErr, d)
			}
			if rec.faultFired == 0 {
				res.count("fault_not_reached", 1)
			}
		}
		if !anyNull && len(resp.errs) > 0 {
			hasAny := false
			for i := range exp {
				if exp[i].kind == xAny {
					hasAny = true
				}
			}
			if !hasAny {
				res.count("errors_without_failed_representation", 1)
			}
		}
	}

	// ---- evidence
	pe.account(c, res, reps, routes, exp, groups, groupOrder, rec, &pl, meta, len(bads) == 0, text, len(resp.errs))
}

func (pe *probeEnv) account(c execCase, res *result, reps []map[string]any, routes []route, exp []expectation,
	groups map[string][]int, groupOrder []string, rec *recorder, pl *plan, meta listMeta, clean bool, text string, nerr int) {
	n := len(reps)
	res.count("lists_total", 1)
	res.count(fmt.Sprintf("lists_len_%02d", n), 1)
	res.count("lists_probe_"+c.Probe, 1)
	if meta.Style != "" {
		res.count("lists_style_"+meta.Style, 1)
		res.count("lists_profile_"+meta.Profile, 1)
	}
	switches := 0
	prev := ""
	for i, r := range reps {
		tn, _ := r["__typename"].(string)
		if i > 0 && tn != prev {
			switches++
		}
		prev = tn
	}
	if switches >= len(groupOrder) && len(groupOrder) >= 2 {
		res.count("lists_types_interleaved", 1)
	}
	res.count(fmt.Sprintf("lists_type_groups_%02d", len(groupOrder)), 1)
	seen := map[string]bool{}
	dup := false
	nontrivial := false
	for i, rt := range routes {
		switch rt.Kind {
		case rBadTypename:
			res.count("reps_typename_missing_or_not_string", 1)
		case rUnknownType:
			res.count("reps_typename_unknown", 1)
		case rRefused:
			res.count("reps_key_missing_or_null", 1)
			if rt.T.Multi {
				res.count("reps_key_missing_or_null_multi", 1)
			}
		case rOK:
			if rt.PartialNull {
				res.count("reps_partial_null_key_unconstrained", 1)
			}
			kind := "simple"
			k := rt.T.Keys[rt.Key]
			if len(k.Fields) > 1 {
				kind = "compound"
			}
			for _, f := range k.Fields {
				if len(f.Path) > 1 {
					kind = "nested"
				}
			}
			rk := "single"
			if rt.T.Multi {
				rk = "multi"
			}
			res.count("reps_ok_"+rk+"_key_"+kind, 1)
			if rt.Key > 0 {
				res.count("reps_ok_"+rk+"_via_later_key", 1)
			}
			if seen[rt.Identity] {
				dup = true
			}
			seen[rt.Identity] = true
		}
		if clean {
			switch exp[i].kind {
			case xEntity:
				res.count("elements_equal_to_direct_resolution", 1)
				if rt.T.Requires {
					res.count("requires_checks", 1)
					if pe.m.Computed {
						res.count("requires_checks_computed", 1)
					}
				}
				if pl.FaultID != "" {
					res.count("isolation_checks_element_intact_under_fault", 1)
				}
			case xNull:
				res.count("elements_null_as_required", 1)
			}
		}
	}
	if dup {
		res.count("lists_with_duplicate_representations", 1)
	}
	for _, tn := range groupOrder {
		tm := pe.m.Types[tn]
		if tm == nil || !tm.Multi {
			continue
		}
		g := groups[tn]
		res.count("multi_groups", 1)
		if len(g) >= 2 {
			res.count("multi_groups_of_2_or_more", 1)
		}
		keys := map[int]bool{}
		refused := false
		for _, i := range g {
			if routes[i].Kind == rOK {
				keys[routes[i].Key] = true
			} else {
				refused = true
			}
		}
		if len(keys) > 1 {
			res.count("multi_groups_mixing_keys", 1)
		}
		if refused && len(g) > 1 {
			res.count("multi_groups_with_refusable_representation", 1)
		}
	}
	if pl.FaultID != "" {
		res.count("faults_"+pl.FaultKind, 1)
		res.count(fmt.Sprintf("faults_at_position_%02d", c.FaultIndex), 1)
		if routes[c.FaultIndex].T.Multi {
			res.count("faults_in_multi_resolver", 1)
		} else {
			res.count("faults_in_single_resolver", 1)
		}
		nontrivial = true
	}
	if nerr > 0 {
		res.count("responses_with_errors", 1)
	}

	// completion orders actually observed
	rec.mu.Lock()
	done := append([]doneEv{}, rec.done...)
	rec.mu.Unlock()
	res.count("resolver_calls_single", 0)
	lastOf := map[string]int{}
	perType := map[string][]string{}
	for pos, e := range done {
		lastOf[e.Type] = pos
		if e.Multi {
			res.count("resolver_calls_multi", 1)
			res.count("resolver_calls_multi_representations", int64(e.N))
		} else {
			res.count("resolver_calls_single", 1)
			perType[e.Type] = append(perType[e.Type], e.Identity)
		}
	}
	for tn, ids := range perType {
		if len(ids) < 2 {
			continue
		}
		// request-order ranks of the calls, FIFO among duplicates
		want := map[string][]int{}
		rank := 0
		for _, i := range groups[tn] {
			if routes[i].Kind == rOK {
				want[routes[i].Identity] = append(want[routes[i].Identity], rank)
				rank++
			}
		}
		var perm []string
		sorted := true
		last := -1
		for _, id := range ids {
			l := want[id]
			if len(l) == 0 {
				perm = append(perm, "?")
				continue
			}
			r := l[0]
			want[id] = l[1:]
			if r < last {
				sorted = false
			}
			last = r
			perm = append(perm, strconv.Itoa(r))
		}
		res.count("single_groups_with_2_or_more_calls", 1)
		if !sorted {
			res.count("single_groups_completed_out_of_request_order", 1)
		}
		res.distinct("completion_orders_within_single_group", strings.Join(perm, ","))
	}
	if len(lastOf) >= 2 {
		type tl struct {
			t   string
			pos int
		}
		var l []tl
		for t, p := range lastOf {
			l = append(l, tl{t, p})
		}
		sort.Slice(l, func(a, b int) bool { return l[a].pos < l[b].pos })
		reqRank := map[string]int{}
		for i, t := range groupOrder {
			reqRank[t] = i
		}
		var perm []string
		sorted := true
		for i, e := range l {
			perm = append(perm, strconv.Itoa(reqRank[e.t]))
			if i > 0 && reqRank[e.t] < reqRank[l[i-1].t] {
				sorted = false
			}
		}
		res.count("lists_with_2_or_more_resolving_type_groups", 1)
		if !sorted {
			res.count("type_groups_completed_out_of_request_order", 1)
		}
		res.distinct("completion_orders_of_type_groups", strings.Join(perm, ","))
	}

	if n >= 2 && (len(groupOrder) >= 2 || dup || len(seen) < n) {
		nontrivial = true
	}
	if nontrivial {
		res.distinct("nontrivial_cases", fmt.Sprintf("%s|%s|%d|%s", c.Probe, text, c.FaultIndex, c.FaultKind))
	}
	res.mu.Lock()
	if len(res.Samples) < 2 && n >= 3 && n <= 6 && c.Index%7 == 3 {
		res.Samples = append(res.Samples, map[string]any{"probe": c.Probe, "index": c.Index, "representations": json.RawMessage(text),
			"fault_index": c.FaultIndex, "fault_kind": c.FaultKind, "errors": nerr, "resolver_completions": len(done)})
	}
	res.mu.Unlock()
}

// ---------------------------------------------------------------------------------------------
// case lists: a pure function of (seed, tier, probe)

func casesOf(m *schemaModel, seed int64, probe string, idx int) []execCase {
	text, _ := genList(m, seed, probe, idx)
	reps, _ := decodeReps(text)
	var ok []int
	for i, r := range reps {
		if rt := m.route(r); rt.Kind == rOK && !rt.PartialNull {
			ok = append(ok, i)
		}
	}
	base := probe + "#" + strconv.Itoa(idx)
	out := []execCase{{Probe: probe, Index: idx, FaultIndex: -1, DelaySeed: h64(uint64(seed), base+"#nofault")}}
	if len(ok) == 0 {
		return out
	}
	rng := rand.New(rand.NewSource(int64(h64(uint64(seed), base+"#faults"))))
	kinds := []string{"error", "panic"}
	if idx%5 == 2 {
		kinds = []string{"emptylist", "panic"}
	}
	if (len(reps) <= 8 && idx%4 == 0) || idx%61 == 0 {
		for _, j := range ok {
			for _, k := range kinds {
				out = append(out, execCase{Probe: probe, Index: idx, FaultIndex: j, FaultKind: k,
					DelaySeed: h64(uint64(seed), fmt.Sprintf("%s#%d#%s", base, j, k))})
			}
		}
		return out
	}
	if rng.Intn(4) < 3 {
		j, k := ok[rng.Intn(len(ok))], kinds[rng.Intn(2)]
		out = append(out, execCase{Probe: probe, Index: idx, FaultIndex: j, FaultKind: k,
			DelaySeed: h64(uint64(seed), fmt.Sprintf("%s#%d#%s", base, j, k))})
	}
	return out
}

// ---------------------------------------------------------------------------------------------
// child

type childSpec struct {
	Probe   string     `json:"probe"`
	Shard   int        `json:"shard"`
	NShards int        `json:"nshards"`
	NBase   int        `json:"nbase"`
	Seed    int64      `json:"seed"`
	Cases   []execCase `json:"cases,omitempty"` // replay: run exactly these
	Out     string     `json:"out"`
}

func childMain(specPath string) {
	b, err := os.ReadFile(specPath)
	if err != nil {
		fmt.Fprintln(os.Stderr, "child: spec:", err)
		os.Exit(3)
	}
	var spec childSpec
	if err := json.Unmarshal(b, &spec); err != nil {
		fmt.Fprintln(os.Stderr, "child: spec:", err)
		os.Exit(3)
	}
	res := newResult()
	pe, err := newProbeEnv(spec.Probe)
	if err != nil {
		res.Inconclusive = append(res.Inconclusive, err.Error())
		writeResult(spec.Out, res)
		return
	}
	work := make(chan execCase, 64)
	var wg sync.WaitGroup
	for w := 0; w < 3; w++ {
		wg.Add(1)
		go func() {
			defer wg.Done()
			for c := range work {
				pe.runCase(c, res, spec.Seed)
			}
		}()
	}
	if len(spec.Cases) > 0 {
		for _, c := range spec.Cases {
			work <- c
		}
	} else {
		for idx := spec.Shard; idx < spec.NBase; idx += spec.NShards {
			for _, c := range casesOf(pe.m, spec.Seed, spec.Probe, idx) {
				work <- c
			}
		}
	}
	close(work)
	wg.Wait()
	writeResult(spec.Out, res)
}

func writeResult(path string, res *result) {
	b, _ := json.Marshal(res)
	if err := os.WriteFile(path, b, 0o644); err != nil {
		fmt.Fprintln(os.Stderr, "child: cannot write result:", err)
		os.Exit(3)
	}
}

var logMu sync.Mutex

func logLine(s string) {
	logMu.Lock()
	fmt.Fprintln(os.Stderr, s)
	logMu.Unlock()
}

// ---------------------------------------------------------------------------------------------
// parent

// inflight lists the cases begun but not finished, the one whose injected panic value shows up in
// the crash trace first.
func inflight(stderr string) []execCase {
	open := map[string]bool{}
	var order []string
	for _, line := range strings.Split(stderr, "\n") {
		if strings.HasPrefix(line, "CASE-BEGIN ") {
			k := strings.TrimPrefix(line, "CASE-BEGIN ")
			open[k] = true
			order = append(order, k)
		} else if strings.HasPrefix(line, "CASE-END ") {
			delete(open, strings.TrimPrefix(line, "CASE-END "))
		}
	}
	var out, culprit []execCase
	for _, k := range order {
		if !open[k] {
			continue
		}
		delete(open, k)
		var e struct {
			Case execCase `json:"case"`
			ID   string   `json:"id"`
		}
		if json.Unmarshal([]byte(k), &e) != nil {
			continue
		}
		if e.ID != "" && e.Case.FaultKind == "panic" && strings.Contains(stderr, "panic: P!"+e.ID) {
			culprit = append(culprit, e.Case)
		} else {
			out = append(out, e.Case)
		}
	}
	return append(culprit, out...)
}

func crashHead(stderr string) string {
	lines := strings.Split(stderr, "\n")
	for i, l := range lines {
		if strings.HasPrefix(l, "panic:") || strings.HasPrefix(l, "fatal error:") {
			end := i + 40
			if end > len(lines) {
				end = len(lines)
			}
			return strings.Join(lines[i:end], "\n")
		}
	}
	if len(lines) > 40 {
		lines = lines[len(lines)-40:]
	}
	return strings.Join(lines, "\n")
}

func runChild(rep *ev.Reporter, spec childSpec, merged *result, tmp string) {
	tag := fmt.Sprintf("%s-%d", spec.Probe, spec.Shard)
	spec.Out = filepath.Join(tmp, tag+".out.json")
	specPath := filepath.Join(tmp, tag+".spec.json")
	b, _ := json.Marshal(spec)
	os.WriteFile(specPath, b, 0o644)
	os.Remove(spec.Out)
	cmd := exec.Command(os.Args[0])
	cmd.Env = append(os.Environ(), "C20_CHILD="+specPath)
	var stderr bytes.Buffer
	cmd.Stderr = &stderr
	cmd.Stdout = &stderr
	if err := cmd.Start(); err != nil {
		rep.Inconclusive("cannot start child: " + err.Error())
		return
	}
	done := make(chan error, 1)
	go func() { done <- cmd.Wait() }()
	var werr error
	select {
	case werr = <-done:
	case <-time.After(25 * time.Minute):
		cmd.Process.Signal(os.Interrupt)
		cmd.Process.Kill()
		<-done
		rep.Inconclusive("child " + tag + " exceeded the 25 min watchdog")
		return
	}
	out, rerr := os.ReadFile(spec.Out)
	if werr != nil || rerr != nil {
		// the process died while executing generated code: that is an observation
		se := stderr.String()
		var cases []execCase
		for _, c := range inflight(se) {
			c.Probe = spec.Probe
			cases = append(cases, c)
		}
		head := crashHead(se)
		if strings.Contains(se, "panic:") || strings.Contains(se, "fatal error:") {
			d := map[string]any{"why": "the process serving _entities died (a panic escaped the generated code)", "probe": spec.Probe,
				"in_flight_cases": cases, "stderr": head}
			if len(cases) > 0 {
				d["case"] = cases[0]
			}
			merged.violate(sigCrash, d)
			merged.count("child_crashes", 1)
		} else {
			rep.Inconclusive(fmt.Sprintf("child %s failed without a crash trace (%v): %s", tag, werr, short(head, 600)))
		}
		return
	}
	var r result
	if err := json.Unmarshal(out, &r); err != nil {
		rep.Inconclusive("child " + tag + " wrote an unreadable result")
		return
	}
	merged.mu.Lock()
	for k, v := range r.Counts {
		merged.Counts[k] += v
	}
	for s, mm := range r.Distinct {
		if merged.Distinct[s] == nil {
			merged.Distinct[s] = map[string]bool{}
		}
		for k := range mm {
			merged.Distinct[s][k] = true
		}
	}
	if len(merged.Samples) < 5 {
		merged.Samples = append(merged.Samples, r.Samples...)
	}
	merged.Violations = append(merged.Violations, r.Violations...)
	merged.Inconclusive = append(merged.Inconclusive, r.Inconclusive...)
	merged.Evals += r.Evals
	merged.mu.Unlock()
	os.Remove(spec.Out)
	os.Remove(specPath)
}

func main() {
	if sp := os.Getenv("C20_CHILD"); sp != "" {
		childMain(sp)
		return
	}
	rep := ev.New("C20", "exploration")
	rep.Rule = "evaluation = one `_entities(representations: $r)` request through graphql/executor against a federation probe generated now " +
		"(8 probes: federation v1/v2 x default/explicit_requires/computed_requires x function syntax) with a seeded representation list, seeded resolver delays " +
		"and at most one injected fault; every element is compared with the echo entity of its own representation. A case is non-trivial when the list has >=2 " +
		"representations that span >=2 type groups or contain duplicates, or when a fault was injected; distinct = distinct (probe, list text, fault position, fault kind)"
	rep.Assumptions = []string{
		"entity resolvers are echo stubs bound by reflection: the entity names the key it was resolved from (tag = hash(type, resolver, key)); a fault is keyed by (type, resolver, key), so duplicates of the faulted representation fail too and a multi resolver fails when its batch contains the faulted key",
		"routing rule taken from the property text: first @key (declaration order) whose fields are all present and not all null; unknown / missing / non-string __typename and key-less representations must yield null plus an error",
		"multi resolvers: a fault nulls the elements served by that resolver call; elements of the same type served by another @key's resolver may be null or intact (a batch API cannot say more); a compound key with some but not all values null is not constrained (element ignored, rest of the list still checked)",
		"errors cannot be attributed to an index (gqlgen reports them at path [_entities]): 'with an error' is checked as: some error exists when an element is null, and the injected fault's own message/panic value appears in errors",
		"@requires: representations of the *Req types always carry the required fields; explicit_requires populators are hand-written probe code (probes/fed2er*/federation.requires.go)",
		"resolver delays (Gosched / sleeps up to 275us) only perturb scheduling; no oracle reads a clock; completion orders are recorded, not prescribed",
	}
	seed := ev.Seed()
	tmp := filepath.Join(ev.Root, "work", "tmp", fmt.Sprintf("c20.%d", os.Getpid()))
	os.MkdirAll(tmp, 0o755)
	defer os.RemoveAll(tmp)
	merged := newResult()

	if rp := os.Getenv("VERIF_REPLAY"); rp != "" {
		b, err := os.ReadFile(rp)
		if err != nil {
			fmt.Println("replay:", err)
			os.Exit(2)
		}
		var f struct {
			Seed   int64 `json:"seed"`
			Detail struct {
				Case execCase `json:"case"`
			} `json:"detail"`
		}
		if err := json.Unmarshal(b, &f); err != nil || f.Detail.Case.Probe == "" {
			fmt.Println("replay: no case in", rp, err)
			os.Exit(2)
		}
		runChild(rep, childSpec{Probe: f.Detail.Case.Probe, Seed: f.Seed, Cases: []execCase{f.Detail.Case}}, merged, tmp)
		finish(rep, merged, 2)
		return
	}

	nBase := ev.Pick(280, 15000)
	if v := os.Getenv("C20_NBASE"); v != "" {
		nBase, _ = strconv.Atoi(v)
	}
	names := probeNames
	if only := os.Getenv("VERIF_PROBE"); only != "" {
		names = []string{only}
	}
	nsh := (runtime.NumCPU() + len(names) - 1) / len(names)
	if nsh < 1 {
		nsh = 1
	}
	var wg sync.WaitGroup
	for _, p := range names {
		for s := 0; s < nsh; s++ {
			wg.Add(1)
			go func(p string, s int) {
				defer wg.Done()
				runChild(rep, childSpec{Probe: p, Shard: s, NShards: nsh, NBase: nBase, Seed: seed}, merged, tmp)
			}(p, s)
		}
	}
	wg.Wait()
	rep.Set("probes", names)
	rep.Set("probe_variants", map[string]string{
		"fed1": "federation v1 (extend type / @extends), default @requires", "fed1fn": "federation v1 + use_function_syntax_for_execution_context",
		"fed2": "federation v2 (@link), default @requires", "fed2fn": "federation v2 + function syntax",
		"fed2er": "v2 explicit_requires", "fed2erfn": "v2 explicit_requires + function syntax + worker_limit 2",
		"fed2cr": "v2 computed_requires", "fed2crfn": "v2 computed_requires + function syntax"})
	rep.Set("base_lists_per_probe", nBase)
	finish(rep, merged, 0)
}

func finish(rep *ev.Reporter, merged *result, minDistinct int) {
	for k, v := range merged.Counts {
		rep.Count(k, v)
	}
	for s, mm := range merged.Distinct {
		for k := range mm {
			rep.Distinct(s, k)
		}
	}
	for _, s := range merged.Samples {
		rep.Sample(s)
	}
	for _, r := range merged.Inconclusive {
		rep.Inconclusive(r)
	}
	// deterministic order of reports
	sort.SliceStable(merged.Violations, func(a, b int) bool { return merged.Violations[a].Sig < merged.Violations[b].Sig })
	for _, v := range merged.Violations {
		rep.Violate(v.Sig, v.Detail)
	}
	d := int64(rep.DistinctLen("nontrivial_cases"))
	if d < int64(minDistinct) {
		d = int64(minDistinct)
	}
	os.Exit(rep.Finish(merged.Evals, d))
}
