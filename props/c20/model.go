package main

// Schema-derived model of the federation probe: which types are entities, their @key field sets
// in declaration order, single vs multi resolvers, @requires — read from the executable schema the
// generator produced (directives on the type definitions), not from gqlgen's federation plugin.
// On top of it: the routing rule the property states ("the resolver whose key fields are all
// present and not all null", first @key first) and the expected entity for a representation.

import (
	"crypto/sha256"
	"encoding/hex"
	"encoding/json"
	"fmt"
	"sort"
	"strconv"
	"strings"

	"github.com/99designs/gqlgen/codegen/templates"
	"github.com/vektah/gqlparser/v2/ast"

	"verif/internal/sjson"
)

type keyField struct {
	Path []string // e.g. ["owner","id"]
	Kind string   // GraphQL scalar name of the leaf: ID | String | Int
	// NonNull: the leaf (or a parent on its path) is declared non-null, so a null there is not a
	// value of the key but a malformed representation
	NonNull bool
}

type keyModel struct {
	Raw      string
	Resolver string // Go name of the stub function field, e.g. FindSIdByID / FindManyMIdByIDs
	Fields   []keyField
}

type selField struct {
	Name string
	Sub  []string // sub-selection (object fields), nil for scalars
	Kind string   // scalar name when Sub == nil
}

type typeModel struct {
	Name     string
	Multi    bool
	Keys     []keyModel
	Requires bool       // has @requires fields (probe convention: ext, num, own -> both, nested)
	Sel      []selField // fields selected in the query, in order
}

type schemaModel struct {
	Types    map[string]*typeModel
	Order    []string // entity type names, sorted
	Computed bool     // computed_requires: @requires fields take the representation as an argument
	NonEnt   []string // object types that are not entities (used as hostile __typename values)
}

// parseFieldSet turns `owner { id } slot` into [[owner id] [slot]].
func parseFieldSet(raw string) ([][]string, error) {
	raw = strings.NewReplacer("{", " { ", "}", " } ", ",", " ").Replace(raw)
	toks := strings.Fields(raw)
	var out [][]string
	var stack []string
	last := ""
	for i, t := range toks {
		switch t {
		case "{":
			if last == "" {
				return nil, fmt.Errorf("unexpected { in %q", raw)
			}
			stack = append(stack, last)
			last = ""
		case "}":
			if len(stack) == 0 {
				return nil, fmt.Errorf("unbalanced } in %q", raw)
			}
			stack = stack[:len(stack)-1]
			last = ""
		default:
			last = t
			if i+1 < len(toks) && toks[i+1] == "{" {
				continue
			}
			p := append(append([]string{}, stack...), t)
			out = append(out, p)
		}
	}
	if len(stack) != 0 {
		return nil, fmt.Errorf("unbalanced { in %q", raw)
	}
	return out, nil
}

// computed: the probe was generated with computed_requires (seen on the Stub: @requires resolvers
// take the representation as an extra argument; the runtime schema text does not show it).
func buildModel(s *ast.Schema, computed bool) (*schemaModel, error) {
	m := &schemaModel{Types: map[string]*typeModel{}, Computed: computed}
	for name, def := range s.Types {
		if def.Kind != ast.Object || strings.HasPrefix(name, "_") || def.BuiltIn {
			continue
		}
		keys := def.Directives.ForNames("key")
		if len(keys) == 0 {
			if name != "Entity" && name != "Mutation" && name != "Subscription" {
				m.NonEnt = append(m.NonEnt, name)
			}
			continue
		}
		tm := &typeModel{Name: name}
		if d := def.Directives.ForName("entityResolver"); d != nil {
			if a := d.Arguments.ForName("multi"); a != nil && a.Value.Raw == "true" {
				tm.Multi = true
			}
		}
		for _, k := range keys {
			a := k.Arguments.ForName("fields")
			if a == nil {
				return nil, fmt.Errorf("%s: @key without fields", name)
			}
			// (gqlgen generates a resolver for every @key, also one marked resolvable: false; the
			// argument only matters for entities that consist of nothing but their first key)
			paths, err := parseFieldSet(a.Value.Raw)
			if err != nil {
				return nil, err
			}
			km := keyModel{Raw: a.Value.Raw}
			var goNames []string
			for _, p := range paths {
				cur := def
				kind := ""
				goName := ""
				nonNull := false
				for _, seg := range p {
					fd := cur.Fields.ForName(seg)
					if fd == nil {
						return nil, fmt.Errorf("%s: key field %v not in schema", name, p)
					}
					goName += templates.ToGo(seg)
					kind = fd.Type.Name()
					if fd.Type.NonNull {
						nonNull = true
					}
					cur = s.Types[kind]
				}
				km.Fields = append(km.Fields, keyField{Path: p, Kind: kind, NonNull: nonNull})
				goNames = append(goNames, goName)
			}
			rn := "find"
			if tm.Multi {
				rn = "findMany"
			}
			rn += name + "By" + strings.Join(goNames, "And")
			if tm.Multi {
				rn += "s"
			}
			km.Resolver = templates.ToGo(rn)
			tm.Keys = append(tm.Keys, km)
		}
		for _, f := range def.Fields {
			if strings.HasPrefix(f.Name, "__") {
				continue
			}
			if f.Directives.ForName("requires") != nil {
				tm.Requires = true
			}
		}
		m.Types[name] = tm
		m.Order = append(m.Order, name)
	}
	sort.Strings(m.Order)
	sort.Strings(m.NonEnt)
	// selections
	for _, name := range m.Order {
		tm := m.Types[name]
		def := s.Types[name]
		for _, f := range def.Fields {
			if strings.HasPrefix(f.Name, "__") {
				continue
			}
			// Under computed_requires a single-resolver entity is NOT populated from the
			// representation (the @requires fields receive it as an argument instead), so the
			// @external source fields are not selectable there.
			if m.Computed && tm.Requires && !tm.Multi && f.Directives.ForName("external") != nil && !isKeyHead(tm, f.Name) {
				continue
			}
			td := s.Types[f.Type.Name()]
			if td != nil && td.Kind == ast.Object {
				var sub []string
				for _, sf := range td.Fields {
					if std := s.Types[sf.Type.Name()]; std != nil && std.Kind == ast.Object {
						continue // (an object below the object: required / keyed, but not selected)
					}
					if !strings.HasPrefix(sf.Name, "__") {
						sub = append(sub, sf.Name)
					}
				}
				tm.Sel = append(tm.Sel, selField{Name: f.Name, Sub: sub})
			} else {
				tm.Sel = append(tm.Sel, selField{Name: f.Name, Kind: f.Type.Name()})
			}
		}
		if tm.Requires {
			for _, need := range []string{"both", "nested"} {
				if def.Fields.ForName(need) == nil {
					return nil, fmt.Errorf("%s: probe convention broken, no field %s", name, need)
				}
			}
		}
	}
	return m, nil
}

func isKeyHead(tm *typeModel, field string) bool {
	for _, k := range tm.Keys {
		for _, f := range k.Fields {
			if f.Path[0] == field {
				return true
			}
		}
	}
	return false
}

func (m *schemaModel) query() string {
	var b strings.Builder
	b.WriteString("query($r: [_Any!]!) { _entities(representations: $r) { __typename")
	for _, n := range m.Order {
		tm := m.Types[n]
		fmt.Fprintf(&b, " ... on %s {", n)
		for _, f := range tm.Sel {
			// aliased: the same field name has different nullability in different entity types
			b.WriteString(" " + n + "_" + f.Name + ": " + f.Name)
			if f.Sub != nil {
				b.WriteString(" { " + strings.Join(f.Sub, " ") + " }")
			}
		}
		b.WriteString(" }")
	}
	b.WriteString(" } }")
	return b.String()
}

// ---------------------------------------------------------------------------------------------
// routing

const (
	rBadTypename = iota // __typename missing or not a string
	rUnknownType        // not an entity type of this schema
	rRefused            // no @key of the type is present and not all null
	rOK
)

const nilMark = "\x00nil"

type route struct {
	Kind        int
	T           *typeModel
	Key         int
	Vals        []string // canonical key values (nilMark for a null leaf)
	PartialNull bool     // accepted, but some (not all) leaves are null: the element is not constrained
	Identity    string
}

func canonLeaf(v any) (string, bool) {
	switch x := v.(type) {
	case nil:
		return nilMark, true
	case string:
		return x, true
	case json.Number:
		return x.String(), true
	}
	return "", false
}

func identityOf(typeName, resolver string, vals []string) string {
	return typeName + "|" + resolver + "|" + strings.Join(vals, "\x1f")
}

func tagOf(identity string) string {
	h := sha256.Sum256([]byte(identity))
	return "t:" + hex.EncodeToString(h[:8])
}

func (m *schemaModel) route(rep map[string]any) route {
	tn, ok := rep["__typename"].(string)
	if !ok {
		return route{Kind: rBadTypename}
	}
	tm := m.Types[tn]
	if tm == nil {
		return route{Kind: rUnknownType}
	}
	for ki, k := range tm.Keys {
		vals := make([]string, 0, len(k.Fields))
		allNull, okKey, anyNull := true, true, false
		for _, f := range k.Fields {
			var cur any = map[string]any(rep)
			for _, seg := range f.Path {
				mm, isMap := cur.(map[string]any)
				if !isMap {
					okKey = false
					break
				}
				v, present := mm[seg]
				if !present {
					okKey = false
					break
				}
				cur = v
			}
			if !okKey {
				break
			}
			c, scalar := canonLeaf(cur)
			if !scalar {
				okKey = false // not generated by the workload; treated as unusable
				break
			}
			if cur != nil {
				allNull = false
			} else if f.NonNull {
				// null where the schema says non-null: what the resolver receives is not defined by
				// the property; a null on a nullable key field is an ordinary key value
				anyNull = true
			}
			vals = append(vals, c)
		}
		if !okKey || allNull {
			continue
		}
		return route{Kind: rOK, T: tm, Key: ki, Vals: vals, PartialNull: anyNull,
			Identity: identityOf(tn, k.Resolver, vals)}
	}
	return route{Kind: rRefused, T: tm}
}

// ---------------------------------------------------------------------------------------------
// expected entity

func scalarJSON(kind, canon string) *sjson.Value {
	if canon == nilMark {
		return sjson.N()
	}
	if kind == "Int" {
		n, err := strconv.ParseInt(canon, 10, 64)
		if err != nil {
			return sjson.S("<bad int " + canon + ">")
		}
		return sjson.I(n)
	}
	return sjson.S(canon)
}

// reqParts: own is "<id>/<tier>/<home id>" - the required sub-fields of the external object.
func reqParts(rep map[string]any) (ext, num, own string) {
	ext, _ = rep["ext"].(string)
	if n, ok := rep["num"].(json.Number); ok {
		num = n.String()
	}
	if o, ok := rep["own"].(map[string]any); ok {
		own, _ = canonLeaf(o["id"])
		t, _ := o["tier"].(string)
		own += "/" + t
		if h, ok := o["home"].(map[string]any); ok {
			hid, _ := canonLeaf(h["id"])
			own += "/" + hid
		} else {
			own += "/"
		}
	}
	return
}

// expectedEntity is what the echoing stub entity resolver yields for this representation,
// rendered through the query's selection.
func (m *schemaModel) expectedEntity(rt route, rep map[string]any) *sjson.Value {
	tm := rt.T
	k := tm.Keys[rt.Key]
	o := sjson.O().Set("__typename", sjson.S(tm.Name))
	ext, num, own := reqParts(rep)
	for _, sf := range tm.Sel {
		switch {
		case sf.Name == "tag":
			o.Set("tag", sjson.S(tagOf(rt.Identity)))
		case tm.Requires && sf.Name == "ext":
			o.Set("ext", sjson.S(ext))
		case tm.Requires && sf.Name == "num":
			o.Set("num", scalarJSON("Int", num))
		case tm.Requires && sf.Name == "own":
			parts := append(strings.SplitN(own, "/", 3), "", "")
			o.Set("own", sjson.O().Set("id", sjson.S(parts[0])).Set("tier", sjson.S(parts[1])))
		case tm.Requires && sf.Name == "both":
			o.Set("both", sjson.S("B|"+rt.Vals[0]+"|"+ext+"|"+num))
		case tm.Requires && sf.Name == "nested":
			o.Set("nested", sjson.S("N|"+rt.Vals[0]+"|"+own))
		case sf.Sub != nil:
			// object field: non-null only when a key field of the chosen key lives under it
			sub := sjson.O()
			found := false
			for _, s := range sf.Sub {
				var v *sjson.Value = sjson.N()
				for fi, f := range k.Fields {
					if len(f.Path) == 2 && f.Path[0] == sf.Name && f.Path[1] == s {
						v = scalarJSON(f.Kind, rt.Vals[fi])
						found = true
					}
				}
				sub.Set(s, v)
			}
			if found {
				o.Set(sf.Name, sub)
			} else {
				o.Set(sf.Name, sjson.N())
			}
		default:
			var v *sjson.Value = sjson.N()
			for fi, f := range k.Fields {
				if len(f.Path) == 1 && f.Path[0] == sf.Name {
					v = scalarJSON(f.Kind, rt.Vals[fi])
				}
			}
			o.Set(sf.Name, v)
		}
	}
	for i := range o.Members {
		if o.Members[i].Key != "__typename" {
			o.Members[i].Key = tm.Name + "_" + o.Members[i].Key
		}
	}
	return o
}
