package main

// Reflective binding of a probe's stubgen `Stub`: every entity resolver ECHOES the key it was
// called with (plus tag = hash(type, resolver, key)), after consulting the per-request plan for a
// delay and a fault. The same code binds all probe packages (their Go types differ per package).

import (
	"context"
	"encoding/json"
	"errors"
	"fmt"
	"hash/fnv"
	"reflect"
	"runtime"
	"strconv"
	"strings"
	"sync"
	"time"

	"github.com/vektah/gqlparser/v2/gqlerror"
)

type plan struct {
	DelaySeed uint64 `json:"delay_seed"`
	FaultID   string `json:"fault_identity,omitempty"` // identity (type|resolver|key) whose call fails
	FaultKind string `json:"fault_kind,omitempty"`     // error | panic | emptylist (single resolvers; error for multi)
}

type doneEv struct {
	Type     string
	Identity string // "" for a multi batch call
	Multi    bool
	N        int // batch size (multi)
}

type recorder struct {
	plan *plan
	mu   sync.Mutex
	done []doneEv
	// what the @requires resolvers saw (computed_requires): nothing to store, results are echoed
	faultFired int
}

type recKey struct{}

func withRecorder(ctx context.Context, r *recorder) context.Context {
	return context.WithValue(ctx, recKey{}, r)
}

func recOf(ctx context.Context) *recorder {
	r, _ := ctx.Value(recKey{}).(*recorder)
	return r
}

func h64(seed uint64, s string) uint64 {
	h := fnv.New64a()
	var b [8]byte
	for i := 0; i < 8; i++ {
		b[i] = byte(seed >> (8 * i))
	}
	h.Write(b[:])
	h.Write([]byte(s))
	x := h.Sum64()
	// final avalanche (fnv's low bits are weak)
	x ^= x >> 33
	x *= 0xff51afd7ed558ccd
	x ^= x >> 33
	return x
}

// delay is scheduling noise only; no oracle depends on it.
func (r *recorder) delay(what string) {
	h := h64(r.plan.DelaySeed, what)
	switch h % 8 {
	case 0, 1:
	case 2:
		for i := uint64(0); i < 1+(h>>8)%8; i++ {
			runtime.Gosched()
		}
	default:
		time.Sleep(time.Duration((h>>8)%12) * 25 * time.Microsecond)
	}
}

func (r *recorder) complete(e doneEv) {
	r.mu.Lock()
	r.done = append(r.done, e)
	r.mu.Unlock()
}

func (r *recorder) fault(identity string) {
	if r.plan.FaultID == "" || r.plan.FaultID != identity {
		return
	}
	r.mu.Lock()
	r.faultFired++
	r.mu.Unlock()
}

type binder struct {
	m        *schemaModel
	byGoName map[string]struct {
		t *typeModel
		k int
	}
	problems []string
	missing  []string // resolvers the schema's @key directives imply and the generated Stub lacks
}

func newBinder(m *schemaModel) *binder {
	b := &binder{m: m, byGoName: map[string]struct {
		t *typeModel
		k int
	}{}}
	for _, tm := range m.Types {
		for ki, k := range tm.Keys {
			b.byGoName[k.Resolver] = struct {
				t *typeModel
				k int
			}{tm, ki}
		}
	}
	return b
}

func fieldByJSON(v reflect.Value, name string) reflect.Value {
	t := v.Type()
	for i := 0; i < t.NumField(); i++ {
		tag := strings.Split(t.Field(i).Tag.Get("json"), ",")[0]
		if tag == name {
			return v.Field(i)
		}
	}
	return reflect.Value{}
}

// canonGo renders a key argument the generated code handed to the resolver.
func canonGo(v reflect.Value) string {
	for v.Kind() == reflect.Ptr {
		if v.IsNil() {
			return nilMark
		}
		v = v.Elem()
	}
	switch v.Kind() {
	case reflect.String:
		return v.String()
	case reflect.Int, reflect.Int32, reflect.Int64:
		return strconv.FormatInt(v.Int(), 10)
	}
	return fmt.Sprintf("<%s>", v.Type())
}

func setScalar(dst reflect.Value, kind, canon string) {
	if canon == nilMark {
		return
	}
	t := dst.Type()
	target := dst
	if t.Kind() == reflect.Ptr {
		p := reflect.New(t.Elem())
		dst.Set(p)
		target = p.Elem()
	}
	switch target.Kind() {
	case reflect.String:
		target.SetString(canon)
	case reflect.Int, reflect.Int32, reflect.Int64:
		n, _ := strconv.ParseInt(canon, 10, 64)
		target.SetInt(n)
	}
}

// newEntity builds the echo entity of Go type *T for the key values the resolver received.
func (b *binder) newEntity(ptrType reflect.Type, tm *typeModel, ki int, vals []string) reflect.Value {
	p := reflect.New(ptrType.Elem())
	s := p.Elem()
	k := tm.Keys[ki]
	for fi, f := range k.Fields {
		cur := s
		for si, seg := range f.Path {
			fv := fieldByJSON(cur, seg)
			if !fv.IsValid() {
				break
			}
			if si == len(f.Path)-1 {
				setScalar(fv, f.Kind, vals[fi])
				break
			}
			if fv.Kind() == reflect.Ptr {
				if fv.IsNil() {
					fv.Set(reflect.New(fv.Type().Elem()))
				}
				cur = fv.Elem()
			} else {
				cur = fv
			}
		}
	}
	if tv := fieldByJSON(s, "tag"); tv.IsValid() {
		tv.SetString(tagOf(identityOf(tm.Name, k.Resolver, vals)))
	}
	// gqlgen's default @requires handling writes into entity.Own.ID: user code must allocate it
	if tm.Requires {
		if ov := fieldByJSON(s, "own"); ov.IsValid() && ov.Kind() == reflect.Ptr && ov.IsNil() {
			ov.Set(reflect.New(ov.Type().Elem()))
			// ... and into entity.Own.Home.ID
			if hv := fieldByJSON(ov.Elem(), "home"); hv.IsValid() && hv.Kind() == reflect.Ptr && hv.IsNil() {
				hv.Set(reflect.New(hv.Type().Elem()))
			}
		}
	}
	return p
}

var errType = reflect.TypeOf((*error)(nil)).Elem()

func (b *binder) bind(stub any) {
	sv := reflect.ValueOf(stub).Elem()
	er := sv.FieldByName("EntityResolver")
	if !er.IsValid() {
		b.problems = append(b.problems, "Stub has no EntityResolver")
		return
	}
	bound := map[string]bool{}
	for i := 0; i < er.NumField(); i++ {
		name := er.Type().Field(i).Name
		info, ok := b.byGoName[name]
		if !ok {
			b.problems = append(b.problems, "entity resolver "+name+" is not explained by the schema's @key directives")
			continue
		}
		bound[name] = true
		ft := er.Field(i).Type()
		if info.t.Multi {
			er.Field(i).Set(reflect.MakeFunc(ft, b.multiFn(ft, info.t, info.k)))
		} else {
			er.Field(i).Set(reflect.MakeFunc(ft, b.singleFn(ft, info.t, info.k)))
		}
	}
	for n := range b.byGoName {
		if !bound[n] {
			// not a reason to give up: representations of that key are sent all the same, and a
			// server that has no resolver for them answers null where an entity is due
			b.missing = append(b.missing, n)
		}
	}
	for _, tn := range b.m.Order {
		tm := b.m.Types[tn]
		if !tm.Requires {
			continue
		}
		rs := sv.FieldByName(tn + "Resolver")
		if !rs.IsValid() {
			b.problems = append(b.problems, "no "+tn+"Resolver in Stub")
			continue
		}
		for _, fn := range []string{"Both", "Nested"} {
			f := rs.FieldByName(fn)
			if !f.IsValid() {
				b.problems = append(b.problems, tn+"Resolver."+fn+" missing")
				continue
			}
			f.Set(reflect.MakeFunc(f.Type(), b.requiresFn(f.Type(), tm, fn)))
		}
	}
}

func (b *binder) singleFn(ft reflect.Type, tm *typeModel, ki int) func([]reflect.Value) []reflect.Value {
	k := tm.Keys[ki]
	return func(in []reflect.Value) []reflect.Value {
		ctx := in[0].Interface().(context.Context)
		r := recOf(ctx)
		vals := make([]string, len(in)-1)
		for i := 1; i < len(in); i++ {
			vals[i-1] = canonGo(in[i])
		}
		id := identityOf(tm.Name, k.Resolver, vals)
		r.delay(id)
		r.complete(doneEv{Type: tm.Name, Identity: id})
		// a well-behaved resolver gives up when its context is cancelled; nothing in an _entities
		// request may cancel the context of one representation because another one failed
		if err := ctx.Err(); err != nil && r.plan.FaultID != id {
			return []reflect.Value{reflect.Zero(ft.Out(0)), reflect.ValueOf(fmt.Errorf("CTX!%s: %w", id, err)).Convert(errType)}
		}
		if r.plan.FaultID == id {
			r.fault(id)
			if r.plan.FaultKind == "panic" {
				panic("P!" + id)
			}
			if r.plan.FaultKind == "emptylist" {
				// "several errors", built as a list that ended up empty: still a non-nil error
				return []reflect.Value{reflect.Zero(ft.Out(0)), reflect.ValueOf(gqlerror.List{}).Convert(errType)}
			}
			return []reflect.Value{reflect.Zero(ft.Out(0)), reflect.ValueOf(errors.New("E!" + id)).Convert(errType)}
		}
		return []reflect.Value{b.newEntity(ft.Out(0), tm, ki, vals), reflect.Zero(errType)}
	}
}

func (b *binder) multiFn(ft reflect.Type, tm *typeModel, ki int) func([]reflect.Value) []reflect.Value {
	k := tm.Keys[ki]
	return func(in []reflect.Value) []reflect.Value {
		ctx := in[0].Interface().(context.Context)
		r := recOf(ctx)
		reps := in[1]
		n := reps.Len()
		ids := make([][]string, n)
		hit := ""
		for i := 0; i < n; i++ {
			s := reps.Index(i).Elem()
			vals := make([]string, s.NumField())
			for j := 0; j < s.NumField(); j++ { // input fields are generated in key-field order
				vals[j] = canonGo(s.Field(j))
			}
			ids[i] = vals
			if id := identityOf(tm.Name, k.Resolver, vals); id == r.plan.FaultID {
				hit = id
			}
		}
		r.delay("group|" + tm.Name)
		r.complete(doneEv{Type: tm.Name, Multi: true, N: n})
		if hit != "" {
			r.fault(hit)
			if r.plan.FaultKind == "panic" {
				panic("P!" + hit)
			}
			return []reflect.Value{reflect.Zero(ft.Out(0)), reflect.ValueOf(errors.New("E!" + hit)).Convert(errType)}
		}
		out := reflect.MakeSlice(ft.Out(0), n, n)
		for i := 0; i < n; i++ {
			out.Index(i).Set(b.newEntity(ft.Out(0).Elem(), tm, ki, ids[i]))
		}
		return []reflect.Value{out, reflect.Zero(errType)}
	}
}

// requiresFn implements the @requires fields `both` / `nested` of the *Req types. Without
// computed_requires they read what gqlgen copied into the entity; with it they read the
// representation gqlgen passes as `_federationRequires`. Either way the result names the key AND
// the required values, so a value taken from another representation is visible.
func (b *binder) requiresFn(ft reflect.Type, tm *typeModel, which string) func([]reflect.Value) []reflect.Value {
	// the entity was resolved through one of its keys: the head field of the first key that is set
	var keyNames []string
	for _, k := range tm.Keys {
		keyNames = append(keyNames, k.Fields[0].Path[0])
	}
	return func(in []reflect.Value) []reflect.Value {
		var key, ext, num, own string
		if ft.NumIn() >= 3 { // (ctx, obj, federationRequires map[string]any)
			fr, _ := in[2].Interface().(map[string]any)
			for _, kn := range keyNames {
				if v, ok := fr[kn]; ok && v != nil {
					key, _ = canonLeaf(v)
					break
				}
			}
			ext, _ = fr["ext"].(string)
			if n, ok := fr["num"].(json.Number); ok {
				num = n.String()
			} else if fr["num"] != nil {
				num = fmt.Sprint(fr["num"])
			}
			if o, ok := fr["own"].(map[string]any); ok {
				own, _ = canonLeaf(o["id"])
				t, _ := o["tier"].(string)
				own += "/" + t
				if h, ok := o["home"].(map[string]any); ok {
					hid, _ := canonLeaf(h["id"])
					own += "/" + hid
				} else {
					own += "/"
				}
			}
			if fr == nil {
				key = "<no representation>"
			}
		} else {
			obj := in[1]
			for obj.Kind() == reflect.Ptr {
				obj = obj.Elem()
			}
			key = nilMark
			for _, kn := range keyNames {
				if v := canonGo(fieldByJSON(obj, kn)); v != nilMark {
					key = v
					break
				}
			}
			ext = canonGo(fieldByJSON(obj, "ext"))
			num = canonGo(fieldByJSON(obj, "num"))
			ov := fieldByJSON(obj, "own")
			if ov.Kind() == reflect.Ptr && !ov.IsNil() {
				own = canonGo(fieldByJSON(ov.Elem(), "id"))
				if tv := fieldByJSON(ov.Elem(), "tier"); tv.IsValid() && tv.Kind() == reflect.Ptr && !tv.IsNil() {
					own += "/" + tv.Elem().String()
				} else {
					own += "/"
				}
				if hv := fieldByJSON(ov.Elem(), "home"); hv.IsValid() && hv.Kind() == reflect.Ptr && !hv.IsNil() {
					own += "/" + canonGo(fieldByJSON(hv.Elem(), "id"))
				} else {
					own += "/"
				}
			}
		}
		s := "B|" + key + "|" + ext + "|" + num
		if which == "Nested" {
			s = "N|" + key + "|" + own
		}
		return []reflect.Value{reflect.ValueOf(s), reflect.Zero(errType)}
	}
}

// stubIsComputed reports whether some field resolver of the Stub takes a map[string]any (the
// `_federationRequires` argument computed_requires injects).
func stubIsComputed(stub any) bool {
	sv := reflect.ValueOf(stub).Elem()
	mt := reflect.TypeOf(map[string]any{})
	for i := 0; i < sv.NumField(); i++ {
		if sv.Type().Field(i).Name == "EntityResolver" || sv.Field(i).Kind() != reflect.Struct {
			continue
		}
		rs := sv.Field(i)
		for j := 0; j < rs.NumField(); j++ {
			ft := rs.Field(j).Type()
			if ft.Kind() != reflect.Func {
				continue
			}
			for k := 0; k < ft.NumIn(); k++ {
				if ft.In(k) == mt {
					return true
				}
			}
		}
	}
	return false
}
