// replaycase re-runs one differential case (C01/C02/C04/C06/C13 replay files) and prints both sides.
package main

import (
	"context"
	"encoding/json"
	"fmt"
	"os"
	"time"

	"github.com/vektah/gqlparser/v2/ast"
	"github.com/vektah/gqlparser/v2/parser"

	"verif/internal/diffrun"
	"verif/internal/drive"
	"verif/internal/univ"
	"verif/work/farm/cur/registry"
)

func main() {
	b, err := os.ReadFile(os.Args[1])
	if err != nil {
		fmt.Println(err)
		os.Exit(2)
	}
	var f struct {
		Detail struct {
			Case diffrun.Case `json:"case"`
		} `json:"detail"`
	}
	if err := json.Unmarshal(b, &f); err != nil {
		fmt.Println(err)
		os.Exit(2)
	}
	c := f.Detail.Case
	pf, ok := registry.Probes[c.Probe]
	if !ok {
		fmt.Println("probe not available:", c.Probe)
		os.Exit(2)
	}
	env := univ.Bind(pf())
	srv := drive.NewServer(env)
	doc, perr := parser.ParseQuery(&ast.Source{Input: c.Query})
	if perr != nil {
		fmt.Println("parse:", perr)
		os.Exit(2)
	}
	p := c.Plan
	o := diffrun.Compare(context.Background(), env, srv, doc, c.Query, c.OpName, diffrun.DecodeVars(c.Vars), &p, nil, 30*time.Second)
	out, _ := json.MarshalIndent(o.Describe(), "", " ")
	fmt.Println(string(out))
	if o.Mismatch != "" {
		os.Exit(1)
	}
}
