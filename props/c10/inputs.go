package main

// HTTP inputs of C10: an enumerated, structure-aware set (every class the property names, in full)
// plus seeded byte-level and JSON-structure mutations of valid requests. Every input is a pure
// function of (seed, tier, index).

import (
	"bytes"
	"crypto/sha256"
	"encoding/hex"
	"encoding/json"
	"fmt"
	"math/rand"
	"net/url"
	"path/filepath"
	"strconv"
	"strings"
)

type echoWant struct {
	Filename    string `json:"filename"`
	Size        int    `json:"size"`
	ContentType string `json:"content_type"`
	Sha256      string `json:"sha256"`
}

type httpInput struct {
	ID         string            `json:"id"`
	Class      string            `json:"class"`
	Transport  string            `json:"transport"` // the transport the request is addressed to
	Method     string            `json:"method"`
	RawQuery   string            `json:"raw_query"`
	Header     map[string]string `json:"header"`
	Body       []byte            `json:"body"`
	UnknownLen bool              `json:"unknown_length"` // ContentLength -1 (chunked upload)
	Cfg        int               `json:"limits_config"`
	Real       bool              `json:"real_socket"`

	// what the generator knows about the input
	Expect    string     `json:"expect"` // "" generic | echo | refuse | overlimit
	EchoField string     `json:"echo_field,omitempty"`
	Echo      []echoWant `json:"echo,omitempty"`
	EchoIsStr bool       `json:"echo_is_string,omitempty"`
	PanicSig  string     `json:"panic_class,omitempty"` // signature to use if the recover hook fires
	FormLen   int        `json:"form_length,omitempty"` // bytes up to and including the closing boundary
}

// ---------------------------------------------------------------- upload limit configurations

type limitCfg struct {
	Name          string
	MaxUploadSize int64
	MaxMemory     int64
	// Legacy: the server is built with the deprecated entry point handler.GraphQL(es, options...)
	// and its UploadMaxSize / UploadMaxMemory options
	Legacy bool
}

// default / size limit only / always spill / both limits / tiny
var limitCfgs = []limitCfg{
	{"default", 0, 0, false},
	{"upload2000", 2000, 0, false},
	{"memory1", 0, 1, false},
	{"upload8192-memory3000", 8192, 3000, false},
	{"upload64", 64, 0, false},
	{"legacy-upload3000-memory700", 3000, 700, true},
}

func (l limitCfg) maxUpload() int64 {
	if l.MaxUploadSize == 0 {
		return 32 << 20
	}
	return l.MaxUploadSize
}

// ---------------------------------------------------------------- multipart building

type mpPart struct {
	Name     string
	Filename string
	HasFile  bool // emit a filename parameter
	CT       string
	RawHead  string // replaces the generated headers when non-empty
	Data     []byte
}

var quoteEscaper = strings.NewReplacer("\\", "\\\\", `"`, "\\\"")

func buildMultipart(boundary string, parts []mpPart, closing bool) []byte {
	var b bytes.Buffer
	for _, p := range parts {
		b.WriteString("--" + boundary + "\r\n")
		if p.RawHead != "" {
			b.WriteString(p.RawHead)
		} else {
			b.WriteString(`Content-Disposition: form-data; name="` + quoteEscaper.Replace(p.Name) + `"`)
			if p.HasFile {
				b.WriteString(`; filename="` + quoteEscaper.Replace(p.Filename) + `"`)
			}
			b.WriteString("\r\n")
			if p.CT != "" {
				b.WriteString("Content-Type: " + p.CT + "\r\n")
			}
		}
		b.WriteString("\r\n")
		b.Write(p.Data)
		b.WriteString("\r\n")
	}
	if closing {
		b.WriteString("--" + boundary + "--\r\n")
	}
	return b.Bytes()
}

const mpBoundary = "verifBOUNDARYx7MA4YWxkTrZu0gW"

func mpInput(class string, cfg int, parts []mpPart) *httpInput {
	body := buildMultipart(mpBoundary, parts, true)
	return &httpInput{Class: class, Transport: "multipart", Method: "POST", Cfg: cfg, Body: body, FormLen: len(body),
		Header: map[string]string{"Content-Type": "multipart/form-data; boundary=" + mpBoundary}}
}

const infoSel = "{ filename size contentType sha256 reread }"

type uploadOp struct {
	Field string
	Query string
}

var (
	opSingle = uploadOp{"singleUpload", "mutation($file: Upload!) { singleUpload(file: $file) " + infoSel + " }"}
	opMulti  = uploadOp{"multiUpload", "mutation($files: [Upload!]!) { multiUpload(files: $files) " + infoSel + " }"}
	opNested = uploadOp{"nestedUpload", "mutation($req: UploadReq!) { nestedUpload(req: $req) " + infoSel + " }"}
	opOpt    = uploadOp{"optUpload", "mutation($file: Upload, $tag: String) { optUpload(file: $file, tag: $tag) }"}
)

type fileSpec struct {
	Filename string
	CT       string
	Data     []byte
}

func (f fileSpec) want() echoWant {
	h := sha256.Sum256(f.Data)
	name := f.Filename
	if name != "" {
		// mime/multipart.Part.FileName passes the name through filepath.Base (standard library)
		name = filepath.Base(name)
	}
	return echoWant{Filename: name, Size: len(f.Data), ContentType: f.CT, Sha256: hex.EncodeToString(h[:])}
}

func mustJSON(v any) string {
	b, err := json.Marshal(v)
	if err != nil {
		panic(err)
	}
	return string(b)
}

// wellFormedUpload builds a valid graphql-multipart-request: slots[i] = index of the file that the
// i-th upload position receives (-1: left null; only legal for optUpload).
func wellFormedUpload(class string, cfg int, op uploadOp, files []fileSpec, slots []int) *httpInput {
	var vars map[string]any
	paths := make([]string, len(slots))
	switch op.Field {
	case "singleUpload":
		vars = map[string]any{"file": nil}
		paths[0] = "variables.file"
	case "optUpload":
		vars = map[string]any{"file": nil, "tag": "t"}
		paths[0] = "variables.file"
	case "multiUpload":
		l := make([]any, len(slots))
		vars = map[string]any{"files": l}
		for i := range slots {
			paths[i] = fmt.Sprintf("variables.files.%d", i)
		}
	case "nestedUpload":
		more := make([]any, len(slots)-1)
		vars = map[string]any{"req": map[string]any{"id": 1, "file": nil, "more": more}}
		paths[0] = "variables.req.file"
		for i := 1; i < len(slots); i++ {
			paths[i] = fmt.Sprintf("variables.req.more.%d", i-1)
		}
	}
	m := map[string][]string{}
	for i, f := range slots {
		if f >= 0 {
			k := strconv.Itoa(f)
			m[k] = append(m[k], paths[i])
		}
	}
	parts := []mpPart{
		{Name: "operations", Data: []byte(mustJSON(map[string]any{"query": op.Query, "variables": vars}))},
		{Name: "map", Data: []byte(mustJSON(m))},
	}
	for i, f := range files {
		if _, used := m[strconv.Itoa(i)]; !used {
			continue
		}
		parts = append(parts, mpPart{Name: strconv.Itoa(i), Filename: f.Filename, HasFile: true, CT: f.CT, Data: f.Data})
	}
	in := mpInput(class, cfg, parts)
	in.Expect, in.EchoField = "echo", op.Field
	for _, f := range slots {
		if f >= 0 {
			in.Echo = append(in.Echo, files[f].want())
		}
	}
	if op.Field == "optUpload" {
		in.EchoIsStr = true
	}
	if int64(len(in.Body)) > limitCfgs[cfg].maxUpload() {
		in.Expect = "overlimit"
	}
	return in
}

func content(r *rand.Rand, n int) []byte {
	b := make([]byte, n)
	switch r.Intn(4) {
	case 0:
		r.Read(b)
	case 1: // text that looks like multipart framing
		pat := []byte("\r\n--" + mpBoundary + "x\r\nContent-Disposition: form-data; name=\"map\"\r\n\r\n")
		for i := range b {
			b[i] = pat[i%len(pat)]
		}
		// cut right behind the boundary text the content would END with a real delimiter line (a
		// client never picks a boundary that occurs in its data): keep it a look-alike
		if bytes.HasSuffix(b, []byte("--"+mpBoundary)) {
			b[len(b)-1] = 'y'
		}
	case 2:
		for i := range b {
			b[i] = byte('a' + i%26)
		}
	default:
		for i := range b {
			b[i] = byte(i * 7)
		}
	}
	return b
}

var fileNames = []string{"a.txt", "", "ünï çødé.bin", `quo"te.txt`, `back\slash`, "dir/sub/name.png", "../up.txt", " spaced name ", "x", strings.Repeat("n", 300) + ".dat", "semi;colon=1.txt", "%2e%2e.txt"}
var fileCTs = []string{"text/plain", "", "application/octet-stream", "image/png; q=\"1\"", "TEXT/Plain; charset=UTF-8", "x", "multipart/form-data; boundary=" + mpBoundary}

func randFile(r *rand.Rand, size int) fileSpec {
	return fileSpec{Filename: fileNames[r.Intn(len(fileNames))], CT: fileCTs[r.Intn(len(fileCTs))], Data: content(r, size)}
}

// sizedUpload pads the (single) file so that the whole body is exactly `total` bytes long.
func sizedUpload(r *rand.Rand, class string, cfg int, op uploadOp, slots []int, nfiles int, total int) *httpInput {
	files := make([]fileSpec, nfiles)
	for i := range files {
		files[i] = fileSpec{Filename: fmt.Sprintf("f%d.bin", i), CT: "application/octet-stream", Data: content(r, 3)}
	}
	base := wellFormedUpload(class, cfg, op, files, slots)
	pad := total - len(base.Body)
	if pad < 0 {
		return nil
	}
	files[0].Data = content(r, 3+pad)
	in := wellFormedUpload(class, cfg, op, files, slots)
	if len(in.Body) != total {
		panic(fmt.Sprintf("sizedUpload: got %d want %d", len(in.Body), total))
	}
	return in
}

// ---------------------------------------------------------------- map path classification
//
// An independent reading of "walk `variables.a.0.b` through the variables": a numeric segment
// indexes a list, any other segment is an object key. The class of the first impossible step is
// the signature used if gqlgen's recover hook fires on such an input (it should answer with an
// error instead).

type placedUpload struct{}

func classifyPath(vars any, hasVars bool, path string) (class string, place func()) {
	if !strings.HasPrefix(path, "variables.") {
		return "", nil // refused by the prefix check
	}
	segs := strings.Split(path, ".")[1:]
	var cur any = vars
	if !hasVars {
		cur = nil
	}
	for i, s := range segs {
		last := i == len(segs)-1
		if cur == nil {
			if i == 0 {
				// operations carried no variables object: the walk starts at nothing
				if _, err := strconv.Atoi(s); err == nil {
					return "index-into-map", nil
				}
				if last {
					return "no-variables-object", nil
				}
				return "", nil // reading a key of nothing yields nothing: refused as missing
			}
			return "", nil // missing intermediate value: refused
		}
		idx, aerr := strconv.Atoi(s)
		numeric := aerr == nil
		switch c := cur.(type) {
		case []any:
			if !numeric {
				return "key-into-list", nil
			}
			if idx < 0 {
				return "negative-index", nil
			}
			if idx >= len(c) {
				return "index-out-of-range", nil
			}
			if last {
				return "", func() { c[idx] = placedUpload{} }
			}
			cur = c[idx]
		case map[string]any:
			if numeric {
				return "index-into-map", nil
			}
			if last {
				return "", func() { c[s] = placedUpload{} }
			}
			cur = c[s]
		case placedUpload:
			if numeric {
				return "index-into-placed-upload", nil
			}
			return "key-into-placed-upload", nil
		default:
			if numeric {
				return "index-into-scalar", nil
			}
			return "key-into-scalar", nil
		}
	}
	return "", nil
}

// classifyMap simulates the placements in the order gqlgen performs them (file parts in body
// order, paths in list order, stop at the first failure).
func classifyMap(operations string, partKeys []string, m map[string][]string) string {
	// decoded the way a server must decode `operations` (encoding/json member matching)
	var ops struct {
		Variables map[string]any `json:"variables"`
	}
	d := json.NewDecoder(strings.NewReader(operations))
	d.UseNumber()
	if err := d.Decode(&ops); err != nil {
		return "" // operations is refused as undecodable
	}
	vars, hasVars := ops.Variables, ops.Variables != nil
	seen := map[string]bool{}
	for _, k := range partKeys {
		if seen[k] {
			return "" // second part of one key: its paths were deleted -> refused
		}
		seen[k] = true
		paths := m[k]
		if len(paths) == 0 {
			return ""
		}
		for _, p := range paths {
			class, place := classifyPath(vars, hasVars, p)
			if class != "" {
				return class
			}
			if place == nil {
				return "" // refused without a panic class
			}
			place()
		}
	}
	return ""
}

// pathInput: one file part "0" (plus more when the map has more keys) mapped through `m`.
func pathInput(class string, operations string, m map[string][]string, keys []string) *httpInput {
	parts := []mpPart{{Name: "operations", Data: []byte(operations)}, {Name: "map", Data: []byte(mustJSON(m))}}
	for _, k := range keys {
		parts = append(parts, mpPart{Name: k, Filename: "p" + k + ".txt", HasFile: true, CT: "text/plain", Data: []byte("payload-" + k)})
	}
	in := mpInput(class, 0, parts)
	if c := classifyMap(operations, keys, m); c != "" {
		in.PanicSig = "addupload-unchecked-path:" + c
	}
	return in
}

const weirdVars = `{"s":"str","n":5,"f":1.5,"b":true,"z":null,"l":[null,"x",[null,null],{"k":null}],"m":{"0":null,"k":null,"x":{"y":[null]}},"e":[],"o":{}}`

var pathSegments = []string{"s", "n", "b", "z", "l", "m", "e", "o", "k", "x", "y", "missing", "0", "1", "2", "3", "-1", "99", "+0", "00", "", "99999999999999999999", "1e0", "0x1"}

func enumeratedPathInputs() []*httpInput {
	var out []*httpInput
	ops := mustJSONRaw(`{"query":"mutation { m1 }","variables":` + weirdVars + `}`)
	add := func(class string, operations string, m map[string][]string, keys ...string) {
		out = append(out, pathInput(class, operations, m, keys))
	}
	// every path of depth 1..3 over the segment alphabet, through variables of every JSON kind
	for _, a := range pathSegments {
		add("map-path-depth1", ops, map[string][]string{"0": {"variables." + a}}, "0")
		for _, b := range pathSegments {
			add("map-path-depth2", ops, map[string][]string{"0": {"variables." + a + "." + b}}, "0")
		}
	}
	for _, a := range []string{"l", "m", "s", "z", "missing"} {
		for _, b := range pathSegments {
			for _, c := range []string{"0", "1", "-1", "9", "k", "y", "", "x"} {
				add("map-path-depth3", ops, map[string][]string{"0": {"variables." + a + "." + b + "." + c}}, "0")
			}
		}
	}
	// the typed upload operations with paths walking into the wrong container kind
	typed := []struct{ q, vars string }{
		{opSingle.Query, `{"file":null}`}, {opSingle.Query, `{"file":"a string"}`}, {opSingle.Query, `{"file":7}`},
		{opSingle.Query, `{"file":[null]}`}, {opSingle.Query, `{"file":{"x":null}}`},
		{opMulti.Query, `{"files":[null,null]}`}, {opMulti.Query, `{"files":[]}`}, {opMulti.Query, `{"files":null}`},
		{opMulti.Query, `{"files":"str"}`}, {opMulti.Query, `{"files":{"0":null}}`},
		{opNested.Query, `{"req":{"id":1,"file":null,"more":[null]}}`}, {opNested.Query, `{"req":{"id":1,"file":null}}`},
		{opNested.Query, `{"req":[null]}`}, {opNested.Query, `{"req":"x"}`}, {opNested.Query, `{"req":null}`},
	}
	typedPaths := []string{"variables.file", "variables.file.0", "variables.file.x", "variables.files.0", "variables.files.1",
		"variables.files.2", "variables.files.-1", "variables.files.x", "variables.files", "variables.req.file", "variables.req.more.0",
		"variables.req.more.1", "variables.req.more.x", "variables.req.0", "variables.req.file.0", "variables.req.id.0", "variables.req.id.x",
		"variables.a.0", "variables.0", "variables.-1", "variables", "variables.", "variables..", ".variables.file", "file", "", "Variables.file",
		"variables.files.0.0", "variables.files.99999999999", "variables.files.+1"}
	for _, t := range typed {
		for _, p := range typedPaths {
			add("map-path-typed", mustJSONRaw(`{"query":`+mustJSON(t.q)+`,"variables":`+t.vars+`}`), map[string][]string{"0": {p}}, "0")
		}
	}
	// no variables member / null / wrong kinds
	for _, v := range []string{``, `,"variables":null`, `,"variables":{}`, `,"variables":[]`, `,"variables":"s"`, `,"variables":1`} {
		for _, p := range []string{"variables.file", "variables.a.b", "variables.0", "variables.files.0", "variables."} {
			add("map-path-no-variables", `{"query":"mutation { m1 }"`+v+`}`, map[string][]string{"0": {p}}, "0")
		}
	}
	// a second placement walking through a value placed by an earlier one
	for _, p := range []string{"variables.file.x", "variables.file.0", "variables.file"} {
		add("map-path-through-upload", mustJSONRaw(`{"query":`+mustJSON(opSingle.Query)+`,"variables":{"file":null}}`),
			map[string][]string{"0": {"variables.file", p}}, "0")
		add("map-path-through-upload", mustJSONRaw(`{"query":`+mustJSON(opSingle.Query)+`,"variables":{"file":null}}`),
			map[string][]string{"0": {"variables.file"}, "1": {p}}, "0", "1")
	}
	return out
}

func mustJSONRaw(s string) string {
	var v any
	if err := json.Unmarshal([]byte(s), &v); err != nil {
		panic("harness: invalid JSON literal: " + s)
	}
	return s
}

// ---------------------------------------------------------------- multipart shapes

func enumeratedMultipartShapes(r *rand.Rand) []*httpInput {
	var out []*httpInput
	okOps := mustJSON(map[string]any{"query": opSingle.Query, "variables": map[string]any{"file": nil}})
	okMap := `{"0":["variables.file"]}`
	file := mpPart{Name: "0", Filename: "a.txt", HasFile: true, CT: "text/plain", Data: []byte("hello")}
	shape := func(class string, parts ...mpPart) *httpInput {
		in := mpInput(class, 0, parts)
		out = append(out, in)
		return in
	}
	P := func(name, data string) mpPart { return mpPart{Name: name, Data: []byte(data)} }
	// operations of every JSON kind / shape
	for _, o := range []string{`null`, `true`, `0`, `"str"`, `[]`, `[{"query":"{ q1 }"}]`, `{}`, `{"query":null}`, `{"query":1}`, `{"query":["x"]}`,
		`{"query":"{ q1 }","variables":null}`, `{"query":"{ q1 }","variables":[]}`, `{"query":"{ q1 }","operationName":1}`,
		`{"query":"{ q1 }","extensions":[]}`, `{"query":"{ q1 }","headers":{"A":["b"]}}`, `{"query":"{ q1 }","headers":1}`, ``, ` `, `{`, `{"query":"{ q1 }"} trailing`,
		`{"query":"\ud800"}`, "{\"query\":\"\xff\xfe\"}", `{"query":"{ q1 }","variables":{"a":{"b":{"c":[[[[[[null]]]]]]}}}}`} {
		shape("mp-operations-kind", P("operations", o), P("map", `{}`))
		x := shape("mp-operations-kind-with-file", P("operations", o), P("map", okMap), file)
		if c := classifyMap(o, []string{"0"}, map[string][]string{"0": {"variables.file"}}); c != "" {
			x.PanicSig = "addupload-unchecked-path:" + c
		}
	}
	// map of every JSON kind / shape
	for _, m := range []string{`null`, `true`, `0`, `"s"`, `[]`, `[["variables.file"]]`, `{}`, `{"0":null}`, `{"0":"variables.file"}`, `{"0":[]}`, `{"0":[null]}`,
		`{"0":[1]}`, `{"0":[["variables.file"]]}`, `{"0":{"a":"variables.file"}}`, `{"0":["variables.file"],"1":["variables.file"]}`,
		`{"1":["variables.file"]}`, `{"":["variables.file"]}`, `{"0":["variables.file","variables.file"]}`, `{"0":["variables.file"],"0":["variables.x"]}`,
		``, `{`, `{"0":["variables.file"]} x`, `{"0":["variables.file"]}{"1":[]}`} {
		shape("mp-map-kind", P("operations", okOps), P("map", m), file)
	}
	// part orders, duplicates, missing and unreferenced parts
	ops, mp := P("operations", okOps), P("map", okMap)
	file2 := mpPart{Name: "1", Filename: "b.txt", HasFile: true, CT: "text/plain", Data: []byte("second")}
	noName := mpPart{RawHead: "Content-Disposition: form-data\r\n", Data: []byte("x")}
	noDisp := mpPart{RawHead: "Content-Type: text/plain\r\n", Data: []byte("x")}
	badDisp := mpPart{RawHead: "Content-Disposition: form-data; name=\"0\r\n", Data: []byte("x")}
	attach := mpPart{RawHead: "Content-Disposition: attachment; name=\"0\"; filename=\"a\"\r\n", Data: []byte("x")}
	noFilename := mpPart{Name: "0", Data: []byte("plain field")}
	hugeHead := mpPart{RawHead: "Content-Disposition: form-data; name=\"0\"; filename=\"a\"\r\nX-Long: " + strings.Repeat("h", 70000) + "\r\n", Data: []byte("x")}
	manyHead := mpPart{RawHead: "Content-Disposition: form-data; name=\"0\"; filename=\"a\"\r\n" + strings.Repeat("X-H: v\r\n", 12000), Data: []byte("x")}
	for i, ps := range [][]mpPart{
		{mp, ops, file}, {ops, file, mp}, {file, ops, mp}, {ops}, {mp}, {ops, mp}, {}, {file}, {ops, ops, mp, file}, {ops, mp, mp, file},
		{ops, mp, file, file}, {ops, mp, file, file2}, {ops, mp, file2}, {ops, mp, file2, file}, {ops, mp, noName}, {ops, mp, noDisp},
		{ops, mp, badDisp}, {ops, mp, attach}, {ops, mp, noFilename}, {ops, mp, hugeHead}, {ops, mp, manyHead}, {noName, mp, file}, {ops, noDisp, file},
		{ops, mp, file, ops}, {ops, mp, file, mp}, {P("Operations", okOps), mp, file}, {ops, P("MAP", okMap), file},
	} {
		shape(fmt.Sprintf("mp-part-order-%02d", i), ps...).Class = "mp-part-order"
	}
	// framing damage
	valid := buildMultipart(mpBoundary, []mpPart{ops, mp, file}, true)
	frame := func(class string, ct string, body []byte) {
		out = append(out, &httpInput{Class: class, Transport: "multipart", Method: "POST", Body: body, FormLen: len(body), Header: map[string]string{"Content-Type": ct}})
	}
	okCT := "multipart/form-data; boundary=" + mpBoundary
	frame("mp-framing", okCT, buildMultipart(mpBoundary, []mpPart{ops, mp, file}, false))
	frame("mp-framing", okCT, valid[:len(valid)/2])
	frame("mp-framing", okCT, valid[:len(valid)-4])
	frame("mp-framing", okCT, nil)
	frame("mp-framing", okCT, []byte("--"+mpBoundary+"--\r\n"))
	frame("mp-framing", okCT, []byte("--"+mpBoundary))
	frame("mp-framing", okCT, bytes.ReplaceAll(valid, []byte("\r\n"), []byte("\n")))
	frame("mp-framing", okCT, append([]byte("preamble text\r\n"), valid...))
	frame("mp-framing", okCT, append(append([]byte{}, valid...), []byte("epilogue after the closing boundary")...))
	frame("mp-framing", "multipart/form-data; boundary=other", valid)
	frame("mp-framing", "multipart/form-data", valid)
	frame("mp-framing", "multipart/form-data; boundary=", valid)
	frame("mp-framing", "multipart/form-data; boundary=\""+mpBoundary+"\"", valid)
	frame("mp-framing", "multipart/form-data; boundary="+strings.Repeat("b", 80), valid)
	frame("mp-framing", "multipart/form-data; boundary="+mpBoundary+"; boundary=x", valid)
	frame("mp-framing", "multipart/form-data; charset=utf-8; boundary="+mpBoundary, valid)
	frame("mp-framing", "MULTIPART/FORM-DATA; BOUNDARY="+mpBoundary, valid)
	frame("mp-framing", "multipart/mixed; boundary="+mpBoundary, valid)
	_ = r
	return out
}

// ---------------------------------------------------------------- well-formed uploads and limits

func enumeratedUploads(r *rand.Rand) []*httpInput {
	var out []*httpInput
	add := func(in *httpInput) {
		if in != nil {
			out = append(out, in)
		}
	}
	sizes := []int{0, 1, 60, 61, 62, 122, 1000, 5000, 70000}
	for cfg := range limitCfgs {
		for _, sz := range sizes {
			f := []fileSpec{randFile(r, sz), randFile(r, sz/2+1), randFile(r, 7)}
			add(wellFormedUpload("upload-single", cfg, opSingle, f, []int{0}))
			add(wellFormedUpload("upload-opt", cfg, opOpt, f, []int{0}))
			add(wellFormedUpload("upload-multi-distinct", cfg, opMulti, f, []int{0, 1, 2}))
			// one file mapped to two (three) variable paths: independent cursors
			add(wellFormedUpload("upload-multi-shared-file", cfg, opMulti, f, []int{0, 0}))
			add(wellFormedUpload("upload-multi-shared-file", cfg, opMulti, f, []int{0, 1, 0, 1, 0}))
			add(wellFormedUpload("upload-nested", cfg, opNested, f, []int{0, 1, 2}))
			add(wellFormedUpload("upload-nested-shared-file", cfg, opNested, f, []int{1, 1, 0, 1}))
			add(wellFormedUpload("upload-nested", cfg, opNested, f, []int{2}))
		}
		add(wellFormedUpload("upload-opt-null", cfg, opOpt, nil, []int{-1}))
		for i, name := range fileNames {
			f := []fileSpec{{Filename: name, CT: fileCTs[i%len(fileCTs)], Data: content(r, 10+i)}}
			add(wellFormedUpload("upload-filename", cfg, opSingle, f, []int{0}))
		}
		// bodies sized exactly around the limits of this configuration
		l := limitCfgs[cfg]
		var marks []int
		if l.MaxUploadSize > 0 {
			marks = append(marks, int(l.MaxUploadSize))
		}
		if l.MaxMemory > 1 {
			marks = append(marks, int(l.MaxMemory))
		}
		for _, mk := range marks {
			for d := -2; d <= 2; d++ {
				for _, unknown := range []bool{false, true} {
					for _, shared := range []bool{false, true} {
						var in *httpInput
						if shared {
							in = sizedUpload(r, "upload-at-limit-shared-file", cfg, opMulti, []int{0, 0}, 1, mk+d)
						} else {
							in = sizedUpload(r, "upload-at-limit", cfg, opSingle, []int{0}, 1, mk+d)
						}
						if in != nil {
							in.UnknownLen = unknown
							in.Class += fmt.Sprintf(":%s%+d", map[bool]string{false: "known-length", true: "unknown-length"}[unknown], d)
							add(in)
						}
					}
				}
			}
		}
	}
	// far over the default limit is not exercised (32 MiB bodies); the explicit limits stand in for it
	return out
}

// ---------------------------------------------------------------- JSON-body transports

var jsonBodies = []string{
	`null`, ` null `, "null\n", "\tnull", `null{"query":"{ q1 }"}`, `null null`, `nullx`, `Null`, `NULL`,
	`true`, `false`, `0`, `-1.5e3`, `1e999`, `"str"`, `""`, `[]`, `[null]`, `[{"query":"{ q1 }"}]`, `[[[[[[[[[[]]]]]]]]]]`, `{}`,
	`{"query":null}`, `{"query":1}`, `{"query":true}`, `{"query":["{ q1 }"]}`, `{"query":{"a":1}}`, `{"query":""}`,
	`{"query":"{ q1 }","variables":null}`, `{"query":"{ q1 }","variables":[]}`, `{"query":"{ q1 }","variables":"x"}`, `{"query":"{ q1 }","variables":1}`,
	`{"query":"query($s:String){ echo(s:$s) }","variables":{"s":null}}`, `{"query":"query($s:String){ echo(s:$s) }","variables":{"s":[1]}}`,
	`{"query":"query($s:String){ echo(s:$s) }","variables":{"s":{"a":{"b":[null,1,"x",{"c":[]}]}}}}`,
	`{"query":"query($s:String!){ echo(s:$s) }"}`, `{"query":"query($n:Int!){ big(n:$n) }","variables":{"n":1e400}}`,
	`{"query":"query($n:Int!){ big(n:$n) }","variables":{"n":99999999999999999999}}`, `{"query":"query($n:Int!){ big(n:$n) }","variables":{"n":-1}}`,
	// legal documents in which @skip / @include leave a subscription without any root field
	`{"query":"subscription { count(n: 2) @skip(if: true) }"}`, `{"query":"subscription($s: Boolean!) { s1 @include(if: $s) }","variables":{"s":false}}`,
	`{"query":"subscription { ... @skip(if: true) { s1 } }"}`,
	`{"query":"{ q1 }","operationName":null}`, `{"query":"{ q1 }","operationName":1}`, `{"query":"{ q1 }","operationName":["A"]}`, `{"query":"{ q1 }","operationName":"Zzz"}`,
	`{"query":"{ q1 }","extensions":null}`, `{"query":"{ q1 }","extensions":[]}`, `{"query":"{ q1 }","extensions":"x"}`, `{"query":"{ q1 }","extensions":{"persistedQuery":null}}`,
	`{"query":"{ q1 }","extensions":{"persistedQuery":1}}`, `{"query":"{ q1 }","extensions":{"persistedQuery":"x"}}`, `{"query":"{ q1 }","extensions":{"persistedQuery":[]}}`,
	`{"query":"{ q1 }","extensions":{"persistedQuery":{"version":"1","sha256Hash":1}}}`, `{"query":"{ q1 }","extensions":{"persistedQuery":{"version":1,"sha256Hash":null}}}`,
	`{"query":"{ q1 }","extensions":{"persistedQuery":{"version":1.5,"sha256Hash":"x"}}}`, `{"extensions":{"persistedQuery":{"version":1,"sha256Hash":"deadbeef"}}}`,
	`{"query":"{ q1 }","extensions":{"persistedQuery":{"version":1e30,"sha256Hash":{}}}}`,
	`{"query":"{ q1 }","headers":null}`, `{"query":"{ q1 }","headers":1}`, `{"query":"{ q1 }","headers":{"A":"b"}}`, `{"query":"{ q1 }","headers":{"A":["b"]}}`, `{"query":"{ q1 }","headers":[]}`,
	`{"query":"{ q1 }","query":"mutation { m1 }"}`, `{"QUERY":"{ q1 }"}`, `{"Query":"mutation { m1 }"}`, `{"query":"{ q1 }"} trailing`, `{"query":"{ q1 }"}{"query":"{ q2 }"}`,
	`{"query":"{ q1 }"`, `{"query":"{ q1 `, `{"query":`, `{`, ``, ` `, "\xef\xbb\xbf{\"query\":\"{ q1 }\"}", "{\"query\":\"{ q1 }\xff\"}", `{"query":"\ud800"}`, `{"query":"\u0000"}`,
	`{"query":"{ q1 }","variables":{"a":` + strings.Repeat("[", 9990) + strings.Repeat("]", 9990) + `}}`,
	`{"query":"{ q1 }","variables":{"a":` + strings.Repeat("[", 10010) + strings.Repeat("]", 10010) + `}}`,
	`{"query":"` + strings.Repeat("{ item(id:\\\"1\\\") ", 1) + `{ id } }"}`,
	`{"query":"{ ` + strings.Repeat("a: q1 ", 3000) + `}"}`,
	`{"query":"` + strings.Repeat("{ item(id: 1) { sub ", 0) + `{ fail nn }"}`,
	`{"query":"{ __schema { types { name } } }"}`, `{"query":"{ __typename }"}`, `{"query":"subscription { s1 }"}`, `{"query":"subscription { count(n: 3) }"}`,
	`{"query":"subscription { ctl(id: \"x\") { seq payload } }"}`, `{"query":"mutation { set(v: \"x\") }"}`, `{"query":"{ item(id: \"1\") { id ... @defer { name sub { id } } } }"}`,
	`{"query":"query A { q1 } mutation B { m1 }","operationName":"B"}`, `{"query":"query A { q1 } mutation B { m1 }"}`,
}

var jsonTransports = []struct{ name, ct, accept string }{
	{"post", "application/json", ""},
	{"post", "application/json; charset=utf-8", "application/graphql-response+json"},
	{"sse", "application/json", "text/event-stream"},
	{"mixed", "application/json", "multipart/mixed"},
	{"form", "application/x-www-form-urlencoded", ""},
}

func firstJSONIsNull(b []byte) bool {
	d := json.NewDecoder(bytes.NewReader(b))
	var v any = 1
	if err := d.Decode(&v); err != nil {
		return false
	}
	return v == nil
}

func jsonInput(class, tname, ct, accept string, body []byte) *httpInput {
	in := &httpInput{Class: class, Transport: tname, Method: "POST", Body: body, Header: map[string]string{"Content-Type": ct}}
	if accept != "" {
		in.Header["Accept"] = accept
	}
	// class (a): a body whose first JSON value is null decodes the *RawParams to nil
	if firstJSONIsNull(body) && (tname != "form" || bytes.Contains(body, []byte(`"query":`))) {
		in.PanicSig = "null-body-nil-deref:" + tname
		in.Expect = "refuse"
	}
	return in
}

func enumeratedJSONBodies() []*httpInput {
	var out []*httpInput
	for _, b := range jsonBodies {
		for _, t := range jsonTransports {
			out = append(out, jsonInput("json-body", t.name, t.ct, t.accept, []byte(b)))
		}
	}
	return out
}

// ---------------------------------------------------------------- GET / application/graphql / urlencoded

var rawQueries = []string{
	"query=%7B+q1+%7D", "query={q1}", "query=%7Bq1%7D&operationName=A", "query=%7Bq1%7D&variables=null", "query=%7Bq1%7D&variables=[]", "query=%7Bq1%7D&variables=1",
	"query=%7Bq1%7D&variables=%22x%22", "query=%7Bq1%7D&variables=%7B", "query=%7Bq1%7D&variables={}", "query=%7Bq1%7D&variables=%7B%22a%22%3Anull%7D",
	"query=%7Bq1%7D&extensions=null", "query=%7Bq1%7D&extensions=[]", "query=%7Bq1%7D&extensions=1", "query=%7Bq1%7D&extensions=%22s%22", "query=%7Bq1%7D&extensions=%7B%22persistedQuery%22%3Anull%7D",
	"query=%7Bq1%7D&extensions=%7B%22persistedQuery%22%3A%7B%22version%22%3A1%2C%22sha256Hash%22%3A%22x%22%7D%7D", "extensions=%7B%22persistedQuery%22%3A%7B%22version%22%3A1%2C%22sha256Hash%22%3A%22x%22%7D%7D",
	"", "query", "query=", "=", "&", "&&&=&=", "query=%", "query=%zz", "query=%7", "query=%7Bq1%7D&variables=%", "%=1", "query=%7Bq1%7D;variables=null", "query=a&query=%7Bq1%7D",
	"query=mutation+%7B+m1+%7D", "query=subscription+%7B+s1+%7D", "query=%7Bq1%7D&operationName=%00", "query=%00", "query=%FF%FE", "QUERY=%7Bq1%7D", "query[]=%7Bq1%7D",
	"query=" + strings.Repeat("%7B", 5000), "query=%7B" + strings.Repeat("+a%3Aq1", 3000) + "%7D", strings.Repeat("a=b&", 20000),
	"query=%7Bq1%7D&variables=" + url.QueryEscape(`{"a":`+strings.Repeat("[", 10010)+strings.Repeat("]", 10010)+`}`),
}

var rawBodies = []string{
	"{ q1 }", "query=%7B+q1+%7D", "query={ q1 }", "%7B+q1+%7D", "%7B%zz", "%7B%", "query=%7B%zz", "query=%7B%7", "", " ", "query=", "null", `null"query":`, `null "query":1`,
	` null {"query":"{ q1 }"}`, `{"query":"{ q1 }"}`, `{"query":1}`, `"query":`, `x"query":`, `[]"query":`, `1"query":`, `"s""query":`, `{}"query":`, `{"query":"{ q1 }"`, "mutation { m1 }",
	"query=mutation { m1 }", "subscription { s1 }", "\x00\x01\x02", "\xff\xfe", "query=%00", strings.Repeat("{", 100000), "query=%7B" + strings.Repeat("%20", 50000) + "q1%7D",
	"{ q1 } # comment", "query=query=%7Bq1%7D", "{ __schema { types { name fields { name } } } }",
}

func enumeratedRaw() []*httpInput {
	var out []*httpInput
	for _, q := range rawQueries {
		out = append(out, &httpInput{Class: "get-query-string", Transport: "get", Method: "GET", RawQuery: q, Header: map[string]string{}})
	}
	for _, b := range rawBodies {
		out = append(out, &httpInput{Class: "graphql-body", Transport: "graphql", Method: "POST", Body: []byte(b), Header: map[string]string{"Content-Type": "application/graphql"}})
		in := jsonInput("urlencoded-body", "form", "application/x-www-form-urlencoded", "", []byte(b))
		out = append(out, in)
	}
	// requests no transport takes, and the OPTIONS transport
	for _, m := range []string{"PUT", "DELETE", "PATCH", "OPTIONS", "HEAD", "TRACE", "get", ""} {
		out = append(out, &httpInput{Class: "method", Transport: "other", Method: m, RawQuery: "query=%7Bq1%7D", Body: []byte(`{"query":"{ q1 }"}`), Header: map[string]string{"Content-Type": "application/json"}})
	}
	for _, ct := range []string{"", "text/plain", "application/json; charset", "application/json;;", ";", "/", "application/", "application/jsonx", "application/json, text/plain",
		"multipart/form-data; boundary=\"unterminated", "application/x-www-form-urlencoded; charset=\xff", strings.Repeat("a", 10000) + "/json"} {
		out = append(out, &httpInput{Class: "content-type", Transport: "other", Method: "POST", Body: []byte(`{"query":"{ q1 }"}`), Header: map[string]string{"Content-Type": ct}})
	}
	return out
}

// ---------------------------------------------------------------- the enumerated set

func enumeratedInputs(seed int64) []*httpInput {
	r := rand.New(rand.NewSource(seed*7919 + 17))
	var all []*httpInput
	all = append(all, enumeratedJSONBodies()...)
	all = append(all, enumeratedRaw()...)
	all = append(all, enumeratedPathInputs()...)
	all = append(all, enumeratedMultipartShapes(r)...)
	all = append(all, enumeratedUploads(r)...)
	for i, in := range all {
		in.ID = fmt.Sprintf("e%05d", i)
		// every sixteenth enumerated input also travels over a real socket
		in.Real = i%16 == 5 && realOK(in)
	}
	return all
}

// realOK: can the input be expressed by net/http's client unchanged?
func realOK(in *httpInput) bool {
	for _, c := range []byte(in.RawQuery) {
		if c <= ' ' || c >= 0x7f {
			return false
		}
	}
	switch in.Method {
	case "GET", "POST", "PUT", "DELETE", "PATCH", "OPTIONS":
	default:
		return false
	}
	for _, v := range in.Header {
		for _, c := range []byte(v) {
			if c < ' ' || c >= 0x7f {
				return false
			}
		}
	}
	return len(in.RawQuery) < 60000 && in.Transport != "sse" && in.Transport != "mixed"
}
