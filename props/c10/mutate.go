package main

// Seeded mutation of valid requests: byte-level (bit flips, range delete / duplicate / swap, token
// insertion, truncation) and JSON-structure-aware (replace any node by a value of another kind,
// drop / duplicate / rename members). Input i is a pure function of (seed, i).

import (
	"bytes"
	"encoding/json"
	"fmt"
	"io"
	"math/rand"
	"mime"
	"mime/multipart"
	"net/url"
	"sort"
	"strconv"
	"strings"
)

var tokens = []string{"null", "true", "0", "-1", "1e999", `"`, `""`, "{", "}", "[", "]", ",", ":", "{}", "[]", "\\", "\\u0000", "\\ud800", "\x00", "\xff", "\xc3\x28",
	"%", "%zz", "%00", "%7B", "+", "&", "=", "\r\n", "\r\n\r\n", "--", "--" + mpBoundary, "--" + mpBoundary + "--", "\r\n--" + mpBoundary + "\r\n",
	"Content-Disposition: form-data; name=\"map\"", "variables.", "variables.file", ".0", ".-1", ".99999999999", `"query":`, `"variables":null`, `null"query":`,
	"query=", "query=%7B", "operationName", "extensions", "persistedQuery", "mutation", "subscription", "@defer", "...", "#", "\"\"\"", " ", "\ufeff"}

func mutateBytes(r *rand.Rand, b []byte) ([]byte, string) {
	b = append([]byte(nil), b...)
	n := 1 + r.Intn(3)
	var names []string
	for k := 0; k < n; k++ {
		op := r.Intn(9)
		pos := func() int {
			if len(b) == 0 {
				return 0
			}
			return r.Intn(len(b))
		}
		span := func(p int) int {
			max := len(b) - p
			if max <= 0 {
				return 0
			}
			l := 1 + r.Intn(16)
			if r.Intn(8) == 0 {
				l = 1 + r.Intn(max)
			}
			if l > max {
				l = max
			}
			return l
		}
		switch op {
		case 0:
			if len(b) > 0 {
				b[pos()] ^= 1 << uint(r.Intn(8))
			}
			names = append(names, "bitflip")
		case 1:
			if len(b) > 0 {
				b[pos()] = byte(r.Intn(256))
			}
			names = append(names, "setbyte")
		case 2:
			p := pos()
			l := span(p)
			b = append(b[:p], b[p+l:]...)
			names = append(names, "delete")
		case 3:
			p := pos()
			l := span(p)
			seg := append([]byte(nil), b[p:p+l]...)
			q := pos()
			b = append(b[:q], append(seg, b[q:]...)...)
			names = append(names, "duplicate")
		case 4, 5:
			t := tokens[r.Intn(len(tokens))]
			q := pos()
			b = append(b[:q], append([]byte(t), b[q:]...)...)
			names = append(names, "insert-token")
		case 6:
			if len(b) > 0 {
				b = b[:pos()]
			}
			names = append(names, "truncate")
		case 7:
			t := tokens[r.Intn(len(tokens))]
			p := pos()
			l := span(p)
			b = append(b[:p], append([]byte(t), b[p+l:]...)...)
			names = append(names, "replace-token")
		case 8:
			// replace a digit run by another number
			if i := bytes.IndexAny(b, "0123456789"); i >= 0 {
				j := i
				for j < len(b) && b[j] >= '0' && b[j] <= '9' {
					j++
				}
				nums := []string{"-1", "0", "1", "2", "99", "4294967296", "18446744073709551616", "-0", "00", "1.5", "1e2"}
				b = append(b[:i], append([]byte(nums[r.Intn(len(nums))]), b[j:]...)...)
			}
			names = append(names, "renumber")
		}
	}
	sort.Strings(names)
	return b, strings.Join(names, "+")
}

func randValue(r *rand.Rand, depth int) any {
	switch r.Intn(14) {
	case 0:
		return nil
	case 1:
		return r.Intn(2) == 0
	case 2:
		return json.Number([]string{"0", "-1", "1", "1.5", "1e30", "99999999999999999999", "-0"}[r.Intn(7)])
	case 3:
		return ""
	case 4:
		return []string{"str", "variables.file", "variables.files.0", "{ q1 }", "mutation { m1 }", "A", "\u0000", "ü"}[r.Intn(8)]
	case 5:
		return []any{}
	case 6:
		return []any{nil}
	case 7:
		return map[string]any{}
	case 8, 9:
		if depth > 3 {
			return nil
		}
		n := r.Intn(4)
		l := make([]any, n)
		for i := range l {
			l[i] = randValue(r, depth+1)
		}
		return l
	case 10, 11:
		if depth > 3 {
			return "deep"
		}
		m := map[string]any{}
		for i, n := 0, r.Intn(4); i < n; i++ {
			m[[]string{"a", "0", "file", "files", "query", "variables", "x", "", "k"}[r.Intn(9)]] = randValue(r, depth+1)
		}
		return m
	case 12:
		return []any{"variables.file"}
	default:
		return json.Number(strconv.Itoa(r.Intn(5) - 1))
	}
}

// mutateJSON replaces / removes / adds one or two nodes of a JSON text and re-serialises it.
func mutateJSON(r *rand.Rand, text []byte) ([]byte, bool) {
	d := json.NewDecoder(bytes.NewReader(text))
	d.UseNumber()
	var root any
	if err := d.Decode(&root); err != nil {
		return nil, false
	}
	type slot struct {
		set func(any)
		del func()
	}
	for k, n := 0, 1+r.Intn(2); k < n; k++ {
		var slots []slot
		var walk func(v any)
		walk = func(v any) {
			switch c := v.(type) {
			case map[string]any:
				keys := make([]string, 0, len(c))
				for key := range c {
					keys = append(keys, key)
				}
				sort.Strings(keys)
				for _, key := range keys {
					key := key
					slots = append(slots, slot{set: func(x any) { c[key] = x }, del: func() { delete(c, key) }})
					walk(c[key])
				}
				slots = append(slots, slot{set: func(x any) { c[[]string{"variables", "query", "0", "x", "", "extensions", "headers"}[r.Intn(7)]] = x }})
			case []any:
				for i := range c {
					i := i
					slots = append(slots, slot{set: func(x any) { c[i] = x }})
					walk(c[i])
				}
			}
		}
		walk(root)
		if len(slots) == 0 || r.Intn(12) == 0 {
			root = randValue(r, 0)
			continue
		}
		s := slots[r.Intn(len(slots))]
		if s.del != nil && r.Intn(4) == 0 {
			s.del()
		} else {
			s.set(randValue(r, 0))
		}
	}
	b, err := json.Marshal(root)
	if err != nil {
		return nil, false
	}
	return b, true
}

var validJSONBodies = []string{
	`{"query":"{ q1 }"}`,
	`{"query":"query A { q1 q2 } mutation B { m1 }","operationName":"A"}`,
	`{"query":"query($s: String) { echo(s: $s) }","variables":{"s":"hello"}}`,
	`{"query":"query($n: Int!, $id: ID!) { big(n: $n) item(id: $id) { id name sub { id } subs(n: 2) { id } } }","variables":{"n":10,"id":"7"},"operationName":null}`,
	`{"query":"{ fail nn }","extensions":{"persistedQuery":{"version":1,"sha256Hash":"4a8b7d1f9a6c"}}}`,
	`{"query":"mutation($v: String!) { set(v: $v) }","variables":{"v":"x"},"extensions":{}}`,
	`{"query":"subscription { count(n: 3) }"}`,
	`{"query":"{ items(n: 3) { id ... @defer { name } } }","variables":{}}`,
}

var validRawQueries = []string{
	"query=%7B+q1+%7D",
	"query=query+A+%7B+q1+%7D+query+B+%7B+q2+%7D&operationName=B",
	"query=query(%24s%3AString)%7Becho(s%3A%24s)%7D&variables=%7B%22s%22%3A%22v%22%7D",
	"query=%7Bq1%7D&extensions=%7B%22persistedQuery%22%3A%7B%22version%22%3A1%2C%22sha256Hash%22%3A%22ab%22%7D%7D",
}

var validRawBodies = []string{"{ q1 }", "query=%7B+q1+%7D", "query={ q1 q2 }", `{"query":"{ q1 }","variables":{"a":1}}`, "mutation { m1 }", "%7B%20q1%20%7D"}

func randomUpload(r *rand.Rand, cfg int) *httpInput {
	sizes := []int{0, 1, 5, 61, 200, 1500, 3100, 9000}
	nf := 1 + r.Intn(3)
	files := make([]fileSpec, nf)
	for i := range files {
		files[i] = randFile(r, sizes[r.Intn(len(sizes))]+r.Intn(3))
	}
	ops := []uploadOp{opSingle, opMulti, opNested, opOpt}
	op := ops[r.Intn(len(ops))]
	var slots []int
	switch op.Field {
	case "singleUpload", "optUpload":
		slots = []int{0}
	default:
		n := 1 + r.Intn(4)
		slots = make([]int, n)
		for i := range slots {
			slots[i] = r.Intn(nf)
		}
	}
	in := wellFormedUpload("upload-random", cfg, op, files, slots)
	in.UnknownLen = r.Intn(4) == 0
	return in
}

func randomPath(r *rand.Rand) string {
	n := 1 + r.Intn(4)
	segs := make([]string, n)
	for i := range segs {
		segs[i] = pathSegments[r.Intn(len(pathSegments))]
	}
	p := "variables." + strings.Join(segs, ".")
	switch r.Intn(20) {
	case 0:
		p = strings.TrimPrefix(p, "variables.")
	case 1:
		p = "variables" + strings.Join(segs, ".")
	}
	return p
}

func randomInput(seed int64, i int) *httpInput {
	r := rand.New(rand.NewSource(seed*1000003 + int64(i)*7 + 3))
	var in *httpInput
	cfg := r.Intn(len(limitCfgs))
	if r.Intn(3) > 0 {
		cfg = []int{0, 2, 3}[r.Intn(3)] // mostly configurations that let requests through
	}
	switch k := r.Intn(100); {
	case k < 30: // mutated multipart upload
		base := randomUpload(r, cfg)
		if r.Intn(10) < 7 {
			body, how := mutateBytes(r, base.Body)
			in = &httpInput{Class: "mutated-multipart-bytes:" + how, Transport: "multipart", Method: "POST", Cfg: cfg, Body: body, Header: base.Header, UnknownLen: base.UnknownLen}
			labelMultipart(in)
		} else {
			// re-parse our own form, mutate the operations / map JSON structurally, rebuild with intact framing
			in = structMutatedUpload(r, cfg)
		}
	case k < 55: // JSON body transports
		t := jsonTransports[r.Intn(len(jsonTransports))]
		base := []byte(validJSONBodies[r.Intn(len(validJSONBodies))])
		var body []byte
		class := ""
		if r.Intn(2) == 0 {
			var how string
			body, how = mutateBytes(r, base)
			class = "mutated-json-bytes:" + how
		} else if b, ok := mutateJSON(r, base); ok {
			body, class = b, "mutated-json-structure"
		} else {
			body, class = base, "valid-json"
		}
		in = jsonInput(class, t.name, t.ct, t.accept, body)
	case k < 70: // GET
		q, how := mutateBytes(r, []byte(validRawQueries[r.Intn(len(validRawQueries))]))
		in = &httpInput{Class: "mutated-get:" + how, Transport: "get", Method: "GET", RawQuery: string(q), Header: map[string]string{}}
	case k < 80: // application/graphql and urlencoded
		b, how := mutateBytes(r, []byte(validRawBodies[r.Intn(len(validRawBodies))]))
		if r.Intn(2) == 0 {
			in = &httpInput{Class: "mutated-graphql-body:" + how, Transport: "graphql", Method: "POST", Body: b, Header: map[string]string{"Content-Type": "application/graphql"}}
		} else {
			in = jsonInput("mutated-urlencoded-body:"+how, "form", "application/x-www-form-urlencoded", "", b)
		}
	case k < 90: // well-formed uploads: byte-exact echo
		in = randomUpload(r, cfg)
	default: // random map paths over random variables
		vars := map[string]any{}
		for j, n := 0, 1+r.Intn(5); j < n; j++ {
			vars[pathSegments[r.Intn(12)]] = randValue(r, 0)
		}
		ops := mustJSON(map[string]any{"query": "mutation { m1 }", "variables": vars})
		if r.Intn(6) == 0 {
			ops = `{"query":"mutation { m1 }"}`
		}
		nk := 1 + r.Intn(2)
		m := map[string][]string{}
		var keys []string
		for j := 0; j < nk; j++ {
			k := strconv.Itoa(j)
			keys = append(keys, k)
			for p, np := 0, 1+r.Intn(2); p < np; p++ {
				m[k] = append(m[k], randomPath(r))
			}
		}
		in = pathInput("random-map-path", ops, m, keys)
	}
	in.Cfg = cfg
	if in.Transport != "multipart" {
		in.Cfg = 0
	}
	in.ID = fmt.Sprintf("r%07d", i)
	in.Real = i%64 == 9 && realOK(in)
	return in
}

func structMutatedUpload(r *rand.Rand, cfg int) *httpInput {
	file := mpPart{Name: "0", Filename: "s.bin", HasFile: true, CT: "application/octet-stream", Data: content(r, r.Intn(200))}
	opsList := []string{
		mustJSON(map[string]any{"query": opSingle.Query, "variables": map[string]any{"file": nil}}),
		mustJSON(map[string]any{"query": opMulti.Query, "variables": map[string]any{"files": []any{nil, nil}}}),
		mustJSON(map[string]any{"query": opNested.Query, "variables": map[string]any{"req": map[string]any{"id": 1, "file": nil, "more": []any{nil}}}}),
	}
	maps := []string{`{"0":["variables.file"]}`, `{"0":["variables.files.0","variables.files.1"]}`, `{"0":["variables.req.file","variables.req.more.0"]}`}
	k := r.Intn(3)
	ops, mp := opsList[k], maps[k]
	if r.Intn(2) == 0 {
		if b, ok := mutateJSON(r, []byte(ops)); ok {
			ops = string(b)
		}
	} else if b, ok := mutateJSON(r, []byte(mp)); ok {
		mp = string(b)
	}
	in := mpInput("mutated-multipart-structure", cfg, []mpPart{{Name: "operations", Data: []byte(ops)}, {Name: "map", Data: []byte(mp)}, file})
	var m map[string][]string
	if json.Unmarshal([]byte(mp), &m) == nil {
		if c := classifyMap(ops, []string{"0"}, m); c != "" {
			in.PanicSig = "addupload-unchecked-path:" + c
		}
	}
	if int64(len(in.Body)) > limitCfgs[cfg].maxUpload() {
		in.Expect = "overlimit"
	}
	return in
}

var _ = url.QueryEscape

// labelMultipart re-reads a byte-mutated form with the standard library's multipart reader (parts
// that precede a framing error are still seen by a streaming server) and labels the input with
// the map-path class, if any, that its operations / map / part order amount to.
func labelMultipart(in *httpInput) {
	_, params, err := mime.ParseMediaType(in.Header["Content-Type"])
	if err != nil || params["boundary"] == "" {
		return
	}
	mr := multipart.NewReader(bytes.NewReader(in.Body), params["boundary"])
	p, err := mr.NextPart()
	if err != nil || p.FormName() != "operations" {
		return
	}
	ops, _ := io.ReadAll(p)
	p, err = mr.NextPart()
	if err != nil || p.FormName() != "map" {
		return
	}
	var m map[string][]string
	if json.NewDecoder(p).Decode(&m) != nil {
		return
	}
	var keys []string
	for {
		p, err = mr.NextPart()
		if err != nil {
			break
		}
		keys = append(keys, p.FormName())
	}
	if c := classifyMap(string(ops), keys, m); c != "" {
		in.PanicSig = "addupload-unchecked-path:" + c
	}
}
