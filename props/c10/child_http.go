package main

// HTTP batch worker (child process): private TMPDIR, one handler.Server per upload-limit
// configuration with every transport registered, inputs run strictly one after another so that a
// leftover temp file, a recover call or a crash is attributed to exactly one input.

import (
	"bytes"
	"context"
	"encoding/json"
	"fmt"
	"io"
	"log"
	"mime"
	"mime/multipart"
	"net/http"
	"net/http/httptest"
	"net/url"
	"os"
	"path/filepath"
	"strings"
	"sync"
	"time"

	"github.com/99designs/gqlgen/graphql/handler"
	"github.com/99designs/gqlgen/graphql/handler/extension"
	"github.com/99designs/gqlgen/graphql/handler/lru"
	"github.com/99designs/gqlgen/graphql/handler/transport"
	legacy "github.com/99designs/gqlgen/handler"
	"github.com/gorilla/websocket"
	"github.com/vektah/gqlparser/v2/ast"

	"verif/internal/sjson"
	"verif/internal/txharness"
	"verif/work/farm/cur/tx"
)

func newServer(l limitCfg) http.Handler {
	if l.Legacy {
		return legacy.GraphQL(tx.NewExecutableSchema(tx.Config{Resolvers: txharness.Stub()}),
			legacy.UploadMaxSize(l.MaxUploadSize), legacy.UploadMaxMemory(l.MaxMemory), legacy.RecoverFunc(txharness.RecoverFunc))
	}
	return newModernServer(l)
}

func newModernServer(l limitCfg) *handler.Server {
	srv := handler.New(tx.NewExecutableSchema(tx.Config{Resolvers: txharness.Stub()}))
	// SSE and multipart/mixed first, otherwise POST shadows them
	srv.AddTransport(transport.SSE{})
	srv.AddTransport(transport.MultipartMixed{})
	// the application's upgrader also negotiates a subprotocol of its own that gqlgen does not speak
	srv.AddTransport(transport.Websocket{Upgrader: websocket.Upgrader{Subprotocols: []string{"verif-foreign"}},
		// an application InitFunc that reads the client's init payload through gqlgen's own accessors
		InitFunc: func(ctx context.Context, p transport.InitPayload) (context.Context, *transport.InitPayload, error) {
			_ = p.Authorization()
			_ = p.GetString("token")
			_ = p.GetString("n")
			return ctx, &p, nil
		}})
	srv.AddTransport(transport.Options{})
	srv.AddTransport(transport.GET{})
	srv.AddTransport(transport.POST{})
	srv.AddTransport(transport.GRAPHQL{})
	srv.AddTransport(transport.UrlEncodedForm{})
	srv.AddTransport(transport.MultipartForm{MaxUploadSize: l.MaxUploadSize, MaxMemory: l.MaxMemory})
	srv.SetQueryCache(lru.New[*ast.QueryDocument](256))
	srv.Use(extension.Introspection{})
	srv.Use(extension.AutomaticPersistedQuery{Cache: lru.New[string](256)})
	srv.SetRecoverFunc(txharness.RecoverFunc)
	return srv
}

// ---------------------------------------------------------------- results shipped to the parent

type violation struct {
	Sig    string `json:"sig"`
	Why    string `json:"why"`
	Detail any    `json:"detail"`
}

type childResult struct {
	Done         bool             `json:"done"`
	Counts       map[string]int64 `json:"counts"`
	Distinct     map[string][]string
	Violations   []violation `json:"violations"`
	Inconclusive []string    `json:"inconclusive"`
	Samples      []any       `json:"samples"`
	Evaluations  int64       `json:"evaluations"`
}

type collector struct {
	mu  sync.Mutex
	res childResult
	dis map[string]map[string]bool
}

func newCollector() *collector {
	return &collector{res: childResult{Counts: map[string]int64{}}, dis: map[string]map[string]bool{}}
}

func (c *collector) count(k string, n int64) {
	c.mu.Lock()
	c.res.Counts[k] += n
	c.mu.Unlock()
}

func (c *collector) distinct(set, m string) {
	c.mu.Lock()
	if c.dis[set] == nil {
		c.dis[set] = map[string]bool{}
	}
	c.dis[set][m] = true
	c.mu.Unlock()
}

func (c *collector) violate(sig, why string, detail any) {
	c.mu.Lock()
	n := 0
	for _, v := range c.res.Violations {
		if v.Sig == sig {
			n++
		}
	}
	c.res.Counts["violation:"+sig]++
	if n < 3 {
		c.res.Violations = append(c.res.Violations, violation{sig, why, detail})
	}
	c.mu.Unlock()
}

func (c *collector) inconclusive(s string) {
	c.mu.Lock()
	c.res.Inconclusive = append(c.res.Inconclusive, s)
	c.mu.Unlock()
}

func (c *collector) sample(s any) {
	c.mu.Lock()
	if len(c.res.Samples) < 2 {
		c.res.Samples = append(c.res.Samples, s)
	}
	c.mu.Unlock()
}

func (c *collector) write(path string) {
	c.mu.Lock()
	c.res.Done = true
	c.res.Distinct = map[string][]string{}
	for s, m := range c.dis {
		for k := range m {
			c.res.Distinct[s] = append(c.res.Distinct[s], k)
		}
	}
	b, _ := json.Marshal(&c.res)
	c.mu.Unlock()
	os.WriteFile(path, b, 0o644)
}

// ---------------------------------------------------------------- running one input

type httpObservation struct {
	Status   int                     `json:"status"`
	Header   http.Header             `json:"header"`
	Body     string                  `json:"body"`
	Fields   []string                `json:"resolver_log"`
	Uploads  []txharness.UploadSeen  `json:"uploads_seen"`
	Recovers []txharness.RecoverInfo `json:"recovers"`
	Escaped  string                  `json:"panic_escaped,omitempty"`
	TmpLeft  []string                `json:"tmp_left,omitempty"`
	ClientEr string                  `json:"client_error,omitempty"`
}

type lenHider struct{ io.Reader } // makes http.NewRequest / the client not know the length

func makeRequest(in *httpInput, ctx context.Context) *http.Request {
	r := &http.Request{
		Method: in.Method, Proto: "HTTP/1.1", ProtoMajor: 1, ProtoMinor: 1, Host: "verif.test", RequestURI: "/graphql",
		URL:    &url.URL{Path: "/graphql", RawQuery: in.RawQuery},
		Header: http.Header{}, RemoteAddr: "192.0.2.1:1234",
	}
	for k, v := range in.Header {
		r.Header[http.CanonicalHeaderKey(k)] = []string{v}
	}
	if in.Method == "GET" && in.Body == nil {
		r.Body = http.NoBody
	} else {
		r.Body = io.NopCloser(bytes.NewReader(in.Body))
		r.ContentLength = int64(len(in.Body))
		if in.UnknownLen {
			r.ContentLength = -1
			r.TransferEncoding = []string{"chunked"}
		}
	}
	return r.WithContext(ctx)
}

type httpWorker struct {
	col     *collector
	servers []http.Handler
	tmp     string
	real    *httptest.Server
	realMu  sync.Mutex
	realLog map[string]*txharness.ReqLog
	client  *http.Client
}

func newHTTPWorker(col *collector, tmp string) *httpWorker {
	w := &httpWorker{col: col, tmp: tmp, realLog: map[string]*txharness.ReqLog{}}
	for _, l := range limitCfgs {
		w.servers = append(w.servers, newServer(l))
	}
	w.real = httptest.NewUnstartedServer(http.HandlerFunc(func(rw http.ResponseWriter, r *http.Request) {
		id := r.Header.Get("X-Verif-Id")
		w.realMu.Lock()
		l := w.realLog[id]
		w.realMu.Unlock()
		cfg := 0
		fmt.Sscanf(r.Header.Get("X-Verif-Cfg"), "%d", &cfg)
		if l == nil || cfg < 0 || cfg >= len(w.servers) {
			http.Error(rw, "harness: unknown request id", 599)
			return
		}
		r.Header.Del("X-Verif-Id")
		r.Header.Del("X-Verif-Cfg")
		w.servers[cfg].ServeHTTP(rw, r.WithContext(txharness.With(r.Context(), l)))
	}))
	w.real.Config.ErrorLog = log.New(io.Discard, "", 0)
	w.real.Start()
	w.client = &http.Client{Timeout: 120 * time.Second, Transport: &http.Transport{DisableCompression: true, MaxIdleConnsPerHost: 4}}
	return w
}

func (w *httpWorker) exec(in *httpInput) *httpObservation {
	l := &txharness.ReqLog{ID: in.ID, Oneshot: true}
	if in.Transport == "mixed" && os.Getenv("VERIF_C10_MIXED_MULTI_EVENT") == "" {
		// Several subscription events over multipart/mixed hit a defect that is not about malformed
		// input (the aggregator's responses alias the executor's reused buffer: corrupted payloads, a
		// data race, and a panic on the ticker goroutine that kills the process; reported, C12's
		// subject). The valid-subscription workload is therefore held to one event on this transport.
		l.MaxEvents = 1
	}
	o := &httpObservation{}
	if in.Real {
		w.realMu.Lock()
		w.realLog[in.ID] = l
		w.realMu.Unlock()
		defer func() { w.realMu.Lock(); delete(w.realLog, in.ID); w.realMu.Unlock() }()
		var body io.Reader
		if in.Body != nil || in.Method != "GET" {
			body = bytes.NewReader(in.Body)
			if in.UnknownLen {
				body = lenHider{body}
			}
		}
		u := w.real.URL + "/graphql"
		if in.RawQuery != "" {
			u += "?" + in.RawQuery
		}
		req, err := http.NewRequest(in.Method, u, body)
		if err != nil {
			o.ClientEr = "cannot build: " + err.Error()
			return o
		}
		for k, v := range in.Header {
			req.Header[http.CanonicalHeaderKey(k)] = []string{v}
		}
		req.Header.Set("X-Verif-Id", in.ID)
		req.Header.Set("X-Verif-Cfg", fmt.Sprint(in.Cfg))
		res, err := w.client.Do(req)
		if err != nil {
			o.ClientEr = err.Error()
		} else {
			b, rerr := io.ReadAll(res.Body)
			res.Body.Close()
			if rerr != nil {
				o.ClientEr = "read body: " + rerr.Error()
			}
			o.Status, o.Header, o.Body = res.StatusCode, res.Header, string(b)
		}
	} else {
		rec := httptest.NewRecorder()
		func() {
			defer func() {
				if p := recover(); p != nil {
					o.Escaped = fmt.Sprint(p)
				}
			}()
			w.servers[in.Cfg].ServeHTTP(rec, makeRequest(in, txharness.With(context.Background(), l)))
		}()
		res := rec.Result()
		o.Status, o.Header, o.Body = res.StatusCode, res.Header, rec.Body.String()
	}
	o.Fields, o.Uploads, o.Recovers = l.Fields(), l.Uploads(), l.Recovers()
	ents, _ := os.ReadDir(w.tmp)
	for _, e := range ents {
		o.TmpLeft = append(o.TmpLeft, e.Name())
	}
	return o
}

// ---------------------------------------------------------------- oracles

func recoverSignature(in *httpInput, o *httpObservation) string {
	// subscription events over multipart/mixed: the aggregator keeps *graphql.Response values whose
	// Data aliases the buffer the generated executor reuses for the next event; when the ticker
	// flushes in between, a half-written buffer fails json.Marshal inside writeJson (a panic)
	if in.Transport == "mixed" && strings.HasPrefix(o.Recovers[0].Value, "unable to marshal") &&
		strings.Contains(o.Recovers[0].Stack, "multipartResponseAggregator).flush") && len(o.Fields) == 1 && o.Fields[0] == "count" {
		return "mixed-subscription-response-aliases-reused-buffer"
	}
	if in.PanicSig != "" {
		st := o.Recovers[0].Stack
		switch {
		case strings.HasPrefix(in.PanicSig, "addupload-") && strings.Contains(st, "RawParams).AddUpload"):
			return in.PanicSig
		case strings.HasPrefix(in.PanicSig, "null-body-") && strings.Contains(o.Recovers[0].Value, "nil pointer dereference"):
			return in.PanicSig
		}
	}
	return "recover-hook-fired:" + in.Transport + ":" + panicSite(o.Recovers[0].Stack)
}

// panicSite: the first gqlgen frame below the panic, as a stable label
func panicSite(stack string) string {
	lines := strings.Split(stack, "\n")
	seenPanic := false
	for _, ln := range lines {
		if strings.HasPrefix(ln, "panic(") {
			seenPanic = true
			continue
		}
		if seenPanic && (strings.HasPrefix(ln, "github.com/99designs/gqlgen/") || strings.HasPrefix(ln, "github.com/vektah/gqlparser/") || strings.HasPrefix(ln, "verif/work/farm/")) {
			if i := strings.LastIndex(ln, "("); i > 0 {
				ln = ln[:i]
			}
			return strings.TrimPrefix(ln, "github.com/99designs/gqlgen/")
		}
	}
	return "unknown"
}

func (w *httpWorker) judge(in *httpInput, o *httpObservation) {
	col := w.col
	fail := func(sig, f string, a ...any) {
		col.violate(sig, fmt.Sprintf(f, a...), map[string]any{"input": in, "observed": o, "limits": limitCfgs[in.Cfg]})
	}
	col.res.Evaluations++
	if strings.Contains(in.Class, ":") || in.Expect == "echo" {
		body := string(in.Body)
		if len(body) > 300 {
			body = body[:300] + "...(truncated)"
		}
		col.sample(map[string]any{"id": in.ID, "class": in.Class, "transport": in.Transport, "method": in.Method, "raw_query": in.RawQuery,
			"content_type": in.Header["Content-Type"], "body_head": body, "expect": in.Expect, "status": o.Status, "recover_calls": len(o.Recovers), "resolver_log": o.Fields})
	}
	col.count("requests_"+in.Transport, 1)
	col.count("class_"+strings.SplitN(in.Class, ":", 2)[0], 1)
	col.count(fmt.Sprintf("status_%d", o.Status), 1)
	col.count("limits_"+limitCfgs[in.Cfg].Name, 1)
	if in.Real {
		col.count("requests_over_real_socket", 1)
	}
	if in.UnknownLen {
		col.count("requests_unknown_length", 1)
	}
	col.distinct("input_bytes", in.Transport+"|"+in.RawQuery+"|"+in.Header["Content-Type"]+"|"+string(in.Body))
	if strings.Contains(in.Class, ":") {
		for _, m := range strings.Split(strings.SplitN(in.Class, ":", 2)[1], "+") {
			col.count("mutation_op_"+m, 1)
		}
	}

	// (1) gqlgen's own code never panics
	if len(o.Recovers) > 0 {
		col.count("recover_calls", int64(len(o.Recovers)))
		fail(recoverSignature(in, o), "RecoverFunc invoked %d time(s) although no resolver panics: %s", len(o.Recovers), o.Recovers[0].Value)
	}
	if o.Escaped != "" {
		fail("panic-escaped-servehttp:"+in.Transport, "panic escaped handler.Server.ServeHTTP: %s", o.Escaped)
	}
	if in.Real && o.ClientEr != "" {
		// over a real socket net/http may refuse the request itself; only a dropped exchange matters
		col.count("real_socket_client_errors", 1)
		if strings.Contains(o.ClientEr, "EOF") || strings.Contains(o.ClientEr, "reset") {
			fail("connection-dropped:"+in.Transport, "the server dropped the exchange: %s", o.ClientEr)
		}
		return
	}
	// (2) every temporary file is removed
	col.count("tmpdir_listings", 1)
	for _, n := range o.TmpLeft {
		if strings.HasPrefix(n, "gqlgen-") {
			fail("tempfile-left-behind", "%s remains in the private TMPDIR after the request", n)
			os.Remove(filepath.Join(w.tmp, n))
		} else {
			col.count("tmpdir_foreign_files", 1)
		}
	}
	spilled := false
	for _, u := range o.Uploads {
		if u.Spilled {
			spilled = true
		}
	}
	if len(o.Uploads) > 0 {
		if spilled {
			col.count("uploads_spill_to_disk_branch", 1)
		} else {
			col.count("uploads_in_memory_branch", 1)
		}
	}
	if len(o.Recovers) > 0 || o.Escaped != "" {
		return // what the client got after gqlgen's own panic is a consequence, already reported
	}
	// (3) the client receives a well-formed answer
	hasErrors, hasData := w.judgeBody(in, o, fail)
	if o.Status >= 500 {
		fail("server-error-status:"+in.Transport, "status %d for client input", o.Status)
	}
	if len(o.Fields) > 0 && (o.Status < 200 || o.Status > 299) {
		fail("resolver-ran-but-status:"+in.Transport, "resolvers %v ran, status %d", o.Fields, o.Status)
	}
	// (4) limits
	over := in.FormLen > 0 && int64(in.FormLen) > limitCfgs[in.Cfg].maxUpload()
	if over || in.Expect == "overlimit" {
		col.count("over_limit_bodies", 1)
		if len(o.Fields) > 0 {
			fail("over-limit-body-reached-resolver", "multipart body of %d bytes (MaxUploadSize %d) reached resolvers %v", len(in.Body), limitCfgs[in.Cfg].maxUpload(), o.Fields)
		}
		if !hasErrors {
			fail("over-limit-body-no-error", "multipart body of %d bytes (MaxUploadSize %d) answered without errors: %s", len(in.Body), limitCfgs[in.Cfg].maxUpload(), clip(o.Body))
		}
	}
	switch in.Expect {
	case "refuse":
		if len(o.Fields) > 0 || !hasErrors {
			fail("malformed-request-not-refused:"+in.Transport, "resolver log %v, errors present %v: %s", o.Fields, hasErrors, clip(o.Body))
		}
	case "echo":
		w.judgeEcho(in, o, hasData, fail)
	}
}

func clip(s string) string {
	if len(s) > 400 {
		return s[:400] + "..."
	}
	return s
}

// judgeBody: a JSON GraphQL response, an SSE stream of them, or a multipart/mixed stream of them.
func (w *httpWorker) judgeBody(in *httpInput, o *httpObservation, fail func(string, string, ...any)) (hasErrors, hasData bool) {
	if in.Method == "OPTIONS" || in.Method == "HEAD" {
		if o.Body != "" {
			fail("options-body", "%s answered with a body", in.Method)
		}
		return false, false
	}
	mt, params, _ := mime.ParseMediaType(o.Header.Get("Content-Type"))
	if len(o.Fields) == 1 && (o.Fields[0] == "count" || o.Fields[0] == "s1" || o.Fields[0] == "ctl") && (o.Body == "null" || o.Body == "") {
		// a valid subscription whose stream ended before its first event, on a transport that
		// answers once: gqlgen writes `null` / nothing. Not malformed input, hence not C10's
		// subject (C09 judges "every body is a GraphQL response" and reports this one).
		w.col.count("subscription_without_events_answers", 1)
		return false, false
	}
	var docs [][]byte
	switch mt {
	case "text/event-stream":
		w.col.count("sse_streams", 1)
		for _, evn := range strings.Split(o.Body, "\n\n") {
			for _, ln := range strings.Split(evn, "\n") {
				if d, ok := strings.CutPrefix(ln, "data: "); ok {
					docs = append(docs, []byte(d))
				}
			}
		}
		if !strings.Contains(o.Body, "event: complete") {
			fail("sse-stream-not-completed", "no complete event: %s", clip(o.Body))
		}
	case "multipart/mixed":
		w.col.count("multipart_mixed_streams", 1)
		mr := multipart.NewReader(strings.NewReader(o.Body), params["boundary"])
		for {
			p, err := mr.NextPart()
			if err == io.EOF {
				break
			}
			if err != nil {
				fail("multipart-mixed-framing", "%v in %s", err, clip(o.Body))
				break
			}
			b, _ := io.ReadAll(p)
			docs = append(docs, bytes.TrimSpace(b))
		}
	default:
		docs = [][]byte{[]byte(o.Body)}
	}
	if len(docs) == 0 && mt == "text/event-stream" && strings.Contains(o.Body, "event: complete") && len(o.Fields) > 0 {
		return false, false // a subscription that ended without emitting anything
	}
	if len(docs) == 0 {
		fail("empty-answer:"+in.Transport, "no GraphQL response in the answer: %s", clip(o.Body))
	}
	for i, d := range docs {
		v, hd, he, err := txharness.GraphQLBody(d)
		if err != nil && mt == "multipart/mixed" && i > 0 && v != nil && v.Get("incremental") != nil {
			err = nil // incremental delivery envelope (C12/C13 judge those)
		}
		if err != nil && v != nil && v.Kind == sjson.Object && v.Get("data") != nil && v.Get("errors") == nil && isSubscriptionLog(o.Fields) {
			// a valid subscription whose stream ended before its first event (count(n: 0) after a
			// number mutation): there is no result to report, any response object will do
			err = nil
		}
		if err != nil {
			fail("answer-not-a-graphql-response:"+in.Transport, "%v: %s", err, clip(string(d)))
			continue
		}
		hasErrors = hasErrors || he
		hasData = hasData || hd
	}
	return
}

func (w *httpWorker) judgeEcho(in *httpInput, o *httpObservation, hasData bool, fail func(string, string, ...any)) {
	w.col.count("well_formed_uploads", 1)
	if o.Status != 200 || !hasData {
		fail("well-formed-upload-refused", "status %d: %s", o.Status, clip(o.Body))
		return
	}
	v, _, _, _ := txharness.GraphQLBody([]byte(o.Body))
	node := v.Get("data").Get(in.EchoField)
	type info struct {
		Filename    string `json:"filename"`
		Size        int    `json:"size"`
		ContentType string `json:"contentType"`
		Sha256      string `json:"sha256"`
		Reread      bool   `json:"reread"`
	}
	var got []info
	if node == nil {
		fail("upload-echo-missing", "data.%s missing: %s", in.EchoField, clip(o.Body))
		return
	}
	raw := node.Render()
	var err error
	switch {
	case in.EchoIsStr && len(in.Echo) == 0:
		if node.Str != "none" {
			fail("upload-echo-differs", "null upload delivered as %q", node.Str)
		}
		return
	case in.EchoIsStr:
		var one info
		err = json.Unmarshal([]byte(node.Str), &one)
		got = []info{one}
	case in.EchoField == "singleUpload":
		var one info
		err = json.Unmarshal([]byte(raw), &one)
		got = []info{one}
	default:
		err = json.Unmarshal([]byte(raw), &got)
	}
	if err != nil || len(got) != len(in.Echo) {
		fail("upload-echo-differs", "expected %d upload infos, got %s (%v)", len(in.Echo), clip(raw), err)
		return
	}
	shared := map[string]int{}
	for i, wnt := range in.Echo {
		g := got[i]
		shared[wnt.Sha256+wnt.Filename]++
		if g.Filename != wnt.Filename || g.Size != wnt.Size || g.ContentType != wnt.ContentType || g.Sha256 != wnt.Sha256 {
			fail("upload-echo-differs", "upload #%d: sent %+v, the resolver read %+v", i, wnt, g)
			return
		}
		if !g.Reread {
			why := ""
			if i < len(o.Uploads) {
				why = o.Uploads[i].Why
			}
			fail("upload-reader-not-seekable", "upload #%d: seek / re-read failed: %s", i, why)
			return
		}
		w.col.count("upload_bytes_echoed", int64(wnt.Size))
		w.col.count("uploads_echoed", 1)
	}
	for _, n := range shared {
		if n > 1 {
			w.col.count("one_file_at_several_paths_interleaved", 1)
			break
		}
	}
}

// ---------------------------------------------------------------- the batch loop

func runHTTPChild(spec *batchSpec, col *collector) int {
	tmp := filepath.Join(spec.Dir, "tmp")
	os.MkdirAll(tmp, 0o755)
	os.Setenv("TMPDIR", tmp) // before any server exists; os.TempDir reads it on every call
	log.SetOutput(io.Discard)
	w := newHTTPWorker(col, tmp)
	defer w.real.Close()
	var inputs []*httpInput
	if spec.Replay != nil {
		inputs = []*httpInput{spec.Replay}
	} else {
		for i, in := range enumeratedInputs(spec.Seed) {
			if i%spec.Shards == spec.Shard {
				inputs = append(inputs, in)
			}
		}
		for i := spec.Shard; i < spec.Random; i += spec.Shards {
			inputs = append(inputs, randomInput(spec.Seed, i))
		}
	}
	cur := filepath.Join(spec.Dir, "current-input.json")
	for _, in := range inputs {
		// the input is on disk before it is sent: a crash is attributed to it
		b, _ := json.Marshal(in)
		if err := os.WriteFile(cur, b, 0o644); err != nil {
			col.inconclusive("cannot journal input: " + err.Error())
			return 3
		}
		done := make(chan *httpObservation, 1)
		go func() { done <- w.exec(in) }()
		select {
		case o := <-done:
			w.judge(in, o)
		case <-time.After(5 * time.Minute):
			col.inconclusive("watchdog: input " + in.ID + " (" + in.Class + ") did not finish in 5 minutes")
			return 3
		}
	}
	if n := len(txharness.Orphan.Fields()) + len(txharness.Orphan.Recovers()); n > 0 {
		col.inconclusive(fmt.Sprintf("%d resolver / recover events carried no request log", n))
	}
	col.count("recover_calls_process_total", txharness.TotalRecovers.Load())
	os.Remove(cur)
	return 0
}

// isSubscriptionLog: the only resolver that ran is a subscription root of the tx probe.
func isSubscriptionLog(fields []string) bool {
	if len(fields) == 0 {
		return false
	}
	for _, f := range fields {
		if f != "count" && f != "s1" && f != "ctl" {
			return false
		}
	}
	return true
}
