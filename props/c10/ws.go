package main

// Websocket half of C10: both subprotocols, every message type in every connection state, payloads
// of every JSON kind, binary / non-JSON / invalid-UTF-8 frames, control frames, oversize ids, abrupt
// closes and malformed upgrade requests, against handler.Server behind a real httptest.Server.
// Oracle: the recover hook never fires; after the fuzz frame the connection either is closed by the
// server (close frame) or keeps working (a probe operation is answered); the handler never returns
// while leaving the hijacked connection open; the process never dies.

import (
	"bufio"
	"bytes"
	"encoding/json"
	"fmt"
	"io"
	"log"
	"math/rand"
	"net"
	"net/http"
	"net/http/httptest"
	"strings"
	"sync"
	"sync/atomic"
	"time"

	"github.com/gorilla/websocket"

	"verif/internal/txharness"
)

type wsFrame struct {
	Kind string `json:"kind"` // text | binary | ping | pong | close | raw
	Data []byte `json:"data"`
}

type wsScript struct {
	ID       string    `json:"id"`
	Class    string    `json:"class"`
	Sub      string    `json:"subprotocol"`
	State    string    `json:"state"` // pre-init | post-init | active | after-complete
	Frames   []wsFrame `json:"frames"`
	Abrupt   bool      `json:"abrupt_close"`
	PanicSig string    `json:"panic_class,omitempty"`
	LeftOpen string    `json:"left_open_class,omitempty"`
}

const (
	gws  = "graphql-ws"
	gtws = "graphql-transport-ws"
)

func subscribeType(sub string) string {
	if sub == gtws {
		return "subscribe"
	}
	return "start"
}

// ---------------------------------------------------------------- server side evidence

type trackConn struct {
	net.Conn
	closed atomic.Bool
}

func (c *trackConn) Close() error { c.closed.Store(true); return c.Conn.Close() }

type trackListener struct {
	net.Listener
	mu    sync.Mutex
	conns map[string]*trackConn
}

func (l *trackListener) Accept() (net.Conn, error) {
	c, err := l.Listener.Accept()
	if err != nil {
		return nil, err
	}
	tc := &trackConn{Conn: c}
	l.mu.Lock()
	l.conns[c.RemoteAddr().String()] = tc
	l.mu.Unlock()
	return tc, nil
}

func (l *trackListener) get(remote string) *trackConn {
	l.mu.Lock()
	defer l.mu.Unlock()
	return l.conns[remote]
}

func (l *trackListener) forget(remote string) {
	l.mu.Lock()
	delete(l.conns, remote)
	l.mu.Unlock()
}

type connState struct {
	log      *txharness.ReqLog
	returned chan struct{}
}

type wsWorker struct {
	col    *collector
	ts     *httptest.Server
	ln     *trackListener
	mu     sync.Mutex
	states map[string]*connState
}

func newWSWorker(col *collector) *wsWorker {
	w := &wsWorker{col: col, states: map[string]*connState{}}
	srv := newModernServer(limitCfgs[0])
	w.ts = httptest.NewUnstartedServer(http.HandlerFunc(func(rw http.ResponseWriter, r *http.Request) {
		w.mu.Lock()
		st := w.states[r.Header.Get("X-Verif-Conn")]
		w.mu.Unlock()
		if st == nil {
			http.Error(rw, "harness: unknown connection id", 599)
			return
		}
		defer close(st.returned)
		srv.ServeHTTP(rw, r.WithContext(txharness.With(r.Context(), st.log)))
	}))
	w.ln = &trackListener{Listener: w.ts.Listener, conns: map[string]*trackConn{}}
	w.ts.Listener = w.ln
	w.ts.Config.ErrorLog = log.New(io.Discard, "", 0)
	w.ts.Start()
	return w
}

func (w *wsWorker) register(id string) *connState {
	st := &connState{log: &txharness.ReqLog{ID: id}, returned: make(chan struct{})}
	w.mu.Lock()
	w.states[id] = st
	w.mu.Unlock()
	return st
}

func (w *wsWorker) unregister(id string) {
	w.mu.Lock()
	delete(w.states, id)
	w.mu.Unlock()
}

// ---------------------------------------------------------------- client

type inFrame struct {
	typ  int
	data []byte
	err  error
}

type wsMsg struct {
	Type    string          `json:"type"`
	ID      string          `json:"id"`
	Payload json.RawMessage `json:"payload"`
}

type wsObservation struct {
	Received   []string                `json:"received"`
	CloseCode  int                     `json:"close_code"`
	CloseText  string                  `json:"close_text"`
	Closed     bool                    `json:"closed_by_server"`
	ProbeOK    bool                    `json:"probe_answered"`
	Returned   bool                    `json:"handler_returned"`
	ConnClosed bool                    `json:"server_closed_connection"`
	Recovers   []txharness.RecoverInfo `json:"recovers"`
	Fields     []string                `json:"resolver_log"`
	Note       string                  `json:"note,omitempty"`
}

const wsWatchdog = 60 * time.Second

type wsClient struct {
	c      *websocket.Conn
	frames chan inFrame
	obs    *wsObservation
}

func (cl *wsClient) send(f wsFrame) {
	cl.c.SetWriteDeadline(time.Now().Add(wsWatchdog))
	switch f.Kind {
	case "text":
		cl.c.WriteMessage(websocket.TextMessage, f.Data)
	case "binary":
		cl.c.WriteMessage(websocket.BinaryMessage, f.Data)
	case "ping":
		cl.c.WriteControl(websocket.PingMessage, f.Data, time.Now().Add(wsWatchdog))
	case "pong":
		cl.c.WriteControl(websocket.PongMessage, f.Data, time.Now().Add(wsWatchdog))
	case "close":
		cl.c.WriteControl(websocket.CloseMessage, f.Data, time.Now().Add(wsWatchdog))
	case "raw":
		cl.c.UnderlyingConn().Write(f.Data)
	}
}

func (cl *wsClient) sendJSON(v any) {
	b, _ := json.Marshal(v)
	cl.send(wsFrame{Kind: "text", Data: b})
}

// await reads frames until pred accepts a protocol message (true), the server closes (false), or
// the watchdog / evidence callback ends the wait (false with note).
func (cl *wsClient) await(pred func(m *wsMsg) bool, st *connState, tc *trackConn) (ok bool, timedOut bool) {
	deadline := time.After(wsWatchdog)
	tick := time.NewTicker(50 * time.Millisecond)
	defer tick.Stop()
	var grace <-chan time.Time
	for {
		select {
		case f := <-cl.frames:
			if f.err != nil {
				cl.obs.Closed = true
				if ce, isClose := f.err.(*websocket.CloseError); isClose {
					cl.obs.CloseCode, cl.obs.CloseText = ce.Code, ce.Text
				} else {
					cl.obs.CloseCode, cl.obs.CloseText = -1, f.err.Error()
				}
				return false, false
			}
			var m wsMsg
			if err := json.Unmarshal(f.data, &m); err != nil {
				cl.obs.Received = append(cl.obs.Received, "non-json:"+clip(string(f.data)))
				cl.obs.Note = "server sent a frame that is not a JSON message"
				continue
			}
			if len(cl.obs.Received) < 40 {
				cl.obs.Received = append(cl.obs.Received, m.Type+"/"+clipN(m.ID, 12))
			}
			if pred(&m) {
				return true, false
			}
		case <-tick.C:
			if grace == nil {
				select {
				case <-st.returned:
					// the handler is gone: nothing of gqlgen will touch this connection again
					// except the asynchronous closeOnCancel, which gets a grace period
					grace = time.After(3 * time.Second)
				default:
				}
			}
		case <-grace:
			cl.obs.Returned = true
			cl.obs.ConnClosed = tc != nil && tc.closed.Load()
			if !cl.obs.ConnClosed {
				return false, false // stable: handler returned, connection left open, client hears nothing
			}
			grace = nil
			st = &connState{returned: make(chan struct{})} // closed by the server: the read error will arrive
		case <-deadline:
			return false, true
		}
	}
}

func clipN(s string, n int) string {
	if len(s) > n {
		return s[:n] + "…"
	}
	return s
}

func (w *wsWorker) run(s *wsScript) {
	col := w.col
	st := w.register(s.ID)
	defer w.unregister(s.ID)
	obs := &wsObservation{}
	fail := func(sig, f string, a ...any) {
		col.violate(sig, fmt.Sprintf(f, a...), map[string]any{"script": s, "observed": obs})
	}
	col.count("ws_scripts", 1)
	col.count("ws_state_"+s.State, 1)
	col.count("ws_subprotocol_"+s.Sub, 1)
	col.count("class_"+s.Class, 1)
	col.count("requests_websocket", 1)
	d := websocket.Dialer{HandshakeTimeout: wsWatchdog}
	if s.Sub != "" {
		d.Subprotocols = []string{s.Sub}
	}
	c, _, err := d.Dial("ws"+strings.TrimPrefix(w.ts.URL, "http")+"/graphql", http.Header{"X-Verif-Conn": {s.ID}})
	if err != nil {
		col.inconclusive("websocket dial failed: " + err.Error())
		return
	}
	defer c.Close()
	local := c.LocalAddr().String()
	tc := w.ln.get(local)
	defer w.ln.forget(local)
	cl := &wsClient{c: c, frames: make(chan inFrame, 64), obs: obs}
	go func() {
		for {
			t, b, err := c.ReadMessage()
			cl.frames <- inFrame{t, b, err}
			if err != nil {
				return
			}
		}
	}()
	sub := s.Sub
	if sub == "" {
		sub = gws
	}
	isType := func(t string, id string) func(*wsMsg) bool {
		return func(m *wsMsg) bool { return m.Type == t && (id == "" || m.ID == id) }
	}
	setupFailed := func(what string, timedOut bool) {
		if timedOut {
			col.inconclusive("websocket setup watchdog (" + what + ") in script " + s.ID)
		} else {
			fail("ws-valid-session-refused:"+sub, "valid %s was not answered: close %d %q, received %v", what, obs.CloseCode, obs.CloseText, obs.Received)
		}
	}
	// ---- bring the connection into the state under test with valid messages
	if s.State != "pre-init" {
		cl.sendJSON(map[string]any{"type": "connection_init", "payload": map[string]any{}})
		if ok, to := cl.await(isType("connection_ack", ""), st, tc); !ok {
			setupFailed("connection_init", to)
			return
		}
	}
	dataType := map[string]string{gws: "data", gtws: "next"}[sub]
	switch s.State {
	case "active":
		cl.sendJSON(map[string]any{"type": subscribeType(sub), "id": "live", "payload": map[string]any{"query": `subscription { ctl(id: "x") { seq } }`}})
		if ok, to := cl.await(isType(dataType, "live"), st, tc); !ok {
			setupFailed("subscription", to)
			return
		}
	case "after-complete":
		cl.sendJSON(map[string]any{"type": subscribeType(sub), "id": "done", "payload": map[string]any{"query": `{ q1 }`}})
		if ok, to := cl.await(isType("complete", "done"), st, tc); !ok {
			setupFailed("query", to)
			return
		}
	}
	// ---- the fuzz frames
	for _, f := range s.Frames {
		cl.send(f)
	}
	waitReturn := func() bool {
		select {
		case <-st.returned:
			return true
		case <-time.After(wsWatchdog):
			return false
		}
	}
	if s.Abrupt {
		c.UnderlyingConn().Close()
		if !waitReturn() {
			col.inconclusive("handler did not return within the watchdog after an abrupt close, script " + s.ID)
		}
		col.count("ws_abrupt_closes", 1)
		w.finish(s, st, obs, fail)
		return
	}
	// ---- observe: closed, or still working
	alive := true
	var timedOut bool
	if s.State == "pre-init" {
		// control frames are consumed below the protocol layer: the server still waits for its
		// first message, so a valid connection_init follows them
		onlyControl := len(s.Frames) > 0
		for _, f := range s.Frames {
			if f.Kind != "ping" && f.Kind != "pong" {
				onlyControl = false
			}
		}
		if onlyControl {
			cl.sendJSON(map[string]any{"type": "connection_init"})
		}
		alive, timedOut = cl.await(isType("connection_ack", ""), st, tc)
	}
	if alive {
		cl.sendJSON(map[string]any{"type": subscribeType(sub), "id": "probe", "payload": map[string]any{"query": `{ q2 }`}})
		gotData := false
		alive, timedOut = cl.await(func(m *wsMsg) bool {
			if m.ID == "probe" && m.Type == dataType && bytes.Contains(m.Payload, []byte(`"q2":"q2"`)) {
				gotData = true
			}
			return m.ID == "probe" && m.Type == "complete"
		}, st, tc)
		obs.ProbeOK = alive && gotData
		if alive && !gotData {
			fail("ws-probe-without-data:"+sub, "the probe query completed without its data message; received %v", obs.Received)
		}
	}
	switch {
	case timedOut:
		col.inconclusive(fmt.Sprintf("websocket watchdog: neither closed nor answering, handler still running (script %s class %s)", s.ID, s.Class))
	case obs.ProbeOK:
		col.count("ws_outcome_kept_working", 1)
	case obs.Closed && obs.CloseCode > 0 && obs.CloseCode != websocket.CloseAbnormalClosure:
		col.count(fmt.Sprintf("ws_outcome_close_%d", obs.CloseCode), 1)
	case obs.Closed:
		// the TCP connection ended without a close frame reaching the client (typically a reset
		// because the probe was still in flight when the server closed): counted, see assumptions
		col.count("ws_outcome_dropped_without_close_frame", 1)
	case obs.Returned && !obs.ConnClosed:
		sig := "ws-connection-left-open:" + sub + ":" + s.Class
		if s.LeftOpen != "" {
			sig = s.LeftOpen
		}
		col.count("ws_outcome_left_open", 1)
		fail(sig, "transport.Websocket.Do returned, the hijacked connection was never closed and the client received nothing (frames so far %v)", obs.Received)
	}
	if obs.Note != "" {
		fail("ws-server-sent-non-json:"+sub, "%s: %v", obs.Note, obs.Received)
	}
	c.Close()
	if !waitReturn() {
		col.inconclusive("handler did not return within the watchdog after the client closed, script " + s.ID)
	}
	w.finish(s, st, obs, fail)
}

func (w *wsWorker) finish(s *wsScript, st *connState, obs *wsObservation, fail func(string, string, ...any)) {
	// subscription goroutines of the connection report asynchronously; they are cancelled by close
	time.Sleep(2 * time.Millisecond)
	obs.Recovers, obs.Fields = st.log.Recovers(), st.log.Fields()
	w.col.mu.Lock()
	w.col.res.Evaluations++
	w.col.mu.Unlock()
	if len(obs.Recovers) > 0 {
		w.col.count("recover_calls", int64(len(obs.Recovers)))
		sig := "recover-hook-fired:websocket:" + panicSite(obs.Recovers[0].Stack)
		if s.PanicSig != "" && strings.Contains(obs.Recovers[0].Value, "nil pointer dereference") && strings.Contains(obs.Recovers[0].Stack, "wsConnection).subscribe") {
			sig = s.PanicSig
		}
		fail(sig, "RecoverFunc invoked %d time(s) although no resolver panics: %s", len(obs.Recovers), obs.Recovers[0].Value)
	}
	w.col.distinct("ws_scripts", s.Sub+"|"+s.State+"|"+fmt.Sprint(s.Frames)+fmt.Sprint(s.Abrupt))
}

// ---------------------------------------------------------------- scripts

var wsTypes = []string{"connection_init", "connection_terminate", "start", "stop", "connection_ack", "connection_error", "data", "error", "complete", "ka",
	"subscribe", "next", "ping", "pong", "", "bogus", "CONNECTION_INIT", "#missing", "#number", "#null", "#array"}

var wsPayloads = []string{"#absent", "null", "true", "0", `"s"`, "[]", "[1,[2,[3]]]", "{}", `{"query":"{ q1 }"}`, `{"query":"subscription { count(n: 2) }"}`, `{"query":1}`,
	`{"query":null}`, `{"query":"{ q1 }","variables":[]}`, `{"query":"{ q1 }","variables":null,"operationName":null,"extensions":null}`, `{"query":"{"}`, `{"query":"{ nope }"}`,
	`{"query":"subscription { count(n: 2) @skip(if: true) }"}`, `{"query":"subscription($s: Boolean!) { s1 @include(if: $s) }","variables":{"s":false}}`,
	`{"a":{"b":{"c":[[[{"d":null}]]]}}}`, `{"Authorization":42,"token":{"x":1},"n":[1]}`, `{"Authorization":null,"token":true}`, `{"authorization":["a"],"token":"t"}`, `{"query":"{ q1 }","extensions":{"persistedQuery":1}}`, `{"headers":1,"query":"{ q1 }"}`, `{"query":"mutation { m1 }","operationName":"Zzz"}`}

var wsIDs = []string{"#absent", `""`, `"1"`, `"live"`, `"done"`, "1", "null", "{}", `["a"]`, "#big"}

var wsStates = []string{"pre-init", "post-init", "active", "after-complete"}

func wsMessage(typ, id, payload string) []byte {
	var parts []string
	switch typ {
	case "#missing":
	case "#number":
		parts = append(parts, `"type":7`)
	case "#null":
		parts = append(parts, `"type":null`)
	case "#array":
		parts = append(parts, `"type":["start"]`)
	default:
		b, _ := json.Marshal(typ)
		parts = append(parts, `"type":`+string(b))
	}
	switch id {
	case "#absent":
	case "#big":
		parts = append(parts, `"id":"`+strings.Repeat("i", 1<<16)+`"`)
	default:
		parts = append(parts, `"id":`+id)
	}
	if payload != "#absent" {
		parts = append(parts, `"payload":`+payload)
	}
	return []byte("{" + strings.Join(parts, ",") + "}")
}

func firstIsNull(raw string) bool { return strings.TrimSpace(raw) == "null" }

func jsonKindNotObject(raw string) bool {
	var v any
	if json.Unmarshal([]byte(raw), &v) != nil {
		return false
	}
	switch v.(type) {
	case map[string]any, nil:
		return false
	}
	return true
}

func protoScript(class, sub, state, typ, id, payload string, binary bool) *wsScript {
	kind := "text"
	if binary {
		kind = "binary"
	}
	s := &wsScript{Class: class, Sub: sub, State: state, Frames: []wsFrame{{Kind: kind, Data: wsMessage(typ, id, payload)}}}
	eff := sub
	if eff == "" {
		eff = gws
	}
	// class (a): a subscribe / start message whose payload is JSON null, on an initialised connection
	strID := id == "#absent" || id == "#big" || strings.HasPrefix(id, `"`)
	if state != "pre-init" && typ == subscribeType(eff) && payload == "null" && strID {
		s.PanicSig = "null-body-nil-deref:websocket"
	}
	// class (c): connection_init whose payload is JSON but not an object
	if state == "pre-init" && typ == "connection_init" && payload != "#absent" && jsonKindNotObject(payload) && strID {
		s.LeftOpen = "ws-init-nonobject-payload-left-open:" + eff
	}
	return s
}

var rawFrames = []struct {
	kind string
	data string
}{
	{"text", ""}, {"text", " "}, {"text", "null"}, {"text", "true"}, {"text", "0"}, {"text", `"connection_init"`}, {"text", "[]"}, {"text", `[{"type":"connection_init"}]`},
	{"text", "{"}, {"text", `{"type":"connection_init"`}, {"text", `{"type":"connection_init"} trailing`}, {"text", `{"type":"connection_init"}{"type":"connection_init"}`},
	{"text", "\xff\xfe\xfd"}, {"text", `{"type":"connection_init","payload":{"a":"` + "\xff" + `"}}`}, {"text", `{"type":"start","id":"x","payload":{"query":"` + "\xc3\x28" + `"}}`},
	{"binary", "\x00\x01\x02\x03"}, {"binary", ""}, {"binary", `{"type":"connection_init"}`}, {"binary", "\xff\xfe"},
	{"text", `{"type":"connection_init","payload":` + strings.Repeat("[", 10010) + strings.Repeat("]", 10010) + `}`},
	{"text", `{"type":"start","id":"deep","payload":{"query":"{ q1 }","variables":{"a":` + strings.Repeat("[", 9000) + strings.Repeat("]", 9000) + `}}}`},
	{"text", `{"type":"connection_init","payload":{"k":"` + strings.Repeat("v", 1<<20) + `"}}`},
	{"text", `{"TYPE":"connection_init"}`}, {"text", `{"type":"connection_init","type":"start"}`}, {"text", `{"type":"connection_init","id":1}`},
	{"ping", "p"}, {"ping", ""}, {"pong", "unsolicited"}, {"ping", strings.Repeat("x", 125)},
	{"close", ""}, {"close", "\x03\xe8"}, {"close", "\x03\xe8bye"}, {"close", "\x03\xe9"}, {"close", "\x03\xea"}, {"close", "\x03\xe7"}, {"close", "\x0f\xa0app"}, {"close", "\x03"}, {"close", "\x03\xe8\xff\xfe"},
	{"raw", "\x81\x05hello"}, {"raw", "\xff\xff\xff\xff\xff\xff\xff\xff\xff\xff"}, {"raw", "\x81\xfe\xff\xff"}, {"raw", "\x01\x81\x00\x00\x00\x00a"}, {"raw", "\x80\x80\x00\x00\x00\x00"},
	{"raw", "\x8f\x80\x00\x00\x00\x00"}, {"raw", "\xc1\x81\x00\x00\x00\x00a"}, {"raw", "\x89\xfe\x00\x7e" + strings.Repeat("\x00", 4)}, {"raw", "GET / HTTP/1.1\r\n\r\n"},
}

func wsScripts(seed int64, thorough bool, randomN int) []*wsScript {
	var out []*wsScript
	subs := []string{gws, gtws}
	n := 0
	// a client that negotiates only the application's own subprotocol: gqlgen has no message
	// exchanger for it and must end the connection itself
	for _, fr := range []string{`{"type":"connection_init"}`, `{"type":"start","id":"1","payload":{"query":"{ q1 }"}}`, `x`} {
		out = append(out, &wsScript{Class: "ws-foreign-subprotocol", Sub: "verif-foreign", State: "pre-init", Frames: []wsFrame{{Kind: "text", Data: []byte(fr)}}})
	}
	// every message type in every state on both subprotocols, payloads of every JSON kind
	for _, sub := range subs {
		for _, state := range wsStates {
			for ti, typ := range wsTypes {
				for pi, payload := range wsPayloads {
					full := thorough || typ == "connection_init" || typ == "start" || typ == "subscribe"
					if !full && (pi+ti+len(state))%4 != 0 {
						continue
					}
					id := wsIDs[n%len(wsIDs)]
					if typ == "start" || typ == "subscribe" || typ == "connection_init" {
						id = `"f` + fmt.Sprint(n%3) + `"`
					}
					n++
					out = append(out, protoScript("ws-type-state-payload", sub, state, typ, id, payload, n%5 == 0))
				}
			}
		}
	}
	// every id shape with every type
	for _, sub := range subs {
		for _, state := range []string{"post-init", "active"} {
			for _, typ := range wsTypes {
				for _, id := range wsIDs {
					if !thorough && state == "active" && id != `"live"` && id != "#big" {
						continue
					}
					out = append(out, protoScript("ws-id-shape", sub, state, typ, id, `{"query":"{ q3 }"}`, false))
				}
			}
		}
	}
	// no subprotocol requested (falls back to graphql-ws) and init payload kinds
	for _, p := range wsPayloads {
		out = append(out, protoScript("ws-no-subprotocol", "", "pre-init", "connection_init", "#absent", p, false))
		out = append(out, protoScript("ws-no-subprotocol", "", "post-init", "start", `"n"`, p, false))
	}
	// frames that are not protocol messages, control frames, raw wire damage
	for _, sub := range subs {
		for _, state := range wsStates {
			for _, f := range rawFrames {
				// raw wire bytes may leave the server waiting for the rest of a frame: the client then
				// drops the connection instead of probing
				out = append(out, &wsScript{Class: "ws-frame-" + f.kind, Sub: sub, State: state, Abrupt: f.kind == "raw", Frames: []wsFrame{{Kind: f.kind, Data: []byte(f.data)}}})
			}
			// abrupt closes in every state, also right after a message was sent
			out = append(out, &wsScript{Class: "ws-abrupt-close", Sub: sub, State: state, Abrupt: true})
			out = append(out, &wsScript{Class: "ws-abrupt-close", Sub: sub, State: state, Abrupt: true,
				Frames: []wsFrame{{Kind: "text", Data: wsMessage(subscribeType(sub), `"ab"`, `{"query":"subscription { ctl(id: \"a\") { seq } }"}`)}}})
			out = append(out, &wsScript{Class: "ws-abrupt-close", Sub: sub, State: state, Abrupt: true, Frames: []wsFrame{{Kind: "raw", Data: []byte("\x81\xfe\x10\x00\x00\x00\x00\x00{\"type\":")}}})
		}
	}
	// seeded byte-level mutation of valid protocol messages
	for i := 0; i < randomN; i++ {
		r := rand.New(rand.NewSource(seed*15485863 + int64(i)))
		sub := subs[r.Intn(2)]
		base := [][]byte{
			wsMessage("connection_init", "#absent", `{"Authorization":"x"}`),
			wsMessage(subscribeType(sub), `"m1"`, `{"query":"query($s:String){ echo(s:$s) }","variables":{"s":"v"},"operationName":null}`),
			wsMessage(subscribeType(sub), `"m2"`, `{"query":"subscription { count(n: 3) }"}`),
			wsMessage(map[string]string{gws: "stop", gtws: "complete"}[sub], `"live"`, "#absent"),
			wsMessage(map[string]string{gws: "connection_terminate", gtws: "ping"}[sub], "#absent", "{}"),
		}[r.Intn(5)]
		var data []byte
		class := "ws-mutated-bytes"
		if r.Intn(3) == 0 {
			if b, ok := mutateJSON(r, base); ok {
				data, class = b, "ws-mutated-structure"
			}
		}
		if data == nil {
			data, _ = mutateBytes(r, base)
		}
		kind := "text"
		if r.Intn(6) == 0 {
			kind = "binary"
		}
		s := &wsScript{Class: class, Sub: sub, State: wsStates[r.Intn(4)], Frames: []wsFrame{{Kind: kind, Data: data}}}
		labelMutated(s)
		out = append(out, s)
	}
	for i, s := range out {
		s.ID = fmt.Sprintf("w%06d", i)
	}
	return out
}

// labelMutated recognises, on a mutated frame, the two input classes with known signatures.
func labelMutated(s *wsScript) {
	var m struct {
		Type    string          `json:"type"`
		ID      string          `json:"id"`
		Payload json.RawMessage `json:"payload"`
	}
	d := json.NewDecoder(bytes.NewReader(s.Frames[0].Data))
	if d.Decode(&m) != nil {
		return
	}
	if s.State != "pre-init" && m.Type == subscribeType(s.Sub) && firstIsNull(string(m.Payload)) && len(m.Payload) > 0 {
		s.PanicSig = "null-body-nil-deref:websocket"
	}
	if s.State == "pre-init" && m.Type == "connection_init" && len(m.Payload) > 0 && jsonKindNotObject(string(m.Payload)) {
		s.LeftOpen = "ws-init-nonobject-payload-left-open:" + s.Sub
	}
}

// ---------------------------------------------------------------- malformed upgrade requests

var badHandshakes = []struct{ name, req string }{
	{"no-key", "GET /graphql HTTP/1.1\r\nHost: x\r\nUpgrade: websocket\r\nConnection: Upgrade\r\nSec-WebSocket-Version: 13\r\n"},
	{"bad-version", "GET /graphql HTTP/1.1\r\nHost: x\r\nUpgrade: websocket\r\nConnection: Upgrade\r\nSec-WebSocket-Version: 12\r\nSec-WebSocket-Key: dGhlIHNhbXBsZSBub25jZQ==\r\n"},
	{"no-connection-header", "GET /graphql HTTP/1.1\r\nHost: x\r\nUpgrade: websocket\r\nSec-WebSocket-Version: 13\r\nSec-WebSocket-Key: dGhlIHNhbXBsZSBub25jZQ==\r\n"},
	{"upgrade-other-protocol", "GET /graphql HTTP/1.1\r\nHost: x\r\nUpgrade: h2c\r\nConnection: Upgrade\r\n"},
	{"post-with-upgrade", "POST /graphql HTTP/1.1\r\nHost: x\r\nUpgrade: websocket\r\nConnection: Upgrade\r\nContent-Type: application/json\r\nContent-Length: 18\r\nSec-WebSocket-Version: 13\r\nSec-WebSocket-Key: dGhlIHNhbXBsZSBub25jZQ==\r\n\r\n{\"query\":\"{ q1 }\"}"},
	{"bad-key", "GET /graphql HTTP/1.1\r\nHost: x\r\nUpgrade: websocket\r\nConnection: Upgrade\r\nSec-WebSocket-Version: 13\r\nSec-WebSocket-Key: short\r\n"},
	{"cross-origin", "GET /graphql HTTP/1.1\r\nHost: x\r\nOrigin: http://evil.example\r\nUpgrade: websocket\r\nConnection: Upgrade\r\nSec-WebSocket-Version: 13\r\nSec-WebSocket-Key: dGhlIHNhbXBsZSBub25jZQ==\r\n"},
	{"unsupported-subprotocol", "GET /graphql HTTP/1.1\r\nHost: x\r\nUpgrade: websocket\r\nConnection: Upgrade\r\nSec-WebSocket-Version: 13\r\nSec-WebSocket-Protocol: mqtt\r\nSec-WebSocket-Key: dGhlIHNhbXBsZSBub25jZQ==\r\n"},
}

func (w *wsWorker) runHandshake(i int) {
	h := badHandshakes[i]
	id := fmt.Sprintf("hs%02d", i)
	st := w.register(id)
	defer w.unregister(id)
	col := w.col
	col.count("ws_bad_handshakes", 1)
	col.count("requests_websocket", 1)
	conn, err := net.Dial("tcp", strings.TrimPrefix(w.ts.URL, "http://"))
	if err != nil {
		col.inconclusive("dial: " + err.Error())
		return
	}
	defer conn.Close()
	req := h.req
	if !strings.Contains(req, "\r\n\r\n") {
		req += "X-Verif-Conn: " + id + "\r\n\r\n"
	} else {
		req = strings.Replace(req, "\r\n\r\n", "\r\nX-Verif-Conn: "+id+"\r\n\r\n", 1)
	}
	conn.SetDeadline(time.Now().Add(wsWatchdog))
	conn.Write([]byte(req))
	res, err := http.ReadResponse(bufio.NewReader(conn), nil)
	obs := map[string]any{"handshake": h.name, "request": h.req}
	fail := func(sig, f string, a ...any) { col.violate(sig, fmt.Sprintf(f, a...), obs) }
	col.mu.Lock()
	col.res.Evaluations++
	col.mu.Unlock()
	if err != nil {
		fail("ws-handshake-no-answer:"+h.name, "no HTTP answer: %v", err)
		return
	}
	obs["status"] = res.StatusCode
	if res.StatusCode == 101 {
		col.count("ws_bad_handshake_upgraded_anyway", 1)
		// an accepted upgrade must then behave like a websocket: read until close
		conn.SetDeadline(time.Now().Add(5 * time.Second))
		io.Copy(io.Discard, conn)
	} else {
		conn.SetDeadline(time.Now().Add(3 * time.Second))
		b, _ := io.ReadAll(res.Body)
		obs["body"] = string(b)
		obs["content_type"] = res.Header.Get("Content-Type")
		col.count(fmt.Sprintf("ws_bad_handshake_status_%d", res.StatusCode), 1)
		if res.StatusCode < 400 || res.StatusCode > 499 {
			fail("ws-handshake-refusal-status:"+h.name, "status %d", res.StatusCode)
		}
		if _, _, _, jerr := txharness.GraphQLBody(b); jerr != nil {
			// not a GraphQL error: then it must at least be one coherent plain-text error
			if bytes.Contains(b, []byte(`{"errors"`)) {
				fail("ws-upgrade-refusal-mixed-body", "refused upgrade answered with a plain-text error followed by a JSON error: %q (Content-Type %q)", clip(string(b)), res.Header.Get("Content-Type"))
			}
		}
	}
	conn.Close()
	select {
	case <-st.returned:
	case <-time.After(wsWatchdog):
		col.inconclusive("handler did not return after bad handshake " + h.name)
	}
	if rs := st.log.Recovers(); len(rs) > 0 {
		fail("recover-hook-fired:websocket-handshake:"+panicSite(rs[0].Stack), "RecoverFunc invoked: %s", rs[0].Value)
	}
}

// ---------------------------------------------------------------- the batch loop

func runWSChild(spec *batchSpec, col *collector) int {
	log.SetOutput(io.Discard)
	w := newWSWorker(col)
	defer w.ts.Close()
	var scripts []*wsScript
	if spec.ReplayWS != nil {
		scripts = []*wsScript{spec.ReplayWS}
	} else {
		for i, s := range wsScripts(spec.Seed, spec.Thorough, spec.Random) {
			if i%spec.Shards == spec.Shard {
				scripts = append(scripts, s)
			}
		}
		if spec.Shard == 0 {
			for i := range badHandshakes {
				w.runHandshake(i)
			}
		}
	}
	journal, err := openJournal(spec.Dir)
	if err != nil {
		col.inconclusive("cannot journal scripts: " + err.Error())
		return 3
	}
	var wg sync.WaitGroup
	sem := make(chan struct{}, 6)
	for _, s := range scripts {
		s := s
		journal.begin(s.ID, s)
		sem <- struct{}{}
		wg.Add(1)
		go func() {
			defer wg.Done()
			defer func() { <-sem }()
			w.run(s)
			journal.end(s.ID)
		}()
	}
	wg.Wait()
	if n := len(txharness.Orphan.Fields()) + len(txharness.Orphan.Recovers()); n > 0 {
		col.inconclusive(fmt.Sprintf("%d resolver / recover events carried no connection log", n))
	}
	col.count("recover_calls_process_total", txharness.TotalRecovers.Load())
	return 0
}
