// C10: malformed client input gets a client error, never gqlgen's own panic path.
//
// Parent process: plans batches (a pure function of seed and tier), re-executes its own binary once
// per batch (VERIF_C10_CHILD=<spec file>), merges the children's findings. A child that dies is an
// observation: the input it had journalled to disk before sending it is reported.
//
// HTTP children (child_http.go) run inputs one at a time against handler.Server with every
// transport registered, under a private TMPDIR that is listed after every request, with a counting
// RecoverFunc and resolvers that never panic. Websocket children (ws.go) drive both subprotocols
// over real sockets with a gorilla/websocket client.
package main

import (
	"bufio"
	"encoding/json"
	"fmt"
	"os"
	"os/exec"
	"path/filepath"
	"runtime"
	"sort"
	"strings"
	"sync"
	"time"

	"verif/internal/ev"
)

type batchSpec struct {
	Kind     string     `json:"kind"` // http | ws
	Dir      string     `json:"dir"`
	Seed     int64      `json:"seed"`
	Shard    int        `json:"shard"`
	Shards   int        `json:"shards"`
	Random   int        `json:"random"` // number of seeded random inputs (whole check, sharded)
	Thorough bool       `json:"thorough"`
	Replay   *httpInput `json:"replay,omitempty"`
	ReplayWS *wsScript  `json:"replay_ws,omitempty"`
}

// ---------------------------------------------------------------- journal (websocket children)

type journal struct {
	mu sync.Mutex
	f  *os.File
}

func openJournal(dir string) (*journal, error) {
	f, err := os.Create(filepath.Join(dir, "journal.jsonl"))
	if err != nil {
		return nil, err
	}
	return &journal{f: f}, nil
}

func (j *journal) begin(id string, v any) {
	b, _ := json.Marshal(map[string]any{"begin": id, "script": v})
	j.mu.Lock()
	j.f.Write(append(b, '\n'))
	j.mu.Unlock()
}

func (j *journal) end(id string) {
	j.mu.Lock()
	fmt.Fprintf(j.f, "{\"end\":%q}\n", id)
	j.mu.Unlock()
}

func inFlight(dir string) []json.RawMessage {
	f, err := os.Open(filepath.Join(dir, "journal.jsonl"))
	if err != nil {
		return nil
	}
	defer f.Close()
	open := map[string]json.RawMessage{}
	sc := bufio.NewScanner(f)
	sc.Buffer(make([]byte, 1<<20), 64<<20)
	for sc.Scan() {
		var l struct {
			Begin  string          `json:"begin"`
			End    string          `json:"end"`
			Script json.RawMessage `json:"script"`
		}
		if json.Unmarshal(sc.Bytes(), &l) != nil {
			continue
		}
		if l.Begin != "" {
			open[l.Begin] = l.Script
		}
		delete(open, l.End)
	}
	var out []json.RawMessage
	for _, v := range open {
		out = append(out, v)
	}
	return out
}

// ---------------------------------------------------------------- child entry

func childMain(specPath string) int {
	b, err := os.ReadFile(specPath)
	if err != nil {
		fmt.Println("child: cannot read spec:", err)
		return 3
	}
	var spec batchSpec
	if err := json.Unmarshal(b, &spec); err != nil {
		fmt.Println("child: bad spec:", err)
		return 3
	}
	col := newCollector()
	code := 3
	switch spec.Kind {
	case "http":
		code = runHTTPChild(&spec, col)
	case "ws":
		code = runWSChild(&spec, col)
	}
	col.write(filepath.Join(spec.Dir, "result.json"))
	return code
}

// ---------------------------------------------------------------- parent

func main() {
	if p := os.Getenv("VERIF_C10_CHILD"); p != "" {
		os.Exit(childMain(p))
	}
	rep := ev.New("C10", "exploration")
	rep.Rule = "inputs = an enumerated structure-aware set (JSON bodies of every top-level kind and member type on POST / SSE / multipart-mixed / urlencoded; query strings; application/graphql and urlencoded bodies; multipart forms: every operations / map shape, every map path of depth <= 3 over variables of every JSON kind, part orders, framing damage; well-formed uploads of sizes 0..70000 under 5 MaxUploadSize/MaxMemory configurations incl. bodies at limit-2..limit+2 with known and unknown length; websocket: message type x state x payload kind x id shape on both subprotocols, non-JSON / binary / control / raw frames, abrupt closes, malformed upgrades) + seeded byte-level and JSON-structure mutations of valid requests. Non-trivial = every input other than an unmodified valid request; distinct = distinct request byte strings / websocket scripts"
	rep.Assumptions = []string{
		"resolvers of the harness never panic, so any RecoverFunc invocation is gqlgen's (or gqlparser's) own panic",
		"plain transports are driven through httptest.ResponseRecorder (1/16 of the enumerated and 1/64 of the random inputs additionally through a real socket); websocket always through a real httptest.Server",
		"mime/multipart passes file names through filepath.Base (standard library); the echo oracle expects exactly that",
		"a websocket connection that ends without a close frame (TCP reset while client data was in flight) is counted, not failed; 'left open' is decided on positive evidence: transport.Websocket.Do has returned, the hijacked connection was not closed 3 s later and the client received nothing",
		"well-formedness of an answer: strict JSON object with data and/or a non-empty errors array (SSE data lines / multipart-mixed parts likewise)",
	}
	seed := ev.Seed()
	thorough := ev.Tier() == "thorough"
	work := filepath.Join(ev.Root, "work", "c10", fmt.Sprintf("run-%d", os.Getpid()))
	os.RemoveAll(work)
	os.MkdirAll(work, 0o755)
	defer os.RemoveAll(work)
	self, err := os.Executable()
	if err != nil {
		rep.Inconclusive("cannot find own executable: " + err.Error())
		os.Exit(rep.Finish(0, 0))
	}

	var specs []*batchSpec
	if r := os.Getenv("VERIF_REPLAY"); r != "" {
		s, err := replaySpec(r)
		if err != nil {
			fmt.Println("replay:", err)
			os.Exit(2)
		}
		specs = []*batchSpec{s}
	} else {
		httpShards, wsShards := ev.Pick(12, 24), ev.Pick(4, 8)
		for i := 0; i < httpShards; i++ {
			specs = append(specs, &batchSpec{Kind: "http", Seed: seed, Shard: i, Shards: httpShards, Random: ev.Pick(14000, 500000), Thorough: thorough})
		}
		for i := 0; i < wsShards; i++ {
			specs = append(specs, &batchSpec{Kind: "ws", Seed: seed, Shard: i, Shards: wsShards, Random: ev.Pick(300, 12000), Thorough: thorough})
		}
	}
	for i, s := range specs {
		s.Dir = filepath.Join(work, fmt.Sprintf("%s-%02d", s.Kind, i))
		os.MkdirAll(s.Dir, 0o755)
	}

	par := runtime.NumCPU()
	sem := make(chan struct{}, par)
	var wg sync.WaitGroup
	var mu sync.Mutex
	var evals int64
	watchdog := time.Duration(ev.Pick(20, 60)) * time.Minute
	for _, s := range specs {
		s := s
		wg.Add(1)
		go func() {
			defer wg.Done()
			sem <- struct{}{}
			defer func() { <-sem }()
			res, died := runChild(self, s, watchdog)
			mu.Lock()
			defer mu.Unlock()
			merge(rep, s, res, died)
			if res != nil {
				evals += res.Evaluations
			}
		}()
	}
	wg.Wait()
	if a, t := rep.Get("recover_calls"), rep.Get("recover_calls_process_total"); t > a {
		rep.Violate("recover-unattributed", map[string]any{"why": fmt.Sprintf("%d RecoverFunc invocations in the workers, only %d attributed to an input", t, a)})
	}
	rep.Set("limit_configurations", limitCfgs)
	distinct := int64(rep.DistinctLen("input_bytes") + rep.DistinctLen("ws_scripts"))
	os.Exit(rep.Finish(evals, distinct))
}

type died struct {
	Why    string
	Stderr string
}

func runChild(self string, s *batchSpec, watchdog time.Duration) (*childResult, *died) {
	b, _ := json.Marshal(s)
	specPath := filepath.Join(s.Dir, "spec.json")
	os.WriteFile(specPath, b, 0o644)
	errFile, _ := os.Create(filepath.Join(s.Dir, "stderr.txt"))
	defer errFile.Close()
	cmd := exec.Command(self)
	cmd.Env = append(os.Environ(), "VERIF_C10_CHILD="+specPath)
	cmd.Stdout = errFile
	cmd.Stderr = errFile
	if err := cmd.Start(); err != nil {
		return nil, &died{Why: "cannot start child: " + err.Error()}
	}
	done := make(chan error, 1)
	go func() { done <- cmd.Wait() }()
	var werr error
	select {
	case werr = <-done:
	case <-time.After(watchdog):
		cmd.Process.Signal(os.Interrupt)
		time.Sleep(2 * time.Second)
		cmd.Process.Kill()
		<-done
		return readResult(s.Dir), &died{Why: "watchdog"}
	}
	res := readResult(s.Dir)
	if res == nil || !res.Done {
		tail, _ := os.ReadFile(filepath.Join(s.Dir, "stderr.txt"))
		if len(tail) > 6000 {
			tail = tail[len(tail)-6000:]
		}
		return res, &died{Why: fmt.Sprintf("child exited without a result (%v)", werr), Stderr: string(tail)}
	}
	return res, nil
}

func readResult(dir string) *childResult {
	b, err := os.ReadFile(filepath.Join(dir, "result.json"))
	if err != nil {
		return nil
	}
	var r childResult
	if json.Unmarshal(b, &r) != nil {
		return nil
	}
	return &r
}

func merge(rep *ev.Reporter, s *batchSpec, res *childResult, d *died) {
	if d != nil {
		if d.Why == "watchdog" {
			rep.Inconclusive(fmt.Sprintf("%s batch %d exceeded the batch watchdog", s.Kind, s.Shard))
		} else {
			// the worker process died: report the input(s) that were journalled but not finished
			detail := map[string]any{"why": d.Why, "stderr_tail": d.Stderr, "batch": s}
			sig := "worker-died:" + s.Kind
			if s.Kind == "http" {
				if b, err := os.ReadFile(filepath.Join(s.Dir, "current-input.json")); err == nil {
					detail["input"] = json.RawMessage(b)
					var in httpInput
					if json.Unmarshal(b, &in) == nil {
						sig += ":" + in.Transport
					}
				}
			} else {
				detail["scripts_in_flight"] = inFlight(s.Dir)
			}
			for _, ln := range strings.Split(d.Stderr, "\n") {
				if strings.HasPrefix(ln, "panic:") || strings.HasPrefix(ln, "fatal error:") {
					detail["crash"] = ln
					break
				}
			}
			if strings.Contains(d.Stderr, "panic: unable to marshal") && strings.Contains(d.Stderr, "multipartResponseAggregator).flush") {
				sig = "mixed-subscription-response-aliases-reused-buffer:process-crash"
			}
			rep.Violate(sig, detail)
		}
	}
	if res == nil {
		return
	}
	keys := make([]string, 0, len(res.Counts))
	for k := range res.Counts {
		keys = append(keys, k)
	}
	sort.Strings(keys)
	for _, k := range keys {
		if !strings.HasPrefix(k, "violation:") {
			rep.Count(k, res.Counts[k])
		}
	}
	for set, ms := range res.Distinct {
		for _, m := range ms {
			rep.Distinct(set, m)
		}
	}
	for _, v := range res.Violations {
		n := res.Counts["violation:"+v.Sig]
		rep.Count("finding:"+v.Sig, 0)
		rep.Violate(v.Sig, map[string]any{"why": v.Why, "detail": v.Detail, "kind": s.Kind, "occurrences_in_batch": n})
	}
	for k, n := range res.Counts {
		if strings.HasPrefix(k, "violation:") {
			rep.Count("finding:"+strings.TrimPrefix(k, "violation:"), n)
		}
	}
	for _, m := range res.Inconclusive {
		rep.Inconclusive(m)
	}
	for _, sm := range res.Samples {
		rep.Sample(sm)
	}
}

func replaySpec(path string) (*batchSpec, error) {
	b, err := os.ReadFile(path)
	if err != nil {
		return nil, err
	}
	var f struct {
		Detail struct {
			Input   *httpInput  `json:"input"` // worker-died replays
			Scripts []*wsScript `json:"scripts_in_flight"`
			Detail  struct {
				Input  *httpInput `json:"input"`
				Script *wsScript  `json:"script"`
			} `json:"detail"`
		} `json:"detail"`
	}
	if err := json.Unmarshal(b, &f); err != nil {
		return nil, err
	}
	switch {
	case f.Detail.Detail.Input != nil:
		return &batchSpec{Kind: "http", Shards: 1, Replay: f.Detail.Detail.Input}, nil
	case f.Detail.Input != nil:
		return &batchSpec{Kind: "http", Shards: 1, Replay: f.Detail.Input}, nil
	case f.Detail.Detail.Script != nil:
		return &batchSpec{Kind: "ws", Shards: 1, ReplayWS: f.Detail.Detail.Script}, nil
	case len(f.Detail.Scripts) > 0:
		return &batchSpec{Kind: "ws", Shards: 1, ReplayWS: f.Detail.Scripts[0]}, nil
	}
	return nil, fmt.Errorf("no input or script in %s", path)
}
