// C18: generation is deterministic and idempotent.
//
// Every project (probe schemas core/tx under several configurations, seeded random schemas with
// many types, projects with a resolver section in both layouts, a federation project) is generated
// 2N times in SEPARATE processes (fresh map seeds), always at the same path (import paths are part
// of the output): N times into a clean tree, each followed by a generation over that fresh output.
// Runs rotate GOMAXPROCS over {1,2,16}, the driver (work/bin/gendrv = api.Generate + stubgen, and
// the real CLI built from the repository, `gqlgen generate`) and, for the CLI, the start directory
// (project root and nested directories: the config is found by walking up). SHA-256 of every file
// in the project tree is compared across all runs; regeneration must change nothing.
package main

import (
	"bytes"
	"crypto/sha256"
	"encoding/hex"
	"encoding/json"
	"fmt"
	"os"
	"os/exec"
	"path/filepath"
	"sort"
	"strings"
	"sync"
	"time"

	"verif/internal/ev"
	"verif/internal/schemagen"
)

type project struct {
	Name  string
	Kind  string            // core | tx | random | resolver-single-file | resolver-follow-schema | federation | models-cyclic | autobind-model-package
	Files map[string]string // pristine inputs, relative path -> content
	Types int
	// SingleFileResolver is the resolver file when the resolver layout is single-file ("" else)
	SingleFileResolver string
	Dirs               []string // nested start directories for the CLI (relative; created by the harness when absent)
}

type runDesc struct {
	Index      int    `json:"index"`
	Driver     string `json:"driver"` // gendrv | cli
	GoMaxProcs int    `json:"gomaxprocs"`
	StartDir   string `json:"start_dir"`
	Tree       string `json:"tree"` // clean | over-previous
	OldMtimes  bool   `json:"mtimes_reset_before_run"`
}

func goEnv(gmp int) []string {
	env := []string{}
	for _, e := range os.Environ() {
		if strings.HasPrefix(e, "GOFLAGS=") || strings.HasPrefix(e, "GOPROXY=") || strings.HasPrefix(e, "GOMAXPROCS=") {
			continue
		}
		env = append(env, e)
	}
	env = append(env, "GOFLAGS=-mod=mod", "GOPROXY=off")
	if gmp > 0 {
		env = append(env, fmt.Sprintf("GOMAXPROCS=%d", gmp))
	}
	return env
}

func run(dir string, timeout time.Duration, env []string, name string, args ...string) (int, string, bool) {
	cmd := exec.Command(name, args...)
	cmd.Dir = dir
	cmd.Env = env
	var out bytes.Buffer
	cmd.Stdout = &out
	cmd.Stderr = &out
	if err := cmd.Start(); err != nil {
		return 127, err.Error(), false
	}
	done := make(chan error, 1)
	go func() { done <- cmd.Wait() }()
	select {
	case err := <-done:
		if err != nil {
			if ee, ok := err.(*exec.ExitError); ok {
				return ee.ExitCode(), out.String(), false
			}
			return 126, out.String() + err.Error(), false
		}
		return 0, out.String(), false
	case <-time.After(timeout):
		cmd.Process.Kill()
		<-done
		return 124, out.String(), true
	}
}

type snapshot struct {
	hash    map[string]string
	content map[string][]byte // kept for the first snapshot of each driver only
}

func snap(dir string, keep bool) snapshot {
	s := snapshot{hash: map[string]string{}}
	if keep {
		s.content = map[string][]byte{}
	}
	filepath.Walk(dir, func(p string, info os.FileInfo, err error) error {
		if err != nil || info.IsDir() {
			return nil
		}
		rel, _ := filepath.Rel(dir, p)
		b, err := os.ReadFile(p)
		if err != nil {
			return nil
		}
		h := sha256.Sum256(b)
		s.hash[filepath.ToSlash(rel)] = hex.EncodeToString(h[:])
		if keep {
			s.content[filepath.ToSlash(rel)] = b
		}
		return nil
	})
	return s
}

func firstDiff(a, b []byte) string {
	la, lb := strings.Split(string(a), "\n"), strings.Split(string(b), "\n")
	for i := 0; i < len(la) || i < len(lb); i++ {
		var x, y string
		if i < len(la) {
			x = la[i]
		}
		if i < len(lb) {
			y = lb[i]
		}
		if x != y {
			lo := i - 2
			if lo < 0 {
				lo = 0
			}
			var sb strings.Builder
			fmt.Fprintf(&sb, "first difference at line %d\n", i+1)
			for j := lo; j < i+4; j++ {
				if j < len(la) {
					fmt.Fprintf(&sb, "  A %5d| %s\n", j+1, la[j])
				}
			}
			for j := lo; j < i+4; j++ {
				if j < len(lb) {
					fmt.Fprintf(&sb, "  B %5d| %s\n", j+1, lb[j])
				}
			}
			return sb.String()
		}
	}
	return "contents differ only in length"
}

func (p *project) restore(dir string) error {
	if err := os.RemoveAll(dir); err != nil {
		return err
	}
	var names []string
	for n := range p.Files {
		names = append(names, n)
	}
	sort.Strings(names)
	for _, n := range names {
		fp := filepath.Join(dir, filepath.FromSlash(n))
		if err := os.MkdirAll(filepath.Dir(fp), 0o755); err != nil {
			return err
		}
		if err := os.WriteFile(fp, []byte(p.Files[n]), 0o644); err != nil {
			return err
		}
	}
	for _, d := range p.Dirs {
		os.MkdirAll(filepath.Join(dir, filepath.FromSlash(d)), 0o755)
	}
	return nil
}

func coreYAML(pkg string, follow, fn bool, wl int, extra string) string {
	var b strings.Builder
	b.WriteString("schema:\n  - \"*.graphql\"\n")
	if follow {
		fmt.Fprintf(&b, "exec:\n  layout: follow-schema\n  dir: .\n  package: %s\n  worker_limit: %d\n", pkg, wl)
	} else {
		fmt.Fprintf(&b, "exec:\n  filename: generated.go\n  package: %s\n  worker_limit: %d\n", pkg, wl)
	}
	fmt.Fprintf(&b, "model:\n  filename: models_gen.go\n  package: %s\n", pkg)
	fmt.Fprintf(&b, "use_function_syntax_for_execution_context: %v\n", fn)
	b.WriteString(extra)
	b.WriteString("skip_mod_tidy: true\nskip_validation: true\n")
	return b.String()
}

func readProbe(root, name string) map[string]string {
	out := map[string]string{}
	ents, _ := os.ReadDir(filepath.Join(root, "probes", name))
	for _, e := range ents {
		if e.IsDir() || strings.HasSuffix(e.Name(), ".tmpl") {
			continue
		}
		b, _ := os.ReadFile(filepath.Join(root, "probes", name, e.Name()))
		out[e.Name()] = string(b)
	}
	return out
}

const fedSchema = `extend schema @link(url: "https://specs.apollo.dev/federation/v2.3", import: ["@key", "@shareable", "@external", "@requires", "@provides"])

type User @key(fields: "id") @key(fields: "email") {
  id: ID!
  email: String!
  name: String @shareable
  posts: [Post!]
}

type Post @key(fields: "id") {
  id: ID!
  author: User!
  title: String
  score: Int @external
  rank: Int @requires(fields: "score")
}

type Comment @key(fields: "id post { id }") {
  id: ID!
  post: Post!
  body: String
}

type Query {
  me: User
  feed(first: Int = 10): [Post!]!
}
`

func projects(root string, seed int64) []*project {
	var ps []*project
	nCore := ev.Pick(2, 6)
	nRandom := ev.Pick(2, 30)
	nRes := ev.Pick(2, 8)
	core := readProbe(root, "core")
	coreCfgs := []struct {
		follow, fn bool
		wl         int
		extra      string
	}{
		{false, false, 0, ""},
		{true, true, 2, "omit_slice_element_pointers: true\nnullable_input_omittable: true\n"},
		{true, false, 8, "struct_fields_always_pointers: false\nresolvers_always_return_pointers: false\n"},
		{false, true, 1, "return_pointers_in_unmarshalinput: true\ncall_argument_directives_with_null: true\n"},
		{true, true, 0, "omit_complexity: true\nomit_getters: true\n"},
		{false, false, 2, "omit_interface_checks: true\nomit_root_models: true\nomit_resolver_fields: true\n"},
	}
	for i := 0; i < nCore && len(core) > 0; i++ {
		c := coreCfgs[(i+int(seed))%len(coreCfgs)]
		name := fmt.Sprintf("core%d", i)
		p := &project{Name: name, Kind: "core", Files: map[string]string{}, Dirs: []string{"nested/deeper"}}
		for k, v := range core {
			p.Files[k] = v
		}
		p.Files["gqlgen.yml"] = coreYAML(name, c.follow, c.fn, c.wl, c.extra)
		ps = append(ps, p)
	}
	if tx := readProbe(root, "tx"); len(tx) > 0 {
		if tmpl, err := os.ReadFile(filepath.Join(root, "probes", "tx", "gqlgen.yml.tmpl")); err == nil {
			p := &project{Name: "tx", Kind: "tx", Files: map[string]string{}, Dirs: []string{"sub"}}
			for k, v := range tx {
				if strings.HasSuffix(k, ".go") {
					v = strings.ReplaceAll(v, "package PKG", "package tx")
				}
				p.Files[k] = v
			}
			p.Files["gqlgen.yml"] = strings.ReplaceAll(string(tmpl), "PKG", "tx")
			ps = append(ps, p)
		}
	}
	// random schemas with many types: more map entries, more possible orders
	mk := func(kind string, idx int, size int, tweak func(c *schemagen.Cfg)) {
		name := fmt.Sprintf("%s%d", map[string]string{"random": "rnd", "resolver-single-file": "rsf", "resolver-follow-schema": "rfs"}[kind], idx)
		sp := schemagen.BuildProject(schemagen.ProjectOpts{Seed: seed, Idx: 1000*len(kind) + idx, Name: name, ImportBase: "verif/work/gen/c18/" + name,
			Size: size, Stress: true, Tweak: tweak})
		p := &project{Name: name, Kind: kind, Files: map[string]string{}, Types: sp.Schema.TypeCount}
		for _, f := range sp.Schema.Files {
			p.Files[f.Name] = f.Text
		}
		if sp.Schema.BoundGo != "" {
			p.Files[sp.Cfg.BoundDir+"/bound.go"] = sp.Schema.BoundGo
		}
		p.Files["gqlgen.yml"] = sp.YAML
		if sp.Cfg.Resolver == "single-file" {
			d := sp.Cfg.ExecDir
			if sp.Cfg.ResolverSub {
				d = filepath.ToSlash(filepath.Join(d, "resolvers"))
			}
			p.SingleFileResolver = filepath.ToSlash(filepath.Join(d, "resolver.go"))
		}
		p.Dirs = []string{"nested/deeper"}
		if sp.Cfg.ExecDir != "" {
			p.Dirs = append(p.Dirs, sp.Cfg.ExecDir)
		}
		if sp.Cfg.SchemaDir != "" {
			p.Dirs = append(p.Dirs, sp.Cfg.SchemaDir)
		}
		ps = append(ps, p)
	}
	for i := 0; i < nRandom; i++ {
		mk("random", i, 24+8*(i%3), nil)
	}
	for i := 0; i < nRes; i++ {
		if i%2 == 0 {
			mk("resolver-single-file", i, 12, func(c *schemagen.Cfg) { c.Resolver = "single-file" })
		} else {
			mk("resolver-follow-schema", i, 12, func(c *schemagen.Cfg) { c.Resolver = "follow-schema" })
		}
	}
	// federation v2
	ps = append(ps, &project{Name: "fed", Kind: "federation", Dirs: []string{"graph", "graph/model"}, Files: map[string]string{
		"schema.graphql": fedSchema,
		"gqlgen.yml": "schema:\n  - \"*.graphql\"\nexec:\n  filename: graph/generated.go\n  package: graph\nfederation:\n  filename: graph/federation.go\n  package: graph\n  version: 2\n" +
			"model:\n  filename: graph/model/models_gen.go\n  package: model\nresolver:\n  layout: follow-schema\n  dir: graph\n  package: graph\nskip_mod_tidy: true\nskip_validation: true\n",
	}})
	// federation with explicit_requires: the populator file is read back (comments, bodies) by the next run
	ps = append(ps, &project{Name: "fedreq", Kind: "federation", Dirs: []string{"graph", "graph/model"}, Files: map[string]string{
		"schema.graphql": fedSchema,
		"gqlgen.yml": "schema:\n  - \"*.graphql\"\nexec:\n  filename: graph/generated.go\n  package: graph\nfederation:\n  filename: graph/federation.go\n  package: graph\n  version: 2\n  options:\n    explicit_requires: true\n" +
			"model:\n  filename: graph/model/models_gen.go\n  package: model\nresolver:\n  layout: follow-schema\n  dir: graph\n  package: graph\nskip_mod_tidy: true\nskip_validation: true\n",
	}})
	// value-typed struct fields with reference cycles of unequal multiplicity: which fields become
	// pointers must not depend on the order the types are visited in
	ps = append(ps, &project{Name: "cyc", Kind: "models-cyclic", Dirs: []string{"graph"}, Files: map[string]string{
		"schema.graphql": `type Author { first: Book! second: Book! third: Book! name: String! }
type Book { author: Author! title: String! shelf: Shelf! }
type Shelf { a: Book! b: Book! owner: Owner! }
type Owner { shelf: Shelf! other: Shelf! author: Author! }
type Zed { a: Alpha! b: Alpha! }
type Alpha { z: Zed! }
type Query { authors: [Author!]! zed: Zed owner: Owner }
`,
		"gqlgen.yml": "schema:\n  - \"*.graphql\"\nexec:\n  filename: graph/generated.go\n  package: graph\n" +
			"model:\n  filename: graph/model/models_gen.go\n  package: model\nstruct_fields_always_pointers: false\nskip_mod_tidy: true\nskip_validation: true\n",
	}})
	// the layout `gqlgen init` suggests: the package holding models_gen.go is also autobound, so a
	// run over previous output sees its predecessor's generated models as candidate user models
	ps = append(ps, &project{Name: "autob", Kind: "autobind-model-package", Dirs: []string{"graph", "graph/model"}, Files: map[string]string{
		"schema.graphql": `type Todo { id: ID! text: String! done: Boolean! status: Status! user: User! }
enum Status { OPEN CLOSED }
type User { id: ID! name: String! }
input NewTodo { text: String! userId: ID! }
type Query { todos: [Todo!]! }
type Mutation { createTodo(input: NewTodo!): Todo! }
`,
		"graph/model/user.go": "package model\n\ntype User struct {\n\tID   string\n\tName string\n}\n",
		"gqlgen.yml": "schema:\n  - \"*.graphql\"\nexec:\n  filename: graph/generated.go\n  package: graph\n" +
			"model:\n  filename: graph/model/models_gen.go\n  package: model\nautobind:\n  - \"verif/work/gen/c18/autob/graph/model\"\nskip_mod_tidy: true\nskip_validation: true\n",
	}})
	// follow-schema exec layout with the federation plugin: the plugin's own sources
	// (federation/directives.graphql, federation/entity.graphql) share their base names with user
	// schema files that declare no object or input type (directives and enums only)
	ps = append(ps, &project{Name: "fedfs", Kind: "federation-follow-schema", Dirs: []string{"graph"}, Files: map[string]string{
		"graph/directives.graphqls": "directive @auth(role: Role!) on FIELD_DEFINITION | OBJECT\ndirective @audit(tag: String) on FIELD_DEFINITION\nenum Role { ADMIN USER }\n",
		"graph/entity.graphqls":     "enum Shade { DARK LIGHT }\nscalar Stamp\n",
		"graph/schema.graphqls": `extend schema @link(url: "https://specs.apollo.dev/federation/v2.3", import: ["@key", "@shareable"])
type User @key(fields: "id") { id: ID! name: String @auth(role: ADMIN) shade: Shade stamp: Stamp @audit(tag: "s") }
type Query { me: User @auth(role: USER) }
`,
		"gqlgen.yml": "schema:\n  - \"graph/*.graphqls\"\nexec:\n  layout: follow-schema\n  dir: graph\n  package: graph\nfederation:\n  filename: graph/federation.go\n  package: graph\n  version: 2\n" +
			"model:\n  filename: graph/model/models_gen.go\n  package: model\nskip_mod_tidy: true\nskip_validation: true\n",
	}})
	// a Go type alias used behind a pointer in a bound model (the ent `*Cursor` shape), next to other
	// references to the same GraphQL type through the real name and through resolvers
	ps = append(ps, &project{Name: "aliasp", Kind: "autobind-pointer-to-alias", Dirs: []string{"graph", "graph/model"}, Files: map[string]string{
		"schema.graphql":     "type Tag { name: String! }\ntype Post { id: ID! tag: Tag main: Tag tags: [Tag] }\ntype Author { id: ID! fav: Tag }\ntype Query { post: Post tag(n: Int): Tag author: Author }\n",
		"graph/model/tag.go": "package model\n\ntype TagRecord struct {\n\tName string\n}\n\ntype Tag = TagRecord\n\ntype Post struct {\n\tID   string\n\tTag  *Tag\n\tMain *TagRecord\n\tTags []*Tag\n}\n\ntype Author struct {\n\tID  string\n\tFav *Tag\n}\n",
		"gqlgen.yml": "schema:\n  - \"*.graphql\"\nexec:\n  filename: graph/generated.go\n  package: graph\n" +
			"model:\n  filename: graph/model/models_gen.go\n  package: model\nautobind:\n  - \"verif/work/gen/c18/aliasp/graph/model\"\nskip_mod_tidy: true\nskip_validation: true\n",
	}})
	// two autobind packages declaring the same Go type: the first listed wins, always
	ps = append(ps, &project{Name: "autob2", Kind: "autobind-two-packages", Dirs: []string{"graph"}, Files: map[string]string{
		"schema.graphql":    "type User { id: ID! name: String! }\ntype Team { id: ID! lead: User }\ntype Query { me: User team: Team }\n",
		"overrides/user.go": "package overrides\n\ntype User struct {\n\tID   string\n\tName string\n}\n\ntype Team struct {\n\tID   string\n\tLead *User\n}\n",
		"store/user.go":     "package store\n\ntype User struct {\n\tID   string\n\tName string\n\tRow  int\n}\n\ntype Team struct {\n\tID   string\n\tLead *User\n\tRow  int\n}\n",
		"extra/user.go":     "package extra\n\ntype User struct {\n\tID   string\n\tName string\n\tX    bool\n}\n",
		"gqlgen.yml": "schema:\n  - \"*.graphql\"\nexec:\n  filename: graph/generated.go\n  package: graph\n" +
			"model:\n  filename: graph/model/models_gen.go\n  package: model\nautobind:\n  - \"verif/work/gen/c18/autob2/overrides\"\n  - \"verif/work/gen/c18/autob2/store\"\n  - \"verif/work/gen/c18/autob2/extra\"\nskip_mod_tidy: true\nskip_validation: true\n",
	}})
	// follow-schema output importing two packages with the same package name from different files
	ps = append(ps, &project{Name: "samepkg", Kind: "same-package-name-imports", Dirs: []string{"graph"}, Files: map[string]string{
		"a.graphql":        "type Alpha { id: ID! }\ntype Query { alpha: Alpha beta: Beta gamma: Gamma }\n",
		"b.graphql":        "type Beta { id: ID! }\n",
		"c.graphql":        "type Gamma { id: ID! a: Alpha b: Beta }\n",
		"one/types/t.go":   "package types\n\ntype Alpha struct{ ID string }\n",
		"two/types/t.go":   "package types\n\ntype Beta struct{ ID string }\n",
		"three/types/t.go": "package types\n\ntype Gamma struct {\n\tID string\n}\n",
		"gqlgen.yml": "schema:\n  - \"*.graphql\"\nexec:\n  layout: follow-schema\n  dir: graph\n  package: graph\n" +
			"model:\n  filename: graph/model/models_gen.go\n  package: model\nmodels:\n  Alpha: {model: verif/work/gen/c18/samepkg/one/types.Alpha}\n  Beta: {model: verif/work/gen/c18/samepkg/two/types.Beta}\n  Gamma: {model: verif/work/gen/c18/samepkg/three/types.Gamma}\nskip_mod_tidy: true\nskip_validation: true\n",
	}})
	// several runtime directives on the same executable locations: the generated middleware switch
	// has one case per directive
	ps = append(ps, &project{Name: "execdirs", Kind: "executable-directives", Dirs: []string{"graph"}, Files: map[string]string{
		"schema.graphql": `directive @alpha(x: Int) on QUERY | MUTATION | SUBSCRIPTION | FIELD
directive @beta on QUERY | MUTATION | FIELD
directive @gamma(s: String) on QUERY | SUBSCRIPTION | FIELD
directive @delta on QUERY | MUTATION | SUBSCRIPTION | FIELD
directive @epsilon on MUTATION | FIELD
directive @zeta on QUERY | FIELD
type Query { a: Int b(x: Int): String }
type Mutation { m: Int }
type Subscription { s: Int }
`,
		"gqlgen.yml": "schema:\n  - \"*.graphql\"\nexec:\n  filename: graph/generated.go\n  package: graph\n" +
			"model:\n  filename: graph/model/models_gen.go\n  package: model\nskip_mod_tidy: true\nskip_validation: true\n",
	}})
	// single-file resolver layout with an unexported root resolver type
	ps = append(ps, &project{Name: "rsflower", Kind: "resolver-single-file", Dirs: []string{"graph"}, SingleFileResolver: "graph/resolver.go", Files: map[string]string{
		"schema.graphql": "type Query { a: Int b(x: Int): String }\ntype Mutation { m: Int }\n",
		"gqlgen.yml": "schema:\n  - \"*.graphql\"\nexec:\n  filename: graph/generated.go\n  package: graph\n" +
			"model:\n  filename: graph/model/models_gen.go\n  package: model\nresolver:\n  layout: single-file\n  filename: graph/resolver.go\n  package: graph\n  type: resolver\nskip_mod_tidy: true\nskip_validation: true\n",
	}})
	// follow-schema resolvers for types whose names the Go-name normaliser rewrites (ApiUser ->
	// APIUser, UserId -> UserID, line_item -> LineItem): the accessor written by the first run must
	// be recognised as already present by the second
	ps = append(ps, &project{Name: "rfsnames", Kind: "resolver-follow-schema", Dirs: []string{"graph"}, Files: map[string]string{
		"schema.graphql": `directive @goField(forceResolver: Boolean, name: String, omittable: Boolean, type: String) on INPUT_FIELD_DEFINITION | FIELD_DEFINITION
type Query { apiUser: ApiUser userId: UserId item: line_item }
type ApiUser { id: ID! name: String @goField(forceResolver: true) }
type UserId { v: Int @goField(forceResolver: true) }
type line_item { sku: String @goField(forceResolver: true) }
`,
		"gqlgen.yml": "schema:\n  - \"*.graphql\"\nexec:\n  filename: graph/generated.go\n  package: graph\n" +
			"model:\n  filename: graph/model/models_gen.go\n  package: model\nresolver:\n  layout: follow-schema\n  dir: graph\n  package: graph\nskip_mod_tidy: true\nskip_validation: true\n" +
			// several named extra fields of one Go type: their order must not depend on map iteration
			"models:\n  ApiUser:\n    extraFields:\n      Session: {type: string}\n      Tenant: {type: string}\n      Region: {type: string}\n      Trace: {type: string}\n      Shard: {type: string}\n",
	}})
	return ps
}

func main() {
	rep := ev.New("C18", "exploration")
	N := ev.Pick(6, 12)
	rep.Rule = "one evaluation = one generator process whose complete output tree (SHA-256 of every file) was compared with the other runs of the same project; distinct_nontrivial = distinct (project, generated file) pairs compared across all 2N runs of that project"
	rep.Assumptions = []string{
		"all runs of a project happen at the same path (generated code embeds import paths), sequentially; projects run in parallel",
		"gendrv runs add stub.go and verif_meta.go (stubgen + harness plugin) which the CLI does not write: the file set is compared per driver, every file that both drivers write is compared across drivers",
		"random projects come from schemagen as general C17 projects (the known-finding classes of C17 are avoided: generation must succeed to be comparable); a project whose generation fails in every run is counted as unavailable, a project failing in only some runs is a violation",
		fmt.Sprintf("map-order sensitivity is probabilistic: a missing sort that swaps two items with probability 1/2 per process is missed by the N=%d clean-tree runs with probability 2^-(N-1) = %.4g, and by all 2N=%d processes with probability 2^-(2N-1) = %.3g", N, 1/float64(int(1)<<(N-1)), 2*N, 1/float64(int64(1)<<(2*N-1))),
		"skip_mod_tidy is always true (go mod tidy would rewrite the harness module)",
	}
	rep.Set("N_clean_runs_per_project", N)
	rep.Set("processes_per_project", 2*N)
	rep.Set("miss_probability_single_swap_N", fmt.Sprintf("2^-%d", N-1))
	rep.Set("miss_probability_single_swap_2N", fmt.Sprintf("2^-%d", 2*N-1))

	root := ev.Root
	seed := ev.Seed()
	genRoot := filepath.Join(root, "work", "gen", "c18")
	os.RemoveAll(genRoot)
	os.MkdirAll(genRoot, 0o755)
	gendrv := filepath.Join(root, "work", "bin", "gendrv")
	if _, err := os.Stat(gendrv); err != nil {
		rep.Inconclusive("work/bin/gendrv missing (the farm tool builds it)")
		os.Exit(rep.Finish(0, 0))
	}
	cli := filepath.Join(root, "work", "bin", "gqlgen-cli")
	os.Remove(cli)
	if code, out, _ := run(ev.Repo, 10*time.Minute, goEnv(0), "go", "build", "-o", cli, "."); code != 0 {
		rep.Inconclusive("cannot build the gqlgen CLI from the repository: " + out)
		os.Exit(rep.Finish(0, 0))
	}

	ps := projects(root, seed)
	if rp := os.Getenv("VERIF_REPLAY"); rp != "" {
		b, err := os.ReadFile(rp)
		var f struct {
			Seed   int64  `json:"seed"`
			Tier   string `json:"tier"`
			Detail struct {
				Project string `json:"project"`
			} `json:"detail"`
		}
		if err != nil || json.Unmarshal(b, &f) != nil {
			fmt.Println("replay: cannot read", rp)
			os.Exit(2)
		}
		var sel []*project
		for _, p := range projects(root, f.Seed) {
			if p.Name == f.Detail.Project {
				sel = append(sel, p)
			}
		}
		ps = sel
	}
	gmps := []int{1, 2, 16}
	var evals int64
	var mu sync.Mutex
	var wg sync.WaitGroup
	sem := make(chan struct{}, 12)
	available := 0
	for pi, p := range ps {
		wg.Add(1)
		go func(pi int, p *project) {
			defer wg.Done()
			sem <- struct{}{}
			defer func() { <-sem }()
			dir := filepath.Join(genRoot, p.Name)
			startDirs := append([]string{"."}, p.Dirs...)
			ref := map[string]snapshot{}   // driver -> first snapshot (with contents)
			refRun := map[string]runDesc{} // driver -> run that produced it
			fileRef := map[string]string{} // path -> hash of the first run that wrote it
			fileRefRun := map[string]runDesc{}
			fileRefBytes := map[string][]byte{}
			failures, successes := 0, 0
			var failOut string
			compared := map[string]int{}
			violate := func(sig string, d map[string]any) {
				if f, _ := d["file"].(string); sig == "regeneration-changed-a-file" && f != "" && f == p.SingleFileResolver {
					// predicate from the configuration: resolver layout single-file, the file is the resolver file
					sig = "regeneration-changed-single-file-resolver"
				}
				d["project"] = p.Name
				d["kind"] = p.Kind
				d["inputs"] = p.Files
				rep.Violate(sig, d)
			}
			check := func(rd runDesc, s snapshot, prev *snapshot) {
				// 1. inputs untouched
				for n, c := range p.Files {
					h := sha256.Sum256([]byte(c))
					if s.hash[n] != hex.EncodeToString(h[:]) {
						// resolver files are not inputs; inputs are schema/config/bound only
						violate("generator-modified-an-input-file", map[string]any{"file": n, "run": rd})
					}
				}
				// 2. same file set per driver, same content for every file across all runs
				if r0, ok := ref[rd.Driver]; !ok {
					ref[rd.Driver] = s
					refRun[rd.Driver] = rd
				} else {
					for n := range r0.hash {
						if _, ok := s.hash[n]; !ok {
							violate("file-set-differs-between-runs", map[string]any{"missing_file": n, "run_a": refRun[rd.Driver], "run_b": rd})
						}
					}
					for n := range s.hash {
						if _, ok := r0.hash[n]; !ok {
							violate("file-set-differs-between-runs", map[string]any{"extra_file": n, "run_a": refRun[rd.Driver], "run_b": rd})
						}
					}
				}
				for n, h := range s.hash {
					if h0, ok := fileRef[n]; !ok {
						fileRef[n] = h
						fileRefRun[n] = rd
						if s.content != nil {
							fileRefBytes[n] = s.content[n]
						}
					} else {
						compared[n]++
						if h0 != h {
							b, _ := os.ReadFile(filepath.Join(dir, filepath.FromSlash(n)))
							sig := "nondeterministic-output"
							if rd.Tree == "over-previous" && prev != nil && prev.hash[n] == h0 {
								sig = "regeneration-changed-a-file"
							} else if fileRefRun[n].Driver == "cli" && rd.Driver == "cli" && fileRefRun[n].StartDir != rd.StartDir && fileRefRun[n].GoMaxProcs == rd.GoMaxProcs {
								sig = "nondeterministic-output"
							}
							violate(sig, map[string]any{"file": n, "run_a": fileRefRun[n], "run_b": rd, "sha256_a": h0, "sha256_b": h,
								"diff": firstDiff(fileRefBytes[n], b)})
						}
					}
				}
				// 3. idempotence against the immediately preceding tree
				if prev != nil {
					for n, h := range prev.hash {
						if s.hash[n] != h {
							b, _ := os.ReadFile(filepath.Join(dir, filepath.FromSlash(n)))
							violate("regeneration-changed-a-file", map[string]any{"file": n, "run": rd, "sha256_before": h, "sha256_after": s.hash[n],
								"diff": firstDiff(fileRefBytes[n], b)})
						}
					}
					for n := range s.hash {
						if _, ok := prev.hash[n]; !ok {
							violate("regeneration-changed-a-file", map[string]any{"new_file": n, "run": rd})
						}
					}
				}
			}
			gen := func(rd runDesc) (bool, string) {
				var code int
				var out string
				var to bool
				if rd.Driver == "gendrv" {
					code, out, to = run(root, 10*time.Minute, goEnv(rd.GoMaxProcs), gendrv, "-dir", dir, "-name", p.Name)
				} else {
					code, out, to = run(filepath.Join(dir, filepath.FromSlash(rd.StartDir)), 10*time.Minute, goEnv(rd.GoMaxProcs), cli, "generate")
				}
				if to {
					rep.Inconclusive(fmt.Sprintf("generator process did not finish within 10 minutes (project %s)", p.Name))
					return false, out
				}
				mu.Lock()
				evals++
				mu.Unlock()
				rep.Count("runs_driver="+rd.Driver, 1)
				rep.Count(fmt.Sprintf("runs_gomaxprocs=%d", rd.GoMaxProcs), 1)
				rep.Count("runs_tree="+rd.Tree, 1)
				if rd.Driver == "cli" {
					depth := 0
					if rd.StartDir != "." {
						depth = 1 + strings.Count(rd.StartDir, "/")
					}
					rep.Count(fmt.Sprintf("cli_runs_start_dir_depth=%d", depth), 1)
					rep.Distinct("cli_start_dirs", p.Name+"/"+rd.StartDir)
				}
				return code == 0, out
			}
			for i := 0; i < N; i++ {
				rd := runDesc{Index: i, GoMaxProcs: gmps[(i+pi)%3], Tree: "clean", StartDir: "."}
				if i%2 == 0 {
					rd.Driver = "gendrv"
				} else {
					rd.Driver = "cli"
					rd.StartDir = startDirs[(i/2)%len(startDirs)]
				}
				if err := p.restore(dir); err != nil {
					rep.Inconclusive("harness: cannot restore project: " + err.Error())
					return
				}
				ok, out := gen(rd)
				if !ok {
					failures++
					failOut = out
					continue
				}
				successes++
				s1 := snap(dir, true)
				rep.Count("files_hashed", int64(len(s1.hash)))
				check(rd, s1, nil)
				// regenerate over the fresh output, in another process, other GOMAXPROCS
				rd2 := rd
				rd2.Tree = "over-previous"
				rd2.GoMaxProcs = gmps[(i+pi+1)%3]
				if rd.Driver == "cli" {
					rd2.StartDir = startDirs[(i/2+1)%len(startDirs)]
				}
				if i%3 == 2 {
					// mtime independence: make every file look old and equally old
					old := time.Date(2001, 2, 3, 4, 5, 6, 0, time.UTC)
					filepath.Walk(dir, func(fp string, info os.FileInfo, err error) error {
						if err == nil {
							os.Chtimes(fp, old, old)
						}
						return nil
					})
					rd2.OldMtimes = true
					rep.Count("runs_with_mtimes_reset", 1)
				}
				ok, out = gen(rd2)
				if !ok {
					failures++
					failOut = out
					violate("regeneration-over-fresh-output-fails", map[string]any{"run": rd2, "output": tail(out, 4000)})
					continue
				}
				successes++
				s2 := snap(dir, false)
				rep.Count("files_hashed", int64(len(s2.hash)))
				check(rd2, s2, &s1)
				if i == N-1 {
					// a third generation: an output that alternates between two forms from run to run
					// (what a run reads back from its predecessor's output) shows up here
					rd3 := rd2
					rd3.Index = N
					ok, out = gen(rd3)
					if !ok {
						failures++
						failOut = out
						violate("regeneration-over-fresh-output-fails", map[string]any{"run": rd3, "output": tail(out, 4000)})
						continue
					}
					successes++
					s3 := snap(dir, false)
					rep.Count("files_hashed", int64(len(s3.hash)))
					rep.Count("third_generation_runs", 1)
					check(rd3, s3, &s2)
				}
			}
			rep.Count("projects_kind="+p.Kind, 1)
			switch {
			case successes == 0:
				rep.Count("projects_unavailable_generation_fails_every_time", 1)
				rep.Set("unavailable_"+p.Name, tail(failOut, 1500))
			case failures > 0:
				violate("generation-outcome-differs-between-runs", map[string]any{"failures": failures, "successes": successes, "output": tail(failOut, 4000)})
			default:
				mu.Lock()
				available++
				mu.Unlock()
			}
			for n, c := range compared {
				if _, isInput := p.Files[n]; !isInput && c >= 1 {
					rep.Distinct("generated_files_compared", p.Name+"/"+n)
					rep.Count("file_comparisons", int64(c))
				}
			}
			if pi < 4 {
				var gf []string
				for n := range compared {
					if _, isInput := p.Files[n]; !isInput {
						gf = append(gf, n)
					}
				}
				sort.Strings(gf)
				rep.Sample(map[string]any{"project": p.Name, "kind": p.Kind, "schema_types": p.Types, "generated_files": gf, "cli_start_dirs": startDirs, "successes": successes})
			}
		}(pi, p)
	}
	wg.Wait()
	rep.Set("projects", len(ps))
	rep.Set("projects_available", available)
	if os.Getenv("C18_KEEP") == "" {
		os.RemoveAll(genRoot)
	}
	if available*2 < len(ps) {
		rep.Inconclusive(fmt.Sprintf("only %d of %d projects could be generated on this tree", available, len(ps)))
	}
	os.Exit(rep.Finish(evals, int64(rep.DistinctLen("generated_files_compared"))))
}

func tail(s string, n int) string {
	if len(s) > n {
		return s[len(s)-n:]
	}
	return s
}
