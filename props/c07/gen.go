package main

// Seeded generator of request histories. A history is built from short PATTERNS whose adjacent
// requests differ in exactly the way that would expose a leak (member present, then absent; same
// text, other operationName / variables; registration, then hash-only; text sharing a long
// prefix; invalid, then valid), encoded on every HTTP transport.

import (
	"bytes"
	"crypto/sha256"
	"encoding/hex"
	"encoding/json"
	"fmt"
	"math/rand"
	"mime/multipart"
	"net/textproto"
	"net/url"
	"strings"
)

// spec is the semantic content of a request before encoding.
type spec struct {
	Query   *string
	OpName  *string
	Vars    any    // nil = member absent; jsonNull = explicit null
	Ext     any    // same
	Headers any    // "headers" member of a JSON body
	XLeak   string // request header X-Leak ("" = absent)
	Accept  string
	note    string
}

type jsonNullT struct{}

func (jsonNullT) MarshalJSON() ([]byte, error) { return []byte("null"), nil }

var jsonNull = jsonNullT{}

func str(s string) *string { return &s }

func sha(s string) string {
	h := sha256.Sum256([]byte(s))
	return hex.EncodeToString(h[:])
}

func pq(hash string, version int) map[string]any {
	return map[string]any{"persistedQuery": map[string]any{"version": version, "sha256Hash": hash}}
}

const (
	docMulti  = `query A { q1 } query B { q2 e: echo(s: "op:") } mutation M { m1 }`
	docVars   = `query V($s: String = "dflt", $n: Int = 2) { echo(s: $s) items(n: $n) { id } v: echo(s: "vars:") }`
	docReq    = `query R($id: ID!) { item(id: $id) { id name slow sub { id } } }`
	docMirror = `query Mi($a: String, $b: Int) { h: echo(s: "hdr:X-Leak") o: echo(s: "op:") v: echo(s: "vars:") x: echo(s: "ext:") r: echo(s: "raw:") a: echo(s: $a) }`
	docFrag   = `query F { item(id: "1") { ...I sub { ...I } } items(n: 2) { ...I ... on Item { slow(ms: 3) } } } fragment I on Item { id name subs(n: 2) { id } }`
	docMerge  = `query G($x: Boolean = false, $y: Boolean = true) { it: item(id: "1") { id } it: item(id: "1") @include(if: $x) { name sub { id } } ... @skip(if: $y) { q2 } ...K @include(if: $x) } fragment K on Query { q3 it: item(id: "1") { slow } }`
	docErr    = `{ fail q1 nn }`
	docSet    = `mutation S($v: String!) { set(v: $v) }`
	longHead  = `query Long($s: String = "dflt", $n: Int = 1) { a: echo(s: $s) items(n: $n) { id name } big(n: 3) mirror: echo(s: "raw:") f1: q1 f2: q2 f3: q3 i2: items(n: 2) { id name sub { id name } } e2: echo(s: "a fairly long literal so that the shared prefix exceeds two hundred and fifty characters") `
)

var simpleDocs = []string{`query A { q1 }`, `query A { q2 }`, `{ q3 }`, `{ q1 }`, `{ q1 } `, `{ q1 } #x`, `query A { q1 q2 }`,
	// introspection walks (and must not write to) the schema every later request is validated against
	// a resolver that panics, under different response keys: the error's path is the request's own
	`{ first: echo(s: "panic:1") q1 }`, `{ q2 second: echo(s: "panic:2") }`, `{ item(id: "x") { id } third: echo(s: "panic:3") }`,
	`{ __type(name: "Query") { fields { name type { kind ofType { kind name } } args { name type { kind ofType { kind name ofType { kind name } } } } } } }`,
	`{ __schema { types { name fields { name type { kind ofType { kind ofType { kind ofType { kind name } } } } } inputFields { name type { kind ofType { kind name } } } } } }`}
var invalidDocs = []string{`{ nope }`, `{ q1`, ``, `query A { q1 } query A { q2 }`, `{ item { id } }`, `query Q($u: Int) { q1 }`, `}`}
var longTails = []string{`tail: q1 }`, `tail: q2 }`, `tail: q3 }`, `tail: q1 } # c`, `tail: nn tail2: q2 }`}

type gen struct {
	r    *rand.Rand
	tag  string // makes APQ texts unique to this history (concurrent clients must not share hashes)
	out  []*request
	regs []string // texts registered so far by construction
}

func (g *gen) pick(xs []string) string { return xs[g.r.Intn(len(xs))] }
func (g *gen) chance(p float64) bool   { return g.r.Float64() < p }

func (g *gen) accept() string {
	return g.pick([]string{"", "", "", "application/json", "application/graphql-response+json", "*/*", "text/html, application/json;q=0.9"})
}

// ---- encoders

func (g *gen) bodyJSON(s spec) string {
	var parts []string
	add := func(k string, v any) {
		b, _ := json.Marshal(v)
		parts = append(parts, fmt.Sprintf("%q:%s", k, b))
	}
	if s.Query != nil {
		add("query", *s.Query)
	}
	if s.OpName != nil {
		add("operationName", *s.OpName)
	}
	if s.Vars != nil {
		add("variables", s.Vars)
	}
	if s.Ext != nil {
		add("extensions", s.Ext)
	}
	if s.Headers != nil {
		add("headers", s.Headers)
	}
	g.r.Shuffle(len(parts), func(i, j int) { parts[i], parts[j] = parts[j], parts[i] })
	return "{" + strings.Join(parts, ",") + "}"
}

func (g *gen) hdr(s spec, ctype string) map[string]string {
	h := map[string]string{}
	if ctype != "" {
		h["Content-Type"] = ctype
	}
	if s.Accept != "" {
		h["Accept"] = s.Accept
	}
	if s.XLeak != "" {
		h["X-Leak"] = s.XLeak
	}
	return h
}

func (g *gen) post(s spec) {
	ct := g.pick([]string{"application/json", "application/json", "application/json; charset=utf-8"})
	g.out = append(g.out, &request{Transport: "post", Method: "POST", URL: "/query", Header: g.hdr(s, ct), Body: g.bodyJSON(s), Note: "post:" + s.note})
}

func (g *gen) postRaw(body, note string) {
	g.out = append(g.out, &request{Transport: "post", Method: "POST", URL: "/query", Header: map[string]string{"Content-Type": "application/json"}, Body: body, Note: "post-raw:" + note})
}

func (g *gen) get(s spec) {
	q := url.Values{}
	if s.Query != nil {
		q.Set("query", *s.Query)
	}
	if s.OpName != nil {
		q.Set("operationName", *s.OpName)
	}
	if s.Vars != nil {
		b, _ := json.Marshal(s.Vars)
		q.Set("variables", string(b))
	}
	if s.Ext != nil {
		b, _ := json.Marshal(s.Ext)
		q.Set("extensions", string(b))
	}
	g.out = append(g.out, &request{Transport: "get", Method: "GET", URL: "/query?" + q.Encode(), Header: g.hdr(s, ""), Note: "get:" + s.note})
}

func (g *gen) form(s spec) {
	ct := "application/x-www-form-urlencoded"
	var body, shape string
	switch g.r.Intn(3) {
	case 0:
		body, shape = g.bodyJSON(s), "json"
	case 1:
		q := ""
		if s.Query != nil {
			q = *s.Query
		}
		body, shape = "query="+url.QueryEscape(q), "encoded"
	default:
		q := ""
		if s.Query != nil {
			q = *s.Query
		}
		body, shape = "query="+q, "plain"
	}
	g.out = append(g.out, &request{Transport: "form", Method: "POST", URL: "/query", Header: g.hdr(s, ct), Body: body, Note: "form-" + shape + ":" + s.note})
}

func (g *gen) graphqlBody(s spec) {
	q := ""
	if s.Query != nil {
		q = *s.Query
	}
	body, shape := q, "raw"
	switch g.r.Intn(3) {
	case 1:
		body, shape = "query="+q, "prefixed"
	case 2:
		body, shape = url.QueryEscape(q), "escaped"
	}
	g.out = append(g.out, &request{Transport: "graphql", Method: "POST", URL: "/query", Header: g.hdr(s, "application/graphql"), Body: body, Note: "graphql-" + shape + ":" + s.note})
}

func (g *gen) multipartReq(ops string, mapping string, files [][2]string, truncate bool, note string) {
	var buf bytes.Buffer
	w := multipart.NewWriter(&buf)
	w.SetBoundary("verifboundary7c07")
	w.WriteField("operations", ops)
	w.WriteField("map", mapping)
	for _, f := range files {
		name, content := f[0], f[1]
		h := textproto.MIMEHeader{}
		h.Set("Content-Disposition", fmt.Sprintf(`form-data; name=%q; filename=%q`, name, "f"+name+".txt"))
		h.Set("Content-Type", "text/plain")
		pw, _ := w.CreatePart(h)
		pw.Write([]byte(content))
	}
	w.Close()
	body := buf.String()
	if truncate {
		body = body[:len(body)*2/3]
	}
	g.out = append(g.out, &request{Transport: "multipart", Method: "POST", URL: "/query",
		Header: map[string]string{"Content-Type": "multipart/form-data; boundary=verifboundary7c07"}, Body: body, Note: "multipart:" + note})
}

// any: encode a spec on a seeded transport (only members the transport can carry survive).
func (g *gen) any(s spec) {
	switch x := g.r.Intn(100); {
	case x < 55:
		g.post(s)
	case x < 75:
		g.get(s)
	case x < 87:
		g.form(s)
	default:
		g.graphqlBody(s)
	}
}

// ---- patterns

func (g *gen) patterns() []func() {
	return []func(){
		// texts that differ only by white space INSIDE a string literal, or by the line break that
		// ends a comment: same after white-space normalisation, different documents
		func() {
			pairs := [][2]string{
				{`{ e: echo(s: "a  b") }`, `{ e: echo(s: "a b") }`},
				{`{ e: echo(s: "x\ty") q1 }`, `{ e: echo(s: "x y") q1 }`},
				{"{ q1 # note\n q2 }", "{ q1 # note q2 }"},
				{"query A { q1 # c\n } query B { q2 }", "query A { q1 # c } query B { q2 }"},
			}
			pr := pairs[g.r.Intn(len(pairs))]
			if g.chance(0.5) {
				pr[0], pr[1] = pr[1], pr[0]
			}
			g.post(spec{Query: str(pr[0]), note: "ws-sensitive-first"})
			g.any(spec{Query: str(pr[1]), note: "ws-sensitive-second"})
			g.post(spec{Query: str(pr[0]), note: "ws-sensitive-first-again"})
		},
		// a body that fails to decode AFTER its query member was read, then requests that omit
		// members (pooled request objects must not keep anything of the refused body)
		func() {
			t := g.pick(simpleDocs) + " # apq-te " + g.tag
			g.post(spec{Query: str(t), Ext: pq(sha(t), 1), note: "apq-register"})
			g.regs = append(g.regs, t)
			leak := "query Leak { q3 q2 } # " + g.tag
			g.postRaw(fmt.Sprintf(`{"query":%q,"operationName":"Leak","variables":"oops"}`, leak), "type-error-after-query")
			switch g.r.Intn(3) {
			case 0:
				g.post(spec{Ext: pq(sha(t), 1), note: "apq-hash-only-after-type-error"})
			case 1:
				g.post(spec{Ext: pq(sha(leak), 1), note: "apq-unregistered-hash-of-refused-text"})
			default:
				g.post(spec{Vars: map[string]any{"s": "q"}, note: "only-variables-after-type-error"})
			}
			g.postRaw(fmt.Sprintf(`{"query":%q,"extensions":7}`, leak), "type-error-in-extensions")
			g.post(spec{note: "empty-object-after-type-error"})
		},
		// operationName present, then absent / other, on one text
		func() {
			names := []string{"A", "B", "M", "B"}
			g.post(spec{Query: str(docMulti), OpName: str(g.pick(names)), note: "multi+name"})
			switch g.r.Intn(3) {
			case 0:
				g.post(spec{Query: str(docMulti), note: "multi-noname"})
			case 1:
				g.post(spec{Query: str(g.pick(simpleDocs)), note: "simple-noname"})
			default:
				g.post(spec{Query: str(docMirror), note: "mirror-noname"})
			}
			g.any(spec{Query: str(docMulti), OpName: str(g.pick([]string{"A", "B", "Zz", ""})), Accept: g.accept(), note: "multi+name-any"})
		},
		// variables present, then absent / disjoint
		func() {
			g.post(spec{Query: str(docVars), Vars: map[string]any{"s": "x" + g.tag, "n": 3}, note: "vars-both"})
			switch g.r.Intn(4) {
			case 0:
				g.post(spec{Query: str(docVars), note: "vars-absent"})
			case 1:
				g.post(spec{Query: str(docVars), Vars: map[string]any{"n": 1}, note: "vars-n-only"})
			case 2:
				g.post(spec{Query: str(docVars), Vars: map[string]any{}, note: "vars-empty"})
			default:
				g.post(spec{Query: str(docMirror), Vars: map[string]any{"b": 5}, note: "mirror-b-only"})
			}
			g.any(spec{Query: str(docVars), Vars: map[string]any{"s": nil}, note: "vars-null-s"})
		},
		// query present, then the member missing
		func() {
			g.post(spec{Query: str(g.pick(simpleDocs)), OpName: nil, note: "simple"})
			switch g.r.Intn(3) {
			case 0:
				g.post(spec{note: "empty-object"})
			case 1:
				g.post(spec{OpName: str("A"), note: "only-operationName"})
			default:
				g.post(spec{Vars: map[string]any{"s": "q"}, note: "only-variables"})
			}
		},
		// extensions present, then absent
		func() {
			t := g.pick(simpleDocs) + " # apq " + g.tag
			g.post(spec{Query: str(t), Ext: pq(sha(t), 1), note: "apq-register"})
			g.regs = append(g.regs, t)
			if g.chance(0.5) {
				g.post(spec{Query: str(docMirror), note: "mirror-noext"})
			} else {
				g.post(spec{Query: str(g.pick(simpleDocs)), note: "simple-noext"})
			}
			g.post(spec{Query: str(docMirror), Ext: map[string]any{"k": g.r.Intn(5)}, note: "mirror-ext-k"})
			g.post(spec{Query: str(docMirror), Ext: map[string]any{}, note: "mirror-ext-empty"})
		},
		// "headers" member in the JSON body and the X-Leak request header
		func() {
			g.post(spec{Query: str(docMirror), Headers: map[string][]string{"X-Leak": {"from-body-" + g.tag}}, note: "mirror+headers-member"})
			g.post(spec{Query: str(docMirror), note: "mirror-plain"})
			g.any(spec{Query: str(docMirror), XLeak: "hdr-" + g.tag, note: "mirror+xleak"})
			g.any(spec{Query: str(docMirror), note: "mirror-plain-any"})
		},
		// automatic persisted queries: register, hash-only, unknown hash, wrong hash, wrong version
		func() {
			t := g.pick([]string{docFrag, docVars, docMulti, "query A { q1 q3 }"}) + " # apq " + g.tag + fmt.Sprint(g.r.Intn(3))
			reg := spec{Query: str(t), Ext: pq(sha(t), 1), note: "apq-register"}
			if strings.HasPrefix(t, docMulti) {
				reg.OpName = str("B")
			}
			if g.chance(0.7) {
				g.post(reg)
			} else {
				g.get(reg)
			}
			g.regs = append(g.regs, t)
			for k := 0; k < 1+g.r.Intn(3); k++ {
				var s spec
				switch g.r.Intn(6) {
				case 0, 1, 2:
					u := g.regs[g.r.Intn(len(g.regs))]
					s = spec{Ext: pq(sha(u), 1), note: "apq-hash-only"}
					if strings.HasPrefix(u, docMulti) {
						s.OpName = str(g.pick([]string{"A", "B"}))
					}
				case 3:
					s = spec{Ext: pq(sha("never registered "+g.tag), 1), note: "apq-unknown-hash"}
				case 4:
					s = spec{Query: str(g.pick(simpleDocs)), Ext: pq(sha("something else"), 1), note: "apq-wrong-hash"}
				default:
					s = spec{Query: str(t), Ext: pq(sha(t), 2), note: "apq-version-2"}
				}
				if g.chance(0.65) {
					g.post(s)
				} else {
					g.get(s)
				}
			}
		},
		// same text, alternating operationName and variables (cached document reuse)
		func() {
			for k := 0; k < 2+g.r.Intn(3); k++ {
				switch g.r.Intn(3) {
				case 0:
					g.any(spec{Query: str(docMulti), OpName: str(g.pick([]string{"A", "B", "M"})), note: "alt-multi"})
				case 1:
					g.any(spec{Query: str(docReq), Vars: map[string]any{"id": g.pick([]string{"7", "8", "x y"})}, note: "alt-req"})
				default:
					g.any(spec{Query: str(docSet), Vars: map[string]any{"v": g.pick([]string{"a", "b"})}, note: "alt-set"})
				}
			}
			g.any(spec{Query: str(docReq), note: "req-missing-var"})
			g.any(spec{Query: str(docReq), Vars: map[string]any{"id": []any{1}}, note: "req-wrong-var"})
		},
		// one cached document, selections switched by variables (merged keys, skip/include)
		func() {
			for k := 0; k < 2+g.r.Intn(3); k++ {
				v := map[string]any{}
				if g.chance(0.7) {
					v["x"] = g.chance(0.5)
				}
				if g.chance(0.5) {
					v["y"] = g.chance(0.5)
				}
				g.any(spec{Query: str(docMerge), Vars: v, note: "merge-by-variables"})
			}
		},
		// texts sharing a long prefix, and texts that are prefixes of each other
		func() {
			for k := 0; k < 2+g.r.Intn(3); k++ {
				g.any(spec{Query: str(longHead + g.pick(longTails)), Vars: map[string]any{"s": g.pick([]string{"p", "q"})}, note: "long-prefix"})
			}
			g.any(spec{Query: str(`{ q1 }`), note: "prefix-a"})
			g.any(spec{Query: str(`{ q1 } #x`), note: "prefix-b"})
			g.any(spec{Query: str(`{ q1 q2 }`), note: "prefix-c"})
		},
		// invalid, then valid (and errors in data)
		func() {
			g.any(spec{Query: str(g.pick(invalidDocs)), note: "invalid"})
			g.any(spec{Query: str(docErr), note: "field-error"})
			g.any(spec{Query: str(docFrag), Accept: g.accept(), note: "fragments"})
			g.any(spec{Query: str(g.pick(invalidDocs)), Accept: g.accept(), note: "invalid"})
			g.any(spec{Query: str(docFrag), note: "fragments"})
		},
		// damaged bodies between two good ones
		func() {
			rich := spec{Query: str(docMulti), OpName: str("B"), Vars: map[string]any{"s": "rich"}, Ext: map[string]any{"e": 1}, note: "rich"}
			g.post(rich)
			b := g.bodyJSON(rich)
			switch g.r.Intn(6) {
			case 0:
				g.postRaw(b[:1+g.r.Intn(len(b)-1)], "truncated")
			case 1:
				g.postRaw(strings.Replace(b, `"`, `'`, 1), "bad-quote")
			case 2:
				g.postRaw(g.pick([]string{`[]`, `"str"`, `123`, `true`, ``}), "not-an-object")
			case 3:
				g.postRaw(`{"query":"{ q1 }","variables":"notamap"}`, "variables-wrong-kind")
			case 4:
				g.postRaw(`{"query":"{ q1 }"} trailing`, "trailing-garbage")
			default:
				g.get(spec{Query: str(docVars), Vars: jsonNull, Ext: jsonNull, note: "get-null-members"})
			}
			g.post(spec{Query: str(docMirror), note: "mirror-after-damage"})
		},
		// mutations over GET (refused), form / graphql shapes
		func() {
			g.get(spec{Query: str(docMulti), OpName: str("M"), note: "get-mutation"})
			g.form(spec{Query: str(g.pick(simpleDocs)), note: "form"})
			g.graphqlBody(spec{Query: str(docFrag), note: "graphql"})
			g.form(spec{Query: str(docMulti), OpName: str("B"), note: "form-multi"})
		},
		// multipart form (uploads)
		func() {
			switch g.r.Intn(4) {
			case 0:
				g.multipartReq(`{"query":"mutation U($file: Upload!) { singleUpload(file: $file) { filename size contentType sha256 } }","variables":{"file":null}}`,
					`{"0":["variables.file"]}`, [][2]string{{"0", "content-" + g.tag}}, false, "single-upload")
			case 1:
				g.multipartReq(`{"query":"mutation U($files: [Upload!]!) { multiUpload(files: $files) { filename size sha256 } }","variables":{"files":[null,null]}}`,
					`{"0":["variables.files.0"],"1":["variables.files.1"]}`, [][2]string{{"0", "aaa"}, {"1", "bbbb" + g.tag}}, false, "multi-upload")
			case 2:
				g.multipartReq(`{"query":"{ q1 }","operationName":"","variables":{}}`, `{}`, nil, false, "no-files")
			default:
				g.multipartReq(`{"query":"mutation U($file: Upload!) { singleUpload(file: $file) { filename } }","variables":{"file":null}}`,
					`{"0":["variables.file"]}`, [][2]string{{"0", strings.Repeat("z", 200)}}, true, "truncated")
			}
			g.post(spec{Query: str(docMirror), note: "mirror-after-multipart"})
		},
	}
}

func (g *gen) wsPattern() {
	payload := func(s spec) string { return g.bodyJSON(s) }
	sess := &wsSession{Subprotocol: g.pick([]string{"graphql-ws", "graphql-transport-ws"})}
	for k := 0; k < 1+g.r.Intn(4); k++ {
		var s spec
		switch g.r.Intn(8) {
		case 0:
			s = spec{Query: str(`subscription { count(n: 3) }`)}
		case 1:
			s = spec{Query: str(docMulti), OpName: str(g.pick([]string{"A", "B", "M", "Zz"}))}
		case 2:
			s = spec{Query: str(docVars), Vars: map[string]any{"s": "ws" + g.tag}}
		case 3:
			s = spec{Query: str(g.pick(invalidDocs))}
		case 4:
			s = spec{Query: str(`subscription { s1 }`)}
		case 5:
			// a payload may carry a "headers" member; it is that operation's business only
			s = spec{Query: str(docMirror), Headers: map[string][]string{"X-Leak": {"ws-body-" + g.tag}}}
		default:
			s = spec{Query: str(docMirror)}
		}
		sess.Ops = append(sess.Ops, wsOp{Payload: payload(s)})
	}
	g.out = append(g.out, &request{Transport: "ws", WS: sess, Note: "ws-session"})
}

// genHistory returns a history of between 2 and maxLen requests.
func genHistory(seed int64, maxLen int, tag string, withWS bool) []*request {
	g := &gen{r: rand.New(rand.NewSource(seed)), tag: tag}
	n := 2 + g.r.Intn(maxLen-1)
	ps := g.patterns()
	for len(g.out) < n {
		if withWS && g.chance(0.12) {
			g.wsPattern()
			continue
		}
		ps[g.r.Intn(len(ps))]()
	}
	if len(g.out) > n {
		g.out = g.out[:n]
	}
	return g.out
}
