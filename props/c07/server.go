package main

// Servers, deterministic resolvers, request execution.

import (
	"bytes"
	"context"
	"crypto/sha256"
	"encoding/hex"
	"encoding/json"
	"fmt"
	"io"
	"net/http"
	"net/http/httptest"
	"reflect"
	"sort"
	"strconv"
	"strings"
	"sync"
	"sync/atomic"

	"github.com/99designs/gqlgen/graphql"
	"github.com/99designs/gqlgen/graphql/handler"
	"github.com/99designs/gqlgen/graphql/handler/extension"
	"github.com/99designs/gqlgen/graphql/handler/lru"
	"github.com/99designs/gqlgen/graphql/handler/transport"
	"github.com/vektah/gqlparser/v2/ast"
	"github.com/vektah/gqlparser/v2/gqlerror"

	tx "verif/work/farm/cur/tx"
)

func sp(s string) *string { return &s }

func canon(v any) string {
	b, err := json.Marshal(v) // encoding/json sorts map keys: canonical for our purposes
	if err != nil {
		return "!" + err.Error()
	}
	return string(b)
}

// newStub: every resolver is a pure function of its arguments and of its OWN request's
// operation context (echo exposes the request members the property says must not leak).
func newStub() *tx.Stub {
	s := &tx.Stub{}
	s.QueryResolver.Q1 = func(ctx context.Context) (string, error) { return "q1", nil }
	s.QueryResolver.Q2 = func(ctx context.Context) (string, error) { return "q2", nil }
	s.QueryResolver.Q3 = func(ctx context.Context) (string, error) { return "q3", nil }
	s.QueryResolver.Echo = func(ctx context.Context, in *string) (*string, error) {
		if in == nil {
			return nil, nil
		}
		oc := graphql.GetOperationContext(ctx)
		switch {
		case strings.HasPrefix(*in, "hdr:"):
			return sp(strings.Join(oc.Headers.Values(strings.TrimPrefix(*in, "hdr:")), "|")), nil
		case *in == "op:":
			return sp(oc.OperationName), nil
		case *in == "vars:":
			return sp(canon(oc.Variables)), nil
		case *in == "ext:":
			return sp(canon(oc.Extensions)), nil
		case *in == "raw:":
			return sp(oc.RawQuery), nil
		case strings.HasPrefix(*in, "panic:"):
			panic("resolver panics on request: " + *in) // deterministic: always, for this argument
		}
		return in, nil
	}
	s.QueryResolver.Slow = func(ctx context.Context, ms int) (*string, error) { return sp("slow:" + strconv.Itoa(ms)), nil }
	s.QueryResolver.Big = func(ctx context.Context, n int) (string, error) {
		if n < 0 || n > 4096 {
			n = 4096
		}
		return strings.Repeat("x", n), nil
	}
	s.QueryResolver.Fail = func(ctx context.Context) (*string, error) { return nil, fmt.Errorf("fail!") }
	s.QueryResolver.Nn = func(ctx context.Context) (string, error) { return "nn", nil }
	item := func(id string) *tx.Item { return &tx.Item{ID: id, Name: "item-" + id} }
	s.QueryResolver.Item = func(ctx context.Context, id string) (*tx.Item, error) { return item(id), nil }
	s.QueryResolver.Items = func(ctx context.Context, n int) ([]*tx.Item, error) {
		if n < 0 || n > 20 {
			n = 20
		}
		out := make([]*tx.Item, n)
		for i := range out {
			out[i] = item("i" + strconv.Itoa(i))
		}
		return out, nil
	}
	s.ItemResolver.Slow = func(ctx context.Context, obj *tx.Item, ms *int) (*string, error) {
		if ms == nil {
			return sp(obj.ID + ":slow"), nil
		}
		return sp(obj.ID + ":slow:" + strconv.Itoa(*ms)), nil
	}
	s.ItemResolver.Sub = func(ctx context.Context, obj *tx.Item) (*tx.Item, error) { return item(obj.ID + ".s"), nil }
	s.ItemResolver.Subs = func(ctx context.Context, obj *tx.Item, n int) ([]*tx.Item, error) {
		if n < 0 || n > 5 {
			n = 5
		}
		out := make([]*tx.Item, n)
		for i := range out {
			out[i] = item(obj.ID + "." + strconv.Itoa(i))
		}
		return out, nil
	}
	s.MutationResolver.M1 = func(ctx context.Context) (string, error) { return "m1", nil }
	s.MutationResolver.M2 = func(ctx context.Context) (string, error) { return "m2", nil }
	s.MutationResolver.M3 = func(ctx context.Context) (string, error) { return "m3", nil }
	s.MutationResolver.Set = func(ctx context.Context, v string) (string, error) { return "set:" + v, nil }
	info := func(u graphql.Upload) *tx.UploadInfo {
		b, _ := io.ReadAll(u.File)
		h := sha256.Sum256(b)
		return &tx.UploadInfo{Filename: u.Filename, Size: len(b), ContentType: u.ContentType, Sha256: hex.EncodeToString(h[:8]), Reread: u.Size == int64(len(b))}
	}
	s.MutationResolver.SingleUpload = func(ctx context.Context, f graphql.Upload) (*tx.UploadInfo, error) { return info(f), nil }
	s.MutationResolver.MultiUpload = func(ctx context.Context, fs []*graphql.Upload) ([]*tx.UploadInfo, error) {
		var out []*tx.UploadInfo
		for _, f := range fs {
			out = append(out, info(*f))
		}
		return out, nil
	}
	s.MutationResolver.NestedUpload = func(ctx context.Context, r tx.UploadReq) ([]*tx.UploadInfo, error) {
		return []*tx.UploadInfo{info(r.File)}, nil
	}
	s.MutationResolver.OptUpload = func(ctx context.Context, f *graphql.Upload, tag *string) (*string, error) {
		if f == nil {
			return tag, nil
		}
		return sp(info(*f).Sha256), nil
	}
	s.SubscriptionResolver.S1 = func(ctx context.Context) (<-chan string, error) {
		ch := make(chan string, 2)
		ch <- "s1-0"
		ch <- "s1-1"
		close(ch)
		return ch, nil
	}
	s.SubscriptionResolver.Count = func(ctx context.Context, n int, delayUs *int) (<-chan int, error) {
		if n < 0 || n > 8 {
			n = 8
		}
		ch := make(chan int, n)
		for i := 0; i < n; i++ {
			ch <- i
		}
		close(ch)
		return ch, nil
	}
	s.SubscriptionResolver.Ctl = func(ctx context.Context, id string) (<-chan *tx.Event, error) {
		ch := make(chan *tx.Event, 1)
		ch <- &tx.Event{Seq: 0, Payload: sp(id)}
		close(ch)
		return ch, nil
	}
	return s
}

// ---------------------------------------------------------------------------------------------

type reqInfo struct {
	id        int64
	transport string
}

type infoKey struct{}

// registration is one observed APQ registration (the permitted memory).
type registration struct {
	Hash, Text string
	By         int64 // request id
}

// apqWatch wraps the APQ cache of a server and records every Add with the request that made it.
type apqWatch struct {
	inner graphql.Cache[string]
	mu    sync.Mutex
	regs  []registration
	hits  atomic.Int64
	miss  atomic.Int64
}

func (a *apqWatch) Get(ctx context.Context, k string) (string, bool) {
	v, ok := a.inner.Get(ctx, k)
	if ok {
		a.hits.Add(1)
	} else {
		a.miss.Add(1)
	}
	return v, ok
}

func (a *apqWatch) Add(ctx context.Context, k, v string) {
	by := int64(-1)
	if ri, ok := ctx.Value(infoKey{}).(*reqInfo); ok {
		by = ri.id
	}
	a.mu.Lock()
	a.regs = append(a.regs, registration{Hash: k, Text: v, By: by})
	a.mu.Unlock()
	a.inner.Add(ctx, k, v)
}

// qcWatch counts query-cache hits and misses.
type qcWatch struct {
	inner      graphql.Cache[*ast.QueryDocument]
	hits, miss atomic.Int64
}

func (q *qcWatch) Get(ctx context.Context, k string) (*ast.QueryDocument, bool) {
	d, ok := q.inner.Get(ctx, k)
	if ok {
		q.hits.Add(1)
	} else {
		q.miss.Add(1)
	}
	return d, ok
}
func (q *qcWatch) Add(ctx context.Context, k string, d *ast.QueryDocument) { q.inner.Add(ctx, k, d) }

// paramSpy is the logging OperationParameterMutator: it records the address of the *RawParams
// each request received, so the evidence can say how many requests got a RECYCLED object.
type paramSpy struct {
	mu     sync.Mutex
	seen   map[uintptr]int64 // address -> request id that had it last
	reused atomic.Int64
	total  atomic.Int64
	posts  atomic.Int64
}

func (p *paramSpy) ExtensionName() string                   { return "verifParamSpy" }
func (p *paramSpy) Validate(graphql.ExecutableSchema) error { return nil }
func (p *paramSpy) MutateOperationParameters(ctx context.Context, rp *graphql.RawParams) *gqlerror.Error {
	ri, _ := ctx.Value(infoKey{}).(*reqInfo)
	if ri == nil {
		return nil
	}
	p.total.Add(1)
	if ri.transport != "post" {
		return nil
	}
	p.posts.Add(1)
	addr := reflect.ValueOf(rp).Pointer()
	p.mu.Lock()
	if prev, ok := p.seen[addr]; ok && prev != ri.id {
		p.reused.Add(1)
	}
	p.seen[addr] = ri.id
	p.mu.Unlock()
	return nil
}

type server struct {
	h       *handler.Server
	apq     *apqWatch
	qc      *qcWatch
	spy     *paramSpy
	recover atomic.Int64
	tsOnce  sync.Once
	ts      *httptest.Server // only when a websocket session is needed
}

// newServer constructs a complete server the way an application would. cache: "none" | "lru".
func newServer(cache string) *server {
	s := &server{spy: &paramSpy{seen: map[uintptr]int64{}}}
	es := tx.NewExecutableSchema(tx.Config{Resolvers: newStub()})
	h := handler.New(es)
	h.AddTransport(transport.Websocket{})
	h.AddTransport(transport.Options{})
	// configured response headers (without a Content-Type), a fresh map per transport and server:
	// nothing of one request may end up in the configuration that later requests are served with
	h.AddTransport(transport.GET{ResponseHeaders: map[string][]string{"X-Verif-Srv": {"get"}}})
	h.AddTransport(transport.POST{ResponseHeaders: map[string][]string{"X-Verif-Srv": {"post"}, "Cache-Control": {"no-store"}}})
	h.AddTransport(transport.UrlEncodedForm{})
	h.AddTransport(transport.GRAPHQL{})
	h.AddTransport(transport.MultipartForm{})
	if cache == "lru" {
		s.qc = &qcWatch{inner: lru.New[*ast.QueryDocument](1000)}
		h.SetQueryCache(s.qc)
	}
	s.apq = &apqWatch{inner: lru.New[string](200)}
	h.Use(s.spy)
	h.Use(extension.Introspection{})
	h.Use(extension.AutomaticPersistedQuery{Cache: s.apq})
	if cache == "lru" {
		h.SetRecoverFunc(func(ctx context.Context, err any) error {
			s.recover.Add(1)
			return fmt.Errorf("internal panic: %v", err)
		})
	} // else: the default recover function
	// an application response middleware that echoes a request header into the response extensions
	h.AroundResponses(func(ctx context.Context, next graphql.ResponseHandler) *graphql.Response {
		resp := next(ctx)
		if resp != nil && graphql.HasOperationContext(ctx) {
			if v := graphql.GetOperationContext(ctx).Headers.Get("X-Leak"); v != "" {
				if resp.Extensions == nil {
					resp.Extensions = map[string]any{}
				}
				resp.Extensions["xleak"] = v
			}
		}
		return resp
	})
	s.h = h
	return s
}

func (s *server) ServeHTTP(w http.ResponseWriter, r *http.Request) { s.h.ServeHTTP(w, r) }

func (s *server) close() {
	if s.ts != nil {
		s.ts.Close()
	}
}

// request is one generated HTTP request (or websocket session) in wire form.
type request struct {
	Transport string            `json:"transport"` // post get form graphql multipart ws
	Method    string            `json:"method,omitempty"`
	URL       string            `json:"url,omitempty"`
	Header    map[string]string `json:"header,omitempty"`
	Body      string            `json:"body,omitempty"`
	Note      string            `json:"note,omitempty"` // how it was built (evidence / replay reading aid)
	WS        *wsSession        `json:"ws,omitempty"`
}

func (r *request) key() string {
	var hs []string
	for k, v := range r.Header {
		hs = append(hs, k+"="+v)
	}
	sort.Strings(hs)
	ws := ""
	if r.WS != nil {
		ws = canon(r.WS)
	}
	h := sha256.Sum256([]byte(r.Transport + "\x00" + r.Method + "\x00" + r.URL + "\x00" + strings.Join(hs, "\x01") + "\x00" + r.Body + "\x00" + ws))
	return hex.EncodeToString(h[:16])
}

type response struct {
	Status int      `json:"status"`
	CType  string   `json:"content_type"`
	Body   string   `json:"body"`
	Frames []string `json:"frames,omitempty"` // websocket: the messages received, in order
}

// do sends one request to a server. The request id travels in the context (not in a header, so
// the wire form of the request is identical on the long-lived and on the fresh server).
func (s *server) do(rq *request, id int64) response {
	if rq.WS != nil {
		return s.doWS(rq.WS)
	}
	r := httptest.NewRequest(rq.Method, rq.URL, bytes.NewReader([]byte(rq.Body)))
	for k, v := range rq.Header {
		r.Header.Set(k, v)
	}
	r = r.WithContext(context.WithValue(r.Context(), infoKey{}, &reqInfo{id: id, transport: rq.Transport}))
	w := httptest.NewRecorder()
	s.ServeHTTP(w, r)
	return response{Status: w.Code, CType: w.Header().Get("Content-Type"), Body: w.Body.String()}
}
